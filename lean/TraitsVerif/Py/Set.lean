/-
Model of the builtin `set` operations that `TraitSet` delegates to
(`super().add`, `super().__ior__`, …; CPython Objects/setobject.c).  A set is a
duplicate-free list (`WF`) compared up to permutation (`Equiv` = same members,
which is what Python's `==` on sets compares); the list order has no meaning.
`pop` returns a member supplied from outside (the harness passes the member
the real `set.pop()` returned).  This is a model of CPython, part of the
trusted base, validated against the real `set` by the `ps` stream of the `set`
correspondence on every run.  Members are compared with a decidable structural
equality (hash/`__eq__` of user values are outside the model).
-/
import TraitsVerif.Py.Basic
namespace TraitsVerif.Py

/-- Duplicate-free list, order irrelevant. -/
abbrev PSet (α : Type) := List α

namespace PSet
variable {α : Type} [DecidableEq α]

/-- Representation invariant. -/
def WF (s : PSet α) : Prop := s.Nodup

instance (s : PSet α) : Decidable (WF s) := inferInstanceAs (Decidable s.Nodup)

/-- Same members (Python's `==` on sets). -/
def Equiv (a b : PSet α) : Prop := ∀ x, x ∈ a ↔ x ∈ b

/-- `s.add(x)`. -/
def insert (s : PSet α) (x : α) : PSet α := if x ∈ s then s else s ++ [x]

/-- `s.discard(x)`. -/
def erase (s : PSet α) (x : α) : PSet α := s.filter (fun y => decide (y ≠ x))

/-- `s | t` / `s.update(t)` for any iterable `t`. -/
def union (s : PSet α) (t : List α) : PSet α := t.foldl insert s

/-- `set(iterable)`. -/
def ofList (t : List α) : PSet α := union [] t

/-- `s & t`. -/
def inter (s : PSet α) (t : List α) : PSet α := s.filter (fun x => decide (x ∈ t))

/-- `s - t`. -/
def diff (s : PSet α) (t : List α) : PSet α := s.filter (fun x => decide (x ∉ t))

/-- `s ^ t` for any iterable `t`. -/
def symm (s : PSet α) (t : List α) : PSet α := diff s t ++ diff (ofList t) s

/-- The mutating operations of the set interface that `TraitSet` overrides.
`isSet` records whether the operand of an in-place operator is a
`set`/`frozenset` (anything else makes the operator return `NotImplemented`,
i.e. raise TypeError). -/
inductive Op (α : Type) where
  | add (x : α)
  | discard (x : α)
  | remove (x : α)
  | pop (hint : Option α)
  | clear
  | update (args : List (List α))
  | differenceUpdate (args : List (List α))
  | intersectionUpdate (args : List (List α))
  | symmetricDifferenceUpdate (xs : List α)
  | ior (isSet : Bool) (xs : List α)
  | iand (isSet : Bool) (xs : List α)
  | isub (isSet : Bool) (xs : List α)
  | ixor (isSet : Bool) (xs : List α)
  deriving Repr, DecidableEq

/-- `pop()`: the harness-supplied member when it is one, else some member. -/
def popChoice (s : PSet α) (hint : Option α) : Option α :=
  match hint with
  | some x => if x ∈ s then some x else s.head?
  | none => s.head?

/-- One builtin-`set` method call (arguments used as given): new members and
the return value (`pop` only). -/
def step (s : PSet α) : Op α → Except Exc (PSet α × Option α)
  | .add x => .ok (insert s x, none)
  | .discard x => .ok (erase s x, none)
  | .remove x => if x ∈ s then .ok (erase s x, none) else .error .keyError
  | .pop hint =>
    match popChoice s hint with
    | none => .error .keyError
    | some x => .ok (erase s x, some x)
  | .clear => .ok ([], none)
  | .update args => .ok (union s args.flatten, none)
  | .differenceUpdate args => .ok (args.foldl diff s, none)
  | .intersectionUpdate args => .ok (args.foldl inter s, none)
  | .symmetricDifferenceUpdate xs => .ok (symm s xs, none)
  | .ior isSet xs => if isSet then .ok (union s xs, none) else .error .typeError
  | .iand isSet xs => if isSet then .ok (inter s xs, none) else .error .typeError
  | .isub isSet xs => if isSet then .ok (diff s xs, none) else .error .typeError
  | .ixor isSet xs => if isSet then .ok (symm s xs, none) else .error .typeError

end PSet
end TraitsVerif.Py
