/-
Model of CPython's slice arithmetic (`PySlice_Unpack` + `PySlice_AdjustIndices`
= `slice.indices(len)`), and of Python's floor modulo.  Part of the trusted
base ("modelled, not verified"), validated against the builtin on every run by
the `seq` correspondence (the `pylist` stream).
-/
import TraitsVerif.Py.Basic
namespace TraitsVerif.Py

/-- Python `a % b` (sign of the divisor). -/
def pymod (a b : Int) : Int := Int.fmod a b

/-- One bound of `slice.indices(len)`: `none` is Python `None`. -/
def adjustStart (len step : Int) : Option Int → Int
  | none => if step < 0 then len - 1 else 0
  | some s =>
    if s < 0 then
      (if s + len < 0 then (if step < 0 then -1 else 0) else s + len)
    else if s ≥ len then (if step < 0 then len - 1 else len)
    else s

def adjustStop (len step : Int) : Option Int → Int
  | none => if step < 0 then -1 else len
  | some s =>
    if s < 0 then
      (if s + len < 0 then (if step < 0 then -1 else 0) else s + len)
    else if s ≥ len then (if step < 0 then len - 1 else len)
    else s

/-- `PySlice_AdjustIndices`'s return value: the number of selected positions. -/
def sliceLen (start stop step : Int) : Nat :=
  if step < 0 then
    (if stop < start then ((start - stop - 1) / (-step) + 1).toNat else 0)
  else
    (if start < stop then ((stop - start - 1) / step + 1).toNat else 0)

/-- The positions `start, start+step, …` (n of them). -/
def positions (start step : Int) : Nat → List Int
  | 0 => []
  | n + 1 => start :: positions (start + step) step n

/-- A Python slice object `slice(start, stop, step)` with `None`s. -/
structure Slice where
  start : Option Int
  stop : Option Int
  step : Option Int
  deriving Repr, DecidableEq

/-- `slice.indices(len)`; `none` when step = 0 (ValueError). -/
def Slice.indices (s : Slice) (len : Nat) : Option (Int × Int × Int) :=
  let step := s.step.getD 1
  if step = 0 then none
  else some (adjustStart len step s.start, adjustStop len step s.stop, step)

end TraitsVerif.Py
