/-
Shared vocabulary (DESIGN §4): exception classes as a small enum, results.
No imports: model files stay core-only so the driver starts fast.
-/
namespace TraitsVerif

/-- Exception classes the correspondence check distinguishes. -/
inductive Exc where
  | traitError | indexError | valueError | keyError | typeError
  | attributeError | overflowError | runtimeError | notifierNotFound
  | adaptationError | other
  deriving DecidableEq, Repr, Inhabited

def Exc.name : Exc → String
  | .traitError => "TraitError"
  | .indexError => "IndexError"
  | .valueError => "ValueError"
  | .keyError => "KeyError"
  | .typeError => "TypeError"
  | .attributeError => "AttributeError"
  | .overflowError => "OverflowError"
  | .runtimeError => "RuntimeError"
  | .notifierNotFound => "NotifierNotFound"
  | .adaptationError => "AdaptationError"
  | .other => "Other"

def Exc.ofName : String → Exc
  | "TraitError" => .traitError
  | "IndexError" => .indexError
  | "ValueError" => .valueError
  | "KeyError" => .keyError
  | "TypeError" => .typeError
  | "AttributeError" => .attributeError
  | "OverflowError" => .overflowError
  | "RuntimeError" => .runtimeError
  | "NotifierNotFound" => .notifierNotFound
  | "AdaptationError" => .adaptationError
  | _ => .other

/-- A user callback: a partial function of the *call ordinal within the
operation* and the argument (DESIGN §4).  Pure validators ignore the ordinal. -/
abbrev Callback (α β : Type) := Nat → α → Except Exc β

/-- Apply a callback to every item, left to right, threading the ordinal from `k`.
Mirrors `[self.item_validator(item) for item in value]`: the first failure
aborts the comprehension. -/
def valAll {α β : Type} (v : Callback α β) : Nat → List α → Except Exc (List β)
  | _, [] => .ok []
  | k, x :: xs =>
    match v k x with
    | .error e => .error e
    | .ok y =>
      match valAll v (k + 1) xs with
      | .error e => .error e
      | .ok ys => .ok (y :: ys)

end TraitsVerif
