/-
Model of the builtin `dict` operations that `TraitDict` delegates to
(`super().__setitem__` etc.; CPython Objects/dictobject.c).  A dict is an
insertion-ordered association list without duplicate keys (`WF`); order matters
(`popitem` removes the most recently inserted key, iteration order is
observable).  This is a model of CPython, part of the trusted base, validated
against the real `dict` by the `pd` stream of the `map` correspondence on every
run.  Keys are compared with a decidable structural equality (hash/`__eq__` of
user keys are outside the model).
-/
import TraitsVerif.Py.Basic
namespace TraitsVerif.Py

/-- Insertion-ordered association list. -/
abbrev Dict (K V : Type) := List (K × V)

namespace Dict
variable {K V : Type} [DecidableEq K]

/-- `d.get(k)` / `d[k]`; `none` = absent (KeyError for `d[k]`). -/
def get? : Dict K V → K → Option V
  | [], _ => none
  | (k', v) :: d, k => if k' = k then some v else get? d k

/-- `k in d`. -/
def contains (d : Dict K V) (k : K) : Bool := (get? d k).isSome

def keys (d : Dict K V) : List K := d.map Prod.fst

/-- No duplicate keys: the representation invariant of a dict. -/
def WF (d : Dict K V) : Prop := (keys d).Nodup

instance (d : Dict K V) : Decidable (WF d) := inferInstanceAs (Decidable (keys d).Nodup)

/-- `d[k] = v`: an existing key keeps its position (and the stored key object);
a new key is appended. -/
def set : Dict K V → K → V → Dict K V
  | [], k, v => [(k, v)]
  | (k', v') :: d, k, v => if k' = k then (k', v) :: d else (k', v') :: set d k v

/-- `del d[k]` (for a present key; a no-op on an absent one). -/
def erase (d : Dict K V) (k : K) : Dict K V := d.filter (fun p => decide (p.1 ≠ k))

/-- `d.update(pairs)`: `d[k] = v` for each pair in order. -/
def update : Dict K V → List (K × V) → Dict K V
  | d, [] => d
  | d, p :: ps => update (set d p.1 p.2) ps

/-- `dict(pairs)`. -/
def ofPairs (ps : List (K × V)) : Dict K V := update [] ps

/-- Same mapping (what Python's `==` on dicts compares). -/
def Equiv (a b : Dict K V) : Prop := ∀ k, get? a k = get? b k

/-- The mutating operations of the dict interface that `TraitDict` overrides. -/
inductive Op (K V : Type) where
  | setitem (k : K) (v : V)
  | delitem (k : K)
  | update (ps : List (K × V))
  | ior (ps : List (K × V))
  | setdefault (k : K) (v : V)
  | pop (k : K)
  | popDefault (k : K) (dflt : V)
  | popitem
  | clear
  deriving Repr, DecidableEq

/-- Return value of an operation. -/
inductive Ret (K V : Type) where
  | none
  | val (v : V)
  | pair (k : K) (v : V)
  | self
  deriving Repr, DecidableEq

/-- One builtin-`dict` method call (arguments used as given). -/
def step (d : Dict K V) : Op K V → Except Exc (Dict K V × Ret K V)
  | .setitem k v => .ok (set d k v, .none)
  | .delitem k =>
    match get? d k with
    | none => .error .keyError
    | some _ => .ok (erase d k, .none)
  | .update ps => .ok (update d ps, .none)
  | .ior ps => .ok (update d ps, .self)
  | .setdefault k v =>
    match get? d k with
    | some x => .ok (d, .val x)
    | none => .ok (set d k v, .val v)
  | .pop k =>
    match get? d k with
    | none => .error .keyError
    | some x => .ok (erase d k, .val x)
  | .popDefault k dflt =>
    match get? d k with
    | none => .ok (d, .val dflt)
    | some x => .ok (erase d k, .val x)
  | .popitem =>
    match d.getLast? with
    | none => .error .keyError
    | some (k, v) => .ok (d.dropLast, .pair k v)
  | .clear => .ok ([], .none)

end Dict

/-- The values the harness uses as keys, values and set members: the int `n`
and the string `str(n)` (so `str 3` is `'3'`, which `int()` coerces to `int 3`). -/
inductive KAtom where
  | int (n : Int)
  | str (n : Int)
  deriving DecidableEq, Repr

def KAtom.val : KAtom → Int
  | .int n => n
  | .str n => n

/-- Canonical order for printing things that came out of a set / event dict:
ints before strings, then by number. -/
def KAtom.le : KAtom → KAtom → Bool
  | .int a, .int b => a ≤ b
  | .int _, .str _ => true
  | .str _, .int _ => false
  | .str a, .str b => a ≤ b

/-- The validators the harness uses (Python twins in `harness/props/maplib.py`
`Validator.pure`); `none` = unknown spec. -/
def KAtom.validator (spec : String) : Option (Callback KAtom KAtom) :=
  match spec.splitOn ":" with
  | ["id"] => some (fun _ x => .ok x)
  | ["toint"] => some (fun _ x => .ok (.int x.val))                 -- int(x)
  | ["tostr"] => some (fun _ x => .ok (.str x.val))                 -- str(x)
  | ["intonly"] => some (fun _ x => match x with | .int _ => .ok x | .str _ => .error .traitError)
  | ["rejneg"] => some (fun _ x => if x.val < 0 then .error .traitError else .ok x)
  | ["range05"] => some (fun _ x => match x with                     -- Range(0, 5): an int in 0..5
      | .int n => if 0 ≤ n ∧ n ≤ 5 then .ok x else .error .traitError
      | .str _ => .error .traitError)
  | ["mod5"] => some (fun _ x => .ok (.int (x.val % 5)))            -- int(x) % 5 (Python floor mod)
  | ["inc"] => some (fun _ x => .ok (.int (x.val + 1)))             -- int(x) + 1, not idempotent
  | ["failk", k, e] =>
    match k.toNat? with
    | some k => some (fun n x => if n = k then .error (Exc.ofName e) else .ok x)
    | none => none
  | _ => none

/-- `str(x)` as a validator (used by the F13 witness). -/
def KAtom.strV : Callback KAtom KAtom := fun _ x => .ok (.str x.val)
/-- `int(x)` as a validator. -/
def KAtom.intV : Callback KAtom KAtom := fun _ x => .ok (.int x.val)
/-- `int(x) + 1`: a validator that is not idempotent (used by the F25 witness). -/
def KAtom.incV : Callback KAtom KAtom := fun _ x => .ok (.int (x.val + 1))

/-- Decidable equality of results (core has none for `Except`); used by the
`decide`d negation witnesses. -/
instance Dict.decEqExcept {ε α : Type} [DecidableEq ε] [DecidableEq α] : DecidableEq (Except ε α)
  | .ok a, .ok b => if h : a = b then isTrue (by rw [h]) else isFalse (by intro h'; cases h'; exact h rfl)
  | .error a, .error b => if h : a = b then isTrue (by rw [h]) else isFalse (by intro h'; cases h'; exact h rfl)
  | .ok _, .error _ => isFalse (by intro h; cases h)
  | .error _, .ok _ => isFalse (by intro h; cases h)

end TraitsVerif.Py
