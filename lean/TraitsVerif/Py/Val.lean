/-
Py.Val — the value lattice of DESIGN §4 used by the `val` cluster (C01, C03),
and the pieces of CPython the validators lean on: IEEE order on a float grid,
`isinstance` against builtin / user classes, `==`, hashing, `PyNumber_Index`,
`PyFloat_AsDouble`, `PyComplex_AsCComplex`, int → double rounding.

Everything here is a *model of CPython / numpy*, not of traits: it is part of the
trusted base and is itself correspondence-checked (case kind `p` of
Driver/Val.lean runs these functions against `operator.index`, `float`,
`complex`, `==`, `hash`, `isinstance`, `callable` on the whole lattice).
-/
import TraitsVerif.Py.Basic
namespace TraitsVerif.Py.Value
open TraitsVerif

/-! ## Floats on a grid -/

/-- A Python float.  Finite values live on the grid `q / 4` (every grid point the
harness uses is exactly representable); order = `Int` order; `nan` compares
false with everything, `negZero == fin 0`. -/
inductive F where
  | nan | ninf | pinf | negZero
  | fin (q : Int)
  deriving DecidableEq, Repr, Inhabited

namespace F
/-- Position on the extended real line (`none` for nan). -/
def key : F → Option (Int × Int)
  | nan => none
  | ninf => some (-1, 0)
  | pinf => some (1, 0)
  | negZero => some (0, 0)
  | fin q => some (0, q)

/-- IEEE `<` (false when either side is nan). -/
def lt (a b : F) : Bool :=
  match a.key, b.key with
  | some x, some y => decide (x.1 < y.1) || (decide (x.1 = y.1) && decide (x.2 < y.2))
  | _, _ => false

/-- IEEE `<=`. -/
def le (a b : F) : Bool :=
  match a.key, b.key with
  | some x, some y => decide (x.1 < y.1) || (decide (x.1 = y.1) && decide (x.2 ≤ y.2))
  | _, _ => false

def gt (a b : F) : Bool := lt b a
def ge (a b : F) : Bool := le b a

/-- IEEE `==`. -/
def eq (a b : F) : Bool :=
  match a.key, b.key with
  | some x, some y => decide (x = y)
  | _, _ => false

def isNan : F → Bool
  | nan => true
  | _ => false

def isZero : F → Bool
  | negZero => true
  | fin 0 => true
  | _ => false
end F

/-- `float(n)` for a Python int: exact below 2^53, otherwise round-half-even to
53 significant bits (`_PyLong_Frexp`), `OverflowError` when the rounded value
does not fit a double (`PyLong_AsDouble`). -/
def intToFloat (n : Int) : Except Exc F :=
  let a := n.natAbs
  if a < 2 ^ 53 then .ok (.fin (4 * n))
  else
    let sh := a.log2 + 1 - 53
    let q := a / 2 ^ sh
    let r := a % 2 ^ sh
    let half := 2 ^ (sh - 1)
    let q' := if r > half ∨ (r = half ∧ q % 2 = 1) then q + 1 else q
    let m := q' * 2 ^ sh
    if m ≥ 2 ^ 1024 then .error .overflowError
    else .ok (.fin (4 * (if n < 0 then -(m : Int) else (m : Int))))

/-! ## Types and values -/

/-- Type objects that occur in descriptors (`fast_validate` tuples). -/
inductive Ty where
  | str | int | float | complex | bool | bytes | list | tuple | dict
  | function | method | type | noneType | module | npBool | object
  | user (cid : Nat)
  deriving DecidableEq, Repr, Inhabited

/-- What a special method does when called: returns a value or raises. -/
inductive PR (α : Type) where
  | ret (x : α)
  | raises (e : Exc)
  deriving DecidableEq, Repr, Inhabited

/-- Non-container values.  `sub = true` marks an instance of a (pure Python)
subclass of the builtin type; numpy scalars carry their bit width (`npFloat 64`
is a `float` subclass, `npComplex 128` a `complex` subclass, as in numpy). -/
inductive Atom where
  | none
  | bool (b : Bool)
  | int (sub : Bool) (n : Int)
  | float (sub : Bool) (f : F)
  | complex (sub : Bool) (re im : F)
  | str (sub : Bool) (s : String)
  | bytes (s : String)
  | npBool (b : Bool)
  | npInt (bits : Nat) (n : Int)
  | npFloat (bits : Nat) (f : F)
  | npComplex (bits : Nat) (re im : F)
  | npArr (id : Nat)                       -- an ndarray with ≥ 2 elements: unhashable, `==` has no truth value
  | ndarray (dtype : Nat) (shape : List Nat) -- an ndarray known by dtype code and shape (size ≠ 1), same behaviour
  | idx (r : PR Int)                       -- object whose type defines only `__index__`
  | flt (r : PR F)                         -- … only `__float__`
  | cpx (r : PR (F × F))                   -- … only `__complex__`
  | idxflt (i : PR Int) (f : PR F)         -- … both `__index__` and `__float__`
  | inst (cid : Nat) (mro : List Nat) (adapts : List Nat) (oid : Nat)  -- instance of user class `cid`
  | cls (cid : Nat) (mro : List Nat)       -- a user class object
  | tyobj (t : Ty)                         -- a builtin type object (`int`, `str`, …)
  | func (id : Nat)                        -- a Python function
  | method (id : Nat)                      -- a bound method
  | builtinFn (id : Nat)                   -- e.g. `len`: callable, not a FunctionType
  | module (id : Nat)
  | obj (id : Nat)                         -- plain object: identity equality, hashable, not callable
  | badEq (id : Nat)                       -- `__eq__` raises ValueError, `__hash__ = None`
  | dict (id : Nat)                        -- some dict (unhashable)
  deriving DecidableEq, Repr, Inhabited

/-- Python values: atoms, tuples (`sub` = instance of a tuple subclass such as a
namedtuple) and lists. -/
inductive Val where
  | atom (a : Atom)
  | tuple (sub : Bool) (vs : List Val)
  | list (vs : List Val)
  deriving Repr, Inhabited

namespace Val

mutual
/-- Structural equality (exact type tag and payload). -/
def beq : Val → Val → Bool
  | .atom a, .atom b => a == b
  | .tuple s vs, .tuple t ws => s == t && beqL vs ws
  | .list vs, .list ws => beqL vs ws
  | _, _ => false
def beqL : List Val → List Val → Bool
  | [], [] => true
  | v :: vs, w :: ws => v.beq w && beqL vs ws
  | _, _ => false
end

mutual
theorem beq_eq : ∀ (a b : Val), a.beq b = true → a = b
  | .atom a, .atom b, h => by simp [beq] at h; simp [h]
  | .tuple s vs, .tuple t ws, h => by
    simp [beq] at h; have := beqL_eq vs ws h.2; simp [h.1, this]
  | .list vs, .list ws, h => by simp [beq] at h; have := beqL_eq vs ws h; simp [this]
  | .atom _, .tuple _ _, h | .atom _, .list _, h | .tuple _ _, .atom _, h
  | .tuple _ _, .list _, h | .list _, .atom _, h | .list _, .tuple _ _, h => by simp [beq] at h
theorem beqL_eq : ∀ (as bs : List Val), beqL as bs = true → as = bs
  | [], [], _ => rfl
  | a :: as, b :: bs, h => by
    simp [beqL] at h; have h1 := beq_eq a b h.1; have h2 := beqL_eq as bs h.2; simp [h1, h2]
  | [], _ :: _, h | _ :: _, [], h => by simp [beqL] at h
end

mutual
theorem beq_refl : ∀ (a : Val), a.beq a = true
  | .atom a => by simp [beq]
  | .tuple s vs => by simp [beq, beqL_refl vs]
  | .list vs => by simp [beq, beqL_refl vs]
theorem beqL_refl : ∀ (as : List Val), beqL as as = true
  | [] => rfl
  | a :: as => by simp [beqL, beq_refl a, beqL_refl as]
end

instance : DecidableEq Val := fun a b =>
  if h : a.beq b = true then isTrue (beq_eq a b h)
  else isFalse (fun e => h (e ▸ beq_refl a))

theorem beqL_iff (as bs : List Val) : beqL as bs = true ↔ as = bs :=
  ⟨beqL_eq as bs, fun h => h ▸ beqL_refl as⟩

abbrev none : Val := .atom .none
abbrev ofInt (n : Int) : Val := .atom (.int false n)
abbrev ofFloat (f : F) : Val := .atom (.float false f)
abbrev ofComplex (re im : F) : Val := .atom (.complex false re im)
abbrev ofBool (b : Bool) : Val := .atom (.bool b)
abbrev ofStr (s : String) : Val := .atom (.str false s)

def isNone : Val → Bool
  | .atom .none => true
  | _ => false

/-- `isinstance(v, T)` / `PyObject_TypeCheck(v, T)` (no `__instancecheck__`
overrides in the lattice, so the two coincide). -/
def isInst (t : Ty) : Val → Bool
  | .atom a =>
    match t, a with
    | .object, _ => true
    | .noneType, .none => true
    | .bool, .bool _ => true
    | .int, .bool _ => true
    | .int, .int _ _ => true
    | .float, .float _ _ => true
    | .float, .npFloat bits _ => bits == 64
    | .complex, .complex _ _ _ => true
    | .complex, .npComplex bits _ _ => bits == 128
    | .str, .str _ _ => true
    | .bytes, .bytes _ => true
    | .npBool, .npBool _ => true
    | .dict, .dict _ => true
    | .function, .func _ => true
    | .method, .method _ => true
    | .module, .module _ => true
    | .type, .cls _ _ => true
    | .type, .tyobj _ => true
    | .user c, .inst _ mro _ _ => mro.contains c
    | _, _ => false
  | .tuple _ _ => t == .tuple || t == .object
  | .list _ => t == .list || t == .object

/-- `type(v) is T` for a builtin `T` (`Py_TYPE(value) == type`). -/
def exactTy (t : Ty) : Val → Bool
  | .atom a =>
    match t, a with
    | .noneType, .none => true
    | .bool, .bool _ => true
    | .int, .int false _ => true
    | .float, .float false _ => true
    | .complex, .complex false _ _ => true
    | .str, .str false _ => true
    | .bytes, .bytes _ => true
    | .npBool, .npBool _ => true
    | .dict, .dict _ => true
    | .function, .func _ => true
    | .method, .method _ => true
    | .module, .module _ => true
    | .type, .cls _ mro => !mro.contains 0               -- class 0 is a HasTraits class: its metaclass is a subclass of `type`
    | .type, .tyobj _ => true
    | .user c, .inst c' _ _ _ => c == c'
    | _, _ => false
  | .tuple sub _ => t == .tuple && !sub
  | .list _ => t == .list

/-- `callable(v)`. -/
def callable : Val → Bool
  | .atom (.cls _ _) | .atom (.tyobj _) | .atom (.func _) | .atom (.method _) | .atom (.builtinFn _) => true
  | _ => false

mutual
/-- `hash(v)` succeeds. -/
def hashable : Val → Bool
  | .atom (.npArr _) | .atom (.ndarray _ _) | .atom (.badEq _) | .atom (.dict _) => false
  | .atom _ => true
  | .tuple _ vs => hashableL vs
  | .list _ => false
def hashableL : List Val → Bool
  | [] => true
  | v :: vs => v.hashable && hashableL vs
end

end Val

/-! ## Numeric view, `==` -/

/-- Real and imaginary part of a value that takes part in numeric `==`. -/
def Atom.num : Atom → Option (F × F)
  | .bool b => some (.fin (if b then 4 else 0), .fin 0)
  | .int _ n => some (.fin (4 * n), .fin 0)
  | .float _ f => some (f, .fin 0)
  | .complex _ re im => some (re, im)
  | .npBool b => some (.fin (if b then 4 else 0), .fin 0)
  | .npInt _ n => some (.fin (4 * n), .fin 0)
  | .npFloat _ f => some (f, .fin 0)
  | .npComplex _ re im => some (re, im)
  | _ => Option.none

/-- Three-valued outcome of `a == b` followed by `bool(...)`. -/
inductive Tri where
  | yes | no
  | raises (e : Exc)
  deriving DecidableEq, Repr, Inhabited

/-- numpy scalar. -/
def Atom.isNp : Atom → Bool
  | .npBool _ | .npInt _ _ | .npFloat _ _ | .npComplex _ _ _ => true
  | _ => false

/-- Integer payload of Python ints / bools and numpy ints (numpy compares those exactly). -/
def Atom.exactInt : Atom → Option Int
  | .bool b => some (if b then 1 else 0)
  | .int _ n => some n
  | .npInt _ n => some n
  | _ => Option.none

/-- numpy's view of a number: converted to (complex) double; a Python int that
does not fit raises OverflowError. -/
def Atom.asNpDouble : Atom → Option (Except Exc (F × F))
  | .bool b => some (.ok (.fin (if b then 4 else 0), .fin 0))
  | .int _ n => some ((intToFloat n).map fun f => (f, .fin 0))
  | .npInt _ n => some ((intToFloat n).map fun f => (f, .fin 0))
  | .npBool b => some (.ok (.fin (if b then 4 else 0), .fin 0))
  | .float _ f => some (.ok (f, .fin 0))
  | .npFloat _ f => some (.ok (f, .fin 0))
  | .complex _ re im => some (.ok (re, im))
  | .npComplex _ re im => some (.ok (re, im))
  | _ => Option.none

/-- `np.bool_ == n` for a Python int outside the int64 range. -/
def Atom.npBoolVsBigInt : Atom → Atom → Bool
  | .npBool _, .int _ n => decide (n < -(2 ^ 63)) || decide (n ≥ 2 ^ 63)
  | _, _ => false

/-- An ndarray of dtype code `d` (0 bool, 1 int32, 2 int64, 3 float32, 4 float64)
against a Python int that the conversion to the array's kind overflows on. -/
def Atom.ndVsBigInt (d : Nat) : Atom → Bool
  | .int _ n =>
    if d == 3 || d == 4 then (match intToFloat n with | .error _ => true | .ok _ => false)
    else if d == 0 then decide (n < -(2 ^ 63)) || decide (n ≥ 2 ^ 63)
    else false
  | _ => false

/-- `==` on atoms.  Pure Python numbers compare exactly (int against float
too, as CPython does); as soon as a numpy scalar is involved numpy's `__eq__`
decides: integers among themselves exactly, everything else after conversion
to double. -/
def Atom.pyEq (a b : Atom) : Tri :=
  match a, b with
  | .npArr _, _ | _, .npArr _ => .raises .valueError
  | .ndarray d _, b | b, .ndarray d _ => if Atom.ndVsBigInt d b then .raises .overflowError else .raises .valueError
  | .badEq _, _ | _, .badEq _ => .raises .valueError
  | _, _ =>
    if a.isNp || b.isNp then
      match a.exactInt, b.exactInt with
      | some m, some n => if m = n then .yes else .no
      | _, _ =>
        -- np.bool_ against a Python int: the int is converted to int64 first
        if a.npBoolVsBigInt b || b.npBoolVsBigInt a then .raises .overflowError else
        match a.asNpDouble, b.asNpDouble with
        | some (.error e), some _ => .raises e
        | some _, some (.error e) => .raises e
        | some (.ok (x, xi)), some (.ok (y, yi)) => if F.eq x y && F.eq xi yi then .yes else .no
        | _, _ => .no
    else
    match a.num, b.num with
    | some (x, xi), some (y, yi) => if F.eq x y && F.eq xi yi then .yes else .no
    | some _, Option.none | Option.none, some _ => .no
    | Option.none, Option.none =>
      match a, b with
      | .none, .none => .yes
      | .str _ s, .str _ t => if s = t then .yes else .no
      | .bytes s, .bytes t => if s = t then .yes else .no
      | .inst _ _ _ i, .inst _ _ _ j => if i = j then .yes else .no
      | .cls c _, .cls d _ => if c = d then .yes else .no
      | .tyobj s, .tyobj t => if s = t then .yes else .no
      | .func i, .func j => if i = j then .yes else .no
      | .method i, .method j => if i = j then .yes else .no
      | .builtinFn i, .builtinFn j => if i = j then .yes else .no
      | .module i, .module j => if i = j then .yes else .no
      | .obj i, .obj j => if i = j then .yes else .no
      | .dict i, .dict j => if i = j then .yes else .no
      -- protocol objects compare by identity; the same term denotes the same object
      | .idx _, .idx _ | .flt _, .flt _ | .cpx _, .cpx _ | .idxflt _ _, .idxflt _ _ => if a = b then .yes else .no
      | _, _ => .no

/-- A numpy scalar against a sequence broadcasts: exactly one (scalar) element
→ that comparison, otherwise the result array has no truth value. -/
def npSeq (a : Atom) : List Val → Tri
  | [.atom w] => a.pyEq w
  | _ => .raises .valueError

mutual
/-- `bool(a == b)`: tuples and lists compare element-wise (first difference
decides, an exception from an element comparison propagates). -/
def Val.pyEq : Val → Val → Tri
  | .atom a, .atom b => a.pyEq b
  | .tuple _ vs, .tuple _ ws => Val.pyEqL vs ws
  | .list vs, .list ws => Val.pyEqL vs ws
  | .atom (.npArr _), _ | _, .atom (.npArr _) => .raises .valueError
  | .atom (.ndarray _ _), _ | _, .atom (.ndarray _ _) => .raises .valueError
  | .atom (.badEq _), _ | _, .atom (.badEq _) => .raises .valueError
  | .atom a, .tuple _ ws => if a.isNp then npSeq a ws else .no
  | .atom a, .list ws => if a.isNp then npSeq a ws else .no
  | .tuple _ vs, .atom b => if b.isNp then npSeq b vs else .no
  | .list vs, .atom b => if b.isNp then npSeq b vs else .no
  | _, _ => .no
def Val.pyEqL : List Val → List Val → Tri
  | [], [] => .yes
  | v :: vs, w :: ws =>
    match Val.pyEq v w with
    | .yes => Val.pyEqL vs ws
    | r => r
  | _, _ => .no
end

/-- `PySequence_Contains(seq, v)`: first member equal to `v`; an exception
raised by a comparison propagates. -/
def seqContains : List Val → Val → Tri
  | [], _ => .no
  | m :: ms, v =>
    match Val.pyEq m v with
    | .yes => .yes
    | .no => seqContains ms v
    | .raises e => .raises e

/-- `v in d` / `PyDict_GetItemWithError(d, v)` for a dict with the given keys:
`TypeError` for an unhashable `v`, otherwise the first equal key (hash and `==`
are consistent on the lattice; unhashable values never reach a comparison). -/
def dictFind (keys : List Val) (v : Val) : Except Exc (Option Nat) :=
  if !v.hashable then .error .typeError
  else .ok (keys.findIdx? (fun k => Val.pyEq k v == .yes))

/-! ## The numeric protocol -/

/-- `PyNumber_Index(v)` / `operator.index(v)`: the integer value, or the
exception raised.  (`__index__` of numpy bools was removed; floats have none.) -/
def index : Val → Except Exc Int
  | .atom (.bool b) => .ok (if b then 1 else 0)
  | .atom (.int _ n) => .ok n
  | .atom (.npInt _ n) => .ok n
  | .atom (.idx (.ret n)) => .ok n
  | .atom (.idx (.raises e)) => .error e
  | .atom (.idxflt (.ret n) _) => .ok n
  | .atom (.idxflt (.raises e) _) => .error e
  | _ => .error .typeError

/-- `PyFloat_AsDouble(v)` (also `float(v)` for non-strings): float instances,
then `__float__`, then `__index__` (Python ≥ 3.8), else `TypeError`. -/
def asDouble : Val → Except Exc F
  | .atom (.float _ f) => .ok f
  | .atom (.npFloat _ f) => .ok f
  | .atom (.bool b) => .ok (.fin (if b then 4 else 0))
  | .atom (.int _ n) => intToFloat n
  | .atom (.npBool b) => .ok (.fin (if b then 4 else 0))
  | .atom (.npInt _ n) => intToFloat n
  | .atom (.npComplex _ re _) => .ok re          -- numpy: discards the imaginary part (ComplexWarning)
  | .atom (.flt (.ret f)) => .ok f
  | .atom (.flt (.raises e)) => .error e
  | .atom (.idxflt _ (.ret f)) => .ok f
  | .atom (.idxflt _ (.raises e)) => .error e
  | .atom (.idx (.ret n)) => intToFloat n
  | .atom (.idx (.raises e)) => .error e
  | _ => .error .typeError

/-- `PyComplex_AsCComplex(v)`: complex instances, `__complex__`, then as
`PyFloat_AsDouble`. -/
def asComplex : Val → Except Exc (F × F)
  | .atom (.complex _ re im) => .ok (re, im)
  | .atom (.npComplex _ re im) => .ok (re, im)
  | .atom (.cpx (.ret z)) => .ok z
  | .atom (.cpx (.raises e)) => .error e
  | v =>
    match asDouble v with
    | .ok f => .ok (f, .fin 0)
    | .error e => .error e

end TraitsVerif.Py.Value
