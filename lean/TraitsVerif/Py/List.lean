/-
Model of the builtin `list` operations that `TraitList` delegates to
(`super().__setitem__` etc.).  This is a model of CPython (Objects/listobject.c),
part of the trusted base, validated against the real `list` by the `pylist`
stream of the `seq` correspondence on every run.
-/
import TraitsVerif.Py.Slice
namespace TraitsVerif.Py
variable {α : Type}

/-- Normalise an integer subscript; `none` = IndexError. -/
def normIdx (len : Nat) (i : Int) : Option Nat :=
  let j := if i < 0 then i + len else i
  if 0 ≤ j ∧ j < len then some j.toNat else none

/-- The items at the given (in-range) positions, in the order given. -/
def getPositions (l : List α) (ps : List Int) : List α :=
  ps.filterMap (fun p => if p < 0 then none else l[p.toNat]?)

/-- Assign `vs` to positions `ps` pairwise (extended-slice assignment loop). -/
def setPositions (l : List α) : List Int → List α → List α
  | p :: ps, v :: vs => setPositions (l.set p.toNat v) ps vs
  | _, _ => l

/-- Delete the items whose index (counted from `i`) is among `ps`. -/
def delPositionsAux (ps : List Int) : Nat → List α → List α
  | _, [] => []
  | i, x :: xs =>
    if ps.contains (i : Int) then delPositionsAux ps (i + 1) xs
    else x :: delPositionsAux ps (i + 1) xs

/-- Delete the items at the given positions (extended-slice deletion). -/
def delPositions (l : List α) (ps : List Int) : List α := delPositionsAux ps 0 l

/-- `l[s]` for a slice; error = ValueError (zero step). -/
def getSlice (l : List α) (s : Slice) : Except Exc (List α) :=
  match s.indices l.length with
  | none => .error .valueError
  | some (a, b, k) => .ok (getPositions l (positions a k (sliceLen a b k)))

/-- `list_ass_slice(ilow, ihigh, v)` after the adjustment done in
`list_ass_subscript` (`a` is already within `0..len`; `b < a` inserts at `a`). -/
def splice (l : List α) (a b : Int) (vs : List α) : List α :=
  let hi := if b < a then a else b
  l.take a.toNat ++ vs ++ l.drop hi.toNat

/-- `l[s] = vs`. -/
def setSlice (l : List α) (s : Slice) (vs : List α) : Except Exc (List α) :=
  match s.indices l.length with
  | none => .error .valueError
  | some (a, b, k) =>
    if k = 1 then .ok (splice l a b vs)
    else
      let n := sliceLen a b k
      if vs.length ≠ n then .error .valueError
      else .ok (setPositions l (positions a k n) vs)

/-- `del l[s]`. -/
def delSlice (l : List α) (s : Slice) : Except Exc (List α) :=
  match s.indices l.length with
  | none => .error .valueError
  | some (a, b, k) =>
    if k = 1 then .ok (splice l a b [])
    else .ok (delPositions l (positions a k (sliceLen a b k)))

/-- `l[i] = x`. -/
def setIdx (l : List α) (i : Int) (x : α) : Except Exc (List α) :=
  match normIdx l.length i with
  | none => .error .indexError
  | some j => .ok (l.set j x)

/-- `del l[i]`. -/
def delIdx (l : List α) (i : Int) : Except Exc (List α) :=
  match normIdx l.length i with
  | none => .error .indexError
  | some j => .ok (l.eraseIdx j)

/-- `l.insert(i, x)` (any index is valid; clamped). -/
def insertPos (len : Nat) (i : Int) : Nat :=
  if i < 0 then (if i + len < 0 then 0 else (i + len).toNat)
  else (if i > len then len else i.toNat)

def insert (l : List α) (i : Int) (x : α) : List α :=
  let j := insertPos l.length i
  l.take j ++ x :: l.drop j

/-- `l.pop(i)`. -/
def pop (l : List α) (i : Int) : Except Exc (α × List α) :=
  match normIdx l.length i with
  | none => .error .indexError
  | some j =>
    match l[j]? with
    | none => .error .indexError
    | some x => .ok (x, l.eraseIdx j)

/-- `l.index(x)` with `==` given by `eq item x`. -/
def index (eq : α → α → Bool) (l : List α) (x : α) : Option Nat :=
  l.findIdx? (fun y => eq y x)

/-- `l.remove(x)`. -/
def remove (eq : α → α → Bool) (l : List α) (x : α) : Except Exc (List α) :=
  match index eq l x with
  | none => .error .valueError
  | some j => .ok (l.eraseIdx j)

/-- `l *= n`. -/
def imul (l : List α) (n : Int) : List α :=
  if n < 1 then [] else (List.replicate n.toNat l).flatten

end TraitsVerif.Py
