/-
Line-protocol driver for the `set` cluster (TraitSet / builtin set).
  kind|validator|init|cmd;cmd;…   →   res ; res ; …
kind = `ts` (the TraitSet model), `ps` (the builtin-set model alone) or `to` (the
value of a `Set(<trait>)` trait on a HasTraits owner, `validator` then names the
inner trait: Int, CInt, CStr, Range05, Any; `or` = the owner is deleted and
garbage-collected).
Atoms: `i3` = 3, `s3` = '3'.  Operands carry their Python type: `S[..]` set,
`F[..]` frozenset, `L[..]` list, `G[..]` generator.  `po x` = pop() where the
implementation popped `x` (`po _` on an empty set).  `cp k x` = copy
(k = c copy.copy, d deepcopy, p pickle round trip) and probe the copy with
`add(x)`;  `sw k` = continue the history on the copy.
Everything that came out of a set is printed sorted.
Run:  lake env lean --run TraitsVerif/Driver/Set.lean
-/
import TraitsVerif.Driver.Proto
import TraitsVerif.Model.TraitSet
import TraitsVerif.Py.Dict
namespace TraitsVerif.Driver.Set
open TraitsVerif TraitsVerif.Py TraitsVerif.Model.SetM TraitsVerif.Proto
open TraitsVerif.Py.PSet (Op)

def atom? (s : String) : Option KAtom :=
  let s := clean s
  match s.toList with
  | 'i' :: rest => (String.ofList rest).toInt?.map KAtom.int
  | 's' :: rest => (String.ofList rest).toInt?.map KAtom.str
  | _ => none

def showAtom : KAtom → String
  | .int n => s!"i{n}"
  | .str n => s!"s{n}"

/-- `[i1,s2]`. -/
def atoms? (s : String) : Option (List KAtom) :=
  let s := clean s
  if s.length < 2 then none
  else
    let inner := ((s.drop 1).dropEnd 1).toString
    if clean inner = "" then some [] else (inner.splitOn ",").mapM atom?

def showSet (s : List KAtom) : String :=
  "[" ++ ",".intercalate ((s.mergeSort KAtom.le).map showAtom) ++ "]"

/-- `S[i1,i2]` → (is a set/frozenset, items in the order given). -/
def operand? (s : String) : Option (Bool × List KAtom) :=
  let s := clean s
  match s.toList with
  | 'S' :: rest => (atoms? (String.ofList rest)).map (true, ·)
  | 'F' :: rest => (atoms? (String.ofList rest)).map (true, ·)
  | 'L' :: rest => (atoms? (String.ofList rest)).map (false, ·)
  | 'G' :: rest => (atoms? (String.ofList rest)).map (false, ·)
  | _ => none

inductive Cmd where
  | op (o : Op KAtom)
  | probe (k : CopyKind) (x : KAtom)
  | switch (k : CopyKind)
  | orphan

def copyKind? : String → Option CopyKind
  | "c" => some .copy
  | "d" => some .deepcopy
  | "p" => some .pickle
  | _ => none

def parseCmd (s : String) : Option Cmd :=
  match words s with
  | ["ad", x] => do pure (.op (.add (← atom? x)))
  | ["dc", x] => do pure (.op (.discard (← atom? x)))
  | ["rm", x] => do pure (.op (.remove (← atom? x)))
  | ["po", x] => if x = "_" then some (.op (.pop none)) else do pure (.op (.pop (some (← atom? x))))
  | ["cl"] => some (.op .clear)
  | "ud" :: args => do pure (.op (.update ((← args.mapM operand?).map (·.2))))
  | "du" :: args => do pure (.op (.differenceUpdate ((← args.mapM operand?).map (·.2))))
  | "iu" :: args => do pure (.op (.intersectionUpdate ((← args.mapM operand?).map (·.2))))
  | ["sy", a] => do pure (.op (.symmetricDifferenceUpdate (← operand? a).2))
  | ["io", a] => do let (b, xs) ← operand? a; pure (.op (.ior b xs))
  | ["ia", a] => do let (b, xs) ← operand? a; pure (.op (.iand b xs))
  | ["is", a] => do let (b, xs) ← operand? a; pure (.op (.isub b xs))
  | ["ix", a] => do let (b, xs) ← operand? a; pure (.op (.ixor b xs))
  | ["cp", k, x] => do pure (.probe (← copyKind? k) (← atom? x))
  | ["sw", k] => do pure (.switch (← copyKind? k))
  | ["or"] => some .orphan
  | _ => none

def showEvent (e : SEvent KAtom) : String := s!"E{showSet e.removed}{showSet e.added}"

def showRes : Except Exc (SOut KAtom) → String
  | .error e => s!"err {e.name}"
  | .ok o => s!"ok {showSet o.items} {showOpt showAtom o.ret} {showOpt showEvent o.event}"

def runCmds (v : Callback KAtom KAtom) : PSet KAtom → List Cmd → List String
  | _, [] => []
  | s, .op o :: cs => showRes (TraitSet.step v s o) :: runCmds v (TraitSet.next v s o) cs
  | s, .probe k x :: cs =>
    let line := match TraitSet.copyOp k ({ items := s, validator := v, notifiers := [0, 1] } : TSObj KAtom Nat) with
      | .error e => s!"err {e.name}"
      | .ok c =>
        let probe := match TraitSet.step c.validator c.items (.add x) with
          | .error e => s!"err {e.name}"
          | .ok o => s!"ok {showSet o.items}"
        s!"copy {showSet c.items} notifiers={c.notifiers.length} probe:{probe}"
    line :: runCmds v s cs
  | s, .switch k :: cs =>
    match TraitSet.copyOp k ({ items := s, validator := v, notifiers := [0, 1] } : TSObj KAtom Nat) with
    | .error e => s!"err {e.name}" :: runCmds v s cs
    | .ok c => s!"ok {showSet c.items} - -" :: runCmds v c.items cs
  | s, .orphan :: cs => "bad-cmd" :: runCmds v s cs

/-- The inner traits of the `to` stream (none of them consults the owner). -/
def innerTrait (name : String) : Option (Callback KAtom KAtom) :=
  match name with
  | "Int" => KAtom.validator "intonly"
  | "CInt" => KAtom.validator "toint"
  | "CStr" => KAtom.validator "tostr"
  | "Range05" => KAtom.validator "range05"
  | "Any" => KAtom.validator "id"
  | _ => none

def runObjCmds (v : Callback KAtom KAtom) : TSOObj KAtom → List Cmd → List String
  | _, [] => []
  | o, .op op :: cs =>
    let val := TraitSetObject.validator o.vself (fun _ => v)
    showRes (TraitSet.step val o.items op) :: runObjCmds v { o with items := TraitSet.next val o.items op } cs
  | o, .probe k x :: cs =>
    let line := match TraitSetObject.copyOp (fun _ => v) k o with
      | .error e => s!"err {e.name}"
      | .ok c =>
        let probe := match TraitSet.step (TraitSetObject.validator c.vself (fun _ => v)) c.items (.add x) with
          | .error e => s!"err {e.name}"
          | .ok r => s!"ok {showSet r.items}"
        s!"copy {showSet c.items} notifiers=1 probe:{probe}"
    line :: runObjCmds v o cs
  | o, .switch k :: cs =>
    match TraitSetObject.copyOp (fun _ => v) k o with
    | .error e => s!"err {e.name}" :: runObjCmds v o cs
    | .ok c => s!"ok {showSet c.items} - -" :: runObjCmds v c cs
  | o, .orphan :: cs =>
    s!"ok {showSet o.items} - -" :: runObjCmds v { o with self := o.self.orphaned, vself := o.vself.orphaned } cs

def pyRun : PSet KAtom → List Cmd → List String
  | _, [] => []
  | s, .op o :: cs =>
    match PSet.step s o with
    | .error e => s!"err {e.name}" :: pyRun s cs
    | .ok (s', r) => s!"ok {showSet s'} {showOpt showAtom r} -" :: pyRun s' cs
  | s, _ :: cs => "bad-cmd" :: pyRun s cs

def handle (line : String) : String :=
  match (clean line).splitOn "|" with
  | [kind, v, init, cmds] =>
    if clean kind = "to" ∨ clean kind = "tof" then   -- `tof`: the owner is alive but falsy (no difference)
      match innerTrait (clean v), atoms? init, (fields cmds ";").mapM parseCmd with
      | some v, some init, some cmds =>
        -- assignment of the initial value: Set.validate wraps it in a TraitSetObject, which validates the items
        match TraitSet.init (TraitSetObject.validator TSOSelf.live (fun _ => v)) init with
        | .error e => s!"err {e.name}"
        | .ok s => " ; ".intercalate (runObjCmds v { items := s, self := .live, vself := .live } cmds)
      | _, _, _ => "bad-case"
    else
    match KAtom.validator (clean v), atoms? init, (fields cmds ";").mapM parseCmd with
    | some v, some init, some cmds =>
      if clean kind = "ps" then " ; ".intercalate (pyRun (PSet.ofList init) cmds)
      else
        match TraitSet.init v init with
        | .error e => s!"err {e.name}"
        | .ok s => " ; ".intercalate (runCmds v s cmds)
    | _, _, _ => "bad-case"
  | _ => "bad-case"

end TraitsVerif.Driver.Set

def main : IO Unit := TraitsVerif.Proto.runLines TraitsVerif.Driver.Set.handle
