/-
Line-protocol driver for the object-level gates of the trait-bound containers
(Model/ContainerObject.lean), so that the abstract states of `self` (`OSelf.live`,
`.detached`, `.orphaned`, `.afterDeepcopy`, `.afterSetstate`) and the hand-written
gates are themselves compared with real `TraitListObject` / `TraitDictObject` /
`TraitSetObject` values in each of these situations.
  og:<list|dict|set>|<items 0/1>|<inner rej|any>|<state[,state…]>
    →  v(-1)=… v(5)=… [k(-1)=… k(5)=…] [len(9)=… len(2)=…] notify=…
  inner `rej` = Range(low=0) (rejects negatives), `any` = Any (its `validate` is None)
Run:  lake env lean --run TraitsVerif/Driver/ObjGate.lean
-/
import TraitsVerif.Driver.Proto
import TraitsVerif.Model.ContainerObject
namespace TraitsVerif.Driver.ObjGate
open TraitsVerif TraitsVerif.Proto TraitsVerif.Model.PyLO TraitsVerif.Model.Obj

def rej : Bool → Callback Int Int := fun _ _ x => if x < 0 then .error .traitError else .ok x

def showRes : Except Exc Int → String
  | .ok x => s!"ok:{x}"
  | .error e => s!"err:{e.name}"

def showUnit : Except Exc Unit → String
  | .ok _ => "ok"
  | .error e => s!"err:{e.name}"

def showDelivery (d : Delivery) : String :=
  d.cls ++ "(" ++ ",".intercalate (d.fields.map fun (k, i) => s!"{k}={i}") ++ ")"

def showSent : Except Exc (List Delivery) → String
  | .ok [] => "silent"
  | .ok ds => "+".intercalate (ds.map showDelivery)
  | .error e => s!"err:{e.name}"

def applyState (σ : OSelf) : String → Option OSelf
  | "live" => some σ
  | "detached" => some σ.detached
  | "orphaned" => some σ.orphaned
  | "deepcopy" => some σ.afterDeepcopy
  | "pickle" => some σ.afterSetstate
  | _ => none

def handle (line : String) : String :=
  match (clean line).splitOn "|" with
  | [kind, items, inner, states] =>
    let anyInner := clean inner = "any"
    let t : CT := { itemNone := anyInner, keyNone := anyInner, valueNone := anyInner, minlen := 1, maxlen := 3 }
    let σ0 := OSelf.live t (clean items = "1")
    match (fields states ",").foldlM applyState σ0 with
    | none => "bad-case"
    | some σ =>
      match clean kind with
      | "og:list" =>
        s!"v(-1)={showRes (listItemValidator σ rej 0 (-1))} v(5)={showRes (listItemValidator σ rej 0 5)} " ++
        s!"len(9)={showUnit (listValidateLength σ 9)} len(2)={showUnit (listValidateLength σ 2)} " ++
        s!"notify={showSent (listNotifier σ)}"
      | "og:dict" =>
        s!"v(-1)={showRes (dictValidator .value σ rej 0 (-1))} v(5)={showRes (dictValidator .value σ rej 0 5)} " ++
        s!"k(-1)={showRes (dictValidator .key σ rej 0 (-1))} k(5)={showRes (dictValidator .key σ rej 0 5)} " ++
        s!"notify={showSent (dictNotifier σ)}"
      | "og:set" =>
        s!"v(-1)={showRes (setItemValidator σ rej 0 (-1))} v(5)={showRes (setItemValidator σ rej 0 5)} " ++
        s!"notify={showSent (setNotifier σ)}"
      | _ => "bad-case"
  | _ => "bad-case"

end TraitsVerif.Driver.ObjGate

def main : IO Unit := TraitsVerif.Proto.runLines TraitsVerif.Driver.ObjGate.handle
