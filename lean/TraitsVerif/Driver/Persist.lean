/-
Line-protocol driver for the `persist` and `ctab` clusters.

  P|decl;decl;…|hist;hist;…|copyop;copyop;…     object persistence (Model/Persist)
  T|fn-op fn-op …                                CTrait function-pointer state (Model/FuncIndex)
  R|cfg|op;op;…                                  reference ledger (Model/RefLedger)

Everything is in prefix notation with explicit counts, so parsing is by
structural recursion on a fuel.  See harness/props/persistlib.py for the twin.
Run:  lake env lean --run TraitsVerif/Driver/Persist.lean
-/
import TraitsVerif.Driver.Proto
import TraitsVerif.Model.Persist
import TraitsVerif.Model.FuncIndex
import TraitsVerif.Model.RefLedger
namespace TraitsVerif.Driver.Persist
open TraitsVerif TraitsVerif.Proto TraitsVerif.Model.Persist

/-! ## Leaf traits of the harness (`Env.lv`) -/

/-- 0 `Int`, 1 `Str`, 2 `CInt`, 4 `Instance(Node)`; anything else accepts every leaf. -/
def lv : LeafTy → Leaf → Except Exc Leaf
  | 0, .int n => .ok (.int n)
  | 0, _ => .error .traitError
  | 1, .str s => .ok (.str s)
  | 1, _ => .error .traitError
  | 2, .int n => .ok (.int n)
  | 2, .str s => match s.toInt? with | some n => .ok (.int n) | none => .error .traitError
  | 2, _ => .error .traitError
  | 4, .ref o g => .ok (.ref o g)
  | 4, .none => .ok .none
  | 4, _ => .error .traitError
  | _, a => .ok a

def E : Env := ⟨lv⟩

/-! ## Parsing (prefix notation) -/

def parseLeaf : List String → Option (Leaf × List String)
  | "n" :: r => some (.none, r)
  | "u" :: r => some (.undefined, r)
  | "i" :: x :: r => (int? x).map (fun n => (.int n, r))
  | "s" :: x :: r => some (.str x, r)
  | "r" :: x :: r => x.toNat?.map (fun o => (.ref o 0, r))
  | _ => none

def parseShape : Nat → List String → Option (Shape × List String)
  | 0, _ => none
  | _ + 1, "A" :: r => some (.any, r)
  | _ + 1, "T" :: t :: r => t.toNat?.map (fun t => (.leafT t, r))
  | f + 1, "L" :: lo :: hi :: r => do
    let lo ← lo.toNat?; let hi ← hi.toNat?
    let (it, r) ← parseShape f r
    pure (.cont .lst 3 it lo hi, r)
  | f + 1, "D" :: kT :: r => do
    let kT ← kT.toNat?
    let (it, r) ← parseShape f r
    pure (.cont .dct kT it 0 0, r)
  | _ + 1, "S" :: kT :: r => kT.toNat?.map (fun kT => (.cont .st kT .any 0 0, r))
  | _, _ => none

def parseLeaves : Nat → List String → Option (List Leaf × List String)
  | 0, r => some ([], r)
  | c + 1, r => do
    let (a, r) ← parseLeaf r
    let (as, r) ← parseLeaves c r
    pure (a :: as, r)

/-- A literal on a case line is a *plain* value; `n` threads the next identity. -/
def parseVal : Nat → Nat → List String → Option (CVal × Nat × List String)
  | 0, _, _ => none
  | f + 1, n, "l" :: c :: r => do
    let c ← c.toNat?
    let (kids, n', r) ← many f (n + 1) c r
    pure (.node .lst n .plain [] kids, n', r)
  | f + 1, n, "d" :: c :: r => do
    let c ← c.toNat?
    let (keys, kids, n', r) ← pairs f (n + 1) c r
    pure (.node .dct n .plain keys kids, n', r)
  | _ + 1, n, "t" :: c :: r => do
    let c ← c.toNat?
    let (keys, r) ← parseLeaves c r
    pure (.node .st n .plain keys [], n + 1, r)
  | _ + 1, n, r => (parseLeaf r).map (fun (a, r) => (.leaf a, n, r))
where
  many : Nat → Nat → Nat → List String → Option (List CVal × Nat × List String)
    | _, n, 0, r => some ([], n, r)
    | 0, _, _ + 1, _ => none
    | f + 1, n, c + 1, r => do
      let (v, n1, r) ← parseVal f n r
      let (vs, n2, r) ← many f n1 c r
      pure (v :: vs, n2, r)
  pairs : Nat → Nat → Nat → List String → Option (List Leaf × List CVal × Nat × List String)
    | _, n, 0, r => some ([], [], n, r)
    | 0, _, _ + 1, _ => none
    | f + 1, n, c + 1, r => do
      let (k, r) ← parseLeaf r
      let (v, n1, r) ← parseVal f n r
      let (ks, vs, n2, r) ← pairs f n1 c r
      pure (k :: ks, v :: vs, n2, r)

def parseDecl (n : Nat) (s : String) : Option (Decl × Nat) :=
  match words s with
  | name :: kind :: tr :: cp :: rest => do
    let kind ← (match kind with
      | "v" => some TKind.value | "r" => some .readonly | "e" => some .event | "p" => some .property
      | _ => none)
    let cp ← (match cp with
      | "-" => some none | "r" => some (some CopyMode.ref) | "s" => some (some .shallow)
      | "d" => some (some .deep) | _ => none)
    let (sh, rest) ← parseShape 20 rest
    -- default `q`: a dynamic, non-reproducible default (`_name_default` handing out serial numbers)
    if rest = ["q"] then
      pure ({ name := name, shape := sh, kind := kind, transient := tr == "1", copy := cp, dflt := .leaf (.int 0),
              dyn := true }, n)
    else
    let (dv, n', rest) ← parseVal 50 n rest
    if rest ≠ [] then none
    else pure ({ name := name, shape := sh, kind := kind, transient := tr == "1", copy := cp, dflt := dv }, n')
  | _ => none

def parseDecls : Nat → List String → Option (List Decl × Nat)
  | n, [] => some ([], n)
  | n, s :: ss => do
    let (d, n1) ← parseDecl n s
    let (ds, n2) ← parseDecls n1 ss
    pure (d :: ds, n2)

/-! ## Display -/

def showLeaf (earlier : List (Nat × Nat)) : Leaf → String
  | .none => "N"
  | .undefined => "U"
  | .int n => toString n
  | .str s => "'" ++ s ++ "'"
  | .ref o g => s!"@{o}" ++ (if earlier.contains (o, g) then "s" else "f")

def showBinding (self : Nat) : Binding → String
  | .plain => "p"
  | .detached _ => "d"
  | .ownerless _ => "w"
  | .bound o _ => if o = self then "b" else "o"

def sortStrs (l : List String) : List String := l.mergeSort (fun a b => a ≤ b)

mutual
/-- `self`: the object being shown; `old`: node identities reachable from earlier
objects; `earlier`: `(o, g)` references reachable from earlier objects. -/
def showVal (self : Nat) (old : List Nat) (earlier : List (Nat × Nat)) : CVal → String
  | .leaf a => showLeaf earlier a
  | .node k i b keys kids =>
    let tag := (match k with | .lst => "L" | .dct => "D" | .st => "S") ++ showBinding self b
      ++ (if old.contains i then "s" else "f")
    match k with
    | .lst => tag ++ "[" ++ ",".intercalate (showVals self old earlier kids) ++ "]"
    | .dct =>
      tag ++ "{" ++ ",".intercalate (sortStrs (List.zipWith (fun a b => showLeaf earlier a ++ ":" ++ b) keys
        (showVals self old earlier kids))) ++ "}"
    | .st => tag ++ "{" ++ ",".intercalate (sortStrs (keys.map (showLeaf earlier))) ++ "}"
def showVals (self : Nat) (old : List Nat) (earlier : List (Nat × Nat)) : List CVal → List String
  | [] => []
  | v :: vs => showVal self old earlier v :: showVals self old earlier vs
end

mutual
def refsOf : CVal → List (Nat × Nat)
  | .leaf (.ref o g) => [(o, g)]
  | .leaf _ => []
  | .node _ _ _ keys kids =>
    keys.filterMap (fun a => match a with | .ref o g => some (o, g) | _ => none) ++ refsOfL kids
def refsOfL : List CVal → List (Nat × Nat)
  | [] => []
  | v :: vs => refsOf v ++ refsOfL vs
end

def objIds (s : Obj) : List Nat := s.slots.flatMap (fun sl => match sl.val with | some v => ids v | none => [])
def objRefs (s : Obj) : List (Nat × Nat) :=
  s.slots.flatMap (fun sl => match sl.val with | some v => refsOf v | none => [])

/-! ## History operations -/

def updSlot (s : Obj) (name : String) (f : Slot → Option Slot) : Option Obj :=
  let rec go : List Slot → Option (List Slot)
    | [] => none
    | sl :: sls =>
      if sl.decl.name = name then (f sl).map (· :: sls)
      else (go sls).map (sl :: ·)
  (go s.slots).map (fun sls => { s with slots := sls })

def findSlot (s : Obj) (name : String) : Option Slot := s.slots.find? (·.decl.name = name)

def parsePath : Nat → List String → Option (List Nat × List String)
  | 0, r => some ([], r)
  | c + 1, x :: r => do
    let p ← x.toNat?
    let (ps, r) ← parsePath c r
    pure (p :: ps, r)
  | _, _ => none

/-- One history operation: returns the result token, the object and the next identity. -/
def histOp (s : Obj) (n : Nat) (op : String) : Option (String × Obj × Nat) :=
  match words op with
  | "set" :: name :: rest => do
    let (v, n1, rest) ← parseVal 50 n rest
    if rest ≠ [] then none
    let sl ← findSlot s name
    match assignSlot E s.oid n1 sl v with
    | .error e => pure (s!"err {e.name}", s, n1)
    | .ok (sl', n2) =>
      let s' ← updSlot s name (fun _ => some sl')
      pure ("ok", s', n2)
  | "add" :: name :: plen :: rest => do
    let plen ← plen.toNat?
    let (path, rest) ← parsePath plen rest
    let (key, rest) ← parseLeaf rest
    let (item, n1, rest) ← parseVal 50 n rest
    if rest ≠ [] then none
    let sl ← findSlot s name
    let (cur, sl1, n2) := readSlot E s.oid n1 sl
    match addAt E n2 key item path cur with
    | .error e =>
      let s' ← updSlot s name (fun _ => some sl1)
      pure (s!"err {e.name}", s', n2)
    | .ok (v', n3) =>
      let s' ← updSlot s name (fun _ => some { sl1 with val := some v' })
      pure ("ok", s', n3)
  | ["alias", dst, src] => do
    let sl ← findSlot s src
    let (cur, sl1, n1) := readSlot E s.oid n sl
    let s1 ← updSlot s src (fun _ => some sl1)
    let dsl ← findSlot s1 dst
    match assignSlot E s.oid n1 dsl cur with
    | .error e => pure (s!"err {e.name}", s1, n1)
    | .ok (dsl', n2) =>
      let s' ← updSlot s1 dst (fun _ => some dsl')
      pure ("ok", s', n2)
  | _ => none

def runHist : Obj → Nat → List String → Option (List String × Obj × Nat)
  | s, n, [] => some ([], s, n)
  | s, n, op :: ops => do
    let (r, s1, n1) ← histOp s n op
    let (rs, s2, n2) ← runHist s1 n1 ops
    pure (r :: rs, s2, n2)

/-! ## Copy operations -/

def copyOp (s : Obj) (o' : Nat) (n : Nat) (op : String) : Option (Except Exc Copied) :=
  match words op with
  | ["pickle", _] => some (pickleRoundTrip E s o' n)
  | ["copy"] => some (copyCopy E s o' n)
  | ["deepcopy"] => some (.ok (deepcopyObj E s o' n))
  | ["clone", "n"] => some (.ok (cloneTraits E s o' none n))
  | ["clone", "s"] => some (.ok (cloneTraits E s o' (some .shallow) n))
  | ["clone", "d"] => some (.ok (cloneTraits E s o' (some .deep) n))
  | _ => none

/-- Runs the copy chain.  Returns the error or (final object, earlier objects, next). -/
def runCopies : Obj → List Obj → Nat → List String → Option (Except Exc (Obj × List Obj × Nat))
  | s, earlier, n, [] => some (.ok (s, earlier, n))
  | s, earlier, n, op :: ops =>
    match copyOp s (s.oid + 1) n op with
    | none => none
    | some (.error e) => some (.error e)
    | some (.ok c) => runCopies c.copy (c.orig :: earlier) c.next ops

/-! ## The battery on the copy -/

/-- An item the inner trait must reject / must accept (none when it accepts everything). -/
def invalidLeaf : LeafTy → Option Leaf
  | 0 => some (.str "bad") | 1 => some (.int 7) | 2 => some (.str "bad") | 4 => some (.int 7)
  | _ => none
def validLeaf : LeafTy → Leaf
  | 0 => .int 5 | 1 => .str "zz" | 2 => .int 5 | 4 => .none
  | _ => .int 5

def invalidItem : Shape → Option CVal
  | .any => none
  | .leafT t => (invalidLeaf t).map .leaf
  | .cont .. => some (.leaf (.int 7))

def validItem (n : Nat) : Shape → CVal
  | .any => .leaf (.int 5)
  | .leafT t => .leaf (validLeaf t)
  | .cont k _ _ _ _ => .node k n .plain [] []

/-- The probe pair (key, item) that must be rejected by a live container of shape `sh`. -/
def badProbe : Shape → Option (Leaf × CVal)
  | .cont .lst _ iT _ _ => (invalidItem iT).map (fun it => (.none, it))
  | .cont .dct kT iT _ _ =>
    match invalidItem iT with
    | some it => some (validLeaf kT, it)
    | none => (invalidLeaf kT).map (fun k => (k, .leaf .none))
  | .cont .st kT _ _ _ => (invalidLeaf kT).map (fun k => (k, .leaf .none))
  | _ => some (.str "bad", .leaf (.str "bad"))

def goodProbe (n : Nat) : Shape → Leaf × CVal
  | .cont .lst _ iT _ _ => (.none, validItem n iT)
  | .cont .dct kT iT _ _ => (validLeaf kT, validItem n iT)
  | .cont .st kT _ _ _ => (validLeaf kT, .leaf .none)
  | _ => (.int 5, .leaf (.int 5))

def showPath (p : List Nat) : String := ".".intercalate (p.map toString)

mutual
/-- Every container node of `v` (pre-order) with its path and the declared shape there. -/
def nodesOf (sh : Shape) (path : List Nat) : CVal → List (List Nat × Shape)
  | .leaf _ => []
  | .node _ _ _ _ kids =>
    let inner := match sh with | .cont _ _ iT _ _ => iT | _ => .any
    (path, sh) :: nodesOfL inner path 0 kids
def nodesOfL (sh : Shape) (path : List Nat) (i : Nat) : List CVal → List (List Nat × Shape)
  | [] => []
  | v :: vs => nodesOf sh (path ++ [i]) v ++ nodesOfL sh path (i + 1) vs
end

mutual
def nodeAt : List Nat → CVal → Option CVal
  | [], v => some v
  | _ :: _, .leaf _ => none
  | p :: ps, .node _ _ _ _ kids => nodeAtL p ps kids
def nodeAtL : Nat → List Nat → List CVal → Option CVal
  | _, _, [] => none
  | 0, ps, v :: _ => nodeAt ps v
  | p + 1, ps, _ :: vs => nodeAtL p ps vs
end

def probeSlot (self : Nat) (n : Nat) (name : String) (sh : Shape) (v : CVal) : List String :=
  (nodesOf sh [] v).map fun (path, shp) =>
    let bad := match badProbe shp with
      | none => "-"
      | some (k, it) =>
        match addAt E n k it path v with
        | .error e => if e = Exc.traitError then "rej" else s!"err {e.name}"
        | .ok _ => "acc"
    let (gk, git) := goodProbe n shp
    let good := match addAt E (n + 1) gk git path v with
      | .error e => if e = Exc.traitError then "rej" else s!"err {e.name}"
      | .ok _ =>
        "acc" ++ (match (nodeAt path v).bind (notifiesAt path) with
          | some o => if o = self then "+c" else "+o"
          | none => "")
    s!"{name}/{showPath path}:{bad}:{good}"

def battery (s : Obj) (earlier : List Obj) (n : Nat) : String :=
  let old := earlier.flatMap objIds
  let er := earlier.flatMap objRefs
  -- read every non-event trait (materialises defaults, as `getattr` does)
  let rec readAll : Nat → List Slot → List (Slot × CVal) × Nat
    | n, [] => ([], n)
    | n, sl :: sls =>
      if sl.decl.kind = .event then readAll n sls
      else
        let r := readSlot E s.oid n sl
        let rs := readAll r.2.2 sls
        ((r.2.1, r.1) :: rs.1, rs.2)
  let (vals, n1) := readAll n s.slots
  -- a dynamic default is shown as `Q=` / `Q!`: equal or not to what the predecessor reads (afterwards)
  let predRead (name : String) : Option String :=
    match earlier.head? with
    | none => none
    | some p => (p.slots.find? (·.decl.name = name)).map (fun sl => showVal p.oid [] [] (readSlot E p.oid n1 sl).1)
  let shown := vals.map (fun (sl, v) =>
    if sl.decl.dyn then
      sl.decl.name ++ "=" ++ (match predRead sl.decl.name with
        | none => "Q"
        | some pv => if pv = showVal s.oid [] [] v then "Q=" else "Q!")
    else sl.decl.name ++ "=" ++ showVal s.oid old er v)
  let probes := vals.flatMap (fun (sl, v) => probeSlot s.oid n1 sl.decl.name sl.decl.shape v)
  let ro := vals.filterMap (fun (sl, _) =>
    if sl.decl.kind = .readonly then
      some (sl.decl.name ++ ":" ++ (match assignSlot E s.oid n1 sl (.leaf (.int 1)) with
        | .error e => if e = Exc.traitError then "rej" else s!"err {e.name}"
        | .ok _ => "acc"))
    else none)
  " ".intercalate shown ++ " # " ++ " ".intercalate probes ++ " # " ++ " ".intercalate ro

def handleP (decls hist copies : String) : String :=
  match parseDecls 1000 (fields decls ";") with
  | none => "bad-case"
  | some (ds, n0) =>
    let s0 := Obj.fresh 1 ds
    match runHist s0 n0 (fields hist ";") with
    | none => "bad-case"
    | some (hres, s1, n1) =>
      match runCopies s1 [] n1 (fields copies ";") with
      | none => "bad-case"
      | some (.error e) => ",".intercalate hres ++ " # copyerr " ++ e.name
      | some (.ok (s2, earlier, n2)) => ",".intercalate hres ++ " # " ++ battery s2 earlier n2

/-! ## `T`: CTrait function-pointer state -/

open TraitsVerif.Model.FuncIndex in
def showOutcome : Outcome → String
  | .ok => "ok"
  | .traitError => "TraitError"
  | .valueError => "ValueError"
  | .unmodelled => "?"

open TraitsVerif.Model.FuncIndex in
/-- ops: `new k`, `validate k`, `delegate p`, `property g s v hv`, `post b`, `default k`, `probe`, `dprobe`. -/
def handleT (ops : String) : String :=
  let rec go (t : Option Raw) (probe : Nat) : List String → String
    | [] =>
      match t with
      | none => "none"
      | some r =>
        let t := r.fns
        match getstateIdx t with
        | none => "getstate-out-of-table"
        | some i =>
          let rt := match setstateIdx i with
            | some t' => if t' = t then "same" else "differs"
            | none => "setstate-out-of-table"
          s!"idx {i.getattr} {i.setattr} {i.postSetattr} {i.validate} {i.delegateAttrName} {rt}" ++
            (if probe = 1 then s!" probe={showOutcome (probeGet r)},{showOutcome (probeSet r)},{showOutcome (probeDel r)}"
             else if probe = 2 then s!" dprobe={showOutcome (probeDelegated r).1},{showOutcome (probeDelegated r).2}"
             else "")
    | op :: ops =>
      match words op, t with
      | ["new", k], _ =>
        match int? k with
        | some k => match traitNew k with
          | some t => go (some { fns := t }) probe ops
          | none => "err TraitError"
        | none => "bad-case"
      | ["validate", k], some r =>
        match int? k with
        | some k => match apply r.fns (.setValidate k) with
          | some t => go (some { r with fns := t }) probe ops
          | none => "err ValueError"
        | none => "bad-case"
      | ["delegate", p], some r =>
        match int? p with
        | some p => go ((apply r.fns (.delegate p)).map
            (fun t => { r with fns := t, delegated := true, prefixType := clampPrefixType p })) probe ops
        | none => "bad-case"
      | ["property", g, s, v, hv], some r =>
        match int? g, int? s, int? v with
        | some g, some s, some v => match apply r.fns (.setProperty g s v (hv == "1")) with
          | some t => go (some { r with fns := t }) probe ops
          | none => "err ValueError"
        | _, _, _ => "bad-case"
      | ["post", b], some r =>
        go ((apply r.fns (.setPostSetattr (b == "1"))).map (fun t => { r with fns := t })) probe ops
      | ["default", k], some r =>
        match int? k with
        | some k => if defaultValueTypeOk k then go (some { r with dvt := k.toNat }) probe ops else "err ValueError"
        | none => "bad-case"
      | ["probe"], some r => go (some r) 1 ops
      | ["dprobe"], some r => go (some r) 2 ops
      | _, _ => "bad-case"
  go none 0 (fields ops ";")

/-! ## `R`: reference ledger -/

open TraitsVerif.Model.RefLedger in
/-- op syntax:  `set name key v val=<same|conv:ID|raise:EXC> dflt=<ID|raise:EXC> post=<-|k:EXC> notify=<-|k:EXC> hash=<-|k>`
(`k` = ordinal of the failing invocation); `get name key …`; `del name key …`. -/
def handleR (cfg ops : String) : String :=
  let flag (c : String) := cfg.contains c.front
  let c : TraitCfg := { hasValidate := flag "v", origValue := flag "o", postOrig := flag "q",
                        hasPost := flag "p", cmpNone := flag "c" }
  let s0 : St := { hasNotifiers := flag "n", listsExist := flag "n" || flag "l" }
  let pool : List Id := List.range 12
  let kv (w : String) (k : String) : Option String :=
    if w.startsWith (k ++ "=") then some (w.drop (k.length + 1)).toString else none
  let getKV (ws : List String) (k : String) : String := (ws.findSome? (fun w => kv w k)).getD "-"
  let failAt (spec : String) : Nat → Option Exc :=
    match spec.splitOn ":" with
    | [k, e] => match k.toNat? with
      | some k => fun n => if n = k then some (Exc.ofName e) else none
      | none => fun _ => none
    | _ => fun _ => none
  let mkEnv (ws : List String) : Model.RefLedger.Env :=
    let val := getKV ws "val"
    let dfl := getKV ws "dflt"
    let post := failAt (getKV ws "post")
    let noti := failAt (getKV ws "notify")
    let hash := (getKV ws "hash").toNat?
    { validate := fun _ x =>
        match val.splitOn ":" with
        | ["conv", i] => .ok (i.toNat?.getD x)
        | ["raise", e] => .error (Exc.ofName e)
        | _ => .ok x
      dflt := fun _ _ =>
        match dfl.splitOn ":" with
        | ["raise", e] => .error (Exc.ofName e)
        | [i] => .ok (i.toNat?.getD 1)
        | _ => .ok 1
      post := fun n _ => match post n with | some e => .error e | none => .ok ()
      notify := fun n _ => match noti n with | some e => .error e | none => .ok ()
      hashOk := fun n => match hash with | some k => n != k | none => true }
  let showSt (s : St) : String :=
    "d={" ++ ",".intercalate (sortStrs (s.dict.map (fun e => s!"{e.name}:{e.val}"))) ++ "} r=" ++
      showIntList (pool.map (refs s))
  let rec go (s : St) : List String → List String
    | [] => []
    | op :: rest =>
      match words op with
      | "set" :: name :: key :: v :: ws =>
        match key.toNat?, v.toNat? with
        | some key, some v =>
          let (e, s') := step (mkEnv ws) c s (.set name key v)
          ((match e with | some e => s!"err {e.name} " | none => "ok ") ++ showSt s') :: go s' rest
        | _, _ => ["bad-case"]
      | "get" :: name :: key :: ws =>
        match key.toNat? with
        | some key =>
          let (e, s') := step (mkEnv ws) c s (.get name key)
          ((match e with | some e => s!"err {e.name} " | none => "ok ") ++ showSt s') :: go s' rest
        | none => ["bad-case"]
      | "del" :: name :: key :: ws =>
        match key.toNat? with
        | some key =>
          let (e, s') := step (mkEnv ws) c s (.del name key)
          ((match e with | some e => s!"err {e.name} " | none => "ok ") ++ showSt s') :: go s' rest
        | none => ["bad-case"]
      | _ => ["bad-case"]
  " ; ".intercalate (go s0 (fields ops ";"))

open TraitsVerif.Model.RefLedger in
/-- `U|b0 b1 …|i0 i1 …`: element validators by position (`n` none, `s` same, `c<ID>` converts to pool
object ID, `r<Exc>` raises) and the pool ids of the tuple's items.  Prints the result and, for pool
objects 1..9, the net reference change while the result is held. -/
def handleU (behs items : String) : String :=
  let bs := words behs
  match (words items).mapM (·.toNat?) with
  | none => "bad-case"
  | some value =>
    let ev : Nat → Id → Except Exc Id := fun i x =>
      match bs[i]? with
      | some b =>
        if b.startsWith "c" then .ok ((b.drop 1).toString.toNat?.getD x)
        else if b.startsWith "r" then .error (Exc.ofName (b.drop 1).toString)
        else .ok x
      | none => .ok x
    if bs.length ≠ value.length then "err TraitError r=" ++ showIntList ((List.range 9).map (fun _ => 0))
    else
      let o := tupleCheck ev value
      let r := showIntList ((List.range 9).map (fun k => net o.evs (k + 1)))
      match o.result with
      | some (some l) => "new [" ++ ",".intercalate (l.map toString) ++ "] r=" ++ r
      | some none => "same r=" ++ r
      | none => "err " ++ (match o.exc with | some e => e.name | none => "TraitError") ++ " r=" ++ r

/-- `N|outer|ownerMeta`: fate of the values of the child's traits (`a_none`, `a_deep`, `a_shallow`,
`a_ref`, the values of `opts = Dict(Str, Any)` - no metadata -, `lock` - uncopyable, no metadata). -/
def handleN (outer ownerMeta : String) : String :=
  let meta? : String → Option (Option CopyMode)
    | "-" => some none | "r" => some (some .ref) | "s" => some (some .shallow) | "d" => some (some .deep)
    | _ => none
  let outer? : Option Outer := match words outer with
    | ["clone", "n"] => some (.clone none) | ["clone", "s"] => some (.clone (some .shallow))
    | ["clone", "d"] => some (.clone (some .deep)) | ["deepcopy"] => some .deepcopy
    | ["pickle", _] => some .pickle
    | _ => none
  let showF : Fate → String
    | .same => "same" | .shallow => "shallow" | .deep => "deep" | .lost => "lost"
  match outer?, meta? (clean ownerMeta) with
  | some o, some om =>
    let f (cm : Option CopyMode) (u : Bool) := showF (nestedTraitFate o om cm u)
    -- the values INSIDE the Dict: shared unless the dict is copied deeply (a shallow copy keeps them)
    let optsF := match nestedTraitFate o om none false with | .deep => "deep" | _ => "same"
    s!"a_none={f none false} a_deep={f (some .deep) false} a_shallow={f (some .shallow) false} " ++
      s!"a_ref={f (some .ref) false} opts={optsF}" ++
      (match o with | .pickle => "" | _ => s!" lock={f none true}")
  | _, _ => "bad-case"

open TraitsVerif.Model.RefLedger in
/-- `H|kind|T O|i:rs i:rm:j i:add:t i:add:o …`: handlers `0..T-1` on the trait, `T..T+O-1` on the object
(anytrait); actions of handlers; added handlers get the next free numbers.  Prints the handlers called by a
first change and by a second one. -/
def handleH (counts acts : String) : String :=
  match (words counts).mapM (·.toNat?) with
  | some [tc, oc] =>
    let n := tc + oc
    -- parse actions; `add` allocates ids n, n+1, … in the order the actions are written
    let rec parse (ws : List String) (next : Nat) (acc : List (Id × HAct)) : Option (List (Id × HAct)) :=
      match ws with
      | [] => some acc.reverse
      | w :: rest =>
        match w.splitOn ":" with
        | [i, "rs"] => i.toNat?.bind (fun i => parse rest next ((i, .removeSelf) :: acc))
        | [i, "rm", j] => match i.toNat?, j.toNat? with
          | some i, some j => parse rest next ((i, .remove j) :: acc)
          | _, _ => none
        | [i, "add", w] => i.toNat?.bind (fun i => parse rest (next + 1) ((i, .add next (w == "t")) :: acc))
        | _ => none
    match parse (words acts) n [] with
    | none => "bad-case"
    | some table =>
      let act : Id → HAct := fun h => match table.find? (·.1 = h) with | some p => p.2 | none => .nothing
      let l0 : Lists := ⟨List.range tc, (List.range oc).map (· + tc)⟩
      let r1 := dispatch act l0
      let r2 := dispatch act r1.2
      s!"calls={showIntList (r1.1.map Int.ofNat)} again={showIntList (r2.1.map Int.ofNat)}"
  | _ => "bad-case"

/-- `D|outer`: fate of the values of the deferred traits of the object being copied: read/write
properties with copy metadata none / ref / shallow / deep, a `WeakRef` (copy="ref"), and prototyped
values whose prototype trait has no metadata / `copy="ref"`. -/
def handleD (outer : String) : String :=
  let outer? : Option Outer := match words outer with
    | ["clone", "n"] => some (.clone none) | ["clone", "s"] => some (.clone (some .shallow))
    | ["clone", "d"] => some (.clone (some .deep)) | ["deepcopy"] => some .deepcopy
    | _ => none
  let showF : Fate → String
    | .same => "same" | .shallow => "shallow" | .deep => "deep" | .lost => "lost"
  match outer? with
  | some o =>
    let f (cm : Option CopyMode) := showF (deferredFate o cm false)
    s!"p_none={f none} p_ref={f (some .ref)} p_shallow={f (some .shallow)} p_deep={f (some .deep)} " ++
      s!"weak={f (some .ref)} proto_none={f none} proto_ref={f (some .ref)}"
  | none => "bad-case"

open TraitsVerif.Model.RefLedger.Warn in
/-- `W|src|cls|mode|access|hold`: a default computation failing with an exception of class `cls` under warnings
filter `mode`, asked for through `access`; three failures in a row. -/
def handleW (cls mode access : String) : String :=
  let attrErr := cls == "AttributeError" || cls == "AttrSub"
  let mode? : Option Mode := match mode with
    | "default" => some .dflt | "error" => some .error | "ignore" => some .ignore | "always" => some .always
    | _ => none
  let access? : Option Access := match access with
    | "getattr" => some .getattr | "hasattr" => some .hasattr | "getattr3" => some .getattr3
    | "trait_get" => some .traitGet | "default_value_for" => some .defaultValueFor
    | "setattr-notify" => some .setattrNotify
    | _ => none
  match mode?, access? with
  | some m, some a =>
    let o := observe attrErr m a
    let name := match o.out with | .orig => "orig" | .warning => "warning" | .swallowed => "swallowed"
    let b (x : Bool) := if x then "1" else "0"
    let line := s!"out={name} cause={b o.cause} warned={b o.warned} held={o.held} after={o.after}"
    " / ".intercalate [line, line, line]
  | _, _ => "bad-case"

open TraitsVerif.Model.RefLedger.Raw in
/-- `A|holds|op;op;…`: raw CTrait calls on three traits (slot `6·t + f`) and six payloads; `holds[i]` is `h`
(the caller keeps references: the count relative to the start is printed) or `s` (only the traits own it: `+`
alive, `.` not).  ` !i`: payload `i` was dying at a checkpoint while a slot still pointed to it. -/
def handleA (holds ops : String) : String :=
  let hs := (clean holds).toList
  let big : Int := 1000
  let tracked (o : Nat) : Bool := hs[o]? == some 'h'
  let s0 : MS := { ptr := List.replicate 18 none, rc := fun o => if tracked o then big else 0 }
  let block (t : Nat) : List Nat := (List.range 6).map (· + 6 * t)
  let compileOp (ws : List String) : Option (List Op) :=
    match ws with
    | ["ps", t, p] => do let t ← t.toNat?; let p ← p.toNat?; pure [.set (6 * t) p]
    | ["v", t, p] => do let t ← t.toNat?; let p ← p.toNat?; pure [.set (6 * t + 1) p]
    | ["dv", t, p] => do let t ← t.toNat?; let p ← p.toNat?; pure [.set (6 * t + 2) p]
    | ["h", t, p] => do let t ← t.toNat?; let p ← p.toNat?; pure [.set (6 * t + 5) p]
    | ["pr", t, g, s, v] => do
      let t ← t.toNat?; let g ← g.toNat?; let s ← s.toNat?
      let v ← (if v == "n" then some none else v.toNat?.map some)
      pure [.put [(6 * t + 3, some g), (6 * t + 4, some s), (6 * t + 1, v)]]
    | ["cl", t, s] => do let t ← t.toNat?; let s ← s.toNat?; pure [.copy (block t) (block s)]
    | ["ss", t, s] => do let t ← t.toNat?; let s ← s.toNat?; pure [.restate (block t) (block s)]
    | ["re", t, f] => do
      let t ← t.toNat?
      let i ← (match f with
        | "post" => some 0 | "validate" => some 1 | "dflt" => some 2 | "handler" => some 5 | _ => none)
      pure [.reset (6 * t + i)]
    | ["drop", t] => do
      let t ← t.toNat?
      -- trait_clear: default_value, py_validate, py_post_setattr, delegate_name, delegate_prefix, handler
      pure ([2, 1, 0, 3, 4, 5].map (fun f => Op.clear (6 * t + f)))
    | ["rd", t] => do let t ← t.toNat?; pure [.read (block t)]
    | _ => none
  let showState (s : MS) (cs : List MS) : String :=
    let cells := (List.range 6).map (fun o =>
      if tracked o then toString (s.rc o - big) else if s.rc o > 0 then "+" else ".")
    " ".intercalate cells ++ String.join ((visibleDying cs (List.range 6)).map (fun o => s!" !{o}"))
  let rec go (s : MS) : List String → List String
    | [] => []
    | w :: rest =>
      match compileOp (words w) with
      | none => ["bad-case"]
      | some os =>
        let r := os.foldl (fun (acc : List MS × MS) op =>
          let st := step acc.2 op
          (acc.1 ++ st.1, st.2)) ([], s)
        showState r.2 r.1 :: go r.2 rest
  ";".intercalate (go s0 ((fields ops ";").filter (· ≠ "")))

def handle (line : String) : String :=
  match (clean line).splitOn "|" with
  | ["W", _, cls, mode, access, _] => handleW (clean cls) (clean mode) (clean access)
  | ["A", holds, ops] => handleA holds ops
  | ["P", decls, hist, copies] => handleP decls hist copies
  | ["T", ops] => handleT ops
  | ["R", cfg, ops] => handleR cfg ops
  | ["H", _, counts, acts] => handleH counts acts
  | ["D", outer] => handleD outer
  | ["N", outer, ownerMeta] => handleN outer ownerMeta
  | ["N", outer, ownerMeta, _] => handleN outer ownerMeta
  | ["U", behs, items] => handleU behs items
  | ["U", behs, items, _] => handleU behs items
  | _ => "bad-case"

end TraitsVerif.Driver.Persist

def main : IO Unit := TraitsVerif.Proto.runLines TraitsVerif.Driver.Persist.handle
