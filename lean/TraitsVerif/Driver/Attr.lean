/-
Line-protocol driver for the `attr` cluster (C02: kind `a2`, C10: kind `a10`).

  a2|<trait>|<pool>|<handlers>|op;op;…      →   res ; res ; …
  a10|<pool>|<classes>|<handlers>|op;op;…   →   res ; res ; …

Run:  lake env lean --run TraitsVerif/Driver/Attr.lean
The formats are documented in harness/props/c02.py and harness/props/c10.py.
-/
import TraitsVerif.Driver.Proto
import TraitsVerif.Model.SetAttr
namespace TraitsVerif.Driver.Attr
open TraitsVerif TraitsVerif.Model.Attr TraitsVerif.Proto

def kvs (field : String) : List (String × String) :=
  (words field).filterMap fun w =>
    match w.splitOn "=" with
    | k :: rest => if rest.isEmpty then none else some (k, "=".intercalate rest)
    | [] => none

def look (m : List (String × String)) (k : String) : String :=
  ((m.find? (·.1 == k)).map (·.2)).getD "-"

def nat? (s : String) : Option Nat := (clean s).toNat?

def natList (s : String) : List Nat :=
  if clean s = "-" then [] else (fields s ",").filterMap nat?

def parseTri : Char → Tri
  | 'y' => .yes
  | 'n' => .no
  | _ => .raises

def mkTable (s : String) : Id → Id → Tri :=
  let rows : Array (Array Tri) := ((s.splitOn "/").map fun r => (r.toList.map parseTri).toArray).toArray
  fun a b => ((rows[a]?).bind (·[b]?)).getD .no

/-- `o` ok · `r` raises · `k<n>` raises at ordinal n · `x` unregisters itself · `x<n>` at ordinal n -/
def parseBeh (s : String) : Nat → Except Exc HAct :=
  let s := clean s
  if s = "o" then fun _ => .ok .stay
  else if s = "r" then fun _ => .error .runtimeError
  else if s = "x" then fun _ => .ok .removeSelf
  else if s.startsWith "k" then
    let k := ((s.drop 1).toString.toNat?).getD 0
    fun n => if n = k then .error .runtimeError else .ok .stay
  else if s.startsWith "x" then
    let k := ((s.drop 1).toString.toNat?).getD 0
    fun n => if n = k then .ok .removeSelf else .ok .stay
  else fun _ => .ok .stay

def mkHandlers (s : String) : Nat → Callback (Id × Id) HAct :=
  let behs : Array (Nat → Except Exc HAct) := ((fields s ",").map parseBeh).toArray
  fun h n _ => match behs[h]? with
    | some f => f n
    | none => .ok .stay

/-- validator table: per pool id `=` same · `T` TraitError · `E` ValueError · `<id>` map -/
def mkValidate (tab : String) (vk : String) : Callback Id Id :=
  let ents : Array String := (fields tab ",").toArray
  let k := nat? vk
  fun n v =>
    if k = some n then .error .traitError
    else match ents[v]? with
      | none => .error .traitError
      | some e =>
        if e = "=" then .ok v
        else if e = "T" then .error .traitError
        else if e = "E" then .error .valueError
        else match e.toNat? with
          | some w => .ok w
          | none => .error .traitError

def mkPost (p : String) : Callback Id Unit :=
  if p.startsWith "k" then
    let k := ((p.drop 1).toString.toNat?).getD 0
    fun n _ => if n = k then .error .runtimeError else .ok ()
  else fun _ _ => .ok ()

def parseCMode (s : String) : CMode :=
  match clean s with
  | "0" => .none
  | "1" => .identity
  | _ => .equality

/-- factory table: `id:spec,…` with spec `e<v>` existing · `f<a.b.c>` fresh flat container ·
`t<a.b>` fresh tuple whose first element is a fresh container of `a.b` and second the atom 0 · `r` raises -/
def mkFactory (s : String) : Id → Callback Id FRes :=
  let ents : List (Nat × String) := (fields s ",").filterMap fun e =>
    match e.splitOn ":" with
    | [i, sp] => (nat? i).map (·, sp)
    | _ => none
  fun f _ _ =>
    match ents.find? (·.1 == f) with
    | none => .error .typeError
    | some (_, sp) =>
      let body := (sp.drop 1).toString
      let xs : List Nat := if body = "" then [] else (body.splitOn ".").filterMap String.toNat?
      if sp.startsWith "e" then .ok (.existing (xs.headD 0))
      else if sp.startsWith "f" then .ok (.fresh (xs.map .atom))
      else if sp.startsWith "t" then .ok (.fresh [.inner xs, .atom noneId])
      else .error .runtimeError

def mkEnv (pool handlers : List (String × String)) (validate : Nat → Callback Id Id)
    (post : Nat → Callback Id Unit) (factory : Id → Callback Id FRes) : Env :=
  { cmp := { eqv := mkTable (look pool "eq"), neq := mkTable (look pool "ne") }
    validate := validate
    post := post
    factory := factory
    handler := mkHandlers (look handlers "H")
    veto := fun v => (natList (look pool "veto")).contains v
    reraiseLegacy := look handlers "RL" == "1"
    reraiseObserve := look handlers "RO" == "1" }

/-! ### C02 -/

def parseOp (s : String) : Option Op :=
  match words s with
  | ["set", v] => (nat? v).map .set
  | ["ctor", v] => (nat? v).map .set
  | ["del"] => some .del
  | ["get"] => some .get
  | ["setq", v] => (nat? v).map .setq
  | ["rd", h, p] => (nat? h).map (.regDyn · (p == "1"))
  | ["ird", h] => (nat? h).map (.regDyn · false)
  | ["ud", h] => (nat? h).map .unregDyn
  | ["ra", h, p] => (nat? h).map (.regAny · (p == "1"))
  | ["ua", h] => (nat? h).map .unregAny
  | ["ro", h] => (nat? h).map .regObs
  | ["iro", h] => (nat? h).map .regObs
  | ["uo", h] => (nat? h).map .unregObs
  | _ => none

def showOptId : Option Id → String
  | none => "-"
  | some v => toString v

def showLen : Option (List Notifier) → String
  | none => "-"
  | some l => toString l.length

def showCall (c : Call) : String := s!"{c.h}:{c.old}>{c.new}"

def showStep (before : OSt) (r : Res × OSt) : String :=
  let s := r.2
  let head := match r.1.exc with
    | some e => s!"err {e.name}"
    | none => "ok"
  let calls := (s.ctx.log.drop before.ctx.log.length).map showCall
  let posts := (s.ctx.postLog.drop before.ctx.postLog.length).map (fun p => toString p.2)
  s!"{head} v={showOptId r.1.val} s={showOptId s.slot} i={if s.it.isSome then 1 else 0} n={showLen s.tn},{showLen s.on} c=[{",".intercalate calls}] p=[{",".intercalate posts}]"

def showTrace : OSt → List (Res × OSt) → List String
  | _, [] => []
  | b, r :: rs => showStep b r :: showTrace r.2 rs

def handleC02 (tf pf hf opsf : String) : String :=
  let T := kvs tf
  let P := kvs pf
  let H := kvs hf
  let vt := look T "V"
  let E := mkEnv P H (fun _ => mkValidate vt (look T "VK")) (fun _ => mkPost (look T "P")) (fun _ _ _ => .error .typeError)
  let kind : Kind := if look T "K" == "E" then .event else .trait
  let base : TraitCore :=
    { kind := kind
      flags := mkFlags (parseCMode (look T "C")) (look T "O" == "1") (look T "Q" == "1")
      validate := if vt == "-" then none else some 0
      post := if look T "P" == "-" then none else some 0
      dvt := Generated.CONSTANT_DEFAULT_VALUE
      dv := nat? (look T "D") }
  let shape := look T "Z"
  let start : Option (TraitCore × Ctx) :=
    if shape == "s" then
      match cloneDefault E base ((nat? (look T "D2")).getD noneId) {} with
      | (.ok t, c) => some (t, c)
      | (.error _, _) => none
    else if shape == "t" then some ({ base with flags := clearCmp base.flags }, {})
    else some (base, {})
  match start, (fields opsf ";").mapM parseOp with
  | some (t, c), some ops =>
    let statics := (fields (look H "S") ",").filterMap fun s => ((s.drop 1).toString.toNat?)
    let s0 : OSt :=
      { cn := if statics.isEmpty then none else some (statics.map fun h => ⟨.static, h, 1⟩)
        ctx := c }
    " ; ".intercalate (showTrace s0 (runTrace E t s0 ops))
  | _, _ => "bad-case"

def handle (line : String) : String :=
  match (clean line).splitOn "|" with
  | ["a2", tf, pf, hf, ops] => handleC02 tf pf hf ops
  | _ => "bad-case"

end TraitsVerif.Driver.Attr

def main : IO Unit := TraitsVerif.Proto.runLines TraitsVerif.Driver.Attr.handle
