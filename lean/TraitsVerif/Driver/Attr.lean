/-
Line-protocol driver for the `attr` cluster (C02: kind `a2`, C10: kind `a10`).

  a2|<trait>|<pool>|<handlers>|op;op;…      →   res ; res ; …
  a10|<pool>|<classes>|<handlers>|op;op;…   →   res ; res ; …   (header P=<i.j>: call ordinals at which the
      `post_setattr` hook of `pa<k>` members raises RuntimeError)

Run:  lake env lean --run TraitsVerif/Driver/Attr.lean
The formats are documented in harness/props/c02.py and harness/props/c10.py.
-/
import TraitsVerif.Driver.Proto
import TraitsVerif.Model.SetAttr
namespace TraitsVerif.Driver.Attr
open TraitsVerif TraitsVerif.Model.Attr TraitsVerif.Proto

def kvs (field : String) : List (String × String) :=
  (words field).filterMap fun w =>
    match w.splitOn "=" with
    | k :: rest => if rest.isEmpty then none else some (k, "=".intercalate rest)
    | [] => none

def look (m : List (String × String)) (k : String) : String :=
  ((m.find? (·.1 == k)).map (·.2)).getD "-"

def nat? (s : String) : Option Nat := (clean s).toNat?

def natList (s : String) : List Nat :=
  if clean s = "-" then [] else (fields s ",").filterMap nat?

def parseTri : Char → Tri
  | 'y' => .yes
  | 'n' => .no
  | _ => .raises

def mkTable (s : String) : Id → Id → Tri :=
  let rows : Array (Array Tri) := ((s.splitOn "/").map fun r => (r.toList.map parseTri).toArray).toArray
  fun a b => ((rows[a]?).bind (·[b]?)).getD .no

/-- `o` ok · `r` raises · `k<n>` raises at ordinal n · `x` unregisters itself · `x<n>` at ordinal n -/
def parseBeh (s : String) : Nat → Except Exc HAct :=
  let s := clean s
  if s = "o" then fun _ => .ok .stay
  else if s = "r" then fun _ => .error .runtimeError
  else if s.startsWith "e" then fun _ => .error .runtimeError      -- raises one of a richer set of exceptions
  else if s = "x" then fun _ => .ok .removeSelf
  else if s.startsWith "k" then
    let k := ((s.drop 1).toString.toNat?).getD 0
    fun n => if n = k then .error .runtimeError else .ok .stay
  else if s.startsWith "x" then
    let k := ((s.drop 1).toString.toNat?).getD 0
    fun n => if n = k then .ok .removeSelf else .ok .stay
  else fun _ => .ok .stay

def mkHandlers (s : String) : Nat → Callback (Id × Id) HAct :=
  let behs : Array (Nat → Except Exc HAct) := ((fields s ",").map parseBeh).toArray
  fun h n _ => match behs[h]? with
    | some f => f n
    | none => .ok .stay

/-- validator table: per pool id `=` same · `T` TraitError · `E` ValueError · `<id>` map -/
def mkValidate (tab : String) (vk : String) : Callback Id Id :=
  let ents : Array String := (fields tab ",").toArray
  let k := nat? vk
  fun n v =>
    if k = some n then .error .traitError
    else match ents[v]? with
      | none => .error .traitError
      | some e =>
        if e = "=" then .ok v
        else if e = "T" then .error .traitError
        else if e = "E" then .error .valueError
        else match e.toNat? with
          | some w => .ok w
          | none => .error .traitError

def mkPost (p : String) : Callback Id Unit :=
  if p.startsWith "k" then
    let k := ((p.drop 1).toString.toNat?).getD 0
    fun n _ => if n = k then .error .runtimeError else .ok ()
  else fun _ _ => .ok ()

def parseCMode (s : String) : CMode :=
  match clean s with
  | "0" => .none
  | "1" => .identity
  | _ => .equality

/-- factory table `k:spec,…` (callable id = 1000 + k) with spec
`e<v>` existing atom · `f<a.b.c>` fresh flat container · `t<a>` fresh pair (fresh empty container, atom a) ·
`r[TVAR]` raises (TraitError / ValueError / AttributeError / RuntimeError; default RuntimeError) ·
`y<TVAR><a.b>` raises when its call ordinal (number of earlier factory calls of the case) is even, else a fresh
container `[a, b]`.  An upper-case letter marks a factory the harness cannot instrument (its calls are not printed). -/
def factoryBase : Nat := 1000

def parseDots (s : String) : List Nat :=
  if s = "" then [] else (s.splitOn ".").filterMap String.toNat?

def factoryTable (s : String) : List (Nat × String) :=
  if clean s = "-" then [] else
  (fields s ",").filterMap fun e =>
    match e.splitOn ":" with
    | [i, sp] => (nat? i).map (·, sp)
    | _ => none

def mkFactory (s : String) : Id → Callback Id FRes :=
  let ents := factoryTable s
  let excOf (l : String) : Exc :=
    if l == "T" then .traitError else if l == "V" then .valueError else if l == "A" then .attributeError
    else .runtimeError
  fun f n _ =>
    match ents.find? (fun e => e.1 + factoryBase == f) with
    | none => .error .typeError
    | some (_, sp) =>
      let xs := parseDots (sp.drop 1).toString
      let c := (sp.take 1).toString.toLower
      if c == "e" then .ok (.existing (xs.headD 0))
      else if c == "f" then .ok (.fresh (xs.map .atom))
      else if c == "t" then .ok (.fresh [.inner [], .atom (xs.headD 0)] true)
      else if c == "y" then
        if n % 2 == 0 then .error (excOf ((sp.drop 1).take 1).toString)
        else .ok (.fresh ((parseDots (sp.drop 2).toString).map .atom))
      else .error (excOf ((sp.drop 1).take 1).toString)

def mkEnv (pool handlers : List (String × String)) (validate : Nat → Callback Id Id)
    (post : Nat → Callback Id Unit) (factory : Id → Callback Id FRes) : Env :=
  { cmp := { eqv := mkTable (look pool "eq"), neq := mkTable (look pool "ne") }
    validate := validate
    post := post
    factory := factory
    handler := mkHandlers (look handlers "H")
    veto := fun v => (natList (look pool "veto")).contains v
    reraiseLegacy := look handlers "RL" == "1"
    reraiseObserve := look handlers "RO" == "1" }

/-! ### C02 -/

def parseOp (s : String) : Option Op :=
  match words s with
  | ["set", v] => (nat? v).map .set
  | ["ctor", v] => (nat? v).map .set
  | ["del"] => some .del
  | ["get"] => some .get
  | ["setq", v] => (nat? v).map .setq
  | ["rd", h, p] => (nat? h).map (.regDyn · (p == "1"))
  | ["prd", h] => (nat? h).map (.regDyn · false)     -- @on_trait_change(..., post_init=True): attached after the
  | ["pro", h] => (nat? h).map .regObs                -- @observe(..., post_init=True):   initial state is set
  | ["ird", h] => (nat? h).map (.regDyn · false)
  | ["ird", h, _] => (nat? h).map (.regDyn · false)      -- decorated method with a magic name: same registration
  | ["ud", h] => (nat? h).map .unregDyn
  | ["ra", h, p] => (nat? h).map (.regAny · (p == "1"))
  | ["ua", h] => (nat? h).map .unregAny
  -- the owner of a bound-method handler is deleted: its weak reference's callback (`listener_deleted`) takes the
  -- wrapper out of the list it sits in
  | ["kd", h] => (nat? h).map .unregDyn
  | ["ka", h] => (nat? h).map .unregAny
  | ["ro", h] => (nat? h).map .regObs
  | ["iro", h] => (nat? h).map .regObs
  | ["iro", h, _] => (nat? h).map .regObs
  | ["uo", h] => (nat? h).map .unregObs
  | _ => none

/-- Shape `Z=m` (one CTrait object bound to several names of the class): `sib <name> <v>` assigns an accepted
value to ANOTHER name sharing the definition.  The attribute under test is a different attribute of the object:
nothing of its state moves and none of its handlers is called (`none` = such a step). -/
def parseOpSib (s : String) : Option (Option Op) :=
  match words s with
  | ["sib", _, v] => (nat? v).map fun _ => none
  | _ => (parseOp s).map some

def runTraceSib (E : Env) (t : TraitCore) : OSt → List (Option Op) → List (Res × OSt)
  | _, [] => []
  | s, none :: ops => ({}, s) :: runTraceSib E t s ops
  | s, some op :: ops =>
    let r := step E t s op
    r :: runTraceSib E t r.2 ops

def showOptId : Option Id → String
  | none => "-"
  | some v => toString v

def showLen : Option (List Notifier) → String
  | none => "-"
  | some l => toString l.length

def showCall (c : Call) : String := s!"{c.h}:{c.old}>{c.new}"

def showStep (before : OSt) (r : Res × OSt) : String :=
  let s := r.2
  let head := match r.1.exc with
    | some e => s!"err {e.name}"
    | none => "ok"
  let calls := (s.ctx.log.drop before.ctx.log.length).map showCall
  let posts := (s.ctx.postLog.drop before.ctx.postLog.length).map (fun p => toString p.2)
  s!"{head} v={showOptId r.1.val} s={showOptId s.slot} i={if s.it.isSome then 1 else 0} n={showLen s.tn},{showLen s.on} c=[{",".intercalate calls}] p=[{",".intercalate posts}]"

def showTrace : OSt → List (Res × OSt) → List String
  | _, [] => []
  | b, r :: rs => showStep b r :: showTrace r.2 rs

def handleC02 (tf pf hf opsf : String) : String :=
  let T := kvs tf
  let P := kvs pf
  let H := kvs hf
  let vt := look T "V"
  let E := mkEnv P H (fun _ => mkValidate vt (look T "VK")) (fun _ => mkPost (look T "P")) (fun _ _ _ => .error .typeError)
  let kind : Kind := if look T "K" == "E" then .event else .trait
  let base : TraitCore :=
    { kind := kind
      flags := mkFlags (parseCMode (look T "C")) (look T "O" == "1") (look T "Q" == "1")
      validate := if vt == "-" then none else some 0
      post := if look T "P" == "-" then none else some 0
      dvt := Generated.CONSTANT_DEFAULT_VALUE
      dv := nat? (look T "D") }
  let shape := look T "Z"
  let start : Option (TraitCore × Ctx) :=
    if shape == "s" then
      match cloneDefault E base ((nat? (look T "D2")).getD noneId) {} with
      | (.ok t, c) => some (t, c)
      | (.error _, _) => none
    else if shape == "t" then some (base, {})     -- the same TraitType instance bound to a second name
    else if shape == "m" then some (base, {})     -- the same CTrait object bound to several names, each with its own
                                                  -- static handlers: the final pass of update_traits_class_dict clones it
                                                  -- per name, so the attribute has its own definition (flags kept)
    else some (base, {})
  match start, (fields opsf ";").mapM parseOpSib with
  | some (t, c), some ops =>
    let statics := (fields (look H "S") ",").filterMap fun s => ((s.drop 1).toString.toNat?)
    let s0 : OSt :=
      { cn := if statics.isEmpty then none else some (statics.map fun h => ⟨.static, h, 1⟩)
        ctx := c }
    " ; ".intercalate (showTrace s0 (runTraceSib E t s0 ops))
  | _, _ => "bad-case"

/-! ### C10 -/

/-- Builder state while reading the class declarations. -/
structure CB where
  classes : List ClassRec := []
  ctx : Ctx := {}

def anyCore : TraitCore := { dvt := Generated.CONSTANT_DEFAULT_VALUE, dv := some noneId }

/-- A member code → (member, own `_name_default`), allocating templates.  `k<j>` names the reusable trait
definition number `j` of the case (one CTrait object bound to several names / classes / added to several
instances): definitions are values in the model, so it stands for its own code (`c<v>` or `fa<k>`). -/
def parseMember (shared : List (Nat × String)) (code0 : String) (c : Ctx) : Option (Option Member × Ctx) :=
  let code : String :=
    if code0.startsWith "k" then
      match ((code0.drop 1).toString.toNat?).bind (fun j => (shared.find? (·.1 == j)).map (·.2)) with
      | some c => c
      | none => "?"
    else code0
  let two := (code.take 2).toString
  let one := (code.take 1).toString
  let rest1 := (code.drop 1).toString
  let rest2 := (code.drop 2).toString
  let copyKind (dvt : Nat) (v : Option Nat) (body : String) : Option (Option Member × Ctx) :=
    let (i, c') := c.newContainer (parseDots body)
    some (some (.trait { dvt := dvt, dv := some i, validate := v }), c')
  if code == "i" then some (none, c)
  else if code == "o" then
    some (some (.trait { dvt := Generated.OBJECT_DEFAULT_VALUE, dv := none, validate := some 1 }), c)
  else if two == "al" then copyKind Generated.LIST_COPY_DEFAULT_VALUE none rest2
  else if two == "ad" then copyKind Generated.DICT_COPY_DEFAULT_VALUE none rest2
  else if two == "fa" then
    (rest2.toNat?).map fun k =>
      (some (.trait { dvt := Generated.CALLABLE_AND_ARGS_DEFAULT_VALUE, dv := some (factoryBase + k) }), c)
  else if two == "tl" then
    -- legacy `Trait(list)`: a per-object copy of the empty list; accepts lists only
    copyKind Generated.LIST_COPY_DEFAULT_VALUE (some 0) ""
  else if two == "td" then
    -- legacy `Trait(dict)`: a per-object copy of the empty dict; accepts dicts only
    copyKind Generated.DICT_COPY_DEFAULT_VALUE (some 0) ""
  else if two == "pa" then
    -- Any(factory=F[k]) with a `post_setattr` hook (post number 0: raises at the call ordinals of the header's P=)
    (rest2.toNat?).map fun k =>
      (some (.trait { dvt := Generated.CALLABLE_AND_ARGS_DEFAULT_VALUE, dv := some (factoryBase + k), post := some 0 }), c)
  else if two == "vl" || two == "vd" then
    let (i, c') := c.newContainer (parseDots rest2)
    some (some (.value i), c')
  else if one == "n" then
    -- n<form><class><a.b>: the default kind is INFERRED from the default value (`_infer_default_value_type`): an
    -- instance of list or of a list subclass gives a per-object list copy, of dict or a dict subclass (OrderedDict,
    -- defaultdict, Counter, …) a per-object dict copy; the trait accepts containers only
    let cls := ((code.drop 2).take 1).toString
    copyKind (if cls == "l" || cls == "h" then Generated.LIST_COPY_DEFAULT_VALUE else Generated.DICT_COPY_DEFAULT_VALUE)
      (some 0) (code.drop 3).toString
  else if one == "c" then (rest1.toNat?).map fun v => (some (.trait { anyCore with dv := some v }), c)
  else if one == "v" then (rest1.toNat?).map fun v => (some (.value v), c)
  else if one == "L" then copyKind Generated.TRAIT_LIST_OBJECT_DEFAULT_VALUE (some 0) rest1
  else if one == "D" then copyKind Generated.TRAIT_DICT_OBJECT_DEFAULT_VALUE (some 0) rest1
  else if one == "S" then copyKind Generated.TRAIT_SET_OBJECT_DEFAULT_VALUE (some 0) rest1
  else if one == "T" then
    (rest1.toNat?).map fun k =>
      (some (.trait { dvt := Generated.CALLABLE_DEFAULT_VALUE, dv := some (factoryBase + k), validate := some 0 }), c)
  else if one == "U" then
    (rest1.toNat?).map fun k =>
      (some (.trait { dvt := Generated.CALLABLE_DEFAULT_VALUE, dv := some (factoryBase + k), validate := some 1 }), c)
  else none

/-- `name=member[~k][/hK]` -/
def parseDecl (shared : List (Nat × String)) (base : Option ClassRec) (s : String) (c : Ctx) : Option (Decl × Ctx) :=
  match s.splitOn "=" with
  | [n, rhs] =>
    let (rhs1, hs) := match rhs.splitOn "/h" with
      | [a, b] => (a, b.toNat?)
      | _ => (rhs, none)
    let (code, dflt) := match rhs1.splitOn "~" with
      | [a, b] => (a, b.toNat?)
      | _ => (rhs1, none)
    match nat? n, parseMember shared code c with
    | some name, some (m, c') =>
      let inherited : List Nat := match base.bind (·.get name) with
        | some ct => ((ct.ctrait.notifiers.getD []).filter (·.kind == .static)).map (·.h)
        | none => []
      let statics := match hs with
        | some h => [h]
        | none => inherited
      some ({ name := name, member := m, default := dflt.map (factoryBase + ·), statics := statics }, c')
    | _, _ => none
  | _ => none

def parseDecls (shared : List (Nat × String)) (base : Option ClassRec) : List String → Ctx → Option (List Decl × Ctx)
  | [], c => some ([], c)
  | s :: ss, c =>
    match parseDecl shared base s c with
    | none => none
    | some (d, c1) =>
      match parseDecls shared base ss c1 with
      | none => none
      | some (ds, c2) => some (d :: ds, c2)

def buildClasses (E : Env) (shared : List (Nat × String)) : List String → CB → Option CB
  | [], b => some b
  | s :: ss, b =>
    match s.splitOn ":" with
    | [bs, ds] =>
      let base : Option ClassRec := (nat? bs).bind (b.classes[·]?)
      match parseDecls shared base (fields ds ",") b.ctx with
      | none => none
      | some (decls, c1) =>
        match buildClass E base decls c1 with
        | (.ok k, c2) => buildClasses E shared ss { classes := b.classes ++ [k], ctx := c2 }
        | (.error _, _) => none
    | _ => none

def parseWOp (shared : List (Nat × String)) (s : String) : Option WOp :=
  match words s with
  | ["new", k] => (nat? k).map .new
  | ["get", i, n] => do pure (.get (← nat? i) (← nat? n))
  | ["set", i, n, v] => do pure (.set (← nat? i) (← nat? n) (← nat? v))
  | ["mut", i, n, x] => do pure (.mutate (← nat? i) (← nat? n) (← nat? x))
  | ["mui", i, n, x] => do pure (.mutateInner (← nat? i) (← nat? n) (← nat? x))
  | ["rd", i, n, h] => do pure (.regDyn (← nat? i) (← nat? n) (← nat? h))
  | ["ro", i, n, h] => do pure (.regObs (← nat? i) (← nat? n) (← nat? h))
  | ["ra", i, h] => do pure (.regAny (← nat? i) (← nat? h))
  | ["del", i, n] => do pure (.del (← nat? i) (← nat? n))
  | ["rst", i, n] => do pure (.del (← nat? i) (← nat? n))     -- obj.reset_traits(["<name>"])
  | ["q1", i] => do pure (.query (← nat? i))
  | ["at", i, n, code] =>
    -- only members that allocate nothing: c<v>, fa<k>
    match parseMember shared code {} with
    | some (some (.trait t), _) => do pure (.addTrait (← nat? i) (← nat? n) t)
    | _ => none
  | _ => none

/-- Render a value: pool atoms `p<k>`, everything else `@id@`, containers with their
contents (atoms sorted, then inner containers), two levels deep. -/
def showVal (N : Nat) (heap : List (Id × List Id)) (v : Id) : String :=
  let tok (x : Id) : String := if x < N then s!"p{x}" else s!"@{x}@"
  let flat (xs : List Id) : String :=
    let atoms := ((xs.filter (· < N)).mergeSort (· ≤ ·)).map tok
    let others := (xs.filter (fun x => !(x < N))).map fun x =>
      match heapGet heap x with
      | some ys => s!"{tok x}[{",".intercalate (((ys.filter (· < N)).mergeSort (· ≤ ·)).map tok ++ (ys.filter (fun y => !(y < N))).map tok)}]"
      | none => tok x
    ",".intercalate (atoms ++ others)
  match heapGet heap v with
  | some xs => s!"{tok v}[{flat xs}]"
  | none => tok v

def showInst (N : Nat) (w : World) (idx : Nat) (o : Inst) : String :=
  let names : List Name := match w.classes[o.cls]? with
    | some k => k.traits.map (·.1)
    | none => []
  let names := names.mergeSort (· ≤ ·)
  let slots := names.map fun n =>
    match assocGet o.dict n with
    | some v => s!"{n}={showVal N w.ctx.heap v}"
    | none => s!"{n}=-"
  let its := ((o.itraits.map (·.1)).mergeSort (· ≤ ·)).map toString
  let lens := names.map fun n => showLen ((w.traitOf o n).bind (·.notifiers))
  s!"I{idx}({",".intercalate slots};it={".".intercalate its};n={".".intercalate lens};on={showLen o.on})"

def showWorld (N : Nat) (w : World) : String :=
  " ".intercalate ((w.insts.zipIdx).map fun p => showInst N w p.2 p.1)

def showWStep (N : Nat) (silent : List Nat) (before : World) (r : Res × World) : String :=
  let w := r.2
  let head := match r.1.exc with
    | some e => s!"err {e.name}"
    | none => "ok"
  let idxOf (oid : Id) : String :=
    match w.insts.zipIdx.find? (fun p => p.1.oid == oid) with
    | some p => toString p.2
    | none => "?"
  let val := match r.1.val with
    | some v => showVal N w.ctx.heap v
    | none => "-"
  let calls := (w.ctx.log.drop before.ctx.log.length).map fun c =>
    s!"{idxOf c.obj}:{c.h}:{showVal N w.ctx.heap c.old}>{showVal N w.ctx.heap c.new}"
  let fc := ((w.ctx.fcalls.drop before.ctx.fcalls.length).map (fun f => f.1 - factoryBase)).filter
    (fun k => !silent.contains k)
  s!"{head} v={val} c=[{",".intercalate calls}] f=[{",".intercalate (fc.map toString)}] :: {showWorld N w}"

def showWTrace (N : Nat) (silent : List Nat) : World → List (Res × World) → List String
  | _, [] => []
  | b, r :: rs => showWStep N silent b r :: showWTrace N silent r.2 rs

/-- Replace `@id@` by `#k`, k = order of first appearance in the line. -/
def renumber (s : String) : String :=
  let parts := s.splitOn "@"
  let rec go (ps : List String) (odd : Bool) (seen : List String) (acc : List String) : List String :=
    match ps with
    | [] => acc.reverse
    | p :: rest =>
      if odd then
        match seen.findIdx? (· == p) with
        | some i => go rest false seen (s!"#{i}" :: acc)
        | none => go rest false (seen ++ [p]) (s!"#{seen.length}" :: acc)
      else go rest true seen (p :: acc)
  "".intercalate (go parts false [] [])

def handleC10 (pf ff cf hf opsf : String) : String :=
  let P := kvs pf
  let N := (nat? (look P "n")).getD 3
  let validate : Nat → Callback Id Id := fun k _ v =>
    if v ≥ N then .ok v                       -- freshly built containers are accepted unchanged
    else if k == 1 && v == noneId then .ok v
    else .error .traitError
  let ftab := look (kvs ff) "F"
  let E : Env :=
    { cmp := { eqv := fun a b => if a == b then .yes else .no, neq := fun a b => if a == b then .no else .yes }
      validate := validate
      post := fun _ ord _ => if (parseDots (look P "P")).contains ord then .error .runtimeError else .ok ()
      factory := mkFactory ftab
      handler := mkHandlers (look (kvs hf) "H")
      veto := fun _ => false
      reraiseLegacy := false
      reraiseObserve := false
      warnError := look P "W" == "1" }
  let shared := factoryTable (look (kvs ff) "K")
  let silent := (factoryTable ftab).filterMap fun e =>
    if (e.2.take 1).toString != (e.2.take 1).toString.toLower then some e.1 else none
  match buildClasses E shared (fields ((cf.drop 2).toString) ";") { ctx := { alloc := N } },
        (fields opsf ";").mapM (parseWOp shared) with
  | some b, some ops =>
    let w0 : World := { classes := b.classes, ctx := b.ctx }
    renumber (" ; ".intercalate (showWTrace N silent w0 (World.runTrace E w0 ops)))
  | _, _ => "bad-case"

def handle (line : String) : String :=
  match (clean line).splitOn "|" with
  | ["a2", tf, pf, hf, ops] => handleC02 tf pf hf ops
  | ["a10", pf, ff, cf, hf, ops] => handleC10 pf ff cf hf ops
  | _ => "bad-case"

end TraitsVerif.Driver.Attr

def main : IO Unit := TraitsVerif.Proto.runLines TraitsVerif.Driver.Attr.handle
