/-
Line-protocol driver for the `sync` cluster (property C20); the protocol is
described in harness/props/synclib.py.
  sy|kx:ky:kl:km,…|cmd;cmd;…      →   record ; record ; …
Run:  lake env lean --run TraitsVerif/Driver/Sync.lean
-/
import TraitsVerif.Driver.Proto
import TraitsVerif.Model.SyncLive
namespace TraitsVerif.Driver.Sync
open TraitsVerif TraitsVerif.Py TraitsVerif.Model TraitsVerif.Model.Sync TraitsVerif.Model.PyLSync
  TraitsVerif.Model.SyncLive TraitsVerif.Proto

/-- Harness values: an int, or the str of an int. -/
inductive DV where
  | int (n : Int)
  | str (n : Int)
  deriving DecidableEq

def DV.key : DV → Int
  | .int n => n
  | .str n => n

def showDV : DV → String
  | .int n => toString n
  | .str n => "s" ++ toString n

def showAVal : AVal DV → String
  | .s x => showDV x
  | .l xs => "[" ++ ",".intercalate (xs.map showDV) ++ "]"

/-- The trait kinds of synclib.make_trait. -/
def kindV (k : String) : Callback DV DV := fun _ v =>
  match k, v with
  | "int", .int n => .ok (.int n)
  | "str", .str n => .ok (.str n)
  | "cint", .int n => .ok (.int n)
  | "cint", .str n => .ok (.int n)
  | "rng", .int n => if -3 ≤ n ∧ n ≤ 3 then .ok (.int n) else .error .traitError
  | "mod7", .int n => .ok (.int (n % 7))
  | "inc", .int n => .ok (.int (n + 1))
  | _, _ => .error .traitError

/-- `list.sort(key=k, reverse=r)` on the ints a list trait holds (spec = 2*k + r, keys as
in Driver/Seq.lean; stable, `reverse=True` keeps ties in original order). -/
def sortKey (k : Nat) (x : Int) : Int :=
  match k with
  | 1 => x % 3
  | 2 => Int.fdiv x 2
  | 3 => -x
  | _ => x

def pySort (spec : Nat) (l : List DV) : List DV :=
  let key := fun (v : DV) => sortKey (spec / 2) v.key
  if spec % 2 = 1 then (l.reverse.mergeSort (fun a b => key a ≤ key b)).reverse
  else l.mergeSort (fun a b => key a ≤ key b)

/-- A declared trait of an object's class: name, is it a `List` trait, kind of the
trait (of the items, for a `List` trait). -/
structure Decl where
  name : String
  isList : Bool
  kind : String
  /-- how the class comes by a List trait and its default (synclib.FLAVOURS); only the default matters here -/
  flavour : String := ""

/-- `kx:ky:kl:km` (traits x, y and List traits l, m) or `name=kind:name=*kind:…`
(`*` marks a `List` trait; names are opaque). -/
def parseObj (s : String) : List Decl :=
  let parts := (s.splitOn ":").map clean
  if parts.any (fun t => t.contains '=') then
    parts.filterMap (fun t =>
      match t.splitOn "=" with
      | [n, k] =>
        if k.startsWith "*" then
          match (k.drop 1).toString.splitOn "+" with
          | [kk, fl] => some ⟨n, true, kk, fl⟩
          | _ => some ⟨n, true, (k.drop 1).toString, ""⟩
        else some ⟨n, false, k, ""⟩
      | _ => none)
  else
    (["x", "y", "l", "m"].zip parts).map (fun (n, k) => ⟨n, n = "l" || n = "m", k, ""⟩)

def declOf (specs : List (List Decl)) (p : Pair) : Option Decl :=
  match specs[p.1]? with
  | none => none
  | some ds => ds.find? (fun d => d.name = p.2)

def kindOf (specs : List (List Decl)) (p : Pair) : String := ((declOf specs p).map (·.kind)).getD "?"

def isListOf (specs : List (List Decl)) (p : Pair) : Bool := ((declOf specs p).map (·.isList)).getD false

def mkEnv (specs : List (List Decl)) : Sync.Env DV :=
  { isList := isListOf specs,
    sv := fun p => kindV (kindOf specs p),
    iv := fun p => kindV (kindOf specs p),
    eq := fun a b => a == b,
    sort := pySort }

/-- The default of a List trait: `[1,2]` when a `_name_default` method (dm, ds) or a subclass
override by value (so) supplies it and the items are valid for the kind, `[]` otherwise. -/
def defaultList (d : Decl) : List DV :=
  if (d.flavour = "dm" || d.flavour = "ds" || d.flavour = "so") &&
     (d.kind = "int" || d.kind = "cint" || d.kind = "rng" || d.kind = "mod7") then [.int 1, .int 2] else []

def initWorld (specs : List (List Decl)) : World DV :=
  { val := fun p =>
      match declOf specs p with
      | some d => if d.isList then .l (defaultList d)
                  else if d.kind = "str" then .s (.str 0) else .s (.int 0)
      | none => .s (.int 0),
    nChg := fun _ => 0, nItems := fun _ => 0, edges := [], locked := [], hooked := [] }

def parseSlice (a b c : String) : Option Slice := do
  let a ← optInt? a; let b ← optInt? b; let c ← optInt? c
  pure ⟨a, b, c⟩

def dvList? (s : String) : Option (List DV) := (intList? s).map (·.map DV.int)

/-- An iterable argument of a list method: `[1,2]`, or the same behind a one-letter marker
of the Python iterable kind (`g` generator, `t` tuple, `i` iterator; seqlib.parse_list).
Every override converts it to a concrete list first, so the model ignores the marker. -/
def iterList? (s : String) : Option (List DV) :=
  let s := clean s
  if s.startsWith "g" || s.startsWith "t" || s.startsWith "i" then dvList? (s.drop 1).toString
  else dvList? s

def parseOp (ws : List String) : Option (Op DV) :=
  match ws with
  | ["si", i, x] => do pure (.setIdx (← int? i) (.int (← int? x)))
  | ["ss", a, b, c, xs] => do pure (.setSlice (← parseSlice a b c) (← iterList? xs))
  | ["di", i] => do pure (.delIdx (← int? i))
  | ["ds", a, b, c] => do pure (.delSlice (← parseSlice a b c))
  | ["ap", x] => do pure (.append (.int (← int? x)))
  | ["ex", xs] => do pure (.extend (← iterList? xs))
  | ["ia", xs] => do pure (.iadd (← iterList? xs))
  | ["im", n] => do pure (.imul (← int? n))
  | ["in", i, x] => do pure (.insert (← int? i) (.int (← int? x)))
  | ["po", i] => do pure (.pop (← int? i))
  | ["rm", x] => do pure (.remove (.int (← int? x)))
  | ["cl"] => some .clear
  | ["rv"] => some .reverse
  | ["so"] => some (.sort 0)
  | ["sk", k, r] => do pure (.sort (2 * (← k.toNat?) + (← r.toNat?)))
  | _ => none

def parseVal (s : String) : Option (AVal DV) :=
  let s := clean s
  if s.startsWith "[" then (dvList? s).map .l
  else if s.startsWith "s" then (int? (s.drop 1).toString).map (fun n => .s (.str n))
  else (int? s).map (fun n => .s (.int n))

inductive DCmd where
  | cmd (objs : List Nat) (c : Cmd DV)
  | kill (o : Nat)
  /-- `kd o n v`: when trait `n` of object `o` is notified, drop the last reference to object `v` -/
  | arm (p : Pair) (o : Nat)

def parseCmd (s : String) : Option DCmd :=
  match words s with
  | ["as", o, n, v] => do
    let o ← o.toNat?
    pure (.cmd [o] (.assign (o, n) (← parseVal v)))
  | "mu" :: o :: n :: rest => do
    let o ← o.toNat?
    pure (.cmd [o] (.mutate (o, n) (← parseOp rest)))
  | ["li", o, n, o2, n2, m] => do
    let o ← o.toNat?; let o2 ← o2.toNat?
    pure (.cmd [o, o2] (.link (o, n) (o2, n2) (m = "1")))
  | ["un", o, n, o2, n2, m] => do
    let o ← o.toNat?; let o2 ← o2.toNat?
    pure (.cmd [o, o2] (.unlink (o, n) (o2, n2) (m = "1")))
  | ["ki", o] => do pure (.kill (← o.toNat?))
  | ["kd", o, n, v] => do pure (.arm ((← o.toNat?), n) (← v.toNat?))
  | _ => none

def digit (n : Nat) : String := toString (min n 9)

def showObj (specs : List (List Decl)) (w : World DV) (dead : List Nat) (o : Nat) : String :=
  if o ∈ dead then "dead"
  else
    let ds := (specs[o]?).getD []
    let lk := (ds.filter (fun d => (o, d.name) ∈ w.locked)).map (·.name)
    let c := String.join ((ds.map (fun d => digit (w.nChg (o, d.name)))) ++
      ((ds.filter (·.isList)).map (fun d => digit (w.nItems (o, d.name)))))
    ",".intercalate (ds.map (fun d => s!"{d.name}={showAVal (w.val (o, d.name))}")) ++
    s!",c={c},k={if lk.isEmpty then "-" else "+".intercalate lk}"

def showRes (r : ResK DV) : String :=
  match r.exc, r.ret with
  | some e, _ => s!"err:{e.name}"
  | none, some x => s!"ok={showDV x}"
  | none, none => "ok"

def showAll (specs : List (List Decl)) (n : Nat) (k : KWorld DV) : String :=
  " ".intercalate ((List.range n).map (showObj specs k.w k.dead))

def runCmds (E : Sync.Env DV) (specs : List (List Decl)) (n : Nat) : KWorld DV → List DCmd → List String
  | _, [] => []
  | k, c :: cs =>
    let k0 : KWorld DV := { k with w := { k.w with nChg := fun _ => 0, nItems := fun _ => 0 }, swallowed := 0 }
    match c with
    | .kill o =>
      let k' := (stepK E k0 (.cmd (.kill o))).world
      s!"ok r0 {showAll specs n k'}" :: runCmds E specs n k' cs
    | .arm p o =>
      if p.1 ∈ k.dead || p.1 ≥ n then "skip" :: runCmds E specs n k cs
      else
        let k' := (stepK E k0 (.arm p o)).world
        s!"ok r0 {showAll specs n k'}" :: runCmds E specs n k' cs
    | .cmd objs c =>
      if objs.any (fun o => o ∈ k.dead || o ≥ n) then "skip" :: runCmds E specs n k cs
      else
        let r := stepK E k0 (.cmd c)
        s!"{showRes r} r{min r.world.swallowed 9} {showAll specs n r.world}" :: runCmds E specs n r.world cs

def handle (line : String) : String :=
  match (clean line).splitOn "|" with
  | [kind, specs, cmds] =>
    if clean kind ≠ "sy" then "bad-case"
    else
      let specs := (fields specs ",").map parseObj
      match (fields cmds ";").mapM parseCmd with
      | none => "bad-case"
      | some cs => " ; ".intercalate (runCmds (mkEnv specs) specs specs.length { w := initWorld specs } cs)
  | _ => "bad-case"

end TraitsVerif.Driver.Sync

def main : IO Unit := TraitsVerif.Proto.runLines TraitsVerif.Driver.Sync.handle
