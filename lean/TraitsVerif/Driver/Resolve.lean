/-
Line-protocol driver for the `resolve` cluster (C13).
  res|op;op;…      →   res ; res ; …
  cls <C> <base,base|-> <attr=Spec,…|->    new <o> <C>
  get <o> .<name>   set <o> .<name> <val>   del <o> .<name>
  add <o> .<name> <Spec>   rem <o> .<name>   trt <o> .<name> <mode>
  hook <o> .<prefix> <Spec>     (a trait_added listener: add_trait(new, Spec) for names starting with prefix)
  Spec = Kind[:val]@tag   val = n | u | i<int> | s<chars>
Run:  lake env lean --run TraitsVerif/Driver/Resolve.lean
-/
import TraitsVerif.Driver.Proto
import TraitsVerif.Model.Resolve
namespace TraitsVerif.Driver.Resolve
open TraitsVerif TraitsVerif.Model.Resolve TraitsVerif.Proto

def parseVal (s : String) : Option Val :=
  if s = "n" then some .none
  else if s = "u" then some .undef
  else if s.startsWith "i" then (int? (s.drop 1).toString).map .int
  else if s.startsWith "s" then some (.str (s.drop 1).toString)
  else none

def showVal : Val → String
  | .none => "n"
  | .undef => "u"
  | .int n => s!"i{n}"
  | .str s => s!"s{s}"
  | .obj i => s!"o{i}"

/-- `.xyz` → name; `.` → the empty name. -/
def parseName (s : String) : Option Name :=
  if s.startsWith "." then some (s.drop 1).toString.toList else none

def showName (n : Name) : String := "." ++ String.ofList n

/-- `Kind[:val]@tag`.  Validator 0 = Int, 1 = Str (see `env`).  `Deleg` is
`DelegatesTo('dg')` with `dg` left at `None`: reads end in AttributeError,
writes in DelegationError (`env.delegGet` / `delegSet`). -/
def parseSpec (s : String) : Option Trait :=
  match s.splitOn "@" with
  | [body, tag] =>
    match tag.toNat? with
    | none => none
    | some tag =>
      let (k, dv) : String × Option (Option Val) :=
        match body.splitOn ":" with
        | [k] => (k, some none)
        | [k, v] => (k, (parseVal v).map some)
        | _ => ("", none)
      match dv with
      | none => none
      | some dv =>
        match k with
        | "Any" => some { kind := .trait, dflt := dv.getD .none, tag := tag }
        | "Int" => some { kind := .trait, dflt := dv.getD (.int 0), validator := some 0, tag := tag }
        | "Str" => some { kind := .trait, dflt := dv.getD (.str ""), validator := some 1, tag := tag }
        | "RO" => some { kind := .readonly, dflt := dv.getD .undef, tag := tag }
        | "Const" => some { kind := .constant, dflt := dv.getD .none, tag := tag }
        | "Ev" => some { kind := .event, dflt := .undef, tag := tag }
        | "EvInt" => some { kind := .event, dflt := .undef, validator := some 0, tag := tag }
        | "Dis" => some { kind := .disallow, dflt := .undef, tag := tag }
        | "Py" => some { kind := .python, dflt := .undef, tag := tag }
        | "Deleg" => some { kind := .delegate, dflt := .undef, tag := tag }
        | _ => none
  | _ => none

def env : Env :=
  { validate := fun i _ v =>
      match i, v with
      | 0, .int n => .ok (.int n)
      | 1, .str s => .ok (.str s)
      | _, _ => .error .traitError
    classAttr := fun _ => none
    delegGet := fun _ _ => .error .attributeError
    delegSet := fun _ _ => .error .traitError }

structure St where
  w : World
  cnames : List (String × Nat)
  onames : List (String × Nat)

def St.init : St :=
  { w := World.init, cnames := [("H", 0), ("S", 1), ("P", 2)], onames := [] }

def parseDecl (s : String) : Option (Name × Trait) :=
  match s.splitOn "=" with
  | [a, spec] => if a = "" then none else (parseSpec spec).map (fun t => (a.toList, t))
  | _ => none

def listField (s : String) : List String := if s = "-" then [] else fields s ","

def showTag : Option Trait → String
  | none => "-"
  | some t => toString t.tag

/-- `obj._trait(name, 0)` after the operation. -/
def gov (w : World) (oi : Nat) (n : Name) : String :=
  match w.objs[oi]? with
  | none => "-"
  | some o =>
    match w.classes[o.cls]? with
    | none => "-"
    | some c => showTag (trait0 c o n)

def showOut (w : World) (oi : Nat) (n : Name) : Except Exc Out → String
  | .error e => s!"err {e.name} g={gov w oi n}"
  | .ok .done => s!"ok g={gov w oi n}"
  | .ok (.val v) => s!"val {showVal v} g={gov w oi n}"
  | .ok (.bool b) => s!"bool {if b then "T" else "F"} g={gov w oi n}"
  | .ok (.trait t) => s!"trait {showTag t} g={gov w oi n}"
  | .ok (.cls _) => "ok"
  | .ok (.obj _) => "ok"

def objOp (st : St) (o : String) (n : String) (mk : Nat → Name → Option Op) : St × String :=
  match st.onames.lookup o, parseName n with
  | some oi, some n =>
    match mk oi n with
    | none => (st, "bad-op")
    | some op =>
      let r := step env st.w op
      ({ st with w := r.1 }, showOut r.1 oi n r.2)
  | none, some _ => (st, "bad-ref")
  | _, none => (st, "bad-op")

def hasDup : List Name → Bool
  | [] => false
  | x :: xs => xs.contains x || hasDup xs

def doOp (st : St) (s : String) : St × String :=
  match words s with
  | ["cls", cn, bases, decls] =>
    match (listField bases).mapM (fun b => st.cnames.lookup b), (listField decls).mapM parseDecl with
    | some bs, some ds =>
      if hasDup (ds.map (·.1)) then (st, "bad-op")
      else
        let r := step env st.w (.mkClass bs ds)
        match r.2 with
        | .ok (.cls i) =>
          let ps := match r.1.classes[i]? with
            | some c => c.prefixes.map (fun e => showName e.1)
            | none => []
          ({ st with w := r.1, cnames := (cn, i) :: st.cnames }, "ok " ++ ",".intercalate ps)
        | _ => (st, "bad-ref")
    | none, some _ => (st, "bad-ref")
    | _, none => (st, "bad-op")
  | ["new", on, cn] =>
    match st.cnames.lookup cn with
    | none => (st, "bad-ref")
    | some ci =>
      let r := step env st.w (.new ci)
      match r.2 with
      | .ok (.obj i) => ({ st with w := r.1, onames := (on, i) :: st.onames }, "ok")
      | _ => (st, "bad-ref")
  | ["get", o, n] => objOp st o n (fun oi n => some (.get oi n))
  | ["set", o, n, v] => objOp st o n (fun oi n => (parseVal v).map (.set oi n))
  | ["del", o, n] => objOp st o n (fun oi n => some (.del oi n))
  | ["add", o, n, spec] => objOp st o n (fun oi n => (parseSpec spec).map (.addTrait oi n))
  | ["rem", o, n] => objOp st o n (fun oi n => some (.removeTrait oi n))
  | ["trt", o, n, m] => objOp st o n (fun oi n => (int? m).map (.getTrait oi n))
  | ["hook", o, p, spec] => objOp st o p (fun oi p => (parseSpec spec).map (.hook oi p))
  | _ => (st, "bad-op")

def runOps : St → List String → List String
  | _, [] => []
  | st, s :: ss =>
    let r := doOp st s
    r.2 :: runOps r.1 ss

def handle (line : String) : String :=
  match (clean line).splitOn "|" with
  | [kind, ops] =>
    if clean kind = "res" then " ; ".intercalate (runOps St.init (fields ops ";"))
    else "bad-case"
  | _ => "bad-case"

end TraitsVerif.Driver.Resolve

def main : IO Unit := TraitsVerif.Proto.runLines TraitsVerif.Driver.Resolve.handle
