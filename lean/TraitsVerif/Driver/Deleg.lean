/-
Line-protocol driver for the `deleg` cluster (deferred traits); format in harness/props/deleglib.py.
  dg|classes|objects|validators|op;op;…      →   res ; res ; …
Run:  lake env lean --run TraitsVerif/Driver/Deleg.lean
-/
import TraitsVerif.Driver.Proto
import TraitsVerif.Model.Delegate
namespace TraitsVerif.Driver.Deleg
open TraitsVerif TraitsVerif.Model.Deleg TraitsVerif.Proto

def nm (s : String) : Name := s.toList
def str (n : Name) : String := String.ofList n

def parseAttr (s : String) : Option (Name × TraitDef) :=
  match s.splitOn "=" with
  | name :: rest =>
    let spec := "=".intercalate rest
    match spec.splitOn ":" with
    | ["T", vid, dflt] => do pure (nm name, .plain (← vid.toNat?) (← dflt.toInt?) .equality)
    | ["T", vid, dflt, c] => do
      let c ← match c with
        | "n" => some Cmp.none | "i" => some Cmp.identity | "e" => some Cmp.equality | _ => none
      pure (nm name, .plain (← vid.toNat?) (← dflt.toInt?) c)
    | ["D", raw] => some (nm name, .defer (mkDelegate (nm raw) true))
    | ["P", raw] => some (nm name, .defer (mkDelegate (nm raw) false))
    | _ => none
  | _ => none

/-- One class spec: own `__prefix__` (`-` none, `=text`), optional base class `^k`, own attributes. -/
def parseClsRaw (s : String) : Option (Option Name × Option Nat × List (Name × TraitDef)) :=
  match s.splitOn "," with
  | head :: attrs => do
    let (pfxS, base) ← match head.splitOn "^" with
      | [p] => some (p, none)
      | [p, b] => b.toNat?.map fun k => (p, some k)
      | _ => none
    let pfx ← if pfxS = "-" then some none
              else if pfxS.startsWith "=" then some (some (nm (pfxS.drop 1).toString)) else none
    let attrs ← (attrs.filter (· ≠ "")).mapM parseAttr
    let names := attrs.map (·.1)
    -- a class body is a dict: distinct names; `d` is the delegate reference attribute
    if names.eraseDups.length ≠ names.length ∨ names.contains (nm "d") then none else pure (pfx, base, attrs)
  | _ => none

/-- Resolve base classes (a base must be an earlier class of the line). -/
def resolveClasses : List (Option Name × Option Nat × List (Name × TraitDef)) → List Cls → Option (List Cls)
  | [], acc => some acc
  | (pfx, none, attrs) :: rest, acc => resolveClasses rest (acc ++ [⟨pfx, attrs⟩])
  | (pfx, some k, attrs) :: rest, acc =>
    match acc[k]? with
    | none => none
    | some b => resolveClasses rest (acc ++ [b.subclass pfx attrs])

def parseClasses (s : String) : Option (List Cls) := do
  let raws ← (s.splitOn "/").mapM parseClsRaw
  resolveClasses raws []

def parseValidator (s : String) : Option (Nat → Val → Except Exc Val) :=
  match s.splitOn ":" with
  | ["id"] => some (fun _ x => .ok x)
  | ["mod7"] => some (fun _ x => .ok (if x ≥ 100 then x else x % 7))
  | ["rejneg"] => some (fun _ x => if x < 0 then .error .traitError else .ok x)
  | ["oshift"] => some (fun _ x => .ok x)         -- an 'original value' trait: what is stored is the assigned value
  | ["int"] => some (fun _ x => .ok x)            -- a real `Int` trait: every value of the non-special pool is an int
  | ["range", lo, hi] =>                           -- a real `Range(lo, hi)` trait (C fast validator)
    match lo.toInt?, hi.toInt? with
    | some lo, some hi => some (fun _ x => if lo ≤ x ∧ x ≤ hi then .ok x else .error .traitError)
    | _, _ => none
  | ["failat", k, e] =>
    match k.toNat? with
    | some k => some (fun n x => if n = k then .error (Exc.ofName e) else .ok x)
    | none => none
  | _ => none

/-- The validators that also run while an object is restored / cloned: the REAL traits (`int`, `range`); the
custom TraitTypes of the harness accept stored values then. -/
def parseRealValidator (s : String) : Option (Nat → Val → Except Exc Val) :=
  match s.splitOn ":" with
  | ["range", _, _] => parseValidator s
  | _ => (parseValidator s).map fun _ => (fun _ x => .ok x)

/-- Python's `==` on the value pool of harness/props/deleglib.py (`EQCLASS`): tokens from 100 on are fixed
objects — 100 ↦ 1.0, 101 ↦ True, 102/103 two equal tuples, 104 ↦ 3.0, 105 ↦ 4.0, 106/107 two equal lists. -/
def eqClass (x : Val) : Val :=
  if x = 100 ∨ x = 101 then 1 else if x = 102 ∨ x = 103 then 1000 else if x = 104 then 3
  else if x = 105 then 4 else if x = 106 ∨ x = 107 then 1001 else x

def mkEnv (vs : List (Nat → Val → Except Exc Val)) : Env :=
  { validate := fun vid k x => match vs[vid]? with | some v => v k x | none => .ok x,
    eqv := fun a b => eqClass a == eqClass b }

/-- A history step of the line protocol: an operation of the model, or `cp` — the history continues on a
copy (`Pool.restore`). -/
inductive DOp where
  | op (o : Op)
  | copy (which : Option ObjId)
  | clone                             -- `cp A d`: copy.deepcopy of the whole pool

def parseOp (s : String) : Option DOp :=
  match words s with
  | ["st", o, n, v] => do pure (.op (.set (← o.toNat?) (nm n) (← int? v)))
  | ["dl", o, n] => do pure (.op (.del (← o.toNat?) (nm n)))
  | ["rd", o, n] => do pure (.op (.read (← o.toNat?) (nm n)))
  | ["sw", o, t] => do
    let t ← if t = "N" then some none else t.toNat?.map some
    pure (.op (.swap (← o.toNat?) t))
  | ["cp", "A", "p"] => some (.copy none)
  | ["cp", "A", "d"] => some .clone
  | ["cp", o, "c"] => do pure (.copy (some (← o.toNat?)))
  | _ => none

def opObjs : DOp → List Nat
  | .op (.set o _ _) => [o]
  | .op (.del o _) => [o]
  | .op (.read o _) => [o]
  | .op (.swap o t) => o :: t.toList
  | .copy w => w.toList
  | .clone => []

/-- Order of events in the canonical output: (object, name, old, new). -/
def evLe (a b : Event) : Bool :=
  if a.obj ≠ b.obj then a.obj < b.obj
  else if a.name ≠ b.name then str a.name < str b.name
  else if a.old ≠ b.old then a.old < b.old
  else a.new ≤ b.new

def showEvent (e : Event) : String := s!"{e.obj}.{str e.name}:{e.old}>{e.new}"

def showRead : Except Exc Val → String
  | .ok v => toString v
  | .error .attributeError => "!A"
  | .error .traitError => "!T"
  | .error _ => "!O"

def showSnapshot (p : Pool) : String :=
  "/".intercalate ((List.range p.size).map fun o =>
    ",".intercalate ((p.obj o).cls.traits.map fun (n, _) => showRead (read p p.fuel o n)))

def showForwarders (p : Pool) : String :=
  "/".intercalate ((List.range p.size).map fun o =>
    let names := ((p.obj o).cls.traits.map fun (n, _) => str n).mergeSort (fun a b => a ≤ b)
    "+".intercalate (names.filterMap fun n =>
      match (p.obj o).fwd (nm n) with
      | none => none
      | some none => some s!"{n}@-"
      | some (some h) => some s!"{n}@{h}"))

def showOut (s : StepOut) : String :=
  let res := match s.res with
    | .error e => s!"err {e.name}"
    | .ok none => "ok"
    | .ok (some v) => s!"ok {v}"
  let evs := ",".intercalate ((s.events.mergeSort evLe).map showEvent)
  s!"{res} E[{evs}] X{s.hookExc} S[{showSnapshot s.pool}] F[{showForwarders s.pool}]"

/-- The history with the cycle guard: an operation that would close a cycle is skipped. -/
def runGuarded (E R : Env) : Nat → Pool → List DOp → List String
  | _, _, [] => []
  | k, p, dop :: ops =>
    match dop with
    | .copy w =>
      if (match w with | some o => isDelegateOfOther p o | none => false) then "skip" :: runGuarded E R (k + 1) p ops
      else if p.restoreFails R w then showOut (fail p .traitError) :: runGuarded E R (k + 1) p ops
      else
        let p' := p.restore w
        showOut { pool := p', res := .ok none } :: runGuarded E R (k + 1) p' ops
    | .clone =>
      let p' := p.cloneAll R
      showOut { pool := p', res := .ok none } :: runGuarded E R (k + 1) p' ops
    | .op (.swap o t) =>
      if wouldCycle p o t then "skip" :: runGuarded E R (k + 1) p ops
      else let s := step E k p (.swap o t); showOut s :: runGuarded E R (k + 1) s.pool ops
    | .op op => let s := step E k p op; showOut s :: runGuarded E R (k + 1) s.pool ops

def handle (line : String) : String :=
  match (clean line).splitOn "|" with
  | [kind, classes, objects, validators, ops] =>
    if clean kind ≠ "dg" then "bad-case" else
    match parseClasses classes,
          (fields objects ",").mapM (·.toNat?),
          (fields validators ",").mapM parseValidator,
          (fields validators ",").mapM parseRealValidator,
          (fields ops ";").mapM parseOp with
    | some cs, some objs, some vs, some rvs, some ops =>
      match objs.mapM (fun i => cs[i]?) with
      | none => "bad-case"
      | some ocs =>
        let p := mkPool ocs
        if ops.any (fun op => (opObjs op).any (· ≥ p.size)) then "bad-case"
        else " ; ".intercalate (runGuarded (mkEnv vs) (mkEnv rvs) 0 p ops)
    | _, _, _, _, _ => "bad-case"
  | _ => "bad-case"

end TraitsVerif.Driver.Deleg

def main : IO Unit := TraitsVerif.Proto.runLines TraitsVerif.Driver.Deleg.handle
