/-
Line-protocol driver for the `val` cluster (C03, C01).

  v|env|traittype|value        → fast=<res> cmp=<res> py=<res>
  d|env|traittype|             → the descriptor `descOf` builds, rendered
  a|env|x:tt;y:tt;z:tt|op;op   → per op: <res> / <state>      (C01: assignment histories)
  p|-|-|value                  → the Py.Val model on one value (validated against CPython/numpy)
  q|-|value|value              → `==`

Terms are s-expressions (see harness/props/vallib.py for the twin printer/parser).
Run:  lake env lean --run TraitsVerif/Driver/Val.lean
-/
import TraitsVerif.Driver.Proto
import TraitsVerif.Model.PyValidate
import TraitsVerif.Model.Domain
import TraitsVerif.Model.Assign
import TraitsVerif.Model.CSrcRun
namespace TraitsVerif.Driver.Val
open TraitsVerif TraitsVerif.Py.Value TraitsVerif.Model.Val TraitsVerif.Proto

/-! ## s-expressions -/

inductive SExp where
  | atom (s : String)
  | list (xs : List SExp)
  deriving Repr, Inhabited

def tokenize (s : String) : List String :=
  let padded := (s.replace "(" " ( ").replace ")" " ) "
  (padded.splitOn " ").filter (· ≠ "")

partial def parseSeq : List String → List SExp → Option (List SExp × List String)
  | [], acc => some (acc.reverse, [])
  | ")" :: rest, acc => some (acc.reverse, ")" :: rest)
  | "(" :: rest, acc =>
    match parseSeq rest [] with
    | some (xs, ")" :: rest') => parseSeq rest' (SExp.list xs :: acc)
    | _ => none
  | t :: rest, acc => parseSeq rest (SExp.atom t :: acc)

def parseSExp (s : String) : Option SExp :=
  match parseSeq (tokenize s) [] with
  | some ([x], []) => some x
  | _ => none

def parseSExps (s : String) : Option (List SExp) :=
  match parseSeq (tokenize s) [] with
  | some (xs, []) => some xs
  | _ => none

/-! ## strings: %XX escapes -/

def hexVal (c : Char) : Nat :=
  if c.isDigit then c.toNat - '0'.toNat
  else if 'a' ≤ c ∧ c ≤ 'f' then c.toNat - 'a'.toNat + 10
  else if 'A' ≤ c ∧ c ≤ 'F' then c.toNat - 'A'.toNat + 10
  else 0

def decodeChars : List Char → List Char
  | '%' :: a :: b :: rest => Char.ofNat (hexVal a * 16 + hexVal b) :: decodeChars rest
  | c :: rest => c :: decodeChars rest
  | [] => []

def decodeStr (s : String) : String := String.ofList (decodeChars s.toList)

def hexDigit (n : Nat) : Char := if n < 10 then Char.ofNat (48 + n) else Char.ofNat (87 + n)

def encodeStr (s : String) : String :=
  String.ofList (s.toList.flatMap fun c =>
    if c.isAlphanum || c == '_' || c == '.' || c == '-' || c == '+' then [c]
    else ['%', hexDigit (c.toNat / 16 % 16), hexDigit (c.toNat % 16)])

/-! ## values -/

def parseF (s : String) : Option F :=
  match s with
  | "nan" => some .nan
  | "inf" => some .pinf
  | "-inf" => some .ninf
  | "-0" => some .negZero
  | _ => s.toInt?.map .fin

def showF : F → String
  | .nan => "nan" | .pinf => "inf" | .ninf => "-inf" | .negZero => "-0"
  | .fin q => toString q

def parseBool (s : String) : Option Bool :=
  match s with | "1" => some true | "0" => some false | _ => none

def showBool (b : Bool) : String := if b then "1" else "0"

def parseNats (xs : List SExp) : Option (List Nat) :=
  xs.mapM fun x => match x with | .atom s => s.toNat? | _ => none

def parseTy : SExp → Option Ty
  | .atom "str" => some .str | .atom "int" => some .int | .atom "float" => some .float
  | .atom "complex" => some .complex | .atom "bool" => some .bool | .atom "bytes" => some .bytes
  | .atom "list" => some .list | .atom "tuple" => some .tuple | .atom "dict" => some .dict
  | .atom "function" => some .function | .atom "method" => some .method | .atom "type" => some .type
  | .atom "NoneType" => some .noneType | .atom "module" => some .module | .atom "npbool" => some .npBool
  | .atom "object" => some .object
  | .list [.atom "u", .atom c] => c.toNat?.map .user
  | _ => none

def showTy : Ty → String
  | .str => "str" | .int => "int" | .float => "float" | .complex => "complex" | .bool => "bool"
  | .bytes => "bytes" | .list => "list" | .tuple => "tuple" | .dict => "dict" | .function => "function"
  | .method => "method" | .type => "type" | .noneType => "NoneType" | .module => "module"
  | .npBool => "npbool" | .object => "object" | .user c => s!"(u {c})"

def parsePRInt : SExp → Option (PR Int)
  | .list [.atom "ret", .atom n] => n.toInt?.map .ret
  | .list [.atom "exc", .atom e] => some (.raises (Exc.ofName e))
  | _ => none

def parsePRF : SExp → Option (PR F)
  | .list [.atom "ret", .atom f] => (parseF f).map .ret
  | .list [.atom "exc", .atom e] => some (.raises (Exc.ofName e))
  | _ => none

def parsePRC : SExp → Option (PR (F × F))
  | .list [.atom "ret", .atom a, .atom b] => do pure (.ret ((← parseF a), (← parseF b)))
  | .list [.atom "exc", .atom e] => some (.raises (Exc.ofName e))
  | _ => none

partial def parseVal : SExp → Option Val
  | .atom "N" => some Val.none
  | .list [.atom "b", .atom x] => (parseBool x).map Val.ofBool
  | .list [.atom "i", .atom n] => n.toInt?.map fun n => .atom (.int false n)
  | .list [.atom "is", .atom n] => n.toInt?.map fun n => .atom (.int true n)
  | .list [.atom "f", .atom f] => (parseF f).map fun f => .atom (.float false f)
  | .list [.atom "fs", .atom f] => (parseF f).map fun f => .atom (.float true f)
  | .list [.atom "c", .atom a, .atom b] => do pure (.atom (.complex false (← parseF a) (← parseF b)))
  | .list [.atom "cs", .atom a, .atom b] => do pure (.atom (.complex true (← parseF a) (← parseF b)))
  | .list [.atom "s"] => some (.atom (.str false ""))
  | .list [.atom "s", .atom s] => some (.atom (.str false (decodeStr s)))
  | .list [.atom "ss"] => some (.atom (.str true ""))
  | .list [.atom "ss", .atom s] => some (.atom (.str true (decodeStr s)))
  | .list [.atom "y"] => some (.atom (.bytes ""))
  | .list [.atom "y", .atom s] => some (.atom (.bytes (decodeStr s)))
  | .list [.atom "nb", .atom x] => (parseBool x).map fun b => .atom (.npBool b)
  | .list [.atom "ni", .atom bits, .atom n] => do pure (.atom (.npInt (← bits.toNat?) (← n.toInt?)))
  | .list [.atom "nf", .atom bits, .atom f] => do pure (.atom (.npFloat (← bits.toNat?) (← parseF f)))
  | .list [.atom "nc", .atom bits, .atom a, .atom b] => do
    pure (.atom (.npComplex (← bits.toNat?) (← parseF a) (← parseF b)))
  | .list [.atom "arr", .atom i] => i.toNat?.map fun i => .atom (.npArr i)
  | .list [.atom "nd", .atom d, .list sh] => do pure (.atom (.ndarray (← d.toNat?) (← parseNats sh)))
  | .list [.atom "idx", r] => (parsePRInt r).map fun r => .atom (.idx r)
  | .list [.atom "flt", r] => (parsePRF r).map fun r => .atom (.flt r)
  | .list [.atom "cpx", r] => (parsePRC r).map fun r => .atom (.cpx r)
  | .list [.atom "idxflt", r, q] => do pure (.atom (.idxflt (← parsePRInt r) (← parsePRF q)))
  | .list [.atom "inst", .atom c, .list mro, .list ad, .atom o] => do
    pure (.atom (.inst (← c.toNat?) (← parseNats mro) (← parseNats ad) (← o.toNat?)))
  | .list [.atom "cls", .atom c, .list mro] => do pure (.atom (.cls (← c.toNat?) (← parseNats mro)))
  | .list [.atom "ty", t] => (parseTy t).map fun t => .atom (.tyobj t)
  | .list [.atom "fn", .atom i] => i.toNat?.map fun i => .atom (.func i)
  | .list [.atom "meth", .atom i] => i.toNat?.map fun i => .atom (.method i)
  | .list [.atom "bfn", .atom i] => i.toNat?.map fun i => .atom (.builtinFn i)
  | .list [.atom "mod", .atom i] => i.toNat?.map fun i => .atom (.module i)
  | .list [.atom "obj", .atom i] => i.toNat?.map fun i => .atom (.obj i)
  | .list [.atom "badeq", .atom i] => i.toNat?.map fun i => .atom (.badEq i)
  | .list [.atom "dict", .atom i] => i.toNat?.map fun i => .atom (.dict i)
  | .list (.atom "t" :: xs) => (xs.mapM parseVal).map (.tuple false)
  | .list (.atom "ts" :: xs) => (xs.mapM parseVal).map (.tuple true)
  | .list (.atom "l" :: xs) => (xs.mapM parseVal).map .list
  | _ => none

def showNats (l : List Nat) : String := "(" ++ " ".intercalate (l.map toString) ++ ")"

def showPR {α} (f : α → String) : PR α → String
  | .ret x => s!"(ret {f x})"
  | .raises e => s!"(exc {e.name})"

def showStrPayload (tag s : String) : String :=
  if s = "" then s!"({tag})" else s!"({tag} {encodeStr s})"

def showAtom : Atom → String
  | .none => "N"
  | .bool b => s!"(b {showBool b})"
  | .int false n => s!"(i {n})"
  | .int true n => s!"(is {n})"
  | .float false f => s!"(f {showF f})"
  | .float true f => s!"(fs {showF f})"
  | .complex false a b => s!"(c {showF a} {showF b})"
  | .complex true a b => s!"(cs {showF a} {showF b})"
  | .str false s => showStrPayload "s" s
  | .str true s => showStrPayload "ss" s
  | .bytes s => showStrPayload "y" s
  | .npBool b => s!"(nb {showBool b})"
  | .npInt bits n => s!"(ni {bits} {n})"
  | .npFloat bits f => s!"(nf {bits} {showF f})"
  | .npComplex bits a b => s!"(nc {bits} {showF a} {showF b})"
  | .npArr i => s!"(arr {i})"
  | .ndarray d sh => s!"(nd {d} {showNats sh})"
  | .idx r => s!"(idx {showPR toString r})"
  | .flt r => s!"(flt {showPR showF r})"
  | .cpx r => s!"(cpx {showPR (fun (z : F × F) => showF z.1 ++ " " ++ showF z.2) r})"
  | .idxflt r q => s!"(idxflt {showPR toString r} {showPR showF q})"
  | .inst c mro ad o => s!"(inst {c} {showNats mro} {showNats ad} {o})"
  | .cls c mro => s!"(cls {c} {showNats mro})"
  | .tyobj t => s!"(ty {showTy t})"
  | .func i => s!"(fn {i})"
  | .method i => s!"(meth {i})"
  | .builtinFn i => s!"(bfn {i})"
  | .module i => s!"(mod {i})"
  | .obj i => s!"(obj {i})"
  | .badEq i => s!"(badeq {i})"
  | .dict i => s!"(dict {i})"

partial def showVal : Val → String
  | .atom a => showAtom a
  | .tuple false vs => "(" ++ " ".intercalate ("t" :: vs.map showVal) ++ ")"
  | .tuple true vs => "(" ++ " ".intercalate ("ts" :: vs.map showVal) ++ ")"
  | .list vs => "(" ++ " ".intercalate ("l" :: vs.map showVal) ++ ")"

def showRes : Res → String
  | .ok v => "ok " ++ showVal v
  | .traitError => "TraitError"
  | .raised e => "exc " ++ e.name

def parseRes : List SExp → Option (Except Exc Val)
  | [.atom "ok", v] => (parseVal v).map .ok
  | [.atom "exc", .atom e] => some (.error (Exc.ofName e))
  | _ => none

/-! ## trait types -/

def parseOptF : SExp → Option (Option F)
  | .atom "N" => some none
  | .atom f => (parseF f).map some
  | _ => none

def parseOptInt : SExp → Option (Option Int)
  | .atom "N" => some none
  | .atom n => n.toInt?.map some
  | _ => none

def parseOptNat : SExp → Option (Option Nat)
  | .atom "N" => some none
  | .atom n => n.toNat?.map some
  | _ => none

def sexpBool : SExp → Option Bool
  | .atom x => parseBool x
  | _ => none

def parsePairs (xs : List SExp) : Option (List Val × List Val) := do
  let ps ← xs.mapM fun x => match x with
    | .list [k, v] => do pure ((← parseVal k), (← parseVal v))
    | _ => none
  pure (ps.map (·.1), ps.map (·.2))

def parseStrPairs (xs : List SExp) : Option (List String × List Val) := do
  let ps ← xs.mapM fun x => match x with
    | .list [.atom k, v] => do pure (decodeStr k, (← parseVal v))
    | _ => none
  pure (ps.map (·.1), ps.map (·.2))

def parseDim : SExp → Option DimSpec
  | .atom "N" => some .any
  | .atom n => n.toNat?.map .exact
  | .list [.atom lo, hi] => do pure (.range (← lo.toNat?) (← parseOptNat hi))
  | _ => none

partial def parseTT : SExp → Option TraitType
  | .atom "Any" => some .any
  | .atom "Int" => some .int | .atom "Float" => some .float | .atom "Complex" => some .complex
  | .atom "Str" => some .str | .atom "Bytes" => some .bytes | .atom "Bool" => some .bool
  | .atom "CInt" => some .cint | .atom "CFloat" => some .cfloat | .atom "CComplex" => some .ccomplex
  | .atom "CStr" => some .cstr | .atom "CBytes" => some .cbytes | .atom "CBool" => some .cbool
  | .atom "Module" => some .module | .atom "TupleAny" => some .tupleAny | .atom "NoneT" => some .noneTrait
  | .list [.atom "Base", t] => (parseTT t).map .noFast
  | .list [.atom "RangeF", lo, hi, a, b] => do
    pure (.rangeF (← parseOptF lo) (← parseOptF hi) (← sexpBool a) (← sexpBool b))
  | .list [.atom "RangeI", lo, hi, a, b] => do
    pure (.rangeI (← parseOptInt lo) (← parseOptInt hi) (← sexpBool a) (← sexpBool b))
  | .list (.atom "Enum" :: vs) => (vs.mapM parseVal).map .enum
  | .list (.atom "Map" :: ps) => (parsePairs ps).map fun (k, v) => .map k v
  | .list (.atom "Tuple" :: ts) => (ts.mapM parseTT).map .tuple
  | .list (.atom "BaseTuple" :: ts) => (ts.mapM parseTT).map .baseTuple
  | .list (.atom "ValidatedTuple" :: fv :: ts) => do pure (.validatedTuple (← ts.mapM parseTT) (← parseOptNat fv))
  | .list [.atom "Instance", ty, an, .atom mode, d] => do
    pure (.instance (← parseTy ty) (← sexpBool an) (← mode.toNat?) (← parseVal d))
  | .list [.atom "Type", ty, an] => do pure (.type_ (← parseTy ty) (← sexpBool an))
  | .list [.atom "This", an] => (sexpBool an).map .this
  | .list [.atom "Callable", an] => (sexpBool an).map .callable
  | .list (.atom "Either" :: wn :: ts) => do pure (.either (← ts.mapM parseTT) (← sexpBool wn))
  | .list (.atom "TraitK" :: d :: .list cs :: ts) => do
    pure (traitMaker (← parseVal d) (← cs.mapM parseVal) (← ts.mapM parseTT))
  | .list (.atom "EitherK" :: .list cs :: ts) => do
    pure (traitMaker Val.none (← cs.mapM parseVal) (← ts.mapM parseTT))
  | .list (.atom "Union" :: ts) => (ts.mapM parseTT).map .union
  | .list [.atom "String", .atom mn, mx, re] => do
    pure (.string (← mn.toNat?) (← parseOptNat mx) (← parseOptNat re))
  | .list (.atom "PrefixList" :: ss) =>
    (ss.mapM fun (x : SExp) => match x with | SExp.atom s => some (decodeStr s) | _ => none).map .prefixList
  | .list (.atom "PrefixMap" :: ps) => (parseStrPairs ps).map fun (k, v) => .prefixMap k v
  | .list [.atom "Array", dt, sh, .atom c] => do
    let shape ← match sh with
      | .atom "N" => some none
      | .list dims => (dims.mapM parseDim).map some
      | _ => none
    pure (.array (← parseOptNat dt) shape (← c.toNat?))
  | .list [.atom "CoerceH", ty] => (parseTy ty).map .coerceH
  | .list [.atom "CastH", ty] => (parseTy ty).map .castH
  | .list [.atom "InstanceH", ty, an] => do pure (.instanceH (← parseTy ty) (← sexpBool an))
  | .list [.atom "FunctionH", .atom f] => f.toNat?.map .functionH
  | .list (.atom "EnumH" :: vs) => (vs.mapM parseVal).map .enumH
  | .list (.atom "MapH" :: ps) => (parsePairs ps).map fun (k, v) => .mapH k v
  | .list (.atom "CompoundH" :: ts) => (ts.mapM parseTT).map .compoundH
  | _ => none

/-! ## environment -/

/-- The user validator functions of the harness (twin: vallib.FUNCS). -/
def fnTable (f : Nat) (v : Val) : Except Exc Val :=
  match f with
  | 0 => .ok v                                              -- accepts everything unchanged
  | 1 =>                                                    -- non-negative exact ints, else TraitError
    match v with
    | .atom (.int false n) => if n ≥ 0 then .ok v else .error .traitError
    | _ => .error .traitError
  | 2 => .error .valueError                                 -- always raises ValueError
  | 3 =>                                                    -- strings → None, else TraitError
    match v with
    | .atom (.str _ _) => .ok Val.none
    | _ => .error .traitError
  | _ => .error .runtimeError

/-- `a < b` on exact ints / floats (exact comparison, as CPython); TypeError otherwise. -/
def numLt (a b : Val) : Except Exc Bool :=
  match a, b with
  | .atom (.int false m), .atom (.int false n) => .ok (decide (m < n))
  | .atom (.int false m), .atom (.float false f) => .ok (F.lt (.fin (4 * m)) f)
  | .atom (.float false f), .atom (.int false n) => .ok (F.lt f (.fin (4 * n)))
  | .atom (.float false f), .atom (.float false g) => .ok (F.lt f g)
  | _, _ => .error .typeError

/-- The `fvalidate` predicates of the harness (twin: vallib.PREDS). -/
def predTable (f : Nat) (w : Val) : Except Exc Bool :=
  match f, w with
  | 0, .tuple _ (a :: b :: _) => numLt a b                 -- lambda x: x[0] < x[1]
  | 0, _ => .error .indexError
  | _, _ => .ok true

/-- `adapt(value, cls, None)` in the harness world: the value itself when it
already is an instance, an adapter (class 9) when its class registered one. -/
def adaptFn (v : Val) (cls : Ty) : Except Exc (Option Val) :=
  if Val.isInst cls v then .ok (some v)
  else
    match v, cls with
    | .atom (.inst _ _ ad o), .user k =>
      if ad.contains k then .ok (some (.atom (.inst 9 [9] [] (1000 + o)))) else .ok none
    | _, _ => .ok none

structure RawEnv where
  asarrays : List (Val × Option Nat × Except Exc (Nat × List Nat)) := []
  cancasts : List (Nat × Nat × Nat × Bool) := []
  casts : List (Ty × Val × Except Exc Val) := []
  rxs : List (Nat × String × Bool) := []
  selfCls : Nat := 0

def parseEnv (s : String) : Option RawEnv := do
  let xs ← parseSExps s
  xs.foldlM (init := ({} : RawEnv)) fun env x =>
    match x with
    | .atom "-" => some env
    | .list (.atom "cast" :: ty :: v :: res) => do
      pure { env with casts := ((← parseTy ty), (← parseVal v), (← parseRes res)) :: env.casts }
    | .list [.atom "rx", .atom k, .atom s, b] => do
      pure { env with rxs := ((← k.toNat?), decodeStr s, (← sexpBool b)) :: env.rxs }
    | .list [.atom "rx", .atom k, b] => do
      pure { env with rxs := ((← k.toNat?), "", (← sexpBool b)) :: env.rxs }
    | .list [.atom "self", .atom c] => do pure { env with selfCls := (← c.toNat?) }
    | .list [.atom "asarray", v, dt, .atom "ok", .atom d, .list sh] => do
      pure { env with asarrays := ((← parseVal v), (← parseOptNat dt), .ok ((← d.toNat?), (← parseNats sh))) :: env.asarrays }
    | .list [.atom "asarray", v, dt, .atom "exc", .atom e] => do
      pure { env with asarrays := ((← parseVal v), (← parseOptNat dt), .error (Exc.ofName e)) :: env.asarrays }
    | .list [.atom "cancast", .atom a, .atom b, .atom c, ok] => do
      pure { env with cancasts := ((← a.toNat?), (← b.toNat?), (← c.toNat?), (← sexpBool ok)) :: env.cancasts }
    | _ => none

/-- A missing table entry is made visible (`Other`), never guessed. -/
def mkEnv (r : RawEnv) : Env :=
  { cast := fun t v =>
      match r.casts.find? (fun (t', v', _) => t' == t && v'.beq v) with
      | some (_, _, res) => res
      | none => .error .other
    fn := fnTable
    pred := predTable
    adapt := adaptFn
    selfCls := r.selfCls
    asarray := fun v dt =>
      match r.asarrays.find? (fun (v', dt', _) => v'.beq v && dt' == dt) with
      | some (_, _, res) => res
      | none => .error .other
    canCast := fun a b c =>
      match r.cancasts.find? (fun (a', b', c', _) => a' == a && b' == b && c' == c) with
      | some (_, _, _, ok) => ok
      | none => false
    rx := fun k s =>
      match r.rxs.find? (fun (k', s', _) => k' == k && s' == s) with
      | some (_, _, b) => b
      | none => false }

/-! ## descriptors, rendered -/

def showOptF : Option F → String
  | none => "N"
  | some f => showF f

partial def showDesc : Desc → String
  | .typeChk an ty => s!"(0 {showBool an} {showTy ty})"
  | .instChk an ty => s!"(1 {showBool an} {showTy ty})"
  | .selfType an => s!"(2 {showBool an})"
  | .floatRange lo hi m => s!"(4 {showOptF lo} {showOptF hi} {m})"
  | .enum vs => "(" ++ " ".intercalate ("5" :: vs.map showVal) ++ ")"
  | .map ks => "(" ++ " ".intercalate ("6" :: ks.map showVal) ++ ")"
  | .complex ds => "(" ++ " ".intercalate ("7" :: ds.map showDesc) ++ ")"
  | .slow _ => "(8)"
  | .tuple items => "(" ++ " ".intercalate ("9" :: items.map fun
      | none => "null"
      | some d => showDesc d) ++ ")"
  | .coerce ty rest => "(" ++ " ".intercalate ("11" :: showTy ty :: rest.map fun
      | none => "N"
      | some t => showTy t) ++ ")"
  | .cast ty => s!"(12 {showTy ty})"
  | .function f => s!"(13 {f})"
  | .python _ => "(14)"
  | .adapt cls mode an _ => s!"(19 {showTy cls} {mode} {showBool an})"
  | .int => "(20)"
  | .float => "(21)"
  | .callable none => "(22)"
  | .callable (some b) => s!"(22 {showBool b})"
  | .complexNumber => "(23)"

/-! ## case kinds -/

/-- Loop bound for the interpreted source text (descriptor tuples of the harness are far shorter). -/
def srcFuel : Nat := 64

/-- The hand-written model next to the interpretation of the translated C source text
(Model/CSrcRun.lean): equal (modulo `norm`) on every case, or the line says so.  Inner
traits of a Tuple validate with the model (`fastAlone`); `default_value_for` of a compound
is taken to be None (finding F49: such members are not generated inside compounds). -/
def srcTag (src : Option Res) (model : Res) : String :=
  if src == some (Model.CSrc.norm model) then "" else "SRC-MISMATCH "

def handleV (E : Env) (tt : TraitType) (v : Val) : String :=
  let d := descOf E tt
  let fast := match d with
    | some d =>
      (match d with
       | .slow _ => ""
       | _ => srcTag (Model.CSrc.srcAlone E (fastAlone E) Val.none srcFuel d v) (fastAlone E d v)) ++
      showRes (fastAlone E d v)
    | none => "-"
  let cmp := match d with
    | some d =>
      if complexCaseLabels.contains d.kind && d.kind ≠ 8 then
        srcTag (Model.CSrc.srcFn E (fastAlone E) Val.none srcFuel "validate_trait_complex" (.complex [d]) v)
          (fastInCompound E d v) ++
        showRes (fastInCompound E d v)
      else "-"
    | none => "-"
  let py := if hasPy tt then showRes (pyValidate E tt v) else "-"
  s!"fast={fast} cmp={cmp} py={py}"

def showTri : Tri → String
  | .yes => "yes" | .no => "no" | .raises e => "raises " ++ e.name

def showExcept {α} (f : α → String) : Except Exc α → String
  | .ok x => f x
  | .error e => "exc " ++ e.name

def allTys : List Ty :=
  [.str, .int, .float, .complex, .bool, .bytes, .list, .tuple, .dict, .function, .method, .type,
   .noneType, .module, .npBool, .user 0, .user 1, .user 2, .user 3, .user 4]

def handleP (v : Val) : String :=
  let bits (f : Ty → Bool) := String.ofList (allTys.map fun t => if f t then '1' else '0')
  s!"idx={showExcept toString (index v)} flt={showExcept showF (asDouble v)} " ++
  s!"cpx={showExcept (fun (z : F × F) => showF z.1 ++ "," ++ showF z.2) (asComplex v)} " ++
  s!"hash={showBool v.hashable} call={showBool v.callable} inst={bits (Val.isInst · v)} exact={bits (Val.exactTy · v)}"

/-- `name:tt;name:tt;…` -/
def parseDecls (s : String) : Option (List (String × TraitType)) :=
  (fields s ";").mapM fun f =>
    match f.splitOn ":" with
    | [n, t] => do pure (clean n, (← parseTT (← parseSExp t)))
    | _ => none

def parseOp (s : String) : Option (String × String × Val) :=
  match (clean s).splitOn " " with
  | kind :: name :: rest => do pure (kind, name, (← parseVal (← parseSExp (" ".intercalate rest))))
  | _ => none

def showState (st : Assign.State) : String :=
  " ".intercalate (st.map fun (n, v) => s!"{n}={showVal v}")

def handleA (E : Env) (decls : List (String × TraitType)) (ops : List (String × String × Val)) : String :=
  let cls : Assign.ClassDef := decls
  let rec go (st : Assign.State) : List (String × String × Val) → List String
    | [] => []
    | (kind, name, v) :: rest =>
      -- `new`: constructor keyword on a fresh object; `set` / `tset` / `qset` (trait_set with
      -- trait_change_notify=False) / `setq` (trait_setq): the same setattr path
      let st0 := if kind = "new" then [] else st
      match Assign.assign E cls st0 name v with
      | .error e => (if e == .traitError then "TraitError" else "exc " ++ e.name) :: go st rest
      | .ok st' => ("ok " ++ showState st') :: go st' rest
  " ; ".intercalate (go [] ops)

def handle (line : String) : String :=
  match (clean line).splitOn "|" with
  | [kind, env, a, b] =>
    match clean kind with
    | "v" =>
      match parseEnv env, parseSExp a >>= parseTT, parseSExp b >>= parseVal with
      | some r, some tt, some v => handleV (mkEnv r) tt v
      | _, _, _ => "bad-case"
    | "d" =>
      match parseEnv env, parseSExp a >>= parseTT with
      | some r, some tt =>
        match descOf (mkEnv r) tt with
        | some d => showDesc d
        | none => "none"
      | _, _ => "bad-case"
    | "a" =>
      match parseEnv env, parseDecls a, (fields b ";").mapM parseOp with
      | some r, some decls, some ops => handleA (mkEnv r) decls ops
      | _, _, _ => "bad-case"
    | "p" =>
      match parseSExp b >>= parseVal with
      | some v => handleP v
      | none => "bad-case"
    | "q" =>
      match parseSExp a >>= parseVal, parseSExp b >>= parseVal with
      | some x, some y => showTri (Val.pyEq x y)
      | _, _ => "bad-case"
    | _ => "bad-case"
  | _ => "bad-case"

end TraitsVerif.Driver.Val

def main : IO Unit := TraitsVerif.Proto.runLines TraitsVerif.Driver.Val.handle
