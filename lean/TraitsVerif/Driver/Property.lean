/-
Line-protocol driver for the C12 model (observed / cached properties).

  case  :=  shape | nobjects | step ; step ; …
  shape :=  expr cached variant static ra rv rp getter undef fail [inherit [extras]]
            expr    paths joined by '+'; a path is letters joined by '.':
                    links i (inst) k (kids.items) b (byname.items);
                    leaf v (value) a (aux) I (inst) K (kids.items) B (byname.items) T (tags.items)
                         Xn Xi Xe (Any traits with comparison_mode none / identity / equality)
            cached  0|1          variant o (observe=) | l (depends_on=)
            static  0|1  class-level listener `_p_changed`
            ra rv   0|1  static reader on root.aux / root.value (runs before the property's observer)
            rp      0|1  reader on root.value attached with the dynamic listeners (runs after the property's
                         observer; the generator keeps histories in which root.value only becomes a
                         dependency after `at` out of the comparison, see harness/props/c12.py rebuild())
            getter  V (serialised view) | S (lossy sum) | F (None / 0 / '' / [] / sum, by sum % 5)
            undef   0|1 (S returns Undefined when sum % 5 = 3)
            fail    - | k:Exc   (the k-th getter call on an object raises Exc)
            inherit - | bu | b2 | bc | rd  how the class hierarchy declares the property (base uncached / sub
                    cached, the same over two levels, base cached / sub uncached, redeclared with another
                    expression in the subclass); `expr` and `cached` are the EFFECTIVE ones, which is all the
                    model needs: the field is ignored here
            extras  - | letters: A = class-level `_anytrait_changed` listener; S / T = the property has a
                    setter `_set_p(self, value)` / `_set_p(self, name, value)` that writes the value to
                    `value` of the first object the first `…v` path selects (root.aux when no path ends in
                    `v`); V = declared `Property(Int, …)` (validated before the setter runs)
                    (D = dynamic defaults returning shared objects: implementation + oracle only, never sent here)
  step  :=  sv o f x | si o t | sk o [ids] | mk o op [ids] e | sb o {k:id,…} | mb o op {…} e
          | st o [ints] | mt o op [ints] e | rd | at [kind] | dt [kind] | cp kind | K w/w/…
          | sp x (root.p = x; x = bad: a string) | dp (del root.p)
          | mf o slot how [items] contents   (a container call whose LAST item is rejected: raises TraitError,
            the container keeps `contents`; prints `-`)
            at / dt kind: t on_trait_change(h, 'p') | o observe(h, 'p') | n on_trait_change(h) (no name:
            object-level) ; without kind: t and o together (and the `rp` reader)
  out   :=  per step:  read c<calls> x[nested] s[static notes] t[otc notes] o[observe notes]
                       n[name-less on_trait_change notes] y[_anytrait_changed notes]

Run:  lake env lean --run TraitsVerif/Driver/Property.lean
-/
import TraitsVerif.Driver.Proto
import TraitsVerif.Model.Property
namespace TraitsVerif.Driver.Property
open TraitsVerif TraitsVerif.Proto TraitsVerif.Model.Property

def parseLink : String → Option Link
  | "i" => some .inst
  | "k" => some .kids
  | "b" => some .byname
  | _ => none

def parseLeaf : String → Option Slot
  | "v" => some (.scalar .value)
  | "a" => some (.scalar .aux)
  | "Xn" => some (.scalar .xn)
  | "Xi" => some (.scalar .xi)
  | "Xe" => some (.scalar .xe)
  | "Xm" => some (.scalar .xm)
  | "I" => some .inst
  | "K" => some .kids
  | "B" => some .byname
  | "T" => some .tags
  | _ => none

def parsePath (s : String) : Option Path :=
  match (s.splitOn ".").reverse with
  | [] => none
  | leaf :: revLinks => do
    let leaf ← parseLeaf leaf
    let links ← revLinks.reverse.mapM parseLink
    pure ⟨links, leaf⟩

def parseExpr (s : String) : Option Expr := (s.splitOn "+").mapM parsePath

def bool? : String → Option Bool
  | "0" => some false
  | "1" => some true
  | _ => none

def optId? (s : String) : Option (Option Nat) :=
  if clean s = "N" then some none else (clean s).toNat?.map some

def natList? (s : String) : Option (List Nat) := do
  let l ← intList? s
  l.mapM (fun i => if i < 0 then none else some i.toNat)

/-- `{1:2,3:4}` -/
def dict? (s : String) : Option (List (Int × Nat)) :=
  let s := clean s
  if s.length < 2 then none
  else
    let inner := ((s.drop 1).dropEnd 1).toString
    if clean inner = "" then some []
    else (inner.splitOn ",").mapM (fun kv =>
      match kv.splitOn ":" with
      | [k, v] => do pure ((← int? k), (← (clean v).toNat?))
      | _ => none)

/-! ### getters: `viewGetter` / `sumGetter` of the model file -/

structure Shape where
  E : Expr
  cached : Bool
  legacy : Bool
  static : Bool
  ra : Bool
  rv : Bool
  rp : Bool
  getter : String
  undef : Bool
  fail : Option (Nat × Exc)
  staticAny : Bool := false
  setN : Option Nat := none
  validated : Bool := false

def parseFail (s : String) : Option (Option (Nat × Exc)) :=
  if s = "-" then some none
  else match s.splitOn ":" with
    | [k, e] => k.toNat?.map (fun k => some (k, Exc.ofName e))
    | _ => none

def parseShape10 (e c v sl ra rv rp g u f : String) : Option Shape := do
  let E ← parseExpr e
  let legacy ← (match v with | "o" => some false | "l" => some true | _ => none)
  let g ← (if g = "V" ∨ g = "S" ∨ g = "F" then some g else none)
  pure { E := E, cached := ← bool? c, legacy := legacy, static := ← bool? sl, ra := ← bool? ra,
         rv := ← bool? rv, rp := ← bool? rp, getter := g, undef := ← bool? u, fail := ← parseFail f }

def parseShape (s : String) : Option Shape :=
  match words s with
  | [e, c, v, sl, ra, rv, rp, g, u, f] => parseShape10 e c v sl ra rv rp g u f
  | [e, c, v, sl, ra, rv, rp, g, u, f, inh] =>
    if inh = "-" ∨ inh = "bu" ∨ inh = "b2" ∨ inh = "bc" ∨ inh = "rd" then parseShape10 e c v sl ra rv rp g u f
    else none
  | [e, c, v, sl, ra, rv, rp, g, u, f, inh, ex] =>
    if (inh = "-" ∨ inh = "bu" ∨ inh = "b2" ∨ inh = "bc" ∨ inh = "rd")
        ∧ (ex = "-" ∨ ex.toList.all (fun ch => ch = 'A' ∨ ch = 'S' ∨ ch = 'T' ∨ ch = 'V')) then
      (parseShape10 e c v sl ra rv rp g u f).map (fun sh =>
        { sh with staticAny := ex.toList.contains 'A', validated := ex.toList.contains 'V',
                  setN := if ex.toList.contains 'S' then some 2 else if ex.toList.contains 'T' then some 3 else none })
    else none
  | _ => none

/-- the value `sp bad` assigns (a string: rejected by `Int`) -/
def badValue : Int := 1000000

def firstTarget (h : Heap) : List Link → Id → Option Id
  | [], o => some o
  | l :: ls, o =>
    match targets h o l with
    | [] => none
    | t :: _ => firstTarget h ls t

/-- The canonical setter of the correspondence classes. -/
def setterWrites (E : Expr) (h : Heap) (x : Option Int) : Except Exc (List Mutation) :=
  match x with
  | none => .ok []
  | some x =>
    match E.find? (fun p => decide (p.leaf = .scalar .value)) with
    | some p =>
      match firstTarget h p.links 0 with
      | none => .ok []
      | some o => if x = badValue then .error .traitError else .ok [⟨o, .scalar .value x, false⟩]
    | none => if x = badValue then .error .traitError else .ok [⟨0, .scalar .aux x, false⟩]

def mkEnv (sh : Shape) : Env String :=
  let g : Heap → String :=
    if sh.getter = "V" then viewGetter sh.E 0
    else if sh.getter = "F" then falsyGetter sh.E 0
    else sumGetter sh.E 0 sh.undef
  { E := sh.E, root := 0,
    G := fun n h => match sh.fail with
      | some (k, e) => if n = k then .error e else .ok (g h)
      | none => .ok (g h),
    isUndef := fun v => v == "U",
    cached := sh.cached, legacy := sh.legacy, staticL := sh.static, staticAny := sh.staticAny,
    fset := sh.setN.map (fun _ => setterWrites sh.E), setN := sh.setN.getD 2,
    fvalidate := if sh.validated then some (fun x => if x = badValue then .error .traitError else .ok x) else none,
    postInit := Source.postInit,
    fires := firesSpec sh.E 0,
    sibPre := fun m => decide (m.obj = 0) &&
      ((sh.ra && decide (m.w.slot = .scalar .aux)) || (sh.rv && decide (m.w.slot = .scalar .value))),
    sibPost := fun m => sh.rp && decide (m.obj = 0) && decide (m.w.slot = .scalar .value) }

/-! ### steps -/

/-- `c` or `c~r`: the heap key, and (for the harness only) which of the
equal-but-distinct representatives is assigned. -/
def key? (s : String) : Option Int := int? ((s.splitOn "~").headD "")

def parseWrite (s : String) : Option Write :=
  match (clean s).splitOn "=" with
  | ["v", x] => do pure (.scalar .value (← int? x))
  | ["a", x] => do pure (.scalar .aux (← int? x))
  | ["xn", x] => do pure (.scalar .xn (← key? x))
  | ["xi", x] => do pure (.scalar .xi (← key? x))
  | ["xe", x] => do pure (.scalar .xe (← key? x))
  | ["xm", x] => do pure (.scalar .xm (← key? x))
  | ["i", t] => do pure (.inst (← optId? t))
  | ["k", l] => do pure (.kids (← natList? l))
  | ["b", d] => do pure (.byname (← dict? d))
  | ["t", l] => do pure (.tags (← intList? l))
  | _ => none

def parseField : String → Option Field
  | "v" => some .value
  | "a" => some .aux
  | "xn" => some .xn
  | "xi" => some .xi
  | "xe" => some .xe
  | "xm" => some .xm
  | _ => none


/-- A driver step: a model step, or a change of one kind of dynamic listener
(`t` and `o` are both trait-level listeners on the property: `St.dyn` is their
disjunction; which of the two is present only matters for what is printed). -/
inductive DStep where
  | model (st : Step)
  | listen (kind : String) (on : Bool)

def parseStep (s : String) : Option Step :=
  match words s with
  | ["sv", o, f, x] => do pure (.change ⟨← o.toNat?, .scalar (← parseField f) (← key? x), false⟩)
  | ["si", o, t] => do pure (.change ⟨← o.toNat?, .inst (← optId? t), false⟩)
  | ["sk", o, l] => do pure (.change ⟨← o.toNat?, .kids (← natList? l), false⟩)
  | ["mk", o, _, l, e] => do pure (.change ⟨← o.toNat?, .kids (← natList? l), ← bool? e⟩)
  | ["sb", o, d] => do pure (.change ⟨← o.toNat?, .byname (← dict? d), false⟩)
  | ["mb", o, _, d, e] => do pure (.change ⟨← o.toNat?, .byname (← dict? d), ← bool? e⟩)
  | ["st", o, l] => do pure (.change ⟨← o.toNat?, .tags (← intList? l), false⟩)
  | ["mt", o, _, l, e] => do pure (.change ⟨← o.toNat?, .tags (← intList? l), ← bool? e⟩)
  | ["rd"] => some .read
  -- a container call in which a later item is rejected by the item / key / value trait: raises, and the
  -- container is left as it was (the case line carries the unchanged contents)
  | ["mf", o, "k", _, _, c] => do pure (.change ⟨← o.toNat?, .kids (← natList? c), false⟩)
  | ["mf", o, "b", _, _, c] => do pure (.change ⟨← o.toNat?, .byname (← dict? c), false⟩)
  | ["mf", o, "t", _, _, c] => do pure (.change ⟨← o.toNat?, .tags (← intList? c), false⟩)
  | ["sp", x] => if x = "bad" then some (.set (.value badValue)) else (int? x).map (fun v => .set (.value v))
  | ["dp"] => some (.set .delete)
  | ["cp", _] => some .copy
  | ["K"] => some (.construct [])
  | ["K", ws] => do pure (.construct (← (ws.splitOn "/").mapM parseWrite))
  | _ => none

def showOld : Old String → String
  | .undefined => "U"
  | .none => "N"
  | .val v => v

def showNote (n : Note String) : String := s!"{showOld n.old}>{n.new}"

def showRes : Except Exc String → String
  | .ok v => v
  | .error e => s!"!{e.name}"

def parseDStep (s : String) : Option DStep :=
  match words s with
  | ["at", k] => if k = "t" ∨ k = "o" ∨ k = "n" then some (.listen k true) else none
  | ["dt", k] => if k = "t" ∨ k = "o" ∨ k = "n" then some (.listen k false) else none
  | ["at"] => some (.listen "to" true)
  | ["dt"] => some (.listen "to" false)
  | _ => (parseStep s).map .model

def showStepOut (read : String) (s : St String) (tA oA : Bool) (notes : List (Note String))
    (nested : List (Except Exc String)) : String :=
  let sel (f : Note String → Bool) := "^".intercalate ((notes.filter f).map showNote)
  s!"{read} c{s.calls} x[{"^".intercalate (nested.map showRes)}] s[{sel (·.toStatic)}] t[{sel (fun n => n.toDyn && tA)}] o[{sel (fun n => n.toDyn && oA)}] n[{sel (·.toObj)}] y[{sel (·.toAny)}]"

/-- Execute the steps one by one; per step print what that step produced.
`tA` / `oA`: the `on_trait_change(h, 'p')` / `observe(h, 'p')` listener is attached. -/
def runShow (P : Env String) : St String → Bool → Bool → List DStep → List String
  | _, _, _, [] => []
  | s, tA, oA, .listen k on :: rest =>
    let tA' := if k = "t" ∨ k = "to" then on else tA
    let oA' := if k = "o" ∨ k = "to" then on else oA
    let s' : St String :=
      if k = "n" then step P s (if on then .attachObj else .detachObj)
      else step P s (if tA' || oA' then .attach else .detach)
    showStepOut "-" s' tA' oA' [] [] :: runShow P s' tA' oA' rest
  | s, tA, oA, .model st :: rest =>
    let fresh := match st with | .construct _ => true | .copy => true | _ => false
    let s' := step P s st
    let read := match st with
      | .read => showRes (readProp P s).1
      | .set a => (match (setProp P s a).1 with | .error e => s!"!!{e.name}" | .ok _ => "-")
      | _ => "-"
    let notes := if fresh then s'.notes else s'.notes.drop s.notes.length
    let nested := if fresh then s'.nested else s'.nested.drop s.nested.length
    let tA' := if fresh then false else tA
    let oA' := if fresh then false else oA
    showStepOut read s' tA' oA' notes nested :: runShow P s' tA' oA' rest

def handle (line : String) : String :=
  match (clean line).splitOn "|" with
  | [shape, _n, steps] =>
    match parseShape shape, (fields steps ";").mapM parseDStep with
    | some sh, some steps => " ; ".intercalate (runShow (mkEnv sh) { heap := fun _ => {} } false false steps)
    | _, _ => "bad-case"
  | _ => "bad-case"

end TraitsVerif.Driver.Property

def main : IO Unit := TraitsVerif.Proto.runLines TraitsVerif.Driver.Property.handle
