/-
Line-protocol driver for the `dsl` cluster (C15).

  t  <text> <uw>           _LARK_PARSER.parse(text)  →  tree <rule>(<child>,…)  (NAME token = its escaped value)  or  err
  c  <text> <uw>           compile_str(text)      →  ok <path>|<path>|…   or   err ValueError
  eq <text1> <text2> <uw> <rel>  (rel ignored)   →  eq <exprs equal> <graph lists ==> <graph sets ==>
                                                     (eq <b> err when a compile raises; err ValueError when a parse raises)

<text>: `=` then the characters; those outside '!'..'~' and the backslash are written `\HEX;` (code point).
<uw>  : `-` or comma-separated decimal code points of the non-ASCII characters that
        Python's `\w` matches (data supplied by the harness, see DslLex.lean).
  m  <text> <uw> <traits>  the traits of the leaf object that the last steps of compile_str(text) fire for
                           →  fired <name>,<name>,…  (sorted, `-` if none)   or   err ValueError
        <traits>: comma-separated  name:kind:v_sync:v_m  (kind c = class trait, a = added later — the same
        to the model); v_* = the value of the metadata `sync` / `m`:  T 1 x (truthy)  F 0 E (falsy)  N A (None / absent)
  l  <uw> <item> <item> …  the LIST form observe(handler, [item, …]) / @observe([…]) / Property(observe=[…])
                           →  ok <paths> / err ValueError ;  <item> = `=<text>` (a text) or `~<text>` (the
                           ObserverExpression parse(text); `bad-case` if that text does not parse)
A path is its steps joined by `>`; a step is  T:<name>:<notify>:<optional> (NamedTraitObserver),
L/D/S:<notify>:<optional> (List/Dict/SetItemObserver), M:<name>:<notify> (metadata filter),
A:<notify> (anytrait filter).  Paths are sorted.

Run:  lake env lean --run TraitsVerif/Driver/Dsl.lean
-/
import TraitsVerif.Driver.Proto
import TraitsVerif.Model.DslCompile
import TraitsVerif.Model.DslMatch
import TraitsVerif.Model.DslPy
namespace TraitsVerif.Driver.Dsl
open TraitsVerif TraitsVerif.Model.Dsl TraitsVerif.Proto

def hexVal (c : Char) : Option Nat :=
  if c.val ≥ 48 && c.val ≤ 57 then some (c.val.toNat - 48)
  else if c.val ≥ 97 && c.val ≤ 102 then some (c.val.toNat - 87)
  else if c.val ≥ 65 && c.val ≤ 70 then some (c.val.toNat - 55)
  else none

/-- decode `\HEX;` escapes (fuel = length) -/
def unescF : Nat → List Char → Option (List Char)
  | 0, _ => some []
  | _ + 1, [] => some []
  | f + 1, '\\' :: r =>
    let h := r.takeWhile (· != ';')
    let rest := (r.dropWhile (· != ';')).drop 1
    if h.isEmpty then none else
    match h.foldlM (fun acc c => (hexVal c).map (acc * 16 + ·)) 0 with
    | some n => (unescF f rest).map (Char.ofNat n :: ·)
    | none => none
  | f + 1, c :: r => (unescF f r).map (c :: ·)

/-- a text field is `=` followed by the escaped characters -/
def unesc (s : String) : Option (List Char) :=
  match s.toList with
  | '=' :: l => unescF l.length l
  | _ => none

def hexDigits (n : Nat) : List Char := (Nat.toDigits 16 n)

def esc (l : List Char) : String :=
  String.ofList (l.flatMap fun c =>
    if c.val ≥ 33 && c.val ≤ 126 && c != '\\' then [c]
    else '\\' :: hexDigits c.val.toNat ++ [';'])

def parseUw (s : String) : Option (Char → Bool) :=
  if s = "-" then some (fun _ => false)
  else
    match (s.splitOn ",").mapM (fun x => x.toNat?) with
    | some ns => some (fun c => ns.contains c.val.toNat)
    | none => none

def b01 (b : Bool) : String := if b then "1" else "0"

def showObs : Observer → String
  | .named n nf op => s!"T:{esc n}:{b01 nf}:{b01 op}"
  | .listItems nf op => s!"L:{b01 nf}:{b01 op}"
  | .dictItems nf op => s!"D:{b01 nf}:{b01 op}"
  | .setItems nf op => s!"S:{b01 nf}:{b01 op}"
  | .filtered nf (.metadata n) => s!"M:{esc n}:{b01 nf}"
  | .filtered nf .anytrait => s!"A:{b01 nf}"

def showPaths (f : Forest) : String :=
  let ps := f.paths.map (fun p => ">".intercalate (p.map showObs))
  "|".intercalate (ps.mergeSort (fun a b => decide (a ≤ b)))

def showCompile : Except Exc Forest → String
  | .error e => s!"err {e.name}"
  | .ok f => s!"ok {showPaths f}"

/-- `list == list` on graphs -/
def listEq : Forest → Forest → Bool
  | .nil, .nil => true
  | .cons o k r, .cons o' k' r' => Forest.graphEq o k o' k' && listEq r r'
  | _, _ => false

def handleEq (uw : Char → Bool) (a b : List Char) : String :=
  match parseChars uw a, parseChars uw b with
  | some ca, some cb =>
    let ea := toExpr ca true
    let eb := toExpr cb true
    match compileExpr ea, compileExpr eb with
    | .ok fa, .ok fb =>
      s!"eq {b01 (ea == eb)} {b01 (listEq fa fb)} {b01 (Forest.setEq (max fa.depth fb.depth + 1) fa fb)}"
    | _, _ => s!"eq {b01 (ea == eb)} err"
  | _, _ => "err ValueError"

def metaVal? : String → Option MetaVal
  | "T" | "1" | "x" => some .truthy
  | "F" | "0" | "E" => some .falsy
  | "N" | "A" => some .none
  | _ => none

def traitInfo? (s : String) : Option TraitInfo :=
  match s.splitOn ":" with
  | [n, _kind, vs, vm] => do
    let a ← metaVal? vs
    let b ← metaVal? vm
    pure { name := n.toList, meta' := [("sync".toList, a), ("m".toList, b)] }
  | _ => none

def handleMatch (uw : Char → Bool) (s : List Char) (ts : List TraitInfo) : String :=
  match compileChars uw s with
  | .error e => s!"err {e.name}"
  | .ok f =>
    let ns := ((leafTargets f ts).map esc).eraseDups.mergeSort (fun a b => decide (a ≤ b))
    "fired " ++ (if ns.isEmpty then "-" else ",".intercalate ns)

def item? (uw : Char → Bool) (s : String) : Option Item :=
  match s.toList with
  | '=' :: _ => (unesc s).map .text
  | '~' :: r =>
    match unescF r.length r with
    | some t => (parseChars uw t).map (fun c => .expr (toExpr c true))
    | none => none
  | _ => none

def handle (line : String) : String :=
  match words line with
  | ["c", t, u] =>
    match unesc t, parseUw u with
    | some s, some uw => showCompile (compileChars uw s)
    | _, _ => "bad-case"
  | ["t", t, u] =>
    match unesc t, parseUw u with
    | some s, some uw =>
      (match parseChars uw s with
       | some c => "tree " ++ Model.DslPy.larkShow esc true c
       | none => "err")
    | _, _ => "bad-case"
  | "l" :: u :: items =>
    match parseUw u with
    | some uw =>
      match items.mapM (item? uw) with
      | some its => showCompile (compileItems uw its)
      | none => "bad-case"
    | none => "bad-case"
  | ["m", t, u, spec] =>
    match unesc t, parseUw u, (spec.splitOn ",").mapM traitInfo? with
    | some s, some uw, some ts => handleMatch uw s ts
    | _, _, _ => "bad-case"
  | ["eq", a, b, u, _rel] =>
    match unesc a, unesc b, parseUw u with
    | some a, some b, some uw => handleEq uw a b
    | _, _, _ => "bad-case"
  | _ => "bad-case"

end TraitsVerif.Driver.Dsl

def main : IO Unit := TraitsVerif.Proto.runLines TraitsVerif.Driver.Dsl.handle
