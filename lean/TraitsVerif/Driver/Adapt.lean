/-
Line-protocol driver for the `adapt` cluster.

  A|<python-side hierarchy spec>|<P>|<M>|<offers>|<ftab>|<queries>   → obs ; obs ; …
      P        rows of the issubclass matrix, `,`-separated bit strings
      M        `inspect.getmro(t)[1:]` per type, `;`-separated, each `,`-separated indices (`-` = empty)
      offers   registration order, `;`-separated `id:from:to:key:kind`  (kind n | p = identity factory | l = lazy, same as n)
      ftab     `;`-separated `oid@prov=n|r` (prov = `.`-joined offer ids of the adaptee, `-` = the source object),
               `#k=n|r` (the k-th factory call of the adapt call returns None / raises ValueError); `-` = empty
      queries  a s t | d s t | s s t | m t p | t <I|S|A> <mode> <allowNone> s t     (s = type index, `3n` = the object None of type 3)
  so|n|<lt rows>|<perm>    CPython list.sort(key=cmp_to_key) with an arbitrary `cmp<0` table
  hq|<ops>                 heapq: `p a b` push (a,b,counter) ; `o` pop → counter popped

Run:  lake env lean --run TraitsVerif/Driver/Adapt.lean
-/
import TraitsVerif.Driver.Proto
import TraitsVerif.Model.Adapt
namespace TraitsVerif.Driver.Adapt
open TraitsVerif TraitsVerif.Proto TraitsVerif.Model.Adapt

def nat? (s : String) : Option Nat := (clean s).toNat?

def natList? (s : String) (sep : String) : Option (List Nat) :=
  if clean s = "-" ∨ clean s = "" then some [] else (fields s sep).mapM nat?

def bitRow (s : String) : List Bool := (clean s).toList.map (· == '1')

def parseP (s : String) : List (List Bool) := (fields s ",").map bitRow

def lookupP (p : List (List Bool)) (t q : Nat) : Bool := (p.getD t []).getD q false

def parseM (s : String) : Option (List (List Nat)) :=
  ((clean s).splitOn ";").mapM (fun x => natList? x ",")

structure OfferSpec where
  offer : Offer
  ident : Bool

def parseOffer (s : String) : Option OfferSpec :=
  match (clean s).splitOn ":" with
  | [i, f, t, k, kind] => do
    pure ⟨{ id := ← nat? i, frm := ← nat? f, to := ← nat? t, key := ← nat? k }, clean kind = "p"⟩
  | _ => none

def parseOffers (s : String) : Option (List OfferSpec) :=
  if clean s = "-" then some [] else (fields s ";").mapM parseOffer

structure FTab where
  byKey : List ((Nat × List Nat) × Outcome) := []
  byOrd : List (Nat × Outcome) := []
  ident : List Nat := []

def parseOutcome (s : String) : Option Outcome :=
  match clean s with
  | "n" => some .none
  | "r" => some .raise
  | _ => none

def parseFEntry (t : FTab) (s : String) : Option FTab :=
  match (clean s).splitOn "=" with
  | [k, v] => do
    let v ← parseOutcome v
    if k.startsWith "#" then
      pure { t with byOrd := t.byOrd ++ [(← nat? (k.drop 1).toString, v)] }
    else
      match k.splitOn "@" with
      | [o, prov] => pure { t with byKey := t.byKey ++ [((← nat? o, ← natList? prov "."), v)] }
      | _ => none
  | _ => none

def parseFTab (s : String) : Option FTab :=
  if clean s = "-" then some {} else (fields s ";").foldlM parseFEntry {}

/-- The harness's instrumented factory, as a function (twin of `c17.py` `_factory`). -/
def mkFactory (t : FTab) (srcIsNone : Bool) : Factory (List Nat) := fun k o a =>
  let ok : FOut (List Nat) :=
    if t.ident.contains o.id then
      -- an identity factory handed the object `None` returns `None`: a refusal
      (if srcIsNone && a.isEmpty then .none else .adapter a)
    else .adapter (a ++ [o.id])
  let fromOutcome : Outcome → FOut (List Nat)
    | .none => .none
    | .raise => .raise .valueError
    | .ok => ok
  match t.byOrd.lookup k with
  | some r => fromOutcome r
  | none =>
    match t.byKey.lookup (o.id, a) with
    | some r => fromOutcome r
    | none => ok

/-- An adapter is shown by its provenance; a chain of identity factories hands back the
source object itself, which the harness can only see as `self`. -/
def showChain (l : List Nat) : String :=
  if l.isEmpty then "self" else "chain " ++ ">".intercalate (l.map (fun i => s!"o{i}"))

def showTrace (tr : List CallRec) : String :=
  if tr.isEmpty then "log=-"
  else "log=" ++ ",".intercalate (tr.map fun c =>
    s!"{c.oid}" ++ (match c.out with | .ok => "+" | .none => "-" | .raise => "!"))

def showOut : Out (List Nat) → String
  | .self => "self"
  | .adapted _ a => showChain a
  | .default => "default"
  | .error e => s!"err {e.name}"

def showV : VOut (List Nat) → String
  | .value => "self"
  | .adapted _ a => showChain a
  | .default => "default"
  | .error e => s!"err {e.name}"

/-- `3` → (3, false); `3n` → (3, true) (the object is `None`). -/
def parseSrc (s : String) : Option (Nat × Bool) :=
  let s := clean s
  if s.endsWith "n" then (nat? (s.dropEnd 1).toString).map (·, true) else (nat? s).map (·, false)

def runQuery (cfg : Cfg) (ft : FTab) (q : String) : String :=
  let f := mkFactory ft (((words q).getD ((words q).length - 2) "").endsWith "n")
  match words q with
  | ["a", s, t] =>
    match parseSrc s, nat? t with
    | some (s, isN), some t =>
      let (o, tr) := adapt cfg f isN s [] t false
      s!"{showOut o} {showTrace tr}"
    | _, _ => "bad-query"
  | ["d", s, t] =>
    match parseSrc s, nat? t with
    | some (s, isN), some t =>
      let (o, tr) := adapt cfg f isN s [] t true
      s!"{showOut o} {showTrace tr}"
    | _, _ => "bad-query"
  | ["s", s, t] =>
    match parseSrc s, nat? t with
    | some (s, isN), some t =>
      let (o, tr) := supportsProtocol cfg f isN s [] t
      (match o with | .ok true => "yes" | .ok false => "no" | .error e => s!"err {e.name}") ++ s!" {showTrace tr}"
    | _, _ => "bad-query"
  | ["m", t, p] =>
    match nat? t, nat? p with
    | some t, some p => match dist cfg t p with | none => "-" | some d => s!"{d}"
    | _, _ => "bad-query"
  | ["t", cls, mode, an, s, t] =>
    match nat? mode, nat? an, parseSrc s, nat? t with
    | some mode, some an, some (s, isN), some t =>
      let calls := validateCalls mode isN
      let (ad, tr) := if calls then adapt cfg f isN s [] t true else (Out.default, [])
      -- isinstance(value, klass) = issubclass(type(value), klass) for the harness's objects
      let v := validateTrait mode (an == 1) isN (cfg.provides s t) ad
      match v with
      | .error e => s!"err {e.name} {showTrace tr}"
      | _ =>
        if isN then s!"x=none {showTrace tr}"
        else
          let orig := cls == "A"
          let hasShadow := cls == "S" || cls == "A"
          let postOrig := cls == "S"
          let sh := if hasShadow then showV (shadow postOrig v) else "-"
          s!"x={showV (stored orig v)} x_={sh} {showTrace tr}"
    | _, _, _, _ => "bad-query"
  | _ => "bad-query"

def handleA (p m offers ftab queries : String) : String :=
  match parseM m, parseOffers offers, parseFTab ftab with
  | some m, some os, some ft =>
    let pm := parseP p
    let cfg : Cfg :=
      { provides := lookupP pm, supers := fun t => m.getD t [], groups := groupsOf (os.map (·.offer)) }
    let ft := { ft with ident := (os.filter (·.ident)).map (·.offer.id) }
    " ; ".intercalate ((fields queries ";").map (runQuery cfg ft))
  | _, _, _ => "bad-case"

/-- `so`: sort `perm` with `lt i j` read off the table. -/
def handleSort (rows perm : String) : String :=
  match natList? perm "," with
  | some l =>
    let pm := parseP rows
    ",".intercalate ((pySort (fun i j => lookupP pm i j) l).map toString)
  | none => "bad-case"

def heapRun : List String → List Entry → Nat → List String
  | [], _, _ => []
  | op :: ops, q, c =>
    match words op with
    | ["p", a, b] =>
      match nat? a, nat? b with
      | some a, some b => heapRun ops (qInsert ⟨a, b, c, [], 0⟩ q) (c + 1)
      | _, _ => ["bad"]
    | ["o"] =>
      match q with
      | [] => "empty" :: heapRun ops q c
      | e :: q' => s!"{e.cnt}" :: heapRun ops q' c
    | _ => ["bad"]

def handle (line : String) : String :=
  match (clean line).splitOn "|" with
  | ["A", _, p, m, offers, ftab, queries] => handleA p m offers ftab queries
  | ["so", _, rows, perm] => handleSort rows perm
  | ["hq", ops] => " ".intercalate (heapRun (fields ops ";") [] 0)
  | _ => "bad-case"

end TraitsVerif.Driver.Adapt

def main : IO Unit := TraitsVerif.Proto.runLines TraitsVerif.Driver.Adapt.handle
