/-
Line-protocol driver for the `adapt` cluster.

  A|<python-side hierarchy spec>|<P>|<M>|<offers>|<ftab>|<queries>   → obs ; obs ; …
      P        rows of the issubclass matrix, `,`-separated bit strings
      M        `inspect.getmro(t)[1:]` per type, `;`-separated, each `,`-separated indices (`-` = empty)
      offers   registration order, `;`-separated `id:from:to:key:kind`  (kind n | p = identity factory | l = lazy, same as n)
      ftab     `;`-separated `oid@prov=n|r` (prov = `.`-joined offer ids of the adaptee, `-` = the source object),
               `#k=n|r` (the k-th factory call of the adapt call returns None / raises ValueError); `-` = empty
      queries  a s t | d s t | s s t | m t p | t <I|S|A> <mode> <allowNone> s t     (s = type index, `3n` = the object None of type 3)
           R a c P'   late registration types[a].register(types[c]); P' = the issubclass table from now on
           h …        history on one trait (see below)
  so|n|<lt rows>|<perm>    CPython list.sort(key=cmp_to_key) with an arbitrary `cmp<0` table
  hq|<ops>                 heapq: `p a b` push (a,b,counter) ; `o` pop → counter popped

Run:  lake env lean --run TraitsVerif/Driver/Adapt.lean
-/
import TraitsVerif.Driver.Proto
import TraitsVerif.Model.Adapt
namespace TraitsVerif.Driver.Adapt
open TraitsVerif TraitsVerif.Proto TraitsVerif.Model.Adapt

def nat? (s : String) : Option Nat := (clean s).toNat?

def natList? (s : String) (sep : String) : Option (List Nat) :=
  if clean s = "-" ∨ clean s = "" then some [] else (fields s sep).mapM nat?

def bitRow (s : String) : List Bool := (clean s).toList.map (· == '1')

def parseP (s : String) : List (List Bool) := (fields s ",").map bitRow

def lookupP (p : List (List Bool)) (t q : Nat) : Bool := (p.getD t []).getD q false

def parseM (s : String) : Option (List (List Nat)) :=
  ((clean s).splitOn ";").mapM (fun x => natList? x ",")

structure OfferSpec where
  offer : Offer
  ident : Bool

def parseOffer (s : String) : Option OfferSpec :=
  match (clean s).splitOn ":" with
  | [i, f, t, k, kind] => do
    pure ⟨{ id := ← nat? i, frm := ← nat? f, to := ← nat? t, key := ← nat? k }, clean kind = "p"⟩
  | _ => none

def parseOffers (s : String) : Option (List OfferSpec) :=
  if clean s = "-" then some [] else (fields s ";").mapM parseOffer

structure FTab where
  byKey : List ((Nat × List Nat) × Outcome) := []
  byOrd : List (Nat × Outcome) := []
  ident : List Nat := []

def parseOutcome (s : String) : Option Outcome :=
  match clean s with
  | "n" => some .none
  | "r" => some .raise
  | _ => none

def parseFEntry (t : FTab) (s : String) : Option FTab :=
  match (clean s).splitOn "=" with
  | [k, v] => do
    let v ← parseOutcome v
    if k.startsWith "#" then
      pure { t with byOrd := t.byOrd ++ [(← nat? (k.drop 1).toString, v)] }
    else
      match k.splitOn "@" with
      | [o, prov] => pure { t with byKey := t.byKey ++ [((← nat? o, ← natList? prov "."), v)] }
      | _ => none
  | _ => none

def parseFTab (s : String) : Option FTab :=
  if clean s = "-" then some {} else (fields s ";").foldlM parseFEntry {}

/-- The harness's instrumented factory, as a function (twin of `c17.py` `_factory`). -/
def mkFactory (t : FTab) (srcIsNone : Bool) : Factory (List Nat) := fun k o a =>
  let ok : FOut (List Nat) :=
    if t.ident.contains o.id then
      -- an identity factory handed the object `None` returns `None`: a refusal
      (if srcIsNone && a.isEmpty then .none else .adapter a)
    else .adapter (a ++ [o.id])
  let fromOutcome : Outcome → FOut (List Nat)
    | .none => .none
    | .raise => .raise .valueError
    | .ok => ok
  match t.byOrd.lookup k with
  | some r => fromOutcome r
  | none =>
    match t.byKey.lookup (o.id, a) with
    | some r => fromOutcome r
    | none => ok

/-- An adapter is shown by its provenance; a chain of identity factories hands back the
source object itself, which the harness can only see as `self`. -/
def showChain (l : List Nat) : String :=
  if l.isEmpty then "self" else "chain " ++ ">".intercalate (l.map (fun i => s!"o{i}"))

def showTrace (tr : List CallRec) : String :=
  if tr.isEmpty then "log=-"
  else "log=" ++ ",".intercalate (tr.map fun c =>
    s!"{c.oid}" ++ (match c.out with | .ok => "+" | .none => "-" | .raise => "!"))

def showOut : Out (List Nat) → String
  | .self => "self"
  | .adapted _ a => showChain a
  | .default => "default"
  | .error e => s!"err {e.name}"

def showV : VOut (List Nat) → String
  | .value => "self"
  | .adapted _ a => showChain a
  | .default => "default"
  | .error e => s!"err {e.name}"

/-- `3` → (3, false); `3n` → (3, true) (the object is `None`); `3~2` = value flavour 2 of type 3
(length / content of an awkward adaptee: opaque to the model, which only sees the type). -/
def parseSrc (s : String) : Option (Nat × Bool) :=
  let s := clean (((clean s).splitOn "~").headD "")
  if s.endsWith "n" then (nat? (s.dropEnd 1).toString).map (·, true) else (nat? s).map (·, false)

def runQuery (cfg : Cfg) (ft : FTab) (q : String) : String :=
  let f := mkFactory ft (((words q).getD ((words q).length - 2) "").endsWith "n")
  -- `ga` / `gd` / `gs`: the module-level `adapt` / `supports_protocol` (same function, global manager)
  match (match words q with | "ga" :: r => "a" :: r | "gd" :: r => "d" :: r | "gs" :: r => "s" :: r | ws => ws) with
  | ["a", s, t] =>
    match parseSrc s, nat? t with
    | some (s, _), some t =>
      let (o, tr) := adapt cfg f s [] t false
      s!"{showOut o} {showTrace tr}"
    | _, _ => "bad-query"
  | ["d", s, t] =>
    match parseSrc s, nat? t with
    | some (s, _), some t =>
      let (o, tr) := adapt cfg f s [] t true
      s!"{showOut o} {showTrace tr}"
    | _, _ => "bad-query"
  | ["s", s, t] =>
    match parseSrc s, nat? t with
    | some (s, _), some t =>
      let (o, tr) := supportsProtocol cfg f s [] t
      (match o with | .ok true => "yes" | .ok false => "no" | .error e => s!"err {e.name}") ++ s!" {showTrace tr}"
    | _, _ => "bad-query"
  | ["m", t, p] =>
    match nat? t, nat? p with
    | some t, some p => match dist cfg t p with | none => "-" | some d => s!"{d}"
    | _, _ => "bad-query"
  | ["t", cls0, mode, an, s, t] =>
    -- `FS` / `FA` / `FI`: the trait is declared with a forward-reference string (the first assignment runs the
    -- Python validator `BaseInstance.validate`, later ones `validate_trait_adapt`); `BI`: `BaseInstance(adapt=…)`,
    -- always the Python validator.  Both validators are the model's `validateTrait`.
    let cls := if cls0 == "BI" then "I" else if cls0.startsWith "F" then (cls0.drop 1).toString else cls0
    match nat? mode, nat? an, parseSrc s, nat? t with
    | some mode, some an, some (s, isN), some t =>
      let calls := validateCalls mode isN
      let (ad, tr) := if calls then adapt cfg f s [] t true else (Out.default, [])
      -- isinstance(value, klass) = issubclass(type(value), klass) for the harness's objects
      let v := validateTrait mode (an == 1) isN (cfg.provides s t) ad
      match v with
      | .error e => s!"err {e.name} {showTrace tr}"
      | _ =>
        if isN then s!"x=none {showTrace tr}"
        else
          let orig := cls == "A"
          let hasShadow := cls == "S" || cls == "A"
          let postOrig := cls == "S"
          let sh := if hasShadow then showV (shadow postOrig v) else "-"
          s!"x={showV (stored orig v)} x_={sh} {showTrace tr}"
    | _, _, _, _ => "bad-query"
  | _ => "bad-query"

/-! ### histories on one trait: `h <I|S|A> <mode> <allowNone> <tgt> <pool> <step> …`
  pool  `,`-separated sources (`2`, `3n`); steps: `a<j>` assign pool object j, `r<id:from:to:key:kind>`
  register an offer now, `f<oid>@<prov>=<n|r|+>` set / clear a factory-table entry. -/

/-- Object identities a history can see. -/
inductive HV where
  | obj (j : Nat)                                   -- pool object j
  | none                                            -- the object None
  | adapter (prov : List Nat) (root step : Nat)     -- built in assignment `step` from pool object `root`
  | dflt (step : Nat)                               -- trait default created by the validator in `step`
  | initDflt                                        -- trait default created for `old_value` (first assignment)
  deriving DecidableEq

def showHV : HV → String
  | .obj j => s!"obj{j}"
  | .none => "none"
  | .adapter p r st => "chain " ++ ">".intercalate (p.map (fun i => s!"o{i}")) ++ s!"@{r}#{st}"
  | .dflt st => s!"default#{st}"
  | .initDflt => "default#init"

structure HState where
  offers : List OfferSpec
  ft : FTab
  slots : Option (Slots HV) := none
  step : Nat := 0

def setFEntry (t : FTab) (s : String) : Option FTab :=
  match (clean s).splitOn "=" with
  | [k, v] =>
    match k.splitOn "@" with
    | [o, prov] => do
      let key := (← nat? o, ← natList? prov ".")
      let rest := t.byKey.filter (fun kv => kv.1 != key)
      if clean v = "+" then pure { t with byKey := rest }
      else pure { t with byKey := rest ++ [(key, ← parseOutcome v)] }
    | _ => none
  | _ => none

def hStep (pm : List (List Bool)) (m : List (List Nat)) (cls : String) (mode : Nat) (an : Bool) (tgt : Nat)
    (pool : List (Nat × Bool)) (st : HState) (w : String) : HState × String :=
  let st1 := { st with step := st.step + 1 }
  if w.startsWith "r" then
    match parseOffer (w.drop 1).toString with
    | some o => ({ st1 with offers := st.offers ++ [o] }, "ok")
    | none => (st1, "bad-step")
  else if w.startsWith "f" then
    match setFEntry st.ft (w.drop 1).toString with
    | some ft => ({ st1 with ft := ft }, "ok")
    | none => (st1, "bad-step")
  else if w.startsWith "a" then
    match nat? (w.drop 1).toString with
    | none => (st1, "bad-step")
    | some j =>
      match pool[j]? with
      | none => (st1, "bad-step")
      | some (srcT, isN) =>
        let cfg : Cfg :=
          { provides := lookupP pm, supers := fun t => m.getD t [], groups := groupsOf (st.offers.map (·.offer)) }
        let ft := { st.ft with ident := (st.offers.filter (·.ident)).map (·.offer.id) }
        let f := mkFactory ft isN
        let (ad, tr) := if validateCalls mode isN then adapt cfg f srcT [] tgt true else (Out.default, [])
        let v := validateTrait mode an isN (cfg.provides srcT tgt) ad
        let original : HV := if isN then .none else .obj j
        match v with
        | .error e => (st1, s!"err {e.name} {showTrace tr}")
        | _ =>
          let validated : HV :=
            match v with
            | .adapted _ [] => original          -- a chain of identity factories hands back the object itself
            | .adapted _ p => .adapter p j st.step
            | .default => .dflt st.step
            | _ => original
          if cls == "I" then
            ({ st1 with slots := some ⟨validated, none⟩ }, s!"x={showHV validated} x_=- {showTrace tr}")
          else
            let sl := assignSlots (cls == "A") (cls == "S") (fun a b => a == b) st.slots .initDflt original validated
            ({ st1 with slots := some sl },
             s!"x={showHV sl.stored} x_={showOpt showHV sl.shadow} {showTrace tr}")
  else (st1, "bad-step")

def runHistory (pm : List (List Bool)) (m : List (List Nat)) (os : List OfferSpec) (ft : FTab)
    (ws : List String) : String :=
  match ws with
  | cls :: mode :: an :: tgt :: pool :: steps =>
    match nat? mode, nat? an, nat? tgt, (fields pool ",").mapM parseSrc with
    | some mode, some an, some tgt, some pool =>
      let rec go (st : HState) : List String → List String
        | [] => []
        | w :: ws =>
          let (st', o) := hStep pm m cls mode (an == 1) tgt pool st w
          o :: go st' ws
      " / ".intercalate (go { offers := os, ft := ft } steps)
    | _, _, _, _ => "bad-query"
  | _ => "bad-query"

/-- Queries run in order.  `R <a> <c> <P'>` = `types[a].register(types[c])` executed now (late ABC
registration / `@provides` after the fact): every later query sees the issubclass table `P'` —
each `adapt` call is computed from the subclass relation current at that call. -/
def runQueries (m : List (List Nat)) (os : List OfferSpec) (ft : FTab) :
    List (List Bool) → List String → List String
  | _, [] => []
  | pm, q :: qs =>
    match words q with
    | ["R", _, _, p'] => "ok" :: runQueries m os ft (parseP p') qs
    | "h" :: ws => runHistory pm m os ft ws :: runQueries m os ft pm qs
    | _ =>
      let cfg : Cfg :=
        { provides := lookupP pm, supers := fun t => m.getD t [], groups := groupsOf (os.map (·.offer)) }
      runQuery cfg ft q :: runQueries m os ft pm qs

def handleA (p m offers ftab queries : String) : String :=
  match parseM m, parseOffers offers, parseFTab ftab with
  | some m, some os, some ft =>
    let ft := { ft with ident := (os.filter (·.ident)).map (·.offer.id) }
    " ; ".intercalate (runQueries m os ft (parseP p) (fields queries ";"))
  | _, _, _ => "bad-case"

/-- `so`: sort `perm` with `lt i j` read off the table. -/
def handleSort (rows perm : String) : String :=
  match natList? perm "," with
  | some l =>
    let pm := parseP rows
    ",".intercalate ((pySort (fun i j => lookupP pm i j) l).map toString)
  | none => "bad-case"

def heapRun : List String → List Entry → Nat → List String
  | [], _, _ => []
  | op :: ops, q, c =>
    match words op with
    | ["p", a, b] =>
      match nat? a, nat? b with
      | some a, some b => heapRun ops (qInsert ⟨a, b, c, [], 0⟩ q) (c + 1)
      | _, _ => ["bad"]
    | ["o"] =>
      match q with
      | [] => "empty" :: heapRun ops q c
      | e :: q' => s!"{e.cnt}" :: heapRun ops q' c
    | _ => ["bad"]

def handle (line : String) : String :=
  match (clean line).splitOn "|" with
  | ["A", _, p, m, offers, ftab, queries] => handleA p m offers ftab queries
  | ["so", _, rows, perm] => handleSort rows perm
  | ["hq", ops] => " ".intercalate (heapRun (fields ops ";") [] 0)
  | _ => "bad-case"

end TraitsVerif.Driver.Adapt

def main : IO Unit := TraitsVerif.Proto.runLines TraitsVerif.Driver.Adapt.handle
