/-
Line-protocol driver for the `seq` cluster (TraitList / builtin list).
  kind|validator|init|op;op;…      →   res ; res ; …
Run:  lake env lean --run TraitsVerif/Driver/Seq.lean
-/
import TraitsVerif.Driver.Proto
import TraitsVerif.Model.TraitListObject
namespace TraitsVerif.Driver.Seq
open TraitsVerif TraitsVerif.Py TraitsVerif.Model TraitsVerif.Proto

def parseValidator (s : String) : Option (Callback Int Int) :=
  match s.splitOn ":" with
  | ["id"] => some (fun _ x => .ok x)
  | ["mod7"] => some (fun _ x => .ok (x % 7))
  | ["rejneg"] => some (fun _ x => if x < 0 then .error .traitError else .ok x)
  | ["failk", k, e] =>
    match k.toNat? with
    | some k => some (fun n x => if n = k then .error (Exc.ofName e) else .ok x)
    | none => none
  | _ => none

/-- `list.sort(key=k, reverse=r)` on ints: spec = 2*k + r with k ∈ {0: identity, 1: x % 3,
2: x // 2 (floor), 3: -x}.  CPython's sort is stable, and `reverse=True` keeps equal
elements in their original order (= reverse, stable sort, reverse). -/
def sortKey (k : Nat) (x : Int) : Int :=
  match k with
  | 1 => x % 3
  | 2 => Int.fdiv x 2
  | 3 => -x
  | _ => x

def pySort (spec : Nat) (l : List Int) : List Int :=
  let key := sortKey (spec / 2)
  if spec % 2 = 1 then
    -- descending by key, ties in original order
    (l.reverse.mergeSort (fun a b => key a ≤ key b)).reverse
  else l.mergeSort (fun a b => key a ≤ key b)

def mkEnv (v : Callback Int Int) : Env Int :=
  { v := v, eq := fun a b => a == b, sort := pySort }

/-- An iterable argument: `[1,2]` or the same with a one-letter marker of the Python
iterable kind in front (`g` generator, `t` tuple, `i` iterator); every override
converts it to a concrete list first, so the model ignores the marker. -/
def iterList? (s : String) : Option (List Int) :=
  let s := clean s
  if s.startsWith "g" || s.startsWith "t" || s.startsWith "i" then intList? (s.drop 1).toString
  else intList? s

def parseSlice (a b c : String) : Option Slice := do
  let a ← optInt? a; let b ← optInt? b; let c ← optInt? c
  pure ⟨a, b, c⟩

/-- An iterable argument that may be the list object itself (`@`): a function of
the current contents. -/
def iterArg? (s : String) : Option (List Int → List Int) :=
  if clean s = "@" then some (fun l => l) else (iterList? s).map (fun xs _ => xs)

/-- An operation as written on the line: a function of the current contents
(only `@` arguments depend on them). -/
def parseOp (s : String) : Option (List Int → Op Int) :=
  let const (o : Option (Op Int)) : Option (List Int → Op Int) := o.map (fun op _ => op)
  match words s with
  | ["si", i, x] => const (do pure (.setIdx (← int? i) (← int? x)))
  | ["ss", a, b, c, xs] => do
    let sl ← parseSlice a b c
    let f ← iterArg? xs
    pure (fun l => .setSlice sl (f l))
  | ["di", i] => const (do pure (.delIdx (← int? i)))
  | ["ds", a, b, c] => const (do pure (.delSlice (← parseSlice a b c)))
  | ["ap", x] => const (do pure (.append (← int? x)))
  | ["ex", xs] => do let f ← iterArg? xs; pure (fun l => .extend (f l))
  | ["ia", xs] => do let f ← iterArg? xs; pure (fun l => .iadd (f l))
  | ["im", n] => const (do pure (.imul (← int? n)))
  | ["in", i, x] => const (do pure (.insert (← int? i) (← int? x)))
  | ["po", i] => const (do pure (.pop (← int? i)))
  | ["rm", x] => const (do pure (.remove (← int? x)))
  | ["cl"] => const (some .clear)
  | ["rv"] => const (some .reverse)
  | ["so"] => const (some (.sort 0))
  | ["sk", k, r] => const (do pure (.sort (2 * (← k.toNat?) + (← r.toNat?))))
  | _ => none

def showNIdx : NIdx → String
  | .idx n => s!"idx:{n}"
  | .slc a b k => s!"slc:{a}:{b}:{k}"

def showEvent (e : Event Int) : String :=
  s!"E {showNIdx e.index} {showIntList e.removed} {showIntList e.added}"

def showRes : Except Exc (Out Int) → String
  | .error e => s!"err {e.name}"
  | .ok o => s!"ok {showIntList o.items} {showOpt toString o.ret} {showOpt showEvent o.event}"

def pyRun : List Int → List (List Int → Op Int) → List String
  | _, [] => []
  | l, f :: ops =>
    match pyStep (mkEnv (fun _ x => .ok x)) l (f l) with
    | .error e => s!"err {e.name}" :: pyRun l ops
    | .ok (l', r) => s!"ok {showIntList l'} {showOpt toString r} -" :: pyRun l' ops

/-- `TraitList.run` with the arguments resolved against the current contents. -/
def tlRun (E : Env Int) : List Int → List (List Int → Op Int) → List String
  | _, [] => []
  | l, f :: ops =>
    match TraitList.step E l (f l) with
    | .error e => showRes (.error e) :: tlRun E l ops
    | .ok o => showRes (.ok o) :: tlRun E o.items ops

def parseTOp (s : String) : Option (List Int → TOp Int) :=
  match words s with
  | ["as", xs] => do let ys ← intList? xs; pure (fun _ => .assign ys)
  | _ => (parseOp s).map (fun f l => .call (f l))

/-- `TraitListObject.run` with the arguments resolved against the current contents. -/
def tloRun (c : LenCfg) (E : Env Int) : List Int → List (List Int → TOp Int) → List String
  | _, [] => []
  | l, f :: ops =>
    match TraitListObject.tstep c E l (f l) with
    | .error e => showRes (.error e) :: tloRun c E l ops
    | .ok o => showRes (.ok o) :: tloRun c E o.items ops

def parseCfg (kind : String) : Option LenCfg :=
  match kind.splitOn ":" with
  | ["tlo", a, b] => do pure ⟨← a.toNat?, ← b.toNat?⟩
  | _ => none

def handle (line : String) : String :=
  match (clean line).splitOn "|" with
  | [kind, v, init, ops] =>
    let kind := clean kind
    match parseValidator (clean v), intList? init with
    | some v, some init =>
      let E := mkEnv v
      if kind = "pl" then
        match (fields ops ";").mapM parseOp with
        | some ops => " ; ".intercalate (pyRun init ops)
        | none => "bad-case"
      else if kind = "tl" then
        match (fields ops ";").mapM parseOp with
        | some ops =>
          match TraitList.init E init with
          | .error e => s!"err {e.name}"
          | .ok l => " ; ".intercalate (tlRun E l ops)
        | none => "bad-case"
      else
        match parseCfg kind, (fields ops ";").mapM parseTOp with
        | some c, some ops =>
          match TraitListObject.assign c E init with
          | .error e => s!"err {e.name}"
          | .ok l => " ; ".intercalate (tloRun c E l ops)
        | _, _ => "bad-case"
    | _, _ => "bad-case"
  | _ => "bad-case"

end TraitsVerif.Driver.Seq

def main : IO Unit := TraitsVerif.Proto.runLines TraitsVerif.Driver.Seq.handle
