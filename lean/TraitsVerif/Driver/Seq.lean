/-
Line-protocol driver for the `seq` cluster (TraitList / builtin list).
  kind|validator|init|op;op;…      →   res ; res ; …
Run:  lake env lean --run TraitsVerif/Driver/Seq.lean
-/
import TraitsVerif.Driver.Proto
import TraitsVerif.Model.TraitListObject
namespace TraitsVerif.Driver.Seq
open TraitsVerif TraitsVerif.Py TraitsVerif.Model TraitsVerif.Proto

def parseValidator (s : String) : Option (Callback Int Int) :=
  match s.splitOn ":" with
  | ["id"] => some (fun _ x => .ok x)
  | ["mod7"] => some (fun _ x => .ok (x % 7))
  | ["rejneg"] => some (fun _ x => if x < 0 then .error .traitError else .ok x)
  | ["failk", k, e] =>
    match k.toNat? with
    | some k => some (fun n x => if n = k then .error (Exc.ofName e) else .ok x)
    | none => none
  | _ => none

/-- `list.sort(key=k, reverse=r)` on ints: spec = 2*k + r with k ∈ {0: identity, 1: x % 3,
2: x // 2 (floor), 3: -x}.  CPython's sort is stable, and `reverse=True` keeps equal
elements in their original order (= reverse, stable sort, reverse). -/
def sortKey (k : Nat) (x : Int) : Int :=
  match k with
  | 1 => x % 3
  | 2 => Int.fdiv x 2
  | 3 => -x
  | _ => x

def pySort (spec : Nat) (l : List Int) : List Int :=
  let key := sortKey (spec / 2)
  if spec % 2 = 1 then
    -- descending by key, ties in original order
    (l.reverse.mergeSort (fun a b => key a ≤ key b)).reverse
  else l.mergeSort (fun a b => key a ≤ key b)

def mkEnv (v : Callback Int Int) : Env Int :=
  { v := v, eq := fun a b => a == b, sort := pySort }

/-- An iterable argument: `[1,2]` or the same with a one-letter marker of the Python
iterable kind in front (`g` generator, `t` tuple, `i` iterator); every override
converts it to a concrete list first, so the model ignores the marker. -/
def iterList? (s : String) : Option (List Int) :=
  let s := clean s
  if s.startsWith "g" || s.startsWith "t" || s.startsWith "i" then intList? (s.drop 1).toString
  else intList? s

def parseSlice (a b c : String) : Option Slice := do
  let a ← optInt? a; let b ← optInt? b; let c ← optInt? c
  pure ⟨a, b, c⟩

def parseOp (s : String) : Option (Op Int) :=
  match words s with
  | ["si", i, x] => do pure (.setIdx (← int? i) (← int? x))
  | ["ss", a, b, c, xs] => do pure (.setSlice (← parseSlice a b c) (← iterList? xs))
  | ["di", i] => do pure (.delIdx (← int? i))
  | ["ds", a, b, c] => do pure (.delSlice (← parseSlice a b c))
  | ["ap", x] => do pure (.append (← int? x))
  | ["ex", xs] => do pure (.extend (← iterList? xs))
  | ["ia", xs] => do pure (.iadd (← iterList? xs))
  | ["im", n] => do pure (.imul (← int? n))
  | ["in", i, x] => do pure (.insert (← int? i) (← int? x))
  | ["po", i] => do pure (.pop (← int? i))
  | ["rm", x] => do pure (.remove (← int? x))
  | ["cl"] => some .clear
  | ["rv"] => some .reverse
  | ["so"] => some (.sort 0)
  | ["sk", k, r] => do pure (.sort (2 * (← k.toNat?) + (← r.toNat?)))
  | _ => none

def showNIdx : NIdx → String
  | .idx n => s!"idx:{n}"
  | .slc a b k => s!"slc:{a}:{b}:{k}"

def showEvent (e : Event Int) : String :=
  s!"E {showNIdx e.index} {showIntList e.removed} {showIntList e.added}"

def showRes : Except Exc (Out Int) → String
  | .error e => s!"err {e.name}"
  | .ok o => s!"ok {showIntList o.items} {showOpt toString o.ret} {showOpt showEvent o.event}"

def pyRun : List Int → List (Op Int) → List String
  | _, [] => []
  | l, op :: ops =>
    match pyStep (mkEnv (fun _ x => .ok x)) l op with
    | .error e => s!"err {e.name}" :: pyRun l ops
    | .ok (l', r) => s!"ok {showIntList l'} {showOpt toString r} -" :: pyRun l' ops

def parseTOp (s : String) : Option (TOp Int) :=
  match words s with
  | ["as", xs] => do pure (.assign (← intList? xs))
  | _ => (parseOp s).map .call

def parseCfg (kind : String) : Option LenCfg :=
  match kind.splitOn ":" with
  | ["tlo", a, b] => do pure ⟨← a.toNat?, ← b.toNat?⟩
  | _ => none

def handle (line : String) : String :=
  match (clean line).splitOn "|" with
  | [kind, v, init, ops] =>
    let kind := clean kind
    match parseValidator (clean v), intList? init with
    | some v, some init =>
      let E := mkEnv v
      if kind = "pl" then
        match (fields ops ";").mapM parseOp with
        | some ops => " ; ".intercalate (pyRun init ops)
        | none => "bad-case"
      else if kind = "tl" then
        match (fields ops ";").mapM parseOp with
        | some ops =>
          match TraitList.init E init with
          | .error e => s!"err {e.name}"
          | .ok l => " ; ".intercalate ((TraitList.run E l ops).map showRes)
        | none => "bad-case"
      else
        match parseCfg kind, (fields ops ";").mapM parseTOp with
        | some c, some ops =>
          match TraitListObject.assign c E init with
          | .error e => s!"err {e.name}"
          | .ok l => " ; ".intercalate ((TraitListObject.run c E l ops).map showRes)
        | _, _ => "bad-case"
    | _, _ => "bad-case"
  | _ => "bad-case"

end TraitsVerif.Driver.Seq

def main : IO Unit := TraitsVerif.Proto.runLines TraitsVerif.Driver.Seq.handle
