/-
Line-protocol driver for the legacy-listener model (property C16).

  case   :=  ('E'|'I'|'D'|'K'|'F'|'Z'|'N')* arity link* final '|' op (';' op)*
             ('F' / 'Z': falsy node classes, 'N': link trait names containing `_items` — implementation
              side only, truth values and names are opaque to the model)
             ('D' / 'K': the registration is made with deferred=True — by the @on_trait_change
              decorator when the history starts with `rg`, else / later by the keyword)
             ('E': the implementation side uses a node class with value-based `__eq__` and
              replaces items by equal clones; identity is all the listener may use, so the
              model ignores the flag)
  arity  :=  0 | 3 | 4                     (signature of the on_trait_change handler)
  link   :=  ('c'|'k'|'b'|'s')('.'|':')    (child / kids / byname / group [a Set], connector after it)
  final  :=  'v' | 'x'                     (value / aux)
  op     :=  sc o f | sk o n | ap o | in o i | dl o i | si o i | sl o i j n | cl o
           | sb o key* | ds o key | du o key* | di o key* | sd o key | dd o key | dp o key | dq o | dc o
           | rv o | so o | ro o | kp o d n | kc o d n | kr o | bd o d
           | ss o n | ga o | gu o n | gr o i | gx o i | gc o | xa o a | xr o a
           | pv o | px o | rg | rm
            (Set link: ss = o.group = {n fresh}, ga = group.add(N()), gu = group |= {n fresh},
             gr = group.remove(i-th member), gx = group ^= {i-th member, N()} (ONE event: removed + added),
             gc = group.clear(); the i-th member is counted in insertion order, which the implementation
             side mirrors;
             detached containers: xa o a = a fresh object is put into the container that attribute a
             ('k'|'b'|'s') of o held before its last reassignment (kept by the caller); xr o a = an object is
             taken out of that container.  A detached container sends no event: the fresh object is
             allocated and referenced from nowhere (`Op.stray`))
            (du = update, di = `|=`, sd = setdefault, dp = pop, dq = popitem, si = kids[i] = N();
             carry-over operations: rv = kids.reverse(), so = kids.sort(key giving the reversed order),
             ro = kids[:] = kids[1:] + kids[:1], kp = kids[:] = kids[d:] + n fresh,
             kc = o.kids = o.kids[d:] + n fresh, kr = o.kids = list(reversed(o.kids)),
             bd = o.byname = dict(reversed(list(o.byname.items())[d:]));
             the reassigning ones (kc, kr, bd) are skipped with 'E': whether the trait fires would
             depend on `==` of the items; `sc o 2` = fresh object with the replaced object's scalars)

Output, one group per op, joined by " ; ":
  (ok|skip) L=<legacy calls> O=<observe spec calls> P=<lv>/<la>/<ov>/<oa> A=[..][..] H=<hooks>
where after every op every allocated object is probed on `value` then `aux`
(lv/la = ids for which the legacy handler was called, ov/oa = ids for which the
observe specification demands a call).

Run:  lake env lean --run TraitsVerif/Driver/Legacy.lean
-/
import TraitsVerif.Driver.Proto
import TraitsVerif.Model.Legacy
namespace TraitsVerif.Driver.Legacy
open TraitsVerif TraitsVerif.Proto TraitsVerif.Model.Legacy

def parseLink (s : String) : Option Link :=
  match s.toList with
  | [a, c] =>
    let attr := match a with
      | 'c' => some Attr.child | 'k' => some Attr.kids | 'b' => some Attr.byname
      | 's' => some Attr.group | _ => none
    let notify := match c with | '.' => some true | ':' => some false | _ => none
    match attr, notify with
    | some a, some n => some ⟨a, n⟩
    | _, _ => none
  | _ => none

def parseEq (s : String) : Bool :=
  ((words s).takeWhile (fun w => ["E", "I", "D", "K", "F", "Z", "N"].contains w)).contains "E"

def parseName (s : String) : Option Name :=
  let ws := words s
  let flags := ws.takeWhile (fun w => ["E", "I", "D", "K", "F", "Z", "N"].contains w)
  let deferred := flags.contains "D" || flags.contains "K"
  match ws.drop flags.length with
  | ar :: rest =>
    let ty := match ar with | "0" => some LType.any | "3" => some LType.src | "4" => some LType.src | _ => none
    match ty, rest.reverse with
    | some ty, fin :: linksRev =>
      let f := match fin with | "v" => some Final.value | "x" => some Final.aux | _ => none
      match f, linksRev.reverse.mapM parseLink with
      | some f, some links => if links.isEmpty then none else some ⟨links, f, ty, deferred⟩
      | _, _ => none
    | _, _ => none
  | [] => none

/-- Operations as written on the case line (list mutators still by method). -/
inductive LOp where
  | op (o : Op)
  | carry (o : Op)        -- a reassignment that carries objects over (not with 'E')
  | append (o : Nat)
  | insert (o i : Nat)
  | delIdx (o i : Nat)
  | clear (o : Nat)
  | setIdx (o i : Nat)
  | setdefault (o k : Nat)
  | pop (o k : Nat)
  | popitem (o : Nat)
  | gadd (o n : Nat)
  | gremove (o i : Nat) (n : Nat)
  | gclear (o : Nat)
  | stale (o n : Nat)
  | bad

def nat? (s : String) : Option Nat := (clean s).toNat?

def parseOp (s : String) : LOp :=
  match words s with
  | ["sc", o, f] => match nat? o, nat? f with
    | some o, some f => .op (.setChild o (f != 0)) | _, _ => .bad
  | ["sk", o, n] => match nat? o, nat? n with
    | some o, some n => .op (.setKids o n) | _, _ => .bad
  | ["ap", o] => match nat? o with | some o => .append o | _ => .bad
  | ["in", o, i] => match nat? o, nat? i with | some o, some i => .insert o i | _, _ => .bad
  | ["dl", o, i] => match nat? o, nat? i with | some o, some i => .delIdx o i | _, _ => .bad
  | ["sl", o, i, j, n] => match nat? o, nat? i, nat? j, nat? n with
    | some o, some i, some j, some n => .op (.splice o i j n) | _, _, _, _ => .bad
  | ["cl", o] => match nat? o with | some o => .clear o | _ => .bad
  | "sb" :: o :: keys => match nat? o, keys.mapM nat? with
    | some o, some ks => .op (.setDict o ks) | _, _ => .bad
  | ["ds", o, k] => match nat? o, nat? k with | some o, some k => .op (.dictSet o k) | _, _ => .bad
  | "du" :: o :: keys => match nat? o, keys.mapM nat? with
    | some o, some ks => .op (.dictUpdate o ks) | _, _ => .bad
  | "di" :: o :: keys => match nat? o, keys.mapM nat? with
    | some o, some ks => .op (.dictUpdate o ks) | _, _ => .bad
  | ["si", o, i] => match nat? o, nat? i with | some o, some i => .setIdx o i | _, _ => .bad
  | ["sd", o, k] => match nat? o, nat? k with | some o, some k => .setdefault o k | _, _ => .bad
  | ["dp", o, k] => match nat? o, nat? k with | some o, some k => .pop o k | _, _ => .bad
  | ["dq", o] => match nat? o with | some o => .popitem o | _ => .bad
  | ["dd", o, k] => match nat? o, nat? k with | some o, some k => .op (.dictDel o k) | _, _ => .bad
  | ["dc", o] => match nat? o with | some o => .op (.dictClear o) | _ => .bad
  | ["pv", o] => match nat? o with | some o => .op (.probe o .value) | _ => .bad
  | ["px", o] => match nat? o with | some o => .op (.probe o .aux) | _ => .bad
  | ["rv", o] => match nat? o with | some o => .op (.rearrange o 0 1 0 true) | _ => .bad
  | ["so", o] => match nat? o with | some o => .op (.rearrange o 0 1 0 true) | _ => .bad
  | ["ro", o] => match nat? o with | some o => .op (.rearrange o 0 2 0 true) | _ => .bad
  | ["kp", o, d, n] => match nat? o, nat? d, nat? n with
    | some o, some d, some n => .op (.rearrange o d 0 n true) | _, _, _ => .bad
  | ["kc", o, d, n] => match nat? o, nat? d, nat? n with
    | some o, some d, some n => .carry (.rearrange o d 0 n false) | _, _, _ => .bad
  | ["kr", o] => match nat? o with | some o => .carry (.rearrange o 0 1 0 false) | _ => .bad
  | ["bd", o, d] => match nat? o, nat? d with | some o, some d => .carry (.dictCarry o d) | _, _ => .bad
  | ["ss", o, n] => match nat? o, nat? n with
    | some o, some n => .op (.setGroup o n) | _, _ => .bad
  | ["ga", o] => match nat? o with | some o => .gadd o 1 | _ => .bad
  | ["gu", o, n] => match nat? o, nat? n with | some o, some n => .gadd o n | _, _ => .bad
  | ["gr", o, i] => match nat? o, nat? i with | some o, some i => .gremove o i 0 | _, _ => .bad
  | ["gx", o, i] => match nat? o, nat? i with | some o, some i => .gremove o i 1 | _, _ => .bad
  | ["gc", o] => match nat? o with | some o => .gclear o | _ => .bad
  | ["xa", o, a] => match nat? o with
    | some o => if ["k", "b", "s"].contains a then .stale o 1 else .bad | _ => .bad
  | ["xr", o, a] => match nat? o with
    | some o => if ["k", "b", "s"].contains a then .stale o 0 else .bad | _ => .bad
  | ["rg"] => .op .reg
  | ["rm"] => .op .unreg
  | _ => .bad

/-- `list.append / insert / __delitem__(int) / clear` as the slice assignment they are. -/
def resolve (eq : Bool) (h : Heap) : LOp → Option Op
  | .op o => some o
  | .carry o => if eq then none else some o
  | .append o => let n := (h.obj o).kids.length; some (.splice o n n 1)
  | .insert o i => some (.splice o i i 1)
  | .delIdx o i => if i < (h.obj o).kids.length then some (.splice o i (i + 1) 0) else none
  | .clear o => some (.splice o 0 (h.obj o).kids.length 0)
  | .setIdx o i => if i < (h.obj o).kids.length then some (.splice o i (i + 1) 1) else none
  -- TraitDict.setdefault: nothing happens when the key is present
  | .setdefault o k => if ((h.obj o).byname.find? (·.1 = k)).isSome then none else some (.dictSet o k)
  | .pop o k => some (.dictDel o k)
  -- dict.popitem removes the most recently inserted key
  | .popitem o => match (h.obj o).byname.getLast? with
    | some e => some (.dictDel o e.1)
    | none => none
  | .gadd o n => let l := (h.obj o).group.length; some (.gsplice o l l n)
  | .gremove o i n => if i < (h.obj o).group.length then some (.gsplice o i (i + 1) n) else none
  | .gclear o => some (.gsplice o 0 (h.obj o).group.length 0)
  | .stale o n => if o < h.next then some (.stray n) else none
  | .bad => none

def traitName : Trait → String
  | .link .child => "c" | .link .kids => "k" | .link .byname => "b"
  | .link .group => "s"
  | .items .child => "ci" | .items .kids => "ki" | .items .byname => "bi" | .items .group => "si"
  | .final .value => "v" | .final .aux => "x"

def traitOrder : List Trait :=
  [.link .child, .link .kids, .items .kids, .link .byname, .items .byname, .link .group, .items .group,
   .final .value, .final .aux]

def showCalls (cs : List Call) : String :=
  if cs.isEmpty then "-" else ",".intercalate (cs.map (fun c => s!"{c.1}.{traitName c.2}"))

def showIds (l : List Nat) : String :=
  if l.isEmpty then "-" else ",".intercalate (l.map toString)

def showRef : HRef → String
  | .user => "U"
  | .tl k => s!"T{k}"

def showHooks (st : St) : String :=
  let objs := (List.range st.h.next).filterMap (fun o =>
    let parts := traitOrder.filterMap (fun t =>
      let sn := snapshot st.s o t
      if sn.isEmpty then none else some (traitName t ++ "[" ++ ",".intercalate (sn.map showRef) ++ "]"))
    if parts.isEmpty then none else some (s!"{o}:" ++ "".intercalate parts))
  if objs.isEmpty then "-" else "_".intercalate objs

def showActive (N : Name) (st : St) : String :=
  "".intercalate ((List.range (N.links.length + 1)).map (fun k =>
    "[" ++ ",".intercalate (((st.s.active k).mergeSort (· ≤ ·)).map toString) ++ "]"))

/-- Probe every allocated object on one final attribute; returns the state and
the ids (with multiplicity) for which the legacy handler / the specification fire. -/
def probeAll (N : Name) (f : Final) : List Nat → St → List Nat → List Nat → St × List Nat × List Nat
  | [], st, lg, ob => (st, lg, ob)
  | o :: os, st, lg, ob =>
    let spec := specStep N st (.probe o f)
    let (st', _, calls) := step N st (.probe o f)
    probeAll N f os st' (lg ++ calls.map (·.1)) (ob ++ spec.map (·.1))

def runOps (eq : Bool) (N : Name) : St → List LOp → List String
  | _, [] => []
  | st, lop :: rest =>
    match resolve eq st.h lop with
    | none => "skip" :: runOps eq N st rest
    | some op =>
      let spec := specStep N st op
      let (st1, applied, calls) := step N st op
      if !applied then "skip" :: runOps eq N st1 rest
      else
        let objs := List.range st1.h.next
        let (st2, lv, ov) := probeAll N .value objs st1 [] []
        let (st3, la, oa) := probeAll N .aux objs st2 [] []
        let line := s!"ok L={showCalls calls} O={showCalls spec} " ++
          s!"P={showIds lv}/{showIds la}/{showIds ov}/{showIds oa} A={showActive N st3} H={showHooks st3}"
        line :: runOps eq N st3 rest

def handle (line : String) : String :=
  match (clean line).splitOn "|" with
  | [name, ops] =>
    match parseName name with
    | some N => " ; ".intercalate (runOps (parseEq name) N St.init ((fields ops ";").map parseOp))
    | none => "bad-case"
  | _ => "bad-case"

end TraitsVerif.Driver.Legacy

def main : IO Unit := TraitsVerif.Proto.runLines TraitsVerif.Driver.Legacy.handle
