/-
Line-protocol driver for the `map` cluster (TraitDict / builtin dict).
  kind|key-validator|value-validator|notifiers|init|op;op;…   →   res ; res ; …
kind = `td` (the TraitDict model with the notifier list `notifiers`, a string over
r = raw recorder, o = dict_event_factory consumer) or `pd` (the builtin-dict model
alone).  Atoms: `i3` = 3, `s3` = '3'.  Pairs: `[i1:s2,s3:i4]`.
Run:  lake env lean --run TraitsVerif/Driver/Map.lean
-/
import TraitsVerif.Driver.Proto
import TraitsVerif.Model.TraitDict
namespace TraitsVerif.Driver.Map
open TraitsVerif TraitsVerif.Py TraitsVerif.Model.Map TraitsVerif.Proto
open TraitsVerif.Py.Dict (Op Ret)

def atom? (s : String) : Option KAtom :=
  let s := clean s
  match s.toList with
  | 'i' :: rest => (String.ofList rest).toInt?.map KAtom.int
  | 's' :: rest => (String.ofList rest).toInt?.map KAtom.str
  | _ => none

def showAtom : KAtom → String
  | .int n => s!"i{n}"
  | .str n => s!"s{n}"

def pair? (s : String) : Option (KAtom × KAtom) :=
  match (clean s).splitOn ":" with
  | [k, v] => do pure (← atom? k, ← atom? v)
  | _ => none

/-- `[i1:s2,s3:i4]`. -/
def pairs? (s : String) : Option (List (KAtom × KAtom)) :=
  let s := clean s
  if s.length < 2 then none
  else
    let inner := ((s.drop 1).dropEnd 1).toString
    if clean inner = "" then some [] else (inner.splitOn ",").mapM pair?

def showPairs (d : List (KAtom × KAtom)) : String :=
  "{" ++ ",".intercalate (d.map fun p => s!"{showAtom p.1}:{showAtom p.2}") ++ "}"

/-- Event dicts are printed sorted by key (their order is not part of C06). -/
def showSorted (d : List (KAtom × KAtom)) : String :=
  showPairs (d.mergeSort (fun a b => KAtom.le a.1 b.1))

def parseOp (s : String) : Option (Op KAtom KAtom) :=
  match words s with
  | ["si", k, v] => do pure (.setitem (← atom? k) (← atom? v))
  | ["di", k] => do pure (.delitem (← atom? k))
  | ["up", ps] => do pure (.update (← pairs? ps))      -- list of tuples
  | ["um", ps] => do pure (.update (← pairs? ps))      -- mapping
  | ["ug", ps] => do pure (.update (← pairs? ps))      -- generator of tuples
  | ["io", ps] => do pure (.ior (← pairs? ps))         -- |= list of tuples
  | ["iom", ps] => do pure (.ior (← pairs? ps))        -- |= mapping
  | ["sd", k, v] => do pure (.setdefault (← atom? k) (← atom? v))
  | ["po", k] => do pure (.pop (← atom? k))
  | ["pd", k, v] => do pure (.popDefault (← atom? k) (← atom? v))
  | ["pi"] => some .popitem
  | ["cl"] => some .clear
  | _ => none

def showRet : Ret KAtom KAtom → String
  | .none => "-"
  | .val v => s!"v:{showAtom v}"
  | .pair k v => s!"p:{showAtom k}:{showAtom v}"
  | .self => "self"

def showSeen : Seen KAtom KAtom → String
  | .raw t => s!"R{showSorted t.removed}{showSorted t.added}{showSorted t.changed}"
  | .event e => s!"O{showSorted e.removed}{showSorted e.added}"
  | .failed e => s!"X{e.name}"

def parseNotifiers (s : String) : Option (List NotifierKind) :=
  (clean s).toList.mapM fun c => if c = 'r' then some .raw else if c = 'o' then some .observer else none

def showRes (ns : List NotifierKind) : Except Exc (DOut KAtom KAtom) → String
  | .error e => s!"err {e.name}"
  | .ok o =>
    let seen := match o.event with
      | none => []
      | some t => notifyAll o.items ns t
    s!"ok {showPairs o.items} {showRet o.ret} [{",".intercalate (seen.map showSeen)}]"

def pyRun : Dict KAtom KAtom → List (Op KAtom KAtom) → List String
  | _, [] => []
  | d, op :: ops =>
    match Dict.step d op with
    | .error e => s!"err {e.name}" :: pyRun d ops
    | .ok (d', r) => s!"ok {showPairs d'} {showRet r} []" :: pyRun d' ops

/-- The key / value traits of the Dict-trait stream (`tdo` / `tdof`: the value of a `Dict(K, V)` trait on
a truthy / an alive-but-falsy HasTraits owner — the owner's truth value must make no difference). -/
def traitValidator (kind name : String) : Option (Callback KAtom KAtom) :=
  if kind = "tdo" ∨ kind = "tdof" then
    match name with
    | "Int" => KAtom.validator "intonly"
    | "CInt" => KAtom.validator "toint"
    | "CStr" => KAtom.validator "tostr"
    | "Range05" => KAtom.validator "range05"
    | "Any" => KAtom.validator "id"
    | _ => none
  else KAtom.validator name

def handle (line : String) : String :=
  match (clean line).splitOn "|" with
  | [kind, kv, vv, ns, init, ops] =>
    match traitValidator (clean kind) (clean kv), traitValidator (clean kind) (clean vv), parseNotifiers ns, pairs? init,
        (fields ops ";").mapM parseOp with
    | some kv, some vv, some ns, some init, some ops =>
      if clean kind = "pd" then " ; ".intercalate (pyRun (Dict.ofPairs init) ops)
      else
        match TraitDict.init kv vv init with
        | .error e => s!"err {e.name}"
        | .ok d => " ; ".intercalate ((TraitDict.run kv vv d ops).map (showRes ns))
    | _, _, _, _, _ => "bad-case"
  | _ => "bad-case"

end TraitsVerif.Driver.Map

def main : IO Unit := TraitsVerif.Proto.runLines TraitsVerif.Driver.Map.handle
