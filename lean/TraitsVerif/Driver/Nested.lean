/-
Line-protocol driver for nested list traits `List(List(T, imin, imax), omin, omax)`
(Model/Nested.lean: `TT.validate`, `stepAt`).
  nl:omin:omax:imin:imax|leaf-validator|[[1],[2,3]]|op;op;…   →   res ; res ; …
  op = o <list op with list items>   (on the outer list; items are inner lists)
     | i <k> <list op with int items> (on the k-th inner list)
     | as <nested list>               (whole-value assignment)
Run:  lake env lean --run TraitsVerif/Driver/Nested.lean
-/
import TraitsVerif.Driver.Proto
import TraitsVerif.Model.Nested
namespace TraitsVerif.Driver.Nested
open TraitsVerif TraitsVerif.Py TraitsVerif.Model TraitsVerif.Proto

/-- Split the inside of `[...]` at top-level commas. -/
def splitTop (s : String) : List String :=
  let rec go (cs : List Char) (depth : Nat) (cur : List Char) (acc : List String) : List String :=
    match cs with
    | [] => (String.ofList cur.reverse :: acc).reverse
    | c :: rest =>
      if c = '[' then go rest (depth + 1) (c :: cur) acc
      else if c = ']' then go rest (depth - 1) (c :: cur) acc
      else if c = ',' && depth = 0 then go rest depth [] (String.ofList cur.reverse :: acc)
      else go rest depth (c :: cur) acc
  go s.toList 0 [] []

/-- `[1,2]` → list of atoms; `[[1],[2,3]]` → list of lists (depth ≤ 2 is all the driver needs). -/
def innerList? (s : String) : Option CV := (intList? s).map (fun l => .lst (l.map .atom))

def outerItems? (s : String) : Option (List CV) :=
  let s := clean s
  if s.length < 2 then none
  else
    let inner := clean ((s.drop 1).dropEnd 1).toString
    if inner = "" then some []
    else (splitTop inner).mapM innerList?

def leaf (v : String) : Option (Int → Except Exc Int) :=
  match v with
  | "id" => some (fun x => .ok x)
  | "mod7" => some (fun x => .ok (x % 7))
  | "rejneg" => some (fun x => if x < 0 then .error .traitError else .ok x)
  | _ => none

def parseSlice (a b c : String) : Option Slice := do
  pure ⟨← optInt? a, ← optInt? b, ← optInt? c⟩

/-- A list operation whose items are parsed by `item?` / `items?`. -/
def parseListOp (item? : String → Option CV) (items? : String → Option (List CV)) :
    List String → Option (Op CV)
  | ["si", i, x] => do pure (.setIdx (← int? i) (← item? x))
  | ["ss", a, b, c, xs] => do pure (.setSlice (← parseSlice a b c) (← items? xs))
  | ["di", i] => do pure (.delIdx (← int? i))
  | ["ds", a, b, c] => do pure (.delSlice (← parseSlice a b c))
  | ["ap", x] => do pure (.append (← item? x))
  | ["ex", xs] => do pure (.extend (← items? xs))
  | ["ia", xs] => do pure (.iadd (← items? xs))
  | ["im", n] => do pure (.imul (← int? n))
  | ["in", i, x] => do pure (.insert (← int? i) (← item? x))
  | ["po", i] => do pure (.pop (← int? i))
  | ["cl"] => some .clear
  | ["rv"] => some .reverse
  | _ => none

def atom? (s : String) : Option CV := (int? s).map .atom
def atoms? (s : String) : Option (List CV) := (intList? s).map (·.map .atom)

inductive NOp where
  | at (path : List Nat) (op : Op CV)
  | assign (v : CV)

def parseNOp (s : String) : Option NOp :=
  match words s with
  | "o" :: rest => (parseListOp innerList? outerItems? rest).map (.at [])
  | "i" :: k :: rest => do
      let k ← k.toNat?
      (parseListOp atom? atoms? rest).map (.at [k])
  | ["as", v] => (outerItems? v).map (fun xs => .assign (.lst xs))
  | _ => none

partial def showCV : CV → String
  | .atom n => toString n
  | .lst xs => "[" ++ ",".intercalate (xs.map showCV) ++ "]"

def noEq : CV → CV → Bool := fun _ _ => false
def noSort : Nat → List CV → List CV := fun _ l => l

def run (tt : TT) : CV → List NOp → List String
  | _, [] => []
  | cv, .assign v :: ops =>
    match tt.validate v with
    | .error e => s!"err {e.name}" :: run tt cv ops
    | .ok cv' => s!"ok {showCV cv'}" :: run tt cv' ops
  | cv, .at path op :: ops =>
    match stepAt noEq noSort tt path op cv with
    | none => "err IndexError" :: run tt cv ops            -- the path does not lead to a list
    | some (.error e) => s!"err {e.name}" :: run tt cv ops
    | some (.ok cv') => s!"ok {showCV cv'}" :: run tt cv' ops

def handle (line : String) : String :=
  match (clean line).splitOn "|" with
  | [kind, v, init, ops] =>
    match (clean kind).splitOn ":", leaf (clean v), outerItems? init, (fields ops ";").mapM parseNOp with
    | ["nl", a, b, c, d], some lv, some init, some ops =>
      match a.toNat?, b.toNat?, c.toNat?, d.toNat? with
      | some a, some b, some c, some d =>
        let tt : TT := .list ⟨a, b⟩ (.list ⟨c, d⟩ (.leaf lv))
        match tt.validate (.lst init) with
        | .error e => s!"err {e.name}"
        | .ok cv => " ; ".intercalate (run tt cv ops)
      | _, _, _, _ => "bad-case"
    | _, _, _, _ => "bad-case"
  | _ => "bad-case"

end TraitsVerif.Driver.Nested

def main : IO Unit := TraitsVerif.Proto.runLines TraitsVerif.Driver.Nested.handle
