/-
Line-protocol driver for nested list traits `List(List(T, imin, imax), omin, omax)`
(Model/Nested.lean: `TT.validate`, `stepAt`).
  nl:omin:omax:imin:imax|leaf-validator|[[1],[2,3]]|op;op;…   →   res ; res ; …
  op = o <list op with list items>   (on the outer list; items are inner lists)
     | i <k> <list op with int items> (on the k-th inner list)
     | as <nested list>               (whole-value assignment)
Run:  lake env lean --run TraitsVerif/Driver/Nested.lean
-/
import TraitsVerif.Driver.Proto
import TraitsVerif.Model.Nested
namespace TraitsVerif.Driver.Nested
open TraitsVerif TraitsVerif.Py TraitsVerif.Model TraitsVerif.Proto

/-- Split the inside of `[...]` at top-level commas. -/
def splitTop (s : String) : List String :=
  let rec go (cs : List Char) (depth : Nat) (cur : List Char) (acc : List String) : List String :=
    match cs with
    | [] => (String.ofList cur.reverse :: acc).reverse
    | c :: rest =>
      if c = '[' then go rest (depth + 1) (c :: cur) acc
      else if c = ']' then go rest (depth - 1) (c :: cur) acc
      else if c = ',' && depth = 0 then go rest depth [] (String.ofList cur.reverse :: acc)
      else go rest depth (c :: cur) acc
  go s.toList 0 [] []

/-- `[1,2]` → list of atoms; `[[1],[2,3]]` → list of lists (depth ≤ 2 is all the driver needs). -/
def innerList? (s : String) : Option CV := (intList? s).map (fun l => .lst (l.map .atom))

def outerItems? (s : String) : Option (List CV) :=
  let s := clean s
  if s.length < 2 then none
  else
    let inner := clean ((s.drop 1).dropEnd 1).toString
    if inner = "" then some []
    else (splitTop inner).mapM innerList?

def leaf (v : String) : Option (Int → Except Exc Int) :=
  match v with
  | "id" => some (fun x => .ok x)
  | "mod7" => some (fun x => .ok (x % 7))
  | "rejneg" => some (fun x => if x < 0 then .error .traitError else .ok x)
  | _ => none

def parseSlice (a b c : String) : Option Slice := do
  pure ⟨← optInt? a, ← optInt? b, ← optInt? c⟩

/-- A list operation whose items are parsed by `item?` / `items?`; `@` as the
iterable argument stands for the list the operation is applied to, so the
result is a function of that list's current contents. -/
def parseListOp (item? : String → Option CV) (items? : String → Option (List CV)) :
    List String → Option (List CV → Op CV)
  | ["si", i, x] => do let i ← int? i; let x ← item? x; pure (fun _ => .setIdx i x)
  | ["ss", a, b, c, xs] => do
    let sl ← parseSlice a b c
    if clean xs = "@" then pure (fun l => .setSlice sl l)
    else do let ys ← items? xs; pure (fun _ => .setSlice sl ys)
  | ["di", i] => do let i ← int? i; pure (fun _ => .delIdx i)
  | ["ds", a, b, c] => do let sl ← parseSlice a b c; pure (fun _ => .delSlice sl)
  | ["ap", x] => do let x ← item? x; pure (fun _ => .append x)
  | ["ex", xs] =>
    if clean xs = "@" then pure (fun l => .extend l)
    else do let ys ← items? xs; pure (fun _ => .extend ys)
  | ["ia", xs] =>
    if clean xs = "@" then pure (fun l => .iadd l)
    else do let ys ← items? xs; pure (fun _ => .iadd ys)
  | ["im", n] => do let n ← int? n; pure (fun _ => .imul n)
  | ["in", i, x] => do let i ← int? i; let x ← item? x; pure (fun _ => .insert i x)
  | ["po", i] => do let i ← int? i; pure (fun _ => .pop i)
  | ["cl"] => some (fun _ => .clear)
  | ["rv"] => some (fun _ => .reverse)
  | _ => none

def atom? (s : String) : Option CV := (int? s).map .atom
def atoms? (s : String) : Option (List CV) := (intList? s).map (·.map .atom)

inductive NOp where
  | at (path : List Nat) (op : List CV → Op CV)
  | assign (v : CV)

def parseNOp (s : String) : Option NOp :=
  match words s with
  | "o" :: rest => (parseListOp innerList? outerItems? rest).map (.at [])
  | "i" :: k :: rest => do
      let k ← k.toNat?
      (parseListOp atom? atoms? rest).map (.at [k])
  | ["as", v] => (outerItems? v).map (fun xs => .assign (.lst xs))
  | _ => none

partial def showCV : CV → String
  | .atom n => toString n
  | .lst xs => "[" ++ ",".intercalate (xs.map showCV) ++ "]"

def noEq : CV → CV → Bool := fun _ _ => false
def noSort : Nat → List CV → List CV := fun _ l => l

/-- The contents of the list a path leads to. -/
def listAt : CV → List Nat → Option (List CV)
  | .lst xs, [] => some xs
  | .lst xs, i :: path => match xs[i]? with | some x => listAt x path | none => none
  | _, _ => none

def run (tt : TT) : CV → List NOp → List String
  | _, [] => []
  | cv, .assign v :: ops =>
    match tt.validate v with
    | .error e => s!"err {e.name}" :: run tt cv ops
    | .ok cv' => s!"ok {showCV cv'}" :: run tt cv' ops
  | cv, .at path f :: ops =>
    match listAt cv path with
    | none => "err IndexError" :: run tt cv ops              -- the path does not lead to a list
    | some here =>
      match stepAt noEq noSort tt path (f here) cv with
      | none => "err IndexError" :: run tt cv ops
      | some (.error e) => s!"err {e.name}" :: run tt cv ops
      | some (.ok cv') => s!"ok {showCV cv'}" :: run tt cv' ops

def handle (line : String) : String :=
  match (clean line).splitOn "|" with
  | [kind, v, init, ops] =>
    match (clean kind).splitOn ":", leaf (clean v), outerItems? init, (fields ops ";").mapM parseNOp with
    | ["nl", a, b, c, d], some lv, some init, some ops =>
      match a.toNat?, b.toNat?, c.toNat?, d.toNat? with
      | some a, some b, some c, some d =>
        let tt : TT := .list ⟨a, b⟩ (.list ⟨c, d⟩ (.leaf lv))
        match tt.validate (.lst init) with
        | .error e => s!"err {e.name}"
        | .ok cv => " ; ".intercalate (run tt cv ops)
      | _, _, _, _ => "bad-case"
    | _, _, _, _ => "bad-case"
  | _ => "bad-case"

end TraitsVerif.Driver.Nested

def main : IO Unit := TraitsVerif.Proto.runLines TraitsVerif.Driver.Nested.handle
