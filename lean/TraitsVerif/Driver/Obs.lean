/-
Line-protocol driver for the `obs` cluster (C08, C09).

  obs|<n>|<child defaults>|op;op;…     →   res ; res ; …

One result per op: `<status> D{deliveries} P{probe deliveries} N{notifier populations}`.
After every op every pool object is probed (each Int trait is read, then
incremented) exactly as harness/props/obslib.py does on the real objects.
Run:  lake env lean --run TraitsVerif/Driver/Obs.lean
-/
import TraitsVerif.Driver.Proto
import TraitsVerif.Model.Maintain
namespace TraitsVerif.Driver.Obs
open TraitsVerif TraitsVerif.Model.Obs TraitsVerif.Proto

def names : List String :=
  ["value", "mate", "child", "kids", "byname", "group", "trait_added", "trait_modified",
   "extra", "xchild", "items", "nosuch", "ichild", "nchild", "tkids", "l2", "l2_items", "shared"]

def nameOf (n : Name) : String := names.getD n s!"n{n}"
def name? (s : String) : Option Name := names.findIdx? (· == s)

def nExtra : Name := 8
def nL2 : Name := 15
def nL2Items : Name := 16
def nShared : Name := 17

def nat? (s : String) : Option Nat := (clean s).toNat?

def bool? (s : String) : Option Bool :=
  match clean s with
  | "1" => some true
  | "0" => some false
  | _ => none

/-- `N` = None, otherwise an identity. -/
def refVal? (s : String) : Option Val :=
  if clean s = "N" then some .none else (nat? s).map .ref

def natList? (s : String) : Option (List Nat) :=
  let s := clean s
  if s.length < 2 then none
  else
    let inner := ((s.drop 1).dropEnd 1).toString
    if clean inner = "" then some [] else (inner.splitOn ",").mapM nat?

def kvList? (s : String) : Option (List (Nat × Nat)) :=
  let s := clean s
  if s.length < 2 then none
  else
    let inner := ((s.drop 1).dropEnd 1).toString
    if clean inner = "" then some []
    else (inner.splitOn ",").mapM (fun p =>
      match p.splitOn ":" with
      | [k, v] => do pure ((← nat? k), (← nat? v))
      | _ => none)

/-- reverse-Polish expression: atoms `t.<name>.<notify>.<optional>`, `li.n.o`,
`di.n.o`, `si.n.o`, `any.n`, `meta.n`; operators `then`, `or`. -/
def atom? (s : String) : Option Observer :=
  match s.splitOn "." with
  | ["t", nm, n, o] => do pure (.named (← name? nm) (← bool? n) (← bool? o))
  | ["li", n, o] => do pure (.listItems (← bool? n) (← bool? o))
  | ["di", n, o] => do pure (.dictItems (← bool? n) (← bool? o))
  | ["si", n, o] => do pure (.setItems (← bool? n) (← bool? o))
  | ["any", n] => do pure (.filtered .anyTrait (← bool? n))
  | ["meta", n] => do pure (.filtered .metadata (← bool? n))
  | _ => none

def rpn? : List String → List Expr → Option Expr
  | [], [e] => some e
  | [], _ => none
  | "then" :: ts, b :: a :: st => rpn? ts (.series a b :: st)
  | "or" :: ts, b :: a :: st => rpn? ts (.parallel a b :: st)
  | t :: ts, st => match atom? t with
    | some ob => rpn? ts (.single ob :: st)
    | none => none

inductive Op where
  | mut (ms : List Mutation) (declared : List Id)
  /-- `o.add_trait(f, List(…))`: the recursive `add_trait(f + "_items", Event)` of
  has_traits.py:2846-2848 comes first and is a complete add_trait of its own (see `stepOp`). -/
  | addList (o : Id) (f items : Name) (tagged : Bool)
  /-- a mutator whose effect depends on what the container holds (`setdefault`, `pop(k, None)`,
  `popitem`, `remove`, `^=`, …): the basic mutations it amounts to in the current heap;
  `none` = the harness skips it (KeyError before anything happens). -/
  | dyn (f : Heap → Option (List Mutation))
  /-- `del o.n` (`Mutation.delField`); `fresh` names a container default and is declared. -/
  | delField (o : Id) (n : Name) (fresh : Id)
  | observe (handler : Nat) (root : Id) (rm : Bool) (e : Expr)
  | kill (handler : Nat)

def parseOp (s : String) : Option Op :=
  match words s with
  | ["set", o, f, v] => do pure (.mut [.setField (← nat? o) (← name? f) (← refVal? v) 0] [])
  | ["seti", o, f, v] => do pure (.mut [.setField (← nat? o) (← name? f) (.int (← int? v)) 0] [])
  | ["setl", o, f, c, xs] => do
    let c ← nat? c
    pure (.mut [.alloc c (.list (← natList? xs)), .setField (← nat? o) (← name? f) (.ref c) (c + 1)] [c])
  | ["setd", o, f, c, xs] => do
    let c ← nat? c
    pure (.mut [.alloc c (.dict (← kvList? xs)), .setField (← nat? o) (← name? f) (.ref c) (c + 1)] [c])
  | ["sets", o, f, c, xs] => do
    let c ← nat? c
    pure (.mut [.alloc c (.set (← natList? xs)), .setField (← nat? o) (← name? f) (.ref c) (c + 1)] [c])
  | ["get", o, f, c] => do
    let c ← nat? c
    pure (.mut [.read (← nat? o) (← name? f) c] [c])
  | ["addt", o, f, tg] => do
    let f ← name? f
    -- `l2` (15) is added as a List trait (its companion `l2_items` event trait is not listed by
    -- traits() and, since fix f0764c2, not hooked by the trait_added maintainers of filtered observers)
    -- tag codes: 0 no metadata, 1 True, 2 False, 3 0, 4 "", 5 "x", 6 None; matched iff not None
    let tg ← nat? tg
    let o ← nat? o
    if f == nL2 then pure (.addList o f nL2Items (tg != 0 && tg != 6))
    else pure (.mut
      [.addTrait o f (tg != 0 && tg != 6) (if f == nExtra then .val (.int 0) else .val .none)] [])
  | ["la", c, x] => do pure (.mut [.listAppend (← nat? c) (← nat? x)] [])
  | ["li", c, i, x] => do pure (.mut [.listInsert (← nat? c) (← nat? i) (← nat? x)] [])
  | ["ld", c, i] => do pure (.mut [.listDel (← nat? c) (← nat? i)] [])
  | ["ls", c, i, x] => do pure (.mut [.listSet (← nat? c) (← nat? i) (← nat? x)] [])
  | ["lsl", c, i, j, xs] => do pure (.mut [.listSlice (← nat? c) (← nat? i) (← nat? j) (← natList? xs)] [])
  | ["lst", c, i, st, xs] => do pure (.mut [.listStride (← nat? c) (← nat? i) (← nat? st) (← natList? xs)] [])
  | ["lc", c] => do pure (.mut [.listClear (← nat? c)] [])
  | ["le", c, xs] => do pure (.mut [.listExtend (← nat? c) (← natList? xs)] [])
  | ["ds", c, k, x] => do pure (.mut [.dictSet (← nat? c) (← nat? k) (← nat? x)] [])
  | ["dd", c, k] => do pure (.mut [.dictDel (← nat? c) (← nat? k)] [])
  -- trait_dict_object.py: `d[k] = x` / `update({k: x})` / `d |= {k: x}` / `setdefault(k, x)` with the key
  -- un-cast (suffix `u`: the int k for the entry "<k>") or not: one pair, classified by the VALIDATED
  -- key, announced as removed {k: old} / added {k: x} by dict_event_factory
  | ["dsu", c, k, x] => do pure (.mut [.dictSet (← nat? c) (← nat? k) (← nat? x)] [])
  | ["du", c, k, x] => do pure (.mut [.dictSet (← nat? c) (← nat? k) (← nat? x)] [])
  | ["duu", c, k, x] => do pure (.mut [.dictSet (← nat? c) (← nat? k) (← nat? x)] [])
  | ["dio", c, k, x] => do pure (.mut [.dictSet (← nat? c) (← nat? k) (← nat? x)] [])
  | ["diou", c, k, x] => do pure (.mut [.dictSet (← nat? c) (← nat? k) (← nat? x)] [])
  -- setdefault tests the RAW key first (:285): an un-cast key never matches and the entry is overwritten
  | ["dsdu", c, k, x] => do pure (.mut [.dictSet (← nat? c) (← nat? k) (← nat? x)] [])
  | ["dsd", c, k, x] => do
    let c ← nat? c; let k ← nat? k; let x ← nat? x
    pure (.dyn fun h => match h.get c with
      | .dict d => if d.any (·.1 == k) then some [] else some [.dictSet c k x]
      | _ => none)
  | ["dp", c, k] => do pure (.mut [.dictDel (← nat? c) (← nat? k)] [])
  | ["dpd", c, k] => do
    let c ← nat? c; let k ← nat? k
    pure (.dyn fun h => match h.get c with
      | .dict d => if d.any (·.1 == k) then some [.dictDel c k] else some []
      | _ => none)
  | ["dpi", c] => do
    let c ← nat? c
    pure (.dyn fun h => match h.get c with
      | .dict d => (d.getLast?).map (fun kv => [Mutation.dictDel c kv.1])
      | _ => none)
  | ["dc", c] => do pure (.mut [.dictClear (← nat? c)] [])
  | ["sa", c, x] => do pure (.mut [.setAdd (← nat? c) (← nat? x)] [])
  | ["sr", c, x] => do pure (.mut [.setDiscard (← nat? c) (← nat? x)] [])
  | ["sc", c] => do pure (.mut [.setClear (← nat? c)] [])
  -- trait_set_object.py, one-element operands: update / |= add, -= / difference_update / &= remove,
  -- ^= / symmetric_difference_update toggle; remove raises KeyError for an absent item
  | ["su", c, x] => do pure (.mut [.setAdd (← nat? c) (← nat? x)] [])
  | ["sio", c, x] => do pure (.mut [.setAdd (← nat? c) (← nat? x)] [])
  | ["sis", c, x] => do pure (.mut [.setDiscard (← nat? c) (← nat? x)] [])
  | ["sia", c, x] => do pure (.mut [.setDiscard (← nat? c) (← nat? x)] [])
  | ["sdu", c, x] => do pure (.mut [.setDiscard (← nat? c) (← nat? x)] [])
  | ["sro", c, x] => do
    let c ← nat? c; let x ← nat? x
    pure (.dyn fun h => match h.get c with
      | .set s => if s.contains x then some [.setDiscard c x] else none
      | _ => none)
  | ["six", c, x] => do
    let c ← nat? c; let x ← nat? x
    pure (.dyn fun h => match h.get c with
      | .set s => if s.contains x then some [.setDiscard c x] else some [.setAdd c x]
      | _ => none)
  | ["sxu", c, x] => do
    let c ← nat? c; let x ← nat? x
    pure (.dyn fun h => match h.get c with
      | .set s => if s.contains x then some [.setDiscard c x] else some [.setAdd c x]
      | _ => none)
  | ["sp", c] => do
    let c ← nat? c
    pure (.dyn fun h => match h.get c with
      | .set [x] => some [.setDiscard c x]
      | _ => none)
  | ["del", o, f, c] => do pure (.delField (← nat? o) (← name? f) (← nat? c))
  | "obs" :: h :: r :: e => do pure (.observe (← nat? h) (← nat? r) false (← rpn? e []))
  | "unobs" :: h :: r :: e => do pure (.observe (← nat? h) (← nat? r) true (← rpn? e []))
  | ["kill", h] => do pure (.kill (← nat? h))
  | _ => none

/-! ### canonical output -/

def showVal : Val → String
  | .unset => "U"
  | .undef => "X"
  | .none => "N"
  | .int n => s!"i{n}"
  | .name n => s!"s{nameOf n}"
  | .ref i => s!"r{i}"

def showIds (l : List Nat) : String := "[" ++ ",".intercalate (l.map toString) ++ "]"
def showKvs (l : List (Nat × Nat)) : String :=
  "[" ++ ",".intercalate (l.map (fun kv => s!"{kv.1}:{kv.2}")) ++ "]"

/-- A handler key `10 + h` stands for handler `h` registered through
`traits.observation.api.observe(…, dispatcher=queue.dispatch)`: the dispatcher is part of
the notifiers' `equals`, so it is a different key; the user's callable is the same. -/
def showDelivered : Delivered → String
  | .trait k o n old new => s!"{k.handler % 10}@{o}.{nameOf n}:{showVal old}>{showVal new}"
  | .list k c i r a => s!"{k.handler % 10}@L{c}:{i}-{showIds r}+{showIds a}"
  | .dict k c r a => s!"{k.handler % 10}@D{c}:-{showKvs r}+{showKvs a}"
  | .set k c r a => s!"{k.handler % 10}@S{c}:-{showIds r}+{showIds a}"

def sortStrs (l : List String) : List String := l.mergeSort (fun a b => decide (a ≤ b))

def showMK : MKind → String
  | .trait => "t" | .list => "l" | .dict => "d" | .set => "s" | .added => "a"

/-- population of one notifier list: sorted user notifiers with their counts,
then the number of maintainers per (kind, handler, target). -/
def showNotifiers (ns : List Notifier) : String :=
  let us := ns.filterMap (fun n => match n with
    | .user k rc => some s!"u{k.handler}.{k.target}*{rc}"
    | _ => none)
  let ms := ns.filterMap (fun n => match n with
    | .maint mk _ k => some s!"m{showMK mk}{k.handler}.{k.target}"
    | _ => none)
  let ms := sortStrs ms
  -- run-length encode the sorted maintainers
  let rec rle : List String → List (String × Nat) → List (String × Nat)
    | [], acc => acc.reverse
    | s :: ss, (t, n) :: acc => if s == t then rle ss ((t, n + 1) :: acc) else rle ss ((s, 1) :: (t, n) :: acc)
    | s :: ss, [] => rle ss [(s, 1)]
  ",".intercalate (sortStrs us ++ (rle ms []).map (fun p => s!"{p.1}*{p.2}"))

structure DSt where
  n : Nat                       -- pool size
  cls : List Nat := []          -- `==` classes of the pool objects (`a == b` iff same class)
  st : St
  conts : List Id               -- declared container identities (ascending as declared)
  deadH : List Nat
  /-- instance traits that exist on a pool object although `traits()` never lists them (the heap
  of the model holds the listed ones only): the `<name>_items` companions `add_trait` created. -/
  hidden : List (Id × Name) := []

def DSt.env (d : DSt) : Env :=
  { -- handler keys >= 10 are the same handler (key - 10) registered with another dispatcher
    deadH := fun x => d.deadH.contains (x % 10)
    eqo := fun i j => match d.cls[i]?, d.cls[j]? with
      | some a, some b => a == b
      | _, _ => false }

def showPop (d : DSt) : String :=
  let objs := (List.range d.n).flatMap (fun o =>
    match d.st.h.get o with
    | .inst fs => fs.filterMap (fun f =>
        let ns := d.st.H.get (.trait o f.name)
        if ns.isEmpty then none else some s!"{o}.{nameOf f.name}={showNotifiers ns}")
    | _ => [])
  let cs := d.conts.filterMap (fun c =>
    match d.st.h.get c with
    | .junk => none
    | .inst _ => none
    | _ =>
      let ns := d.st.H.get (.cont c)
      if ns.isEmpty then none else some s!"{c}={showNotifiers ns}")
  " ".intercalate (objs ++ cs)

/-- Probe: every Int trait of every pool object is read, then incremented. -/
def probeFields (d : DSt) (o : Id) : List Name :=
  match d.st.h.get o with
  | .inst fs => fs.filterMap (fun f => match f.dflt with
    | .val (.int _) => some f.name
    | _ => none)
  | _ => []

def probeOne (d : DSt) (o : Id) (n : Name) : DSt × List String :=
  let r1 := mutate d.env d.st (.read o n 0)
  let d1 := { d with st := r1.st }
  let out1 := r1.delivered.map showDelivered
  match r1.err with
  | some e => (d1, out1 ++ [s!"!{o}.{nameOf n}:{e.name}"])
  | none =>
    match fieldVal r1.st.h (some o) n with
    | .int v =>
      let r2 := mutate d.env r1.st (.setField o n (.int (v + 1)) 0)
      let out2 := r2.delivered.map showDelivered
      ({ d with st := r2.st }, out1 ++ out2 ++ (match r2.err with
        | some e => [s!"!{o}.{nameOf n}:{e.name}"]
        | none => []))
    | _ => (d1, out1)

def probe (d : DSt) : DSt × List String :=
  (List.range d.n).foldl (fun (acc : DSt × List String) o =>
    (probeFields acc.1 o).foldl (fun (acc : DSt × List String) n =>
      let r := probeOne acc.1 o n
      (r.1, acc.2 ++ r.2)) acc) (d, [])

def runMuts (d : DSt) : List Mutation → DSt × List Delivered × Option Exc
  | [] => (d, [], none)
  | m :: ms =>
    let r := mutate d.env d.st m
    let d' := { d with st := r.st }
    match r.err with
    | some e => (d', r.delivered, some e)
    | none =>
      let r' := runMuts d' ms
      (r'.1, r.delivered ++ r'.2.1, r'.2.2)

def status (e : Option Exc) : String :=
  match e with
  | none => "ok"
  | some e => s!"err {e.name}"

def stepOp (d : DSt) (op : Op) : DSt × String :=
  let (d1, ds, stat) : DSt × List Delivered × String :=
    match op with
    | .mut ms declared =>
      let d0 := { d with conts := d.conts ++ declared.filter (fun c => !d.conts.contains c) }
      let r := runMuts d0 ms
      (r.1, r.2.1, status r.2.2)
    | .dyn f =>
      (match f d.st.h with
       | none => (d, [], "err Other")
       | some ms =>
         let r := runMuts d ms
         (r.1, r.2.1, status r.2.2))
    | .delField o n fresh =>
      -- Model.Obs.Mutation.delField: the delete branch of setattr_trait (ctraits.c:2441-2489)
      let d0 := { d with conts := d.conts ++ (if d.conts.contains fresh then [] else [fresh]) }
      let r := mutate d0.env d0.st (.delField o n fresh)
      ({ d0 with st := r.st }, r.delivered, status r.err)
    | .addList o f items tagged =>
      -- has_traits.py:2846-2848: `self.add_trait(name + "_items", handler.items_event())` runs first.
      -- It announces the companion only when the object has no trait of that name yet
      -- (`old_trait is None`, :2853, :2889-2890) and it has stored it in the instance trait
      -- dictionary (:2857-2858) BEFORE `trait_added` fires: when a notifier of `trait_added`
      -- raises, the outer add_trait is abandoned with `<f>_items` defined and `f` not.  A later
      -- `add_trait(f, List(…))` then finds the companion, announces nothing for it and goes on to
      -- define and announce `f` itself.
      let first := !d.hidden.contains (o, items)
      let d0 := if first then { d with hidden := (o, items) :: d.hidden } else d
      let r := runMuts d0 ((if first then [Mutation.announce o items f] else []) ++
        [.addTrait o f tagged .newList])
      (r.1, r.2.1, status r.2.2)
    | .observe hd root rm e =>
      let r := observe d.st.h hd root rm e d.st.H
      ({ d with st := ⟨d.st.h, r.H⟩ }, [], status r.err)
    | .kill hd => ({ d with deadH := hd :: d.deadH }, [], "ok")
  let d2 := d1
  let (d3, ps) := probe d2
  let d4 := d3
  let dstr := " ".intercalate (sortStrs (ds.map showDelivered))
  let pstr := " ".intercalate (sortStrs ps)
  (d4, stat ++ " D{" ++ dstr ++ "} P{" ++ pstr ++ "} N{" ++ showPop d4 ++ "}")

def initFields (childDflt : Val) (shared : Option Id := none) : List Field :=
  [⟨0, false, .val (.int 0), .unset, .equality⟩,
   ⟨1, true, .val childDflt, .unset, .equality⟩,      -- mate: tag=True, same dynamic default as child
   ⟨2, false, .val childDflt, .unset, .equality⟩,
   ⟨3, false, .newList, .unset, .equality⟩,
   ⟨4, false, .newDict, .unset, .equality⟩,
   ⟨5, false, .newSet, .unset, .equality⟩,
   -- Instance(HasTraits, comparison_mode=identity / none)
   ⟨12, false, .val .none, .unset, .identity⟩,
   ⟨13, false, .val .none, .unset, .none⟩,
   -- tkids = List(Instance, tag=False): the metadata is defined (falsy, not None), so `+tag` matches
   ⟨14, true, .newList, .unset, .equality⟩,
   ⟨6, false, .val .undef, .unset, .equality⟩,
   ⟨7, false, .val .undef, .unset, .equality⟩] ++
  -- `shared = Any(<pool object s>)`, added with add_class_trait: listed last, constant default
  (match shared with
   | some s => [⟨nShared, false, .val (.ref s), .unset, .equality⟩]
   | none => [])

def initHeap (dflts : List Val) (shared : Option Id := none) : Heap :=
  dflts.zipIdx.map (fun p => (p.2, Obj.inst (initFields p.1 shared)))

def runOps : DSt → List Op → List String
  | _, [] => []
  | d, op :: ops =>
    let r := stepOp d op
    r.2 :: runOps r.1 ops

def handle (line : String) : String :=
  match (clean line).splitOn "|" with
  | [_, n, dflts, ops] =>
    let ents0 := fields dflts ","
    -- an entry prefixed with `S`: that pool object is the constant default of `shared`
    let shared := ents0.findIdx? (·.startsWith "S")
    let ents := ents0.map (fun e => if e.startsWith "S" then (e.drop 1).toString else e)
    let dpart := ents.map (fun e => (e.splitOn "~").headD "")
    let cpart := ents.zipIdx.mapM (fun (p : String × Nat) => match p.1.splitOn "~" with
      | [_, c] => nat? c
      | _ => some p.2)
    match nat? n, dpart.mapM refVal?, (fields ops ";").mapM parseOp, cpart with
    | some n, some dflts, some ops, some cls =>
      if dflts.length != n then "bad-case"
      else
        let d : DSt := { n := n, cls := cls, st := ⟨initHeap dflts shared, Hooks.empty⟩, conts := [], deadH := [] }
        " ; ".intercalate (runOps d ops)
    | _, _, _, _ => "bad-case"
  | _ => "bad-case"

end TraitsVerif.Driver.Obs

def main : IO Unit := TraitsVerif.Proto.runLines TraitsVerif.Driver.Obs.handle
