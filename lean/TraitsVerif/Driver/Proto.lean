/-
Line-protocol helpers shared by the cluster drivers (DESIGN §3.2).
-/
import TraitsVerif.Py.Basic
namespace TraitsVerif.Proto

def clean (s : String) : String := s.trimAscii.toString

/-- Split on a separator and drop empty pieces / surrounding blanks. -/
def fields (s : String) (sep : String) : List String :=
  (s.splitOn sep).map clean |>.filter (· ≠ "")

def words (s : String) : List String := fields s " "

def int? (s : String) : Option Int := (clean s).toInt?

def optInt? (s : String) : Option (Option Int) :=
  if clean s = "N" then some none else (int? s).map some

/-- `[1,2,3]` → list of ints; `[]` → empty. -/
def intList? (s : String) : Option (List Int) :=
  let s := clean s
  if s.length < 2 then none
  else
    let inner := ((s.drop 1).dropEnd 1).toString
    if clean inner = "" then some []
    else (inner.splitOn ",").mapM int?

def showIntList (l : List Int) : String :=
  "[" ++ ",".intercalate (l.map toString) ++ "]"

def showOpt {α} (f : α → String) : Option α → String
  | none => "-"
  | some x => f x

partial def loop (h : IO.FS.Stream) (f : String → String) : IO Unit := do
  let line ← h.getLine
  if line.isEmpty then return ()
  IO.println (f line)
  loop h f

def runLines (f : String → String) : IO Unit := do
  loop (← IO.getStdin) f

end TraitsVerif.Proto
