/-
Property C20 — synchronised traits converge and stop when unsynchronised.

Only property theorems, the full-strength statements that the code does not
meet (as `def … : Prop`, each with a proved negation witness), and non-vacuity
examples live here; the work is in Lemmas/Sync*.lean, the model in
Model/Sync.lean.

Everything is universally quantified over the element type, the validators of
every trait of every object (arbitrary partial functions of call ordinal and
argument), the number of objects and traits, the link tables (any network of
mutual / one-way links, aliases, several partners, self links), the values and
lists held, the assigned value or list operation (every mutator of C05, every
integer index and slice), and the depth budget standing for CPython's recursion
limit.  A state "between two commands of a history" is a state with an empty
lock table; `C20_lock_released` shows by induction over histories that every
reachable state is one, so the one-command theorems below hold after every
history.
-/
import TraitsVerif.Lemmas.SyncTwoSided
import TraitsVerif.Lemmas.SyncHook
import TraitsVerif.Lemmas.SyncLive
import TraitsVerif.Lemmas.SyncLink
namespace TraitsVerif.Props.C20
open TraitsVerif TraitsVerif.Py TraitsVerif.Model TraitsVerif.Model.Sync TraitsVerif.Model.PyLSync
  TraitsVerif.Model.SyncLive TraitsVerif.Model.PyLLink
variable {α : Type}

/-! ### Termination and the lock -/

/-- **Lock released (histories).** After every history of assignments, list
mutations, `sync_trait` additions and removals and partner deaths, started with
empty lock tables, the lock tables are empty again. -/
theorem C20_lock_released [DecidableEq α] (E : Sync.Env α) (w : World α) (cs : List (Cmd α))
    (h : w.locked = []) : (World.run E w cs).locked = [] :=
  run_locked E w cs h

/-- **Lock released (any nested call).** A propagation started on an unlocked
trait — at any nesting depth, in any state — returns with exactly the lock
table, link tables and registered handlers it found. -/
theorem C20_lock_released_nested [DecidableEq α] (E : Sync.Env α) (d : Nat) (w w' : World α) (p : Pair)
    (hp : p ∉ w.locked) :
    (∀ v r, cascade (applyAssign E) d w p v = .ok (w', r) → SameTabs w w') ∧
    (∀ op r, cascade (applyMutate E) d w p op = .ok (w', r) → SameTabs w w') :=
  ⟨fun v r h => cascade_frame (local_assign E) d w p v w' r hp h,
   fun op r h => cascade_frame (local_mutate E) d w p op w' r hp h⟩

/-- **Termination.** The nested propagation is cut by the lock: for every depth
budget above the number of table entries the result is the one computed with
`budget w` — the recursion limit is never reached, whatever the network. -/
theorem C20_terminates [DecidableEq α] (E : Sync.Env α) (w : World α) (p : Pair) (h : w.locked = [])
    (d : Nat) (hd : w.edges.length < d) :
    (∀ v, cascade (applyAssign E) d w p v = cascade (applyAssign E) w.budget w p v) ∧
    (∀ op, cascade (applyMutate E) d w p op = cascade (applyMutate E) w.budget w p op) :=
  ⟨fun v => assign_fuel E w p v (by simp [h]) d hd, fun op => mutate_fuel E w p op (by simp [h]) d hd⟩

/-- **Depth ≤ 2** for a trait whose partners have no partner but itself (one
link between two traits, mutual or one-way, or a hub with several partners):
the propagation visits the trait, then each partner once, and stops — two
nested calls are all the recursion ever uses (every budget ≥ 2 gives the result
of budget 2). -/
theorem C20_depth_two [DecidableEq α] (E : Sync.Env α) (w : World α) (p : Pair) (d : Nat) (hL : w.locked = [])
    (hnd : (w.partners p).Nodup) (hp : p ∉ w.partners p)
    (hback : ∀ q ∈ w.partners p, ∀ t ∈ w.partners q, t = p) :
    visit w.edges (d + 2) [] p = p :: w.partners p ∧
    (∀ v, cascade (applyAssign E) (d + 2) w p v = cascade (applyAssign E) 2 w p v) ∧
    (∀ op, cascade (applyMutate E) (d + 2) w p op = cascade (applyMutate E) 2 w p op) :=
  ⟨visit_hub w.edges p d hnd hp hback,
   fun v => cascade_hub_depth (local_assign E) w p v d hL hback,
   fun op => cascade_hub_depth (local_mutate E) w p op d hL hback⟩

/-! ### Convergence -/

/-- **Convergence of assignments** (scalar traits, and whole-list assignment to
`List` traits).  In any network, from any state with empty lock tables: let `y`
be what `p`'s own trait makes of the assigned value; if every trait some link
leads to either stores `y` unchanged or rejects it (`Fix`; e.g. all linked traits
have the same idempotent validator) and the partner `q` of `p` stores it, then after
`obj.p = v` nothing was raised and `p` and `q` both hold `y` — provided the
assignment changed `p` or the two sides were equal before (re-assigning the
value a trait already holds is not a change and notifies nobody). -/
theorem C20_converge_scalar [DecidableEq α] (E : Sync.Env α) (w : World α) (p q : Pair) (v y : AVal α)
    (hL : w.locked = []) (he : (⟨p, q⟩ : Edge) ∈ w.edges)
    (hv : validate E p v = .ok y) (hfix : Fix E w.edges y) (hq : validate E q y = .ok y)
    (hpre : w.val p ≠ y ∨ w.val q = w.val p) :
    (w.assign E p v).exc = none ∧ (w.assign E p v).world.val p = y ∧ (w.assign E p v).world.val q = y :=
  let h := assign_converges E w p q v y hL he hv hfix hq hpre
  ⟨h.1, h.2.1, h.2.2.1⟩

/-- The propagation reaches no trait twice (a function of the link tables). -/
def NoRevisit (w : World α) (p : Pair) : Prop := (visit w.edges w.budget [] p).Nodup

instance (w : World α) (p : Pair) : Decidable (NoRevisit w p) := by unfold NoRevisit; infer_instance

/-- **Convergence of in-place list mutations** — `C05_replay` applied to the
partner.  From any state with empty lock tables, `p` and `q` `List` traits, `q`
a partner of `p` holding an equal list, the items handler registered on `p`
(true in every reachable state: `C20_items_handler_registered`,
`C20_converge_list_reachable`):
for every `TraitList` mutator call on `p`'s list that succeeds with an event
`e` (integer index or extended slice), if `q`'s item validator stores the added
items unchanged and the propagation reaches no trait twice, then the call
returns what it returns on an unlinked list, raises nothing, and both lists
hold its result. -/
theorem C20_converge_list (E : Sync.Env α) (w : World α) (p q : Pair) (op : Op α) (o : Out α) (e : Event α)
    (hL : w.locked = []) (he : (⟨p, q⟩ : Edge) ∈ w.edges)
    (hlp : E.isList p = true) (hlq : E.isList q = true) (hhook : p ∈ w.hooked)
    (hstep : listStep (E.tl p) (w.list p) op = .ok o) (hev : o.event = some e)
    (heq : w.list q = w.list p)
    (hfix : valAll (E.iv q) 0 e.added = .ok e.added)
    (hnr : NoRevisit w p) :
    (w.mutate E p op).exc = none ∧ (w.mutate E p op).ret = o.ret ∧
      (w.mutate E p op).world.val p = .l o.items ∧ (w.mutate E p op).world.val q = .l o.items :=
  mutate_converges E w p q op o e hL he hlp hlq hhook hstep hev heq hfix hnr

/-- `NoRevisit` holds for one link between two traits and for a hub. -/
theorem C20_noRevisit_hub (w : World α) (p : Pair)
    (hne : w.edges ≠ []) (hnd : (w.partners p).Nodup) (hp : p ∉ w.partners p)
    (hback : ∀ q ∈ w.partners p, ∀ t ∈ w.partners q, t = p) :
    NoRevisit w p := by
  unfold NoRevisit World.budget
  have : 0 < w.edges.length := List.length_pos_iff.mpr hne
  obtain ⟨d, hd⟩ : ∃ d, w.edges.length + 1 = d + 2 := ⟨w.edges.length - 1, by omega⟩
  rw [hd]
  exact visit_hub_nodup w.edges p d hnd hp hback

/-- **The items handler is registered wherever it is needed** (by induction
over histories; registration rule of the repaired `sync_trait`, finding F61):
start from any state with empty lock tables in which every `List` trait with a
`List` partner has `_sync_trait_items_modified` registered (e.g. no links at
all); after every history of assignments, mutations, additions and removals of
links — mutual or one-way, between traits of any kinds, in any order, including
`sync_trait` calls that raise — and partner deaths, it is registered on every
`List` trait that has a `List` partner. -/
theorem C20_items_handler_registered [DecidableEq α] (E : Sync.Env α) (w0 : World α) (cs : List (Cmd α))
    (h0 : HookOk E w0) (hL0 : w0.locked = []) : HookOk E (World.run E w0 cs) :=
  run_hookOk E cs w0 h0 hL0

/-- **Convergence of in-place list mutations in every reachable state** —
`C20_converge_list` without the hypothesis "the items handler is registered":
after *any* history (from a state as in `C20_items_handler_registered`), for
`List` traits `p`, `q` with `q` a partner of `p` holding an equal list, every
mutator call on `p`'s list that succeeds with an event leaves both lists equal
to its result — whatever other partners, of whatever kind, `p` has or had, in
whatever order they were linked — provided `q`'s item validator stores the added
items unchanged and the propagation reaches no trait twice. -/
theorem C20_converge_list_reachable [DecidableEq α] (E : Sync.Env α) (w0 : World α) (cs : List (Cmd α))
    (h0 : HookOk E w0) (hL0 : w0.locked = []) (p q : Pair) (op : Op α) (o : Out α) (e : Event α)
    (he : (⟨p, q⟩ : Edge) ∈ (World.run E w0 cs).edges)
    (hlp : E.isList p = true) (hlq : E.isList q = true)
    (hstep : listStep (E.tl p) ((World.run E w0 cs).list p) op = .ok o) (hev : o.event = some e)
    (heq : (World.run E w0 cs).list q = (World.run E w0 cs).list p)
    (hfix : valAll (E.iv q) 0 e.added = .ok e.added)
    (hnr : NoRevisit (World.run E w0 cs) p) :
    ((World.run E w0 cs).mutate E p op).exc = none ∧ ((World.run E w0 cs).mutate E p op).ret = o.ret ∧
      ((World.run E w0 cs).mutate E p op).world.val p = .l o.items ∧
      ((World.run E w0 cs).mutate E p op).world.val q = .l o.items :=
  mutate_converges E _ p q op o e (run_locked E w0 cs hL0) he hlp hlq
    (run_hookOk E cs w0 h0 hL0 ⟨p, q⟩ he hlp hlq) hstep hev heq hfix hnr

/-- A mutation that emits no event changed nothing (C05), so there is nothing to
propagate: it touches only the mutated trait. -/
theorem C20_silent_mutation (E : Sync.Env α) (w : World α) (p r : Pair) (op : Op α) (o : Out α)
    (hlp : E.isList p = true) (hstep : listStep (E.tl p) (w.list p) op = .ok o) (hev : o.event = none)
    (hr : r ≠ p) : SameAt r w (w.mutate E p op).world := by
  have happ : applyMutate E w p op = .ok ({ w with val := upd w.val p (.l o.items) }, o.ret, none) := by
    simp [applyMutate, hlp, hstep, hev]
  have : w.mutate E p op = { world := { w with val := upd w.val p (.l o.items) }, ret := o.ret } := by
    unfold World.mutate World.budget; rw [cascade_succ, happ]; rfl
  rw [this]
  exact ⟨by simp [upd, hr], rfl, rfl⟩

/-! ### At most once -/

/-- **At most once (assignments).** In any network, under `Fix`, one
assignment changes every trait of the world at most once — to `y` — and calls
its recording handler exactly as often as it changed (0 or 1 times); a trait
that already held `y` is neither changed nor notified. -/
theorem C20_at_most_once [DecidableEq α] (E : Sync.Env α) (w : World α) (p : Pair) (v y : AVal α)
    (hv : validate E p v = .ok y) (hfix : Fix E w.edges y) (r : Pair) :
    ((w.assign E p v).world.val r = w.val r ∧ (w.assign E p v).world.nChg r = w.nChg r) ∨
    (w.val r ≠ y ∧ (w.assign E p v).world.val r = y ∧ (w.assign E p v).world.nChg r = w.nChg r + 1) := by
  unfold World.assign
  cases hc : cascade (applyAssign E) w.budget w p v with
  | error e => exact Or.inl ⟨rfl, rfl⟩
  | ok x =>
    obtain ⟨w', ret⟩ := x
    exact (assign_once _ w p v w' ret hfix (fun new h => by rw [hv] at h; cases h; rfl) hc).1 r

/-- **At most once (list items).** When the propagation of an in-place mutation
reaches no trait twice, every recording `name_items` handler in the world is
called at most once, and no whole-trait handler. -/
theorem C20_at_most_once_items (E : Sync.Env α) (w : World α) (p : Pair) (op : Op α)
    (hL : w.locked = []) (hnr : NoRevisit w p) (r : Pair) :
    (w.mutate E p op).world.nItems r ≤ w.nItems r + 1 ∧ (w.mutate E p op).world.nChg r = w.nChg r := by
  unfold World.mutate
  cases hc : cascade (applyMutate E) w.budget w p op with
  | error e => exact ⟨Nat.le_succ _, rfl⟩
  | ok x =>
    obtain ⟨w', ret⟩ := x
    exact mutate_itemsOnce E r _ w p op w' ret (by simp [hL]) (by rw [hL]; exact hnr) hc

/-! ### One-way links, removed links, dead partners -/

/-- **One-way.** A trait that is nobody's partner (the source of one-way links)
is not changed and not notified by any assignment to, or mutation of, another
trait — in particular not by changes of its targets.  (Source → target is
`C20_converge_scalar` / `C20_converge_list`: they need the entry `p → q` only.) -/
theorem C20_one_way [DecidableEq α] (E : Sync.Env α) (w : World α) (src t : Pair)
    (hL : w.locked = []) (hsrc : ∀ e ∈ w.edges, e.dst ≠ src) (ht : src ≠ t) :
    (∀ v, SameAt src w (w.assign E t v).world) ∧ (∀ op, SameAt src w (w.mutate E t op).world) :=
  ⟨fun v => assign_untouched E w t src v hL hsrc ht, fun op => mutate_untouched E w t src op hL hsrc ht⟩

/-- **Exceptions.** In every state, an assignment raises exactly what the
object's own trait raises, an in-place mutation exactly what the same call on an
unlinked list raises (nothing a partner does escapes), and a failed assignment
leaves the world as it was. -/
theorem C20_raises_only_own [DecidableEq α] (E : Sync.Env α) (w : World α) (p : Pair) :
    (∀ v, (w.assign E p v).exc = (match validate E p v with | .ok _ => none | .error e => some e)) ∧
    (∀ v e, (w.assign E p v).exc = some e → (w.assign E p v).world = w) ∧
    (E.isList p = true → ∀ op, (w.mutate E p op).exc =
      (match listStep (E.tl p) (w.list p) op with | .ok _ => none | .error e => some e)) :=
  ⟨fun v => assign_exc E w p v, fun v e h => assign_error_world E w p v e h,
   fun hl op => mutate_exc E w p op hl⟩

/-- **Removed.** After `p.sync_trait(q, remove=True)` (mutual) neither entry is
left and nothing else changed; if the removed link was the only one leading to
`q` (resp. `p`), no assignment to or mutation of any other trait changes or
notifies `q` (resp. `p`) any more, the lock tables stay empty, and — by
`C20_raises_only_own` — nothing but the object's own trait raises. -/
theorem C20_removed [DecidableEq α] (E : Sync.Env α) (w : World α) (p q : Pair) (hL : w.locked = [])
    (honly_q : ∀ e ∈ w.edges, e.dst = q → e = ⟨p, q⟩)
    (honly_p : ∀ e ∈ w.edges, e.dst = p → e = ⟨q, p⟩) :
    let w' := w.unlink E p q true
    w'.locked = [] ∧ w'.val = w.val ∧
    (∀ e ∈ w'.edges, e ∈ w.edges ∧ e ≠ ⟨p, q⟩ ∧ e ≠ ⟨q, p⟩) ∧
    (∀ t v, t ≠ q → SameAt q w' (w'.assign E t v).world) ∧
    (∀ t op, t ≠ q → SameAt q w' (w'.mutate E t op).world) ∧
    (∀ t v, t ≠ p → SameAt p w' (w'.assign E t v).world) ∧
    (∀ t op, t ≠ p → SameAt p w' (w'.mutate E t op).world) := by
  intro w'
  have hL' : w'.locked = [] := by rw [unlink_locked]; exact hL
  have hedges : ∀ e ∈ w'.edges, e ∈ w.edges ∧ e ≠ ⟨p, q⟩ ∧ e ≠ ⟨q, p⟩ :=
    fun e he => (mem_unlink_edges E w p q e).mp he
  have hq : ∀ e ∈ w'.edges, e.dst ≠ q := by
    intro e he hd
    obtain ⟨h1, h2, _⟩ := hedges e he
    exact h2 (honly_q e h1 hd)
  have hp : ∀ e ∈ w'.edges, e.dst ≠ p := by
    intro e he hd
    obtain ⟨h1, _, h3⟩ := hedges e he
    exact h3 (honly_p e h1 hd)
  have hval : w'.val = w.val := by
    show (w.unlink E p q true).val = w.val
    simp only [World.unlink, if_true]
    rw [(unlinkOne_val E _ q p).1, (unlinkOne_val E w p q).1]
  exact ⟨hL', hval, hedges,
    fun t v ht => assign_untouched E w' t q v hL' hq (Ne.symm ht),
    fun t op ht => mutate_untouched E w' t q op hL' hq (Ne.symm ht),
    fun t v ht => assign_untouched E w' t p v hL' hp (Ne.symm ht),
    fun t op ht => mutate_untouched E w' t p op hL' hp (Ne.symm ht)⟩

/-- **Partner dead.** After object `o` was garbage-collected no table mentions
it, the lock tables are empty — and stay empty through every later history, so
every theorem above applies to the surviving objects and to fresh partners
linked later — and no trait of `o` is touched by anything that happens later to
another object. -/
theorem C20_partner_dead [DecidableEq α] (E : Sync.Env α) (w : World α) (o : Nat) (hL : w.locked = []) :
    let w' := w.kill o
    w'.locked = [] ∧ w'.val = w.val ∧
    (∀ e ∈ w'.edges, e ∈ w.edges ∧ e.src.1 ≠ o ∧ e.dst.1 ≠ o) ∧
    (∀ cs, (World.run E w' cs).locked = []) ∧
    (∀ (n : Name) t v, t.1 ≠ o → SameAt (o, n) w' (w'.assign E t v).world) ∧
    (∀ (n : Name) t op, t.1 ≠ o → SameAt (o, n) w' (w'.mutate E t op).world) := by
  intro w'
  have hL' : w'.locked = [] := by simp [w', World.kill, hL]
  have hedges : ∀ e ∈ w'.edges, e ∈ w.edges ∧ e.src.1 ≠ o ∧ e.dst.1 ≠ o :=
    fun e he => (mem_kill_edges w o e).mp he
  have hno : ∀ n : Name, ∀ e ∈ w'.edges, e.dst ≠ (o, n) := by
    intro n e he hd
    exact (hedges e he).2.2 (by rw [hd])
  refine ⟨hL', rfl, hedges, fun cs => run_locked E w' cs hL', ?_, ?_⟩
  · intro n t v ht
    exact assign_untouched E w' t (o, n) v hL' (hno n) (by rintro rfl; exact ht rfl)
  · intro n t op ht
    exact mutate_untouched E w' t (o, n) op hL' (hno n) (by rintro rfl; exact ht rfl)

/-! ### Whole histories on one mutual link -/

/-- **Convergence over two-sided histories** (by induction over the history).
Two traits `p ≠ q` of the same kind (both scalar or both `List`) whose
validators agree on what they store (`Compat`: what either returns, both store
unchanged — e.g. the same idempotent trait type; `list.sort` permutes).  Start
from any state satisfying the invariant `TwoSided` (e.g. freshly created
objects, `C20_fresh_twoSided`) and run any history of: assignments (valid or
invalid) to any trait of any object, every in-place list mutator on any list
(all of C05's operations, extended slices included), `p.sync_trait(q)` /
`q.sync_trait(p)` (mutual) and mutual removals at any point, garbage collection
of any object at any point.  Then after every such history: the lock tables are
empty, the link is either present in both directions or in neither, and
whenever it is present both sides hold the same value — the same list. -/
theorem C20_converge_history [DecidableEq α] (E : Sync.Env α) (p q : Pair) (hc : Compat E p q)
    (w0 : World α) (h0 : TwoSided E p q w0) (cs : List (Cmd α)) (hcs : ∀ c ∈ cs, Allowed p q c) :
    (World.run E w0 cs).locked = [] ∧
    ((⟨p, q⟩ : Edge) ∈ (World.run E w0 cs).edges ↔ (⟨q, p⟩ : Edge) ∈ (World.run E w0 cs).edges) ∧
    ((⟨p, q⟩ : Edge) ∈ (World.run E w0 cs).edges → (World.run E w0 cs).val p = (World.run E w0 cs).val q) :=
  let h := TwoSided.run hc cs w0 h0 hcs
  ⟨h.locked, h.both, h.conv⟩

/-- Unlinked objects whose two traits hold values both validators store
unchanged (e.g. the defaults) satisfy the invariant. -/
theorem C20_fresh_twoSided (E : Sync.Env α) (p q : Pair) (w : World α) (hL : w.locked = [])
    (he : w.edges = []) (hgp : GoodVal E p q (w.val p)) (hgq : GoodVal E p q (w.val q)) :
    TwoSided E p q w :=
  TwoSided.of_no_edges hL (by rw [he]; intro e h; cases h) hgp hgq

/-! ### Where the code does not meet the statement -/

def idEnv : Sync.Env Int :=
  { isList := fun p => p.2 == "l" || p.2 == "m", sv := fun _ _ x => .ok x, iv := fun _ _ x => .ok x,
    eq := fun a b => a == b, sort := fun _ l => l }

/-- Freshly created objects: scalars 0, lists empty, no links. -/
def fresh : World Int :=
  { val := fun p => if p.2 == "l" || p.2 == "m" then .l [] else .s 0, nChg := fun _ => 0,
    nItems := fun _ => 0, edges := [], locked := [], hooked := [] }

def a : Pair := (0, "l")
def b : Pair := (1, "l")
def c : Pair := (2, "l")

/-- `a.sync_trait('l', b); b.sync_trait('l', c); a.sync_trait('l', c)`. -/
def triangle : World Int :=
  (((fresh.link idEnv a b true).world.link idEnv b c true).world.link idEnv a c true).world

/-- The statement at full strength: `C20_converge_list` without `NoRevisit`
("several partners" in any arrangement).  The code does not meet it. -/
def C20_converge_list_full : Prop :=
  ∀ (E : Sync.Env Int) (w : World Int) (p q : Pair) (op : Op Int) (o : Out Int) (e : Event Int),
    w.locked = [] → (⟨p, q⟩ : Edge) ∈ w.edges → E.isList p = true → E.isList q = true → p ∈ w.hooked →
    listStep (E.tl p) (w.list p) op = .ok o → o.event = some e → w.list q = w.list p →
    valAll (E.iv q) 0 e.added = .ok e.added →
    (w.mutate E p op).world.val q = .l o.items

/-- **Negation witness (known finding F60).** Three lists linked mutually in a
cycle: `a.l.append(9)` leaves `a.l = [9]` but `b.l = c.l = [9, 9]` — the delta is
delivered to `c` by `b` and again by `a`, and travels back to `b`.  The oracle
replays this history on the implementation (corpus case 6). -/
theorem C20_converge_list_fails_on_cycle : ¬ C20_converge_list_full := by
  intro h
  have := h idEnv triangle a b (.append 9) { items := [9], event := some ⟨.idx 0, [], [9]⟩ } ⟨.idx 0, [], [9]⟩
    (by decide) (by decide) (by decide) (by decide) (by decide) (by rfl) (by rfl) (by decide) (by decide)
  revert this
  decide

/-- What the model (and the implementation) computes on the witness. -/
theorem C20_cycle_outcome :
    (triangle.mutate idEnv a (.append 9)).world.val a = .l [9] ∧
    (triangle.mutate idEnv a (.append 9)).world.val b = .l [9, 9] ∧
    (triangle.mutate idEnv a (.append 9)).world.val c = .l [9, 9] ∧
    visit triangle.edges triangle.budget [] a = [a, b, c, c, b] := by decide

/-! ### Non-vacuity: concrete states meeting the hypotheses -/

/-- One mutual link between two lists, then `a.l = [1,2,3,4,5]`. -/
def linked : World Int :=
  ((fresh.link idEnv a b true).world.assign idEnv a (.l [1, 2, 3, 4, 5])).world

/-- The hypotheses of `C20_converge_list` hold for an extended-slice assignment
with a negative step on `linked`, and both sides hold `[1, 2, 9, 4, 8]`. -/
example :
    linked.locked = [] ∧ (⟨a, b⟩ : Edge) ∈ linked.edges ∧ a ∈ linked.hooked ∧ linked.list b = linked.list a ∧
    NoRevisit linked a ∧
    (listStep (idEnv.tl a) (linked.list a) (.setSlice ⟨some 4, some 0, some (-2)⟩ [8, 9])).toOption.map
      (fun o => (o.items, o.event.map (fun e => (e.index, e.removed, e.added))))
      = some ([1, 2, 9, 4, 8], some (.slc 2 5 2, [3, 5], [9, 8])) ∧
    (linked.mutate idEnv a (.setSlice ⟨some 4, some 0, some (-2)⟩ [8, 9])).world.val b = .l [1, 2, 9, 4, 8] ∧
    (linked.mutate idEnv b (.delSlice ⟨none, none, some (-2)⟩)).world.val a = .l [2, 4] := by decide

/-- The history of the former finding F61 — `a.l`'s first partner is not a
`List` trait (the call raises TraitError but leaves its registration), its
second is — and a mixed removal: the items handler is registered with the first
`List` partner, survives the removal of the non-`List` partner, and goes with
the last `List` partner. -/
def mixed : World Int :=
  ((fresh.link idEnv a (1, "x") false).world.link idEnv a c true).world

example :
    (fresh.link idEnv a (1, "x") false).exc = some .traitError ∧
    mixed.partners a = [(1, "x"), c] ∧ a ∈ mixed.hooked ∧ HookOk idEnv mixed ∧
    (mixed.mutate idEnv a (.append 1)).world.val c = .l [1] ∧
    a ∈ (mixed.unlink idEnv a (1, "x") false).hooked ∧
    ((mixed.unlink idEnv a (1, "x") false).mutate idEnv a (.append 1)).world.val c = .l [1] ∧
    a ∉ (mixed.unlink idEnv a c true).hooked ∧
    (mixed.unlink idEnv a c true).partners a = [(1, "x")] := by decide

/-- A hub with two partners (one mutual with an alias, one one-way): the
hypotheses of `C20_noRevisit_hub`, `C20_converge_scalar` and `C20_one_way`. -/
def hub : World Int :=
  ((fresh.link idEnv (0, "x") (1, "y") true).world.link idEnv (0, "x") (2, "x") false).world

example :
    hub.locked = [] ∧ NoRevisit hub (0, "x") ∧ hub.partners (0, "x") = [(1, "y"), (2, "x")] ∧
    (hub.assign idEnv (0, "x") (.s 5)).world.val (1, "y") = .s 5 ∧
    (hub.assign idEnv (0, "x") (.s 5)).world.val (2, "x") = .s 5 ∧
    (hub.assign idEnv (1, "y") (.s 6)).world.val (2, "x") = .s 6 ∧
    (hub.assign idEnv (2, "x") (.s 7)).world.val (0, "x") = .s 0 ∧
    (∀ e ∈ ((hub.unlink idEnv (0, "x") (1, "y") true).kill 2).edges, False) := by decide

/-- A rejecting partner: `Fix` and the hypotheses of `C20_raises_only_own`
with a partner whose validator rejects 5 — nothing escapes, the partner keeps
its value. -/
example :
    let E : Sync.Env Int := { idEnv with sv := fun p _ x => if p.1 = 1 ∧ x = 5 then .error .traitError else .ok x }
    ((hub.assign E (0, "x") (.s 5)).exc, (hub.assign E (0, "x") (.s 5)).world.val (1, "y"),
      (hub.assign E (0, "x") (.s 5)).world.val (2, "x")) = (none, .s 0, .s 5) := by decide

/-- The hypotheses of `C20_converge_history` are satisfiable: identity
validators on two list traits, fresh objects; and a history with extended
slices, removal, re-linking from the other side and a partner death. -/
example : Compat idEnv a b :=
  { ne := by decide, kind := rfl,
    spq := fun x y h => by cases h; exact ⟨rfl, rfl⟩, sqp := fun x y h => by cases h; exact ⟨rfl, rfl⟩,
    ipq := fun k x y h k' => by cases h; exact ⟨rfl, rfl⟩, iqp := fun k x y h k' => by cases h; exact ⟨rfl, rfl⟩,
    sort := fun _ l => List.Perm.refl l }

example : TwoSided idEnv a b fresh :=
  C20_fresh_twoSided idEnv a b fresh rfl rfl ⟨rfl, fun x hx => by cases hx⟩ ⟨rfl, fun x hx => by cases hx⟩

def history : List (Cmd Int) :=
  [.link a b true, .assign a (.l [1, 2, 3, 4, 5]), .mutate b (.setSlice ⟨some 4, some 0, some (-2)⟩ [8, 9]),
   .mutate a (.delSlice ⟨none, none, some 2⟩), .unlink b a true, .mutate a (.append 7), .link b a true,
   .mutate b (.sort 0), .mutate a .reverse]

example : (∀ c ∈ history, Allowed a b c) := by
  intro c hc
  simp only [history, List.mem_cons, List.mem_nil_iff, or_false] at hc
  rcases hc with rfl | rfl | rfl | rfl | rfl | rfl | rfl | rfl | rfl <;> constructor

example :
    (World.run idEnv fresh history).val a = .l [4, 2] ∧ (World.run idEnv fresh history).val b = .l [4, 2] ∧
    (World.run idEnv fresh (history.take 6)).val a = .l [2, 4, 7] ∧
    (World.run idEnv fresh (history.take 6)).val b = .l [2, 4] ∧
    (World.run idEnv fresh (history.take 4)).val b = .l [2, 4] := by decide

/-! ### The model is the source

`harness/translate/syncprog.py` turns the source text of
`HasTraits._sync_trait_modified` and `HasTraits._sync_trait_items_modified` into
the `PyLSync` programs of `Generated/SyncProg.lean` on every run. -/

/-- The handler program the notification of a payload runs. -/
def progOf : Payload α → Stmt
  | .new _ => Generated.SyncProg.syncTraitModified
  | .event _ => Generated.SyncProg.syncTraitItemsModified

/-- **The handlers are the source.** For every state (any tables, locks, armed
triggers, collected objects), every trait, every payload and every meaning of
the nested `setattr` / list call, the hand-written handlers of
`Model/SyncLive.lean` compute exactly what the interpreter computes on the
programs generated from the source text: same final state, same escaping
exception. -/
theorem C20_handlers_are_source (rec : Rec α) (k : KWorld α) (p : Pair) (pl : Payload α) :
    runHandlerK rec k p pl = runHandler rec (progOf pl) k p pl := by
  cases pl with
  | new v => exact handlerModified_is_source rec k p v
  | event e => exact handlerItems_is_source rec k p e

/-- **One step is the source** (`C20_step_is_source` pattern): a `setattr` /
list-method call with everything it triggers is: the change on the trait itself,
the recording handlers (which may drop the last reference to a partner), then the
*interpretation of the generated handler program*, nested calls being the same
function one level down. -/
theorem C20_step_is_source [DecidableEq α] (E : Sync.Env α) (d : Nat) (k : KWorld α) (p : Pair) (req : Req α) :
    cascadeK E (d + 1) k p req =
      match applyK E k.w p req with
      | .error e => .error e
      | .ok (w1, r, pay) =>
        let k1 : KWorld α := if notified k.w w1 p then fire { k with w := w1 } p else { k with w := w1 }
        match pay with
        | none => .ok (k1, r)
        | some pl => .ok (swallow (runHandler (cascadeK E d) (progOf pl) k1 p pl), r) := by
  rw [cascadeK]
  cases applyK E k.w p req with
  | error e => rfl
  | ok x =>
    obtain ⟨w1, r, pay⟩ := x
    cases pay with
    | none => rfl
    | some pl => simp only [C20_handlers_are_source]

/-- **`Model.Sync` is the source.** On every state without armed triggers in
which no table lists a collected object or lists a partner twice (every state a
history of `Model.Sync` commands reaches: a dict holds a key once), for every depth budget, the propagation function all
theorems above are about — `Sync.cascade` — is `cascadeK`, i.e. by
`C20_step_is_source` the interpretation of the generated programs. -/
theorem C20_model_is_source [DecidableEq α] (E : Sync.Env α) (d : Nat) (k : KWorld α) (p : Pair) (hq : Quiet k) :
    (∀ v, cascadeK E d k p (.assign v) = lift k (cascade (applyAssign E) d k.w p v)) ∧
    (∀ op, cascadeK E d k p (.mutate op) = lift k (cascade (applyMutate E) d k.w p op)) :=
  ⟨fun v => cascadeK_assign E d k p v hq, fun op => cascadeK_mutate E d k p op hq⟩

/-- **Registration is the source** (add path of `sync_trait`, `mutual=`, the
reverse call, and `_is_list_trait`).  `harness/translate/synclink.py` turns the
source text of `HasTraits.sync_trait` and `HasTraits._is_list_trait` into the
`PyLLink` programs of `Generated/SyncLink.lean`.  For every state, every pair of
traits and both values of `mutual`, the hand-written transcription `linkS`
(tables, registration of both handlers, the initial `setattr`, the reverse
registration skipped when the first half raised) is the interpretation of the
generated program with `remove=False`; and `_is_list_trait` is the interpretation
of its generated expression for every trait description.
(Not yet proved: the same for the `remove=True` path — `unlinkS` is written and
the program is generated —, and that `linkS`/`unlinkS` agree with
`World.link`/`World.unlink`, which the driver still runs.) -/
theorem C20_link_is_source [DecidableEq α] (E : Sync.Env α) (k : KWorld α) (p q : Pair) (both : Bool) :
    linkS E k p q both = runLink E.isList (recB E) Generated.SyncLink.syncTrait k p q both false ∧
    (∀ d : TraitDesc, evalIsList d Generated.SyncLink.isListTrait = some (isListTrait d)) :=
  ⟨linkS_is_source E k p q both, isListTrait_is_source⟩

/-- **Removal is the source.** For every state, every pair of traits, both values
of `mutual` and every meaning of `setattr`, the hand-written transcription
`unlinkS` of the `remove=True` path (table entry, table, both handlers — the items
handler goes with the last live `List` partner —, then the reverse removal) is the
interpretation of the generated `sync_trait` program; it raises nothing. -/
theorem C20_unlink_is_source (E : Sync.Env α) (call : Rec α) (k : KWorld α) (p q : Pair) (both : Bool) :
    (unlinkS E k p q both, (none : Option Exc)) =
      runLink E.isList call Generated.SyncLink.syncTrait k p q both true :=
  unlinkS_is_source E call k p q both

/-- **The commands of a history are `Model.Sync`'s.** On every quiet state between
two commands (empty lock tables), what `stepK` runs — `cascadeK` (the interpreted
handlers, `C20_step_is_source`), `linkS` / `unlinkS` (the interpreted `sync_trait`,
`C20_link_is_source`, `C20_unlink_is_source`) and `killK` — computes the worlds,
exceptions and return values of `World.assign`, `World.mutate`, `World.link`,
`World.unlink`, `World.kill`, and leaves a quiet state: the theorems about
`Model.Sync` are statements about the interpreted source. -/
theorem C20_commands_are_model [DecidableEq α] (E : Sync.Env α) (k : KWorld α) (hq : Quiet k) (hL : k.w.locked = []) :
    (∀ p v, (assignK E k p v).world = { k with w := (k.w.assign E p v).world } ∧
        (assignK E k p v).exc = (k.w.assign E p v).exc ∧ (assignK E k p v).ret = (k.w.assign E p v).ret) ∧
    (∀ p op, (mutateK E k p op).world = { k with w := (k.w.mutate E p op).world } ∧
        (mutateK E k p op).exc = (k.w.mutate E p op).exc ∧ (mutateK E k p op).ret = (k.w.mutate E p op).ret) ∧
    (∀ p q b, p.1 ∉ k.dead → q.1 ∉ k.dead →
        (linkS E k p q b).1.w = (k.w.link E p q b).world ∧ (linkS E k p q b).2 = (k.w.link E p q b).exc ∧
        Quiet (linkS E k p q b).1) ∧
    (∀ p q b, (unlinkS E k p q b).w = k.w.unlink E p q b ∧ Quiet (unlinkS E k p q b)) ∧
    (∀ o, (killK k o).w = k.w.kill o ∧ Quiet (killK k o)) :=
  ⟨fun p v => assignK_w E k p v hq, fun p op => mutateK_w E k p op hq,
   fun p q b hp hq' => linkS_w E k p q b hq hL hp hq',
   fun p q b => ⟨(unlinkS_quiet E k p q b hq).1, (unlinkS_quiet E k p q b hq).2.1⟩,
   fun o => killK_quiet k o hq hL⟩

/-- `C20_one_way` about the interpreted source. -/
theorem C20_one_way_source [DecidableEq α] (E : Sync.Env α) (k : KWorld α) (src t : Pair) (hq : Quiet k)
    (hL : k.w.locked = []) (hsrc : ∀ e ∈ k.w.edges, e.dst ≠ src) (ht : src ≠ t) :
    (∀ v, SameAt src k.w (assignK E k t v).world.w) ∧ (∀ op, SameAt src k.w (mutateK E k t op).world.w) := by
  obtain ⟨h1, h2⟩ := C20_one_way E k.w src t hL hsrc ht
  exact ⟨fun v => by rw [(assignK_w E k t v hq).1]; exact h1 v,
         fun op => by rw [(mutateK_w E k t op hq).1]; exact h2 op⟩

/-- `C20_removed` about the interpreted source: `unlinkS` (the interpreted
`sync_trait(…, remove=True)`) then `assignK` / `mutateK` (the interpreted handlers). -/
theorem C20_removed_source [DecidableEq α] (E : Sync.Env α) (k : KWorld α) (p q : Pair) (hq : Quiet k)
    (hL : k.w.locked = [])
    (honly_q : ∀ e ∈ k.w.edges, e.dst = q → e = ⟨p, q⟩)
    (honly_p : ∀ e ∈ k.w.edges, e.dst = p → e = ⟨q, p⟩) :
    let k' := unlinkS E k p q true
    k'.w.locked = [] ∧ k'.w.val = k.w.val ∧
    (∀ e ∈ k'.w.edges, e ∈ k.w.edges ∧ e ≠ ⟨p, q⟩ ∧ e ≠ ⟨q, p⟩) ∧
    (∀ t v, t ≠ q → SameAt q k'.w (assignK E k' t v).world.w) ∧
    (∀ t op, t ≠ q → SameAt q k'.w (mutateK E k' t op).world.w) ∧
    (∀ t v, t ≠ p → SameAt p k'.w (assignK E k' t v).world.w) ∧
    (∀ t op, t ≠ p → SameAt p k'.w (mutateK E k' t op).world.w) := by
  intro k'
  obtain ⟨hw, hq', _⟩ := unlinkS_quiet E k p q true hq
  have h := C20_removed E k.w p q hL honly_q honly_p
  simp only at h
  obtain ⟨a1, a2, a3, a4, a5, a6, a7⟩ := h
  have hw' : k'.w = k.w.unlink E p q true := hw
  refine ⟨by rw [hw']; exact a1, by rw [hw']; exact a2, by rw [hw']; exact a3, ?_, ?_, ?_, ?_⟩
  · intro t v ht; rw [(assignK_w E k' t v hq').1, hw']; exact a4 t v ht
  · intro t op ht; rw [(mutateK_w E k' t op hq').1, hw']; exact a5 t op ht
  · intro t v ht; rw [(assignK_w E k' t v hq').1, hw']; exact a6 t v ht
  · intro t op ht; rw [(mutateK_w E k' t op hq').1, hw']; exact a7 t op ht

/-- **The weak-reference callback is the source, and it is `World.kill`.**
`harness/translate/synclink.py` translates the nested
`_sync_trait_listener_deleted(ref, info)` of `sync_trait` (stored with every table
entry) into the `CbStmt` of `Generated/SyncLink.lean`.
(1) For every `__sync_trait__` (lock table `""` and partner tables) and every
collected partner, its interpretation raises nothing and yields `cbModel`: in every
partner table the dead partner's entries go, tables left empty go, the lock table
is untouched (the `key != ""` guard).
(2) For every world, every collected object `o`, every survivor `s ≠ o` and every
list of trait names, running the callback on `s`'s tables gives exactly `s`'s
tables after `World.kill o`; and (3) `o`'s own tables are gone.  So `World.kill` —
hence `killK`, `C20_partner_dead`, `C20_partner_dead_source` — is: the interpreted
callback on every survivor, plus dropping the dead object's own tables. -/
theorem C20_callback_is_source (dead : Nat) (i : Info) (names : List Name) (w : World α) (o : Nat) :
    interpCb dead Generated.SyncLink.listenerDeleted i = .ok (cbModel dead i) ∧
    (∀ s, s ≠ o → interpCb o Generated.SyncLink.listenerDeleted (infoOf names w s) =
      .ok (infoOf names (w.kill o) s)) ∧
    (infoOf names (w.kill o) o).tabs = [] :=
  ⟨cbModel_is_source dead i,
   fun s hs => by rw [cbModel_is_source, callback_is_kill names w o s hs],
   own_tables_dropped names w o⟩

/-- Non-vacuity: a hub with three partners, the middle one collected: the
interpreted callback on the hub's tables leaves the two others; the lock table
stays. -/
example :
    (interpCb 2 Generated.SyncLink.listenerDeleted
      { lock := some ["y"], tabs := [("y", [(1, "y"), (2, "y"), (3, "y")]), ("x", [(2, "x")])] }).toOption.map
      (fun i => (i.lock, i.tabs)) =
    some (some ["y"], [("y", [(1, "y"), (3, "y")])]) := by decide

/-- `C20_partner_dead` about the interpreted source. -/
theorem C20_partner_dead_source [DecidableEq α] (E : Sync.Env α) (k : KWorld α) (o : Nat) (hq : Quiet k)
    (hL : k.w.locked = []) :
    let k' := killK k o
    k'.w.locked = [] ∧ k'.w.val = k.w.val ∧
    (∀ e ∈ k'.w.edges, e ∈ k.w.edges ∧ e.src.1 ≠ o ∧ e.dst.1 ≠ o) ∧
    (∀ cs, (runK E k' cs).w.locked = []) ∧
    (∀ (n : Name) t v, t.1 ≠ o → SameAt (o, n) k'.w (assignK E k' t v).world.w) ∧
    (∀ (n : Name) t op, t.1 ≠ o → SameAt (o, n) k'.w (mutateK E k' t op).world.w) := by
  intro k'
  obtain ⟨hw, hq'⟩ := killK_quiet k o hq hL
  have h := C20_partner_dead E k.w o hL
  simp only at h
  obtain ⟨a1, a2, a3, _, a5, a6⟩ := h
  have hw' : k'.w = k.w.kill o := hw
  refine ⟨by rw [hw']; exact a1, by rw [hw']; exact a2, by rw [hw']; exact a3,
    fun cs => (runK_rest (n := k'.swallowed) E cs k' ⟨by rw [hw']; exact a1, rfl⟩).1, ?_, ?_⟩
  · intro n t v ht; rw [(assignK_w E k' t v hq').1, hw']; exact a5 n t v ht
  · intro n t op ht; rw [(mutateK_w E k' t op hq').1, hw']; exact a6 n t op ht

/-! ### Partner death during a propagation (finding F97, repaired by 8e10b05) -/

/-- **Lock released, nothing escapes — also when partners die mid-propagation.**
`C20_lock_released` at full strength: for every history of commands *and armed
triggers* (a change handler of one partner drops the last reference to another
object while the propagation is running), started with empty lock tables, the
lock tables are empty after the history and no exception escaped a
synchronisation handler (the count of swallowed exceptions is what it was).
Before fix 8e10b05 this was false (the handlers iterated the live dict:
`RuntimeError`, lock left set); the regression example below is the former
witness. -/
theorem C20_lock_released_full [DecidableEq α] (E : Sync.Env α) (k : KWorld α) (cs : List (CmdK α))
    (h : k.w.locked = []) :
    (runK E k cs).w.locked = [] ∧ (runK E k cs).swallowed = k.swallowed :=
  runK_rest E cs k ⟨h, rfl⟩

/-- **Lock released (any nested call, any deaths).** A propagation started on an
unlocked trait — at any depth, in any state, whatever is collected meanwhile —
returns with the lock tables it found and swallows nothing. -/
theorem C20_lock_released_nested_full [DecidableEq α] (E : Sync.Env α) (d : Nat) (k k' : KWorld α) (p : Pair)
    (req : Req α) (r : Option α) (hp : p ∉ k.w.locked) (h : cascadeK E d k p req = .ok (k', r)) :
    k'.w.locked = k.w.locked ∧ k'.swallowed = k.swallowed :=
  cascadeK_calm E d k p req k' r hp h

/-- **Survivors are updated.** A hub: every link that does not start at `p` leads
to `p` (partners linked one-way or mutually, none of them linked further).  From
any state with empty lock tables in which no table lists a collected object, with
any triggers armed: if `p`'s own trait makes `y` of the assigned value and this is
a change, then `obj.p = v` raises nothing, `p` holds `y`, the lock tables are
empty — and **every partner still in `p`'s table after the command** (i.e. not
collected while the propagation ran) whose trait stores `y` unchanged holds `y`,
whichever partners died in between and wherever in the loop. -/
theorem C20_survivors_updated [DecidableEq α] (E : Sync.Env α) (k : KWorld α) (p : Pair) (v y : AVal α)
    (hL : k.w.locked = []) (hv : validate E p v = .ok y) (hchg : y ≠ k.w.val p)
    (htidy : ∀ e ∈ k.w.edges, e.dst.1 ∉ k.dead) (hself : p ∉ k.w.partners p)
    (hback : ∀ e ∈ k.w.edges, e.src ≠ p → e.dst = p)
    (q : Pair) (hqv : validate E q y = .ok y) :
    (assignK E k p v).exc = none ∧ (assignK E k p v).world.w.val p = y ∧
    (assignK E k p v).world.w.locked = [] ∧
    ((⟨p, q⟩ : Edge) ∈ (assignK E k p v).world.w.edges → (assignK E k p v).world.w.val q = y) := by
  -- one level of `cascadeK`
  have htop : ∀ d, cascadeK E (d + 1) k p (.assign v) =
      .ok (swallow (handlerK (cascadeK E d) (.assign y)
        (fire { k with w := { k.w with val := upd k.w.val p y, nChg := upd k.w.nChg p (k.w.nChg p + 1) } } p) p),
        none) := by
    intro d
    have hn : notified k.w { k.w with val := upd k.w.val p y, nChg := upd k.w.nChg p (k.w.nChg p + 1) } p
        = true := by simp [notified, upd]
    rw [cascadeK]
    simp only [applyK, applyAssign, hv, hchg, if_false, Option.map_some, hn, if_true, runHandlerK, handlerModified]
  have hk0 : Shrink k { k with w := { k.w with val := upd k.w.val p y, nChg := upd k.w.nChg p (k.w.nChg p + 1) } } :=
    ⟨rfl, fun _ h => h, fun h => h⟩
  obtain ⟨k1, htop, hf, hfv⟩ : ∃ k1 : KWorld α,
      (∀ d, cascadeK E (d + 1) k p (.assign v) =
        .ok (swallow (handlerK (cascadeK E d) (.assign y) k1 p), none)) ∧
      Shrink k k1 ∧ k1.w.val = upd k.w.val p y :=
    ⟨_, htop, hk0.trans (fire_shrink _ p).1, (fire_shrink _ p).2⟩
  have hk1L : k1.w.locked = [] := by rw [hf.locked]; exact hL
  have hk1E : ∀ e ∈ k1.w.edges, e ∈ k.w.edges := fun e he => hf.edges e he
  have hk1T : Tidy k1 := hf.tidy htidy
  have hk1p : k1.w.val p = y := by rw [hfv]; simp [upd]
  unfold assignK World.budget
  rw [htop]
  by_cases hemp : (k1.w.partners p).isEmpty = true
  · have : handlerK (cascadeK E k.w.edges.length) (.assign y) k1 p = (k1, none) := by unfold handlerK; simp [hemp]
    rw [this]
    refine ⟨rfl, hk1p, hk1L, fun he => ?_⟩
    have : q ∈ k1.w.partners p := mem_partners_iff.mpr he
    simp [List.isEmpty_iff.mp hemp] at this
  · -- some partner is left: the budget is at least 2
    obtain ⟨d, hd⟩ : ∃ d, k.w.edges.length = d + 1 := by
      cases hP : k1.w.partners p with
      | nil => simp [hP] at hemp
      | cons t ts =>
        have : (⟨p, t⟩ : Edge) ∈ k.w.edges := hk1E _ (mem_partners_iff.mp (by rw [hP]; exact List.mem_cons_self ..))
        exact ⟨k.w.edges.length - 1, by have := List.length_pos_of_mem this; omega⟩
    rw [hd]
    obtain ⟨hs, hfr, hsurv⟩ := foldK_survivor E d y p q hqv k.w.edges hback (k1.w.partners p)
      { k1 with w := k1.w.lock p } (fun l => by simp [World.lock, hk1L]) hk1E hk1T
      (fun h => hself (mem_partners_iff.mpr (hk1E _ (mem_partners_iff.mp h))))
    have hin : p ∈ (List.foldl (visitK (cascadeK E (d + 1)) (.assign y)) { k1 with w := k1.w.lock p }
        (k1.w.partners p)).w.locked := by rw [hs.locked]; simp [World.lock]
    have hH : handlerK (cascadeK E (d + 1)) (.assign y) k1 p =
        ({ (List.foldl (visitK (cascadeK E (d + 1)) (.assign y)) { k1 with w := k1.w.lock p } (k1.w.partners p)) with
            w := (List.foldl (visitK (cascadeK E (d + 1)) (.assign y)) { k1 with w := k1.w.lock p }
              (k1.w.partners p)).w.unlock p }, none) := by
      unfold handlerK
      rw [if_neg hemp]
      simp only [hin, if_true]
    rw [hH]
    refine ⟨rfl, ?_, ?_, ?_⟩
    · show (List.foldl (visitK (cascadeK E (d + 1)) (.assign y)) { k1 with w := k1.w.lock p }
          (k1.w.partners p)).w.val p = y
      rw [hfr p (fun h => hself (mem_partners_iff.mpr (hk1E _ (mem_partners_iff.mp h))))]
      exact hk1p
    · show (World.unlock _ p).locked = []
      unfold World.unlock
      simp only
      rw [hs.locked]
      simp [World.lock, hk1L]
    · intro he
      have he' : (⟨p, q⟩ : Edge) ∈ (List.foldl (visitK (cascadeK E (d + 1)) (.assign y))
          { k1 with w := k1.w.lock p } (k1.w.partners p)).w.edges := he
      exact hsurv he' (Or.inl (mem_partners_iff.mpr (hs.edges _ he')))

/-- `a.sync_trait('y', c, mutual=False); a.sync_trait('y', b)`; a handler on `b.y`
drops the last reference to `c`; `a.y = 9` — the history that showed F97. -/
def dyingPartner : List (CmdK Int) :=
  [.cmd (.link (0, "y") (2, "y") false), .cmd (.link (0, "y") (1, "y") true), .arm (1, "y") 2,
   .cmd (.assign (0, "y") (.s 9))]

/-- Regression (former witness of F97): the repaired handlers do not exhibit it —
`c` is collected during the propagation, no lock is left, nothing is swallowed,
the surviving partner holds the new value and its later change comes back. -/
example :
    (runK idEnv { w := fresh } dyingPartner).w.locked = [] ∧
    (runK idEnv { w := fresh } dyingPartner).swallowed = 0 ∧
    (runK idEnv { w := fresh } dyingPartner).dead = [2] ∧
    (runK idEnv { w := fresh } dyingPartner).w.val (1, "y") = .s 9 ∧
    (runK idEnv { w := fresh } (dyingPartner ++ [.cmd (.assign (1, "y") (.s 5))])).w.val (0, "y") = .s 5 := by
  decide

/-- A victim the hub's loop has not reached yet: it is skipped, the partners after
it are still updated (`a` → `b`, `c`, `d` one-way; `b`'s handler drops `c`). -/
example :
    let h : List (CmdK Int) :=
      [.cmd (.link (0, "y") (1, "y") false), .cmd (.link (0, "y") (2, "y") false),
       .cmd (.link (0, "y") (3, "y") false), .arm (1, "y") 2, .cmd (.assign (0, "y") (.s 9))]
    (runK idEnv { w := fresh } h).dead = [2] ∧ (runK idEnv { w := fresh } h).w.locked = [] ∧
    (runK idEnv { w := fresh } h).w.val (1, "y") = .s 9 ∧ (runK idEnv { w := fresh } h).w.val (3, "y") = .s 9 := by
  decide

/-- Non-vacuity of `C20_survivors_updated`: its hypotheses hold in the state before
the assignment of the history above (hub `a.y` with three one-way partners, a
trigger armed on `b.y` that drops `c`). -/
example :
    let k := runK idEnv { w := fresh }
      [.cmd (.link (0, "y") (1, "y") false), .cmd (.link (0, "y") (2, "y") false),
       .cmd (.link (0, "y") (3, "y") false), .arm (1, "y") 2]
    k.w.locked = [] ∧ k.doom = [((1, "y"), 2)] ∧ (∀ e ∈ k.w.edges, e.dst.1 ∉ k.dead) ∧
    (0, "y") ∉ k.w.partners (0, "y") ∧ (∀ e ∈ k.w.edges, e.src ≠ (0, "y") → e.dst = (0, "y")) ∧
    validate idEnv (0, "y") (.s 9) = .ok (.s 9) ∧ (AVal.s 9 : AVal Int) ≠ k.w.val (0, "y") := by
  decide

/-- Non-vacuity of `C20_model_is_source`: the state before the trigger is armed is
`Quiet`, and there the witness's assignment is `Sync.cascade`'s. -/
example : Quiet (runK idEnv { w := fresh } (dyingPartner.take 2)) :=
  ⟨rfl, by decide, by decide⟩

end TraitsVerif.Props.C20
