/-
C18 (collector interface) - the compiled core is memory-safe and reference-neutral under any API use.

The cyclic collector computes, for every tracked object, `refcount - (number of times the object is reported by the
tp_traverse of another object of the generation)`.  An object whose every reference is accounted for that way is
garbage and gets tp_clear.  The computation is sound only if every tp_traverse reports EXACTLY the references its
object owns: a reference reported twice (or a reference the object does not own, e.g. `Py_TYPE(obj)` in the
traverse of a STATIC type, whose heap subclasses already report the type through `subtype_traverse`) makes a live
object look unreferenced - it is cleared while in use; an owned reference that is not reported makes cycles through it
immortal; an owned reference that tp_clear does not drop keeps cycles alive or, worse, is dropped nowhere.

Proved here, by `decide` over the facts TRANSLATED from the working tree's `ctraits.c`
(`Generated/CTraverse.lean`, harness/translate/ctraverse.py), for EVERY `static PyTypeObject` of the file with
`Py_TPFLAGS_HAVE_GC`:

  * `C18_traverse_exact`  tp_traverse visits each `Py…Object *` member of the struct exactly once and NOTHING else;
  * `C18_clear_exact`     tp_clear clears each such member exactly once and nothing else;
  * `C18_dealloc_clears`  tp_dealloc untracks first and releases the members through that same tp_clear;
  * `C18_gc_types_listed` the two types of the file are what the statements above speak about (non-vacuity);
  * `C18_setters_validate_before_store`  a raw CTrait setter that can refuse its arguments stores into the trait
    only AFTER its last error exit (text order), so that a refused call leaves the trait as it was - with two
    exceptions stated by name.

The runtime twins (harness/props/c18gc.py, in the crash-isolated subprocess): `gc.get_referents` of generated
HasTraits / CTrait objects compared, as multisets, with what the members hold; classes referenced only from frame
locals used after a collection of cyclic-garbage instances; every raw setter given every malformed argument shape
and the trait USED afterwards.
-/
import TraitsVerif.Generated.CTraverse
namespace TraitsVerif.Props.C18GC
open TraitsVerif.Generated TraitsVerif.Generated.CTraverse

/-- `xs` lists exactly the elements of `ys`, each once (a permutation of a duplicate-free list). -/
def ExactlyOnce (xs ys : List String) : Prop :=
  xs.Nodup ∧ (∀ x ∈ xs, x ∈ ys) ∧ (∀ y ∈ ys, y ∈ xs) ∧ xs.length = ys.length

instance (xs ys : List String) : Decidable (ExactlyOnce xs ys) := by
  unfold ExactlyOnce; infer_instance

/-- **tp_traverse reports exactly what the object owns.**  For every GC type defined in `ctraits.c`: the arguments
of the `Py_VISIT`s of its tp_traverse are the reference members of its struct, each exactly once - no member left
out, none visited twice, and no other expression (`Py_TYPE(obj)`, a member of another object, …) visited at all.
(Seed C18-m10: `Py_VISIT(Py_TYPE(obj))` added to `has_traits_traverse` makes `visited` contain `"Py_TYPE(obj)"`.) -/
theorem C18_traverse_exact : ∀ t ∈ CTraverse.types, ExactlyOnce t.visited t.refFields := by
  decide

/-- **tp_clear drops exactly what the object owns.** -/
theorem C18_clear_exact : ∀ t ∈ CTraverse.types, ExactlyOnce t.cleared t.refFields := by
  decide

/-- **tp_dealloc = untrack, then the same tp_clear, then tp_free**: no member has a release of its own in
tp_dealloc that tp_clear could double, and none is released by tp_dealloc only. -/
theorem C18_dealloc_clears :
    ∀ t ∈ CTraverse.types, t.deallocCalls.head? = some "PyObject_GC_UnTrack" ∧ t.clearFn ∈ t.deallocCalls ∧
      t.deallocCalls.getLast? ∈ [some "tp_free", some "Py_TRASHCAN_SAFE_END"] ∧
      ∀ c ∈ t.deallocCalls, c ∈ ["PyObject_GC_UnTrack", "Py_TRASHCAN_BEGIN", "Py_TRASHCAN_SAFE_BEGIN", t.clearFn,
        "Py_TYPE", "tp_free", "Py_TRASHCAN_SAFE_END"] := by
  decide

/-- Non-vacuity: the statements above speak about `CHasTraits` and `cTrait`, whose structs hold 4 and 8 references. -/
theorem C18_gc_types_listed :
    CTraverse.types.map (fun t => (t.typeObject, t.struct, t.refFields.length)) =
      [("has_traits_type", "has_traits_object", 4), ("trait_type", "trait_object", 8)] := by
  decide

/-- No `store:…` event comes before an `exit` event. -/
def storesAfterExits : List String → Bool
  | [] => true
  | e :: rest => (e == "exit" || !rest.contains "exit") && storesAfterExits rest

/-- The setters whose text order is NOT "all error exits, then the stores", with the reason:
`_set_trait_comparison_mode` - the error exit is the `default:` arm of the `switch` whose other (exclusive) arms do
the stores; `_trait_setstate` - `PyArg_ParseTuple` writes straight into the members (hand-made state tuples are
outside the documented API: ASSUMPTIONS of C18). -/
def setterExceptions : List String := ["_set_trait_comparison_mode", "_trait_setstate"]

/-- **A refused raw-setter call leaves the trait as it was.**  For every function of `ctraits.c` that takes
`(trait_object *trait, PyObject *args|value)`, stores into members of `trait` and has an error exit - except the two
named in `setterExceptions` - every store comes after the last error exit in the text of the function: the
arguments are validated first, the trait is written afterwards.
(Seed C18-m11: `trait->default_value_type = value_type;` moved above the validating `switch` of
`_trait_set_default_value` gives `["exit", "exit", "store:default_value_type", "exit", …]`.) -/
theorem C18_setters_validate_before_store :
    (∀ s ∈ CTraverse.setterEvents, s.1 ∉ setterExceptions → storesAfterExits s.2 = true) ∧
    (∀ n ∈ ["_trait_set_default_value", "_trait_set_validate", "_trait_delegate", "_trait_set_property",
        "set_trait_post_setattr"], n ∈ CTraverse.setterEvents.map (·.1)) ∧
    (∀ n ∈ setterExceptions, n ∈ CTraverse.setterEvents.map (·.1)) := by
  decide

/-- The exceptions are real: in text order those two do store before an error exit. -/
example : ∀ s ∈ CTraverse.setterEvents, s.1 ∈ setterExceptions → storesAfterExits s.2 = false := by decide

/-- `ExactlyOnce` rejects what the seeded edit produces (the type visited besides the members) and a member left out. -/
example : ¬ ExactlyOnce ["Py_TYPE(obj)", "ctrait_dict", "itrait_dict", "notifiers", "obj_dict"]
    ["ctrait_dict", "itrait_dict", "notifiers", "obj_dict"] := by decide
example : ¬ ExactlyOnce ["ctrait_dict", "itrait_dict", "obj_dict"]
    ["ctrait_dict", "itrait_dict", "notifiers", "obj_dict"] := by decide
example : storesAfterExits ["exit", "exit", "store:default_value_type", "exit", "store:default_value"] = false := by
  decide

end TraitsVerif.Props.C18GC
