/-
Property C02 — change handlers fire exactly once per real change, with truthful
old/new.  Only the property theorems and their non-vacuity examples live here;
the model is `Model/Wrappers`, `Model/Defaults`, `Model/SetAttr`, the
specification vocabulary (`counts`, `realChanges`, `Consistent`) is
`Lemmas/AttrSpec`, the proofs are in `Lemmas/Attr*.lean`.

Configuration quantified over (hypotheses of the theorems):
  `StdTrait t m orig po d`  a standard trait, comparison mode `m`, constant default `d`
  `Quiet E`      default non-re-raising exception handlers on both stacks, no vetoing value,
                 handlers may raise but do not unregister themselves
  `PostQuiet E`  a `post_setattr` hook (if any) does not raise
  `Clean E d`, `HistOk h`   `Uninitialized` is never a value
  `Inv k kind s` notifications enabled, handler `k` registered exactly once through a notifier of
                 kind `kind` (static / on_trait_change / observe), in any position of any handler mix
Everything else — the validator (any function of call ordinal and value), the
`==` / `!=` tables, which handlers raise and when, the other registered
handlers and their order, the history — is universally quantified.
-/
import TraitsVerif.Lemmas.AttrMore
import TraitsVerif.Lemmas.AttrSourceTrait
import TraitsVerif.Lemmas.AttrSourceNotify
import TraitsVerif.Lemmas.WrapSource
namespace TraitsVerif.Props.C02
open TraitsVerif TraitsVerif.Model.Attr

/-! ### Tie to the source (Generated/Enums.lean is regenerated from /repo on every run) -/

/-- The constants and code shapes the model relies on are those of the source:
comparison-mode enum and flag encoding, the flag `setattr_trait` seeds `changed`
from, the operands of its two identity comparisons (old value vs. *validated*
value — finding F22 rests on this), the kind → handler tables. -/
theorem source_tie :
    Generated.comparisonModeMembers = [("none", 0), ("identity", 1), ("equality", 2)]
    ∧ Generated.comparisonModeSetCases =
        [(CMode.none.toNat, "TRAIT_COMPARISON_MODE_NONE"), (CMode.identity.toNat, "TRAIT_COMPARISON_MODE_IDENTITY"),
         (CMode.equality.toNat, "TRAIT_COMPARISON_MODE_EQUALITY")]
    ∧ Generated.comparisonModeGetCases =
        [("TRAIT_COMPARISON_MODE_NONE", 0), ("TRAIT_COMPARISON_MODE_IDENTITY", 1),
         ("TRAIT_COMPARISON_MODE_EQUALITY", 2)]
    ∧ Generated.setattrChangedSeedFlag = "TRAIT_COMPARISON_MODE_NONE"
    ∧ Generated.setattrIdentityComparisons = [("old_value", "value"), ("old_value", "value")]
    ∧ Generated.setattrByKind[Kind.trait.toNat]? = some "setattr_trait"
    ∧ Generated.setattrByKind[Kind.event.toNat]? = some "setattr_event"
    ∧ Generated.getattrByKind[Kind.trait.toNat]? = some "getattr_trait"
    ∧ Generated.getattrByKind[Kind.event.toNat]? = some "getattr_event"
    ∧ Generated.traitKindMembers.lookup "trait" = some 0 ∧ Generated.traitKindMembers.lookup "event" = some 2 := by
  decide

/-- The comparison-mode bits do not overlap the other flag bits the model reads,
and the three modes are told apart by `_get_trait_comparison_mode_int`. -/
theorem flags_tie (m : CMode) (o p : Bool) :
    testFlag (mkFlags m o p) Generated.TRAIT_COMPARISON_MODE_NONE = (m == .none)
    ∧ testFlag (mkFlags m o p) Generated.TRAIT_SETATTR_ORIGINAL_VALUE = o
    ∧ testFlag (mkFlags m o p) Generated.TRAIT_POST_SETATTR_ORIGINAL_VALUE = p
    ∧ comparisonModeInt (mkFlags m o p) = m.toNat :=
  ⟨testFlag_none m o p, testFlag_orig m o p, testFlag_postOrig m o p, comparisonModeInt_mkFlags m o p⟩

/-! ### The model is the source

`Generated/AttrProg.lean` is the *source text* of the attribute functions of
ctraits.c, translated on every run by `harness/translate/cattr.py` into the
deep-embedded language `Model/MiniC.lean`.  The theorems below say that the
hand-written model functions are the interpretation of those terms: for every
object state, assigned value, validator, `post_setattr` hook, default factory and
handler behaviour (`C : MiniC.IC` carries the environment `E` and the trait `t`),
whether or not `obj->obj_dict` / `obj->itrait_dict` exist yet (`dn`, `idn`).
The exactly-once / truthful / silent theorems further down are about these
model functions, hence about the interpreted source for the functions tied here. -/

open TraitsVerif.Model.MiniC in
/-- The macro `has_notifiers(tnotifiers, onotifiers)` computes the model's `hasNotifiers`. -/
theorem C02_has_notifiers_is_source (C : IC) (s : OSt) (dn idn : Bool) (tn on : Option (List Notifier)) (l1 l2 : Loc) :
    call C Generated.AttrProg.has_notifiers [nlv tn l1, nlv on l2] s dn idn
      = (.int (if hasNotifiers tn on then 1 else 0), s, none) :=
  Lemmas.AttrSource.has_notifiers_is_source C s dn idn tn on l1 l2

open TraitsVerif.Model.MiniC in
/-- `setattrEvent` is the interpretation of the source of `setattr_event`
(validate, then notify with old = Undefined; `del` does nothing). -/
theorem C02_setattr_event_is_source (C : IC) (value : Option Id) (s : OSt) (dn idn : Bool) :
    call C Generated.AttrProg.setattr_event [.trait, .trait, .self, .name, ofValue value] s dn idn
      = ofInt (setattrEvent C.E C.t value s) :=
  Lemmas.AttrSource.setattr_event_is_source C value s dn idn

open TraitsVerif.Model.MiniC in
/-- `getattrTrait` is the interpretation of the source of `getattr_trait`: the
default is computed, stored, `post_setattr`'d and announced with
old = Uninitialized, in this order; every error exit leaves what was done. -/
theorem C02_getattr_is_source (C : IC) (s : OSt) (dn idn : Bool) :
    call C Generated.AttrProg.getattr_trait [.trait, .self, .name] s dn idn = ofPtr (getattrTrait C.E C.t s) :=
  Lemmas.AttrSource.getattr_trait_is_source C s dn idn

open TraitsVerif.Model.MiniC in
/-- `has_traits_setattro`: instance trait first, class trait otherwise, then the
selected trait's `setattr(trait, trait, obj, name, value)`, whose result is returned. -/
theorem C02_setattro_is_source (C : IC) (value : Option Id) (s : OSt) (dn idn : Bool) :
    call C Generated.AttrProg.has_traits_setattro [.self, .name, ofValue value] s dn idn
      = ofInt (traitSetattr C.E C.t value s) :=
  Lemmas.AttrSource.has_traits_setattro_is_source C value s dn idn

open TraitsVerif.Model.MiniC in
/-- `getattro` is the interpretation of `has_traits_getattro`: the `__dict__`
short cut first, the selected trait's `getattr` otherwise. -/
theorem C02_getattro_is_source (C : IC) (s : OSt) (dn idn : Bool) (hdn : dn = true → s.slot = none) :
    call C Generated.AttrProg.has_traits_getattro [.self, .name] s dn idn = ofPtr (getattro C.E C.t s) :=
  Lemmas.AttrSource.has_traits_getattro_is_source C s dn idn hdn

open TraitsVerif.Model.MiniC in
/-- `setattrTrait` is the interpretation of the source of `setattr_trait` on EVERY path: delete (absent value,
muted object, no notifier lists, `getattr` failure, identity comparison, post_setattr, notifiers) and assignment
(validation or its skipping for Undefined, creation of `__dict__`, the stored value chosen by
`TRAIT_SETATTR_ORIGINAL_VALUE`, the old value fetched only when somebody will be told — materialising the default
with its post_setattr —, `changed` seeded from the comparison-mode flag and or-ed with `old != validated value`,
the store, post_setattr with the value chosen by `TRAIT_POST_SETATTR_ORIGINAL_VALUE`, the notifiers with
(old, stored value)), every error exit included.  `hdn`: an object without `__dict__` has nothing stored.
Proved segment by segment (`Lemmas/AttrSourceTrait.lean`: program points 6, 8, 16, 17 with preconditions
`R6`, `R8`, `R16`, `R17` on an arbitrary machine state; `Lemmas/AttrSourceDel.lean`: the delete block). -/
theorem C02_setattr_trait_is_source (C : IC) (value : Option Id) (s : OSt) (dn idn : Bool)
    (hdn : dn = true → s.slot = none) :
    call C Generated.AttrProg.setattr_trait [.trait, .trait, .self, .name, ofValue value] s dn idn
      = ofInt (setattrTrait C.E C.t value s) :=
  Lemmas.AttrSource.setattr_trait_is_source C value s dn idn hdn

open TraitsVerif.Model.MiniC in
/-- `callNotifiers` is the interpretation of the source of `call_notifiers`, for all notifier lists (NULL, empty, any
length), values, handler behaviours (raising, unregistering themselves, vetoing values) and states: nothing when
`HASTRAITS_NO_NOTIFY` is set; otherwise the two lists are copied into one new list (loop lemmas `loop1`, `loop2`),
which is walked with the veto test before every call and left at the first raw exception (`loop3`).
`hveto`: the model's `veto` is "the new value is a HasTraits object whose VETO flag is set". -/
theorem C02_call_notifiers_is_source (C : IC) (hveto : ∀ v, C.E.veto v = (C.isHT v && C.vflag v))
    (tn on : Option (List Notifier)) (old new : Id) (s : OSt) (dn idn : Bool) :
    call C Generated.AttrProg.call_notifiers [nlv tn .t, nlv on .o, .self, .name, .obj old, .obj new] s dn idn
      = ofInt (callNotifiers C.E C.t tn on old new s) :=
  Lemmas.AttrSource.call_notifiers_is_source C hveto tn on old new s dn idn

open TraitsVerif.Model.MiniC in
/-- The dispatch-snapshot property of the interpreted source (what seeded change C02-m10 violated): whatever the
handlers do to the object's state while they are called — unregister themselves, create the instance trait,
register others —, the notifiers called are those of `snapshot tn on`, a function of the two list VALUES at entry
alone: the state `s` that the handlers transform is threaded through `notifyLoop` but never consulted for the list
being walked. -/
theorem C02_dispatch_snapshot_source (C : IC) (hveto : ∀ v, C.E.veto v = (C.isHT v && C.vflag v))
    (tn on : Option (List Notifier)) (old new : Id) (s : OSt) (dn idn : Bool) (hnn : s.noNotify = false) :
    call C Generated.AttrProg.call_notifiers [nlv tn .t, nlv on .o, .self, .name, .obj old, .obj new] s dn idn
      = ofInt (notifyLoop C.E C.t old new (snapshot tn on) s) := by
  rw [Lemmas.AttrSource.call_notifiers_is_source C hveto tn on old new s dn idn]
  simp [callNotifiers, hnn]

/-- Non-vacuity / the C02-m10 scenario on the model: two object-level handlers and no trait-level notifier; the first
unregisters itself when called; the second still hears that change, and only the second stays registered. -/
example :
    let E : Env := { cmp := ⟨fun _ _ => .no, fun _ _ => .yes⟩, validate := fun _ _ v => .ok v,
                     post := fun _ _ _ => .ok (), factory := fun _ _ _ => .error .typeError,
                     handler := fun h _ _ => if h = 0 then .ok .removeSelf else .ok .stay,
                     veto := fun _ => false, reraiseLegacy := false, reraiseObserve := false }
    let t : TraitCore := { flags := mkFlags .none false false }
    let s : OSt := { on := some [⟨.dynamic, 0, 1⟩, ⟨.dynamic, 1, 1⟩], slot := some 3 }
    let r := callNotifiers E t none s.on 3 4 s
    r.1 = none ∧ r.2.ctx.log.map (·.h) = [0, 1] ∧ r.2.on = some [⟨.dynamic, 1, 1⟩] := by
  decide

open TraitsVerif.Model.PyW in
/-- The Python wrapper layer is the model's: `Generated/WrapProg.lean` is the source text of the notifier wrappers
(traits/trait_notifiers.py, traits/observation), translated on every run by `harness/translate/pywrap.py`; for every
environment (`==` / `!=` tables that may raise, handler that returns, raises or unregisters the wrapper, both
re-raise flags), trait, object state and change `(C.old, C.new)`:
 1. `_change_accepted` computes `changeAccepted` and creates the instance trait unless old is Uninitialized;
 2. `ctrait_prevent_event` computes `preventEvent` and touches nothing;
 3. `AbstractStaticChangeNotifyWrapper.__call__` is `callWrapper` for a static notifier — it consults
    `_change_accepted` afresh on EVERY call and performs no comparison of its own;
 4. `TraitChangeNotifyWrapper._notify_function_listener` / `_notify_method_listener` (live owner) /`__call__` are
    `callWrapper` for an `on_trait_change` notifier; `_dispatch_change_event` and `dispatch` are what 4 uses them as;
 5. `TraitEventNotifier.__call__` is `callWrapper` for an `observe` notifier.
So `callNotifiers` — and with it `C02_exactly_once_*`, `C02_same_sequence*`, `C02_truthful`, `C02_handler_exception` —
speaks about the interpreted wrapper layer called from the interpreted `call_notifiers`. -/
theorem C02_wrappers_are_source (C : WC) (s : OSt) :
    run C Generated.WrapProg.change_accepted [.object, .name, .id C.old, .id C.new] s
        = (.ok (.bool (changeAccepted C.E.cmp C.t.kind C.t.flags C.old C.new)),
           if C.old = uninit then s else s.ensureItrait)
    ∧ run C Generated.WrapProg.ctrait_prevent_event [.event] s
        = (.ok (.bool (preventEvent C.E.cmp C.t.kind C.t.flags C.old C.new)), s)
    ∧ (C.n.kind = .static →
        run C Generated.WrapProg.AbstractStaticChangeNotifyWrapper_call [.self, .object, .name, .id C.old, .id C.new] s
          = ofWrapper (callWrapper C.E C.t C.n C.loc C.old C.new s))
    ∧ (C.n.kind = .dynamic →
        run C Generated.WrapProg.TraitChangeNotifyWrapper_notify_function_listener
            [.self, .object, .name, .id C.old, .id C.new] s
          = ofWrapper (callWrapper C.E C.t C.n C.loc C.old C.new s)
        ∧ (∀ k, C.wrapName = some k → C.ownerAlive = true →
            run C Generated.WrapProg.TraitChangeNotifyWrapper_notify_method_listener
              [.self, .object, .name, .id C.old, .id C.new] s
            = ofWrapper (callWrapper C.E C.t C.n C.loc C.old C.new s)))
    ∧ run C Generated.WrapProg.TraitChangeNotifyWrapper_call [.self, .object, .name, .id C.old, .id C.new] s
        = ofWrapper (callWrapper C.E C.t C.n C.loc C.old C.new s)
    ∧ run C Generated.WrapProg.TraitChangeNotifyWrapper_dispatch_change_event
        [.self, .object, .name, .id C.old, .id C.new, .handler] s = Lemmas.WrapSource.dispatchSem C s
    ∧ (C.n.kind = .observe →
        run C Generated.WrapProg.TraitEventNotifier_call [.self, .args, .args] s
          = ofWrapper (callWrapper C.E C.t C.n C.loc C.old C.new s)) :=
  ⟨Lemmas.WrapSource.change_accepted_is_source C C.old C.new s, Lemmas.WrapSource.prevent_event_is_source C s,
   Lemmas.WrapSource.static_call_is_source C s,
   fun h => ⟨Lemmas.WrapSource.notify_function_is_source C s h,
             fun k hk ha => Lemmas.WrapSource.notify_method_is_source C s h k hk ha⟩,
   Lemmas.WrapSource.dynamic_call_is_source C s, Lemmas.WrapSource.dispatch_change_event_is_source C s,
   Lemmas.WrapSource.observe_call_is_source C s⟩

open TraitsVerif.Model.PyW in
/-- `TraitChangeNotifyWrapper.equals` — which registered wrapper stands for a handler given to
`on_trait_change(handler, …)` (duplicate registration, `remove=True`) — is the interpretation of its source: the
wrapper itself; for a bound method the same method name and the SAME listener object, by identity (two distinct
listener objects that compare equal are two handlers, which is what the model's handler numbering assumes: every
registered handler is called exactly once per real change); otherwise a function wrapper for that very function. -/
theorem C02_wrapper_equals_is_source (C : WC) (s : OSt) :
    run C Generated.WrapProg.TraitChangeNotifyWrapper_equals [.self, Lemmas.WrapSource.candVal C.cand] s
      = (.ok (.bool (Lemmas.WrapSource.equalsSpec C)), s) :=
  Lemmas.WrapSource.equals_is_source C s

open TraitsVerif.Model.PyW in
/-- The rest of the wrapper layer's notification path.
 1. Dead owner: when the weak reference of a method wrapper no longer refers to its listener object, the wrapper calls
    nobody (the handler log is untouched) and raises nothing; only `_change_accepted` ran.
 2. `listener_deleted` (the weak reference's callback) removes the wrapper from the notifier list it sits in — the
    model's `removeSelf` — and raises nothing.
 3. Argument-count adaptation: the tuple built by `self.argument_transform(object, name, old, new)` consists of the
    selected components of exactly those four values (`Val.tuple`), and the three `argument_transforms` tables — which
    components a handler of arity 0…4 receives from an `on_trait_change` wrapper, a `_name_changed` wrapper and an
    `_anytrait_changed` wrapper — are the source's: `old` and `new`, wherever they are passed, are the change the
    wrapper was called with (the truthful-old/new clause for every arity). -/
theorem C02_wrappers_rest_are_source (C : WC) (s : OSt) :
    (C.ownerAlive = false →
      run C Generated.WrapProg.TraitChangeNotifyWrapper_notify_method_listener
          [.self, .object, .name, .id C.old, .id C.new] s
        = (.ok .none, if C.old = uninit then s else s.ensureItrait))
    ∧ run C Generated.WrapProg.TraitChangeNotifyWrapper_listener_deleted [.self, .weak] s
        = (.ok .none, s.removeSelf C.n C.loc)
    ∧ Generated.WrapProg.TraitChangeNotifyWrapper_argument_transforms
        = [(0, []), (1, [.new]), (2, [.name, .new]), (3, [.obj, .name, .new]), (4, [.obj, .name, .old, .new])]
    ∧ Generated.WrapProg.StaticTraitChangeNotifyWrapper_argument_transforms
        = [(0, []), (1, [.obj]), (2, [.obj, .new]), (3, [.obj, .old, .new]), (4, [.obj, .name, .old, .new])]
    ∧ Generated.WrapProg.StaticAnytraitChangeNotifyWrapper_argument_transforms
        = [(0, []), (1, [.obj]), (2, [.obj, .name]), (3, [.obj, .name, .new]), (4, [.obj, .name, .old, .new])] :=
  ⟨Lemmas.WrapSource.notify_method_dead C s, Lemmas.WrapSource.listener_deleted_is_source C s,
   Lemmas.WrapSource.argument_transforms_are_source⟩

open TraitsVerif.Model.PyW in
/-- `TraitChangeNotifyWrapper.init` and `ExtendedTraitChangeNotifyWrapper` (continuation of
`C02_wrappers_rest_are_source`).
 1. `init(handler, owner, target)` is `initSpec`: a bound method with a live `__self__` gets a weak reference to its
    owner with `listener_deleted` as callback, the method name, the METHOD listener and the transform SELECTED by
    `argument_transforms[co_argcount - 1]`; a function (or a method without `__self__`) gets no name, the handler,
    the FUNCTION listener and `argument_transforms[co_argcount]` (after a weak reference to `target` when one is
    given); more than four arguments raise `TraitNotificationError` before a listener or transform is installed;
    the argument count is returned.  Together with the three tables this fixes what a handler of each arity receives.
 2. `ExtendedTraitChangeNotifyWrapper`: its `_dispatch_change_event` and function listener are the plain dispatch
    (`dispatchSem`: call the handler, route an exception to `handle_exception`) — NO `_change_accepted` filter (an
    Uninitialized old value and equal values are passed on, no instance trait is created) and no tracers; its method
    listener does the same for a live owner and nothing for a dead one. -/
theorem C02_wrapper_init_and_extended_are_source (C : WC) (s : OSt) (target : Bool)
    (hc : C.cand ≠ .self) (h1 : 1 ≤ C.candArgc) :
    runInit C Generated.WrapProg.TraitChangeNotifyWrapper_init
        [.self, Lemmas.WrapSource.candVal C.cand, .ownerList, if target then .target else .none] s
      = Lemmas.WrapSource.initSpec C target
    ∧ run C Generated.WrapProg.ExtendedTraitChangeNotifyWrapper_dispatch_change_event
        [.self, .object, .name, .id C.old, .id C.new, .handler] s = Lemmas.WrapSource.dispatchSem C s
    ∧ run C Generated.WrapProg.ExtendedTraitChangeNotifyWrapper_notify_function_listener
        [.self, .object, .name, .id C.old, .id C.new] s = Lemmas.WrapSource.dispatchSem C s
    ∧ (∀ k, C.wrapName = some k →
        run C Generated.WrapProg.ExtendedTraitChangeNotifyWrapper_notify_method_listener
          [.self, .object, .name, .id C.old, .id C.new] s
        = if C.ownerAlive then Lemmas.WrapSource.dispatchSem C s else (.ok .none, s)) :=
  ⟨Lemmas.WrapSource.init_is_source C s target hc h1, Lemmas.WrapSource.ext_dispatch_change_event_is_source C s,
   Lemmas.WrapSource.ext_notify_function_is_source C s,
   fun k hk => Lemmas.WrapSource.ext_notify_method_is_source C s k hk⟩

/-! ### Exactly once -/

/-- **Full statement** (all standard traits, including those that store the
value as assigned, `setattr_original_value`): for every history, comparison
mode, handler mix and subset of raising handlers, the call log of a registered
handler of any of the three kinds is the specification filter of the history.
FALSE for the pinned tree when `orig = true` (finding F22): see
`C02_exactly_once_fails_at_original_value`. -/
def C02_exactly_once_statement : Prop :=
  ∀ (E : Env) (t : TraitCore) (m : CMode) (orig po : Bool) (d : Id) (k : Nat) (kind : NKind)
    (h : List Op) (s : OSt),
    StdTrait t m orig po d → Quiet E → PostQuiet E → Clean E d →
    (kind ≠ .observe → m = .equality → Consistent E.cmp) → HistOk h → Inv k kind s →
    callsOf k (run E t s h).ctx.log =
      callsOf k s.ctx.log ++ realChanges E t m orig d ⟨s.slot, s.ctx.nval⟩ h

/-- The full statement restricted to traits that store the validated value
(`orig = false`: every trait type except Expression / AdaptsTo).  What is
missing for the full statement: `setattr_trait` would have to compare the old
value with the value it stores (`new_value`), not with the validated one. -/
theorem C02_exactly_once_partial
    {E : Env} {t : TraitCore} {m : CMode} {po : Bool} {d : Id} {k : Nat} {kind : NKind}
    (st : StdTrait t m false po d) (q : Quiet E) (pq : PostQuiet E) (cl : Clean E d)
    (hc : kind ≠ .observe → m = .equality → Consistent E.cmp)
    (h : List Op) (s : OSt) (H : HistOk h) (I : Inv k kind s) :
    callsOf k (run E t s h).ctx.log =
      callsOf k s.ctx.log ++ realChanges E t m false d ⟨s.slot, s.ctx.nval⟩ h :=
  exactly_once_run st q pq cl hc h s H I

/-- `observe` handlers need no hypothesis on `==` / `!=` at all. -/
theorem C02_exactly_once_observe
    {E : Env} {t : TraitCore} {m : CMode} {po : Bool} {d : Id} {k : Nat}
    (st : StdTrait t m false po d) (q : Quiet E) (pq : PostQuiet E) (cl : Clean E d)
    (h : List Op) (s : OSt) (H : HistOk h) (I : Inv k .observe s) :
    callsOf k (run E t s h).ctx.log =
      callsOf k s.ctx.log ++ realChanges E t m false d ⟨s.slot, s.ctx.nval⟩ h :=
  exactly_once_run st q pq cl (fun h => absurd rfl h) h s H I

/-- Event traits: every accepted assignment, with old = Undefined, for all three kinds. -/
theorem C02_exactly_once_event
    {E : Env} {t : TraitCore} {k : Nat} {kind : NKind} (hk : t.kind = .event) (q : Quiet E)
    (h : List Op) (s : OSt) (H : ∀ op ∈ h, op.isValue = true) (hnn : s.noNotify = false)
    (u : UniqueIn k kind (snapshot s.tn s.on)) :
    callsOf k (run E t s h).ctx.log = callsOf k s.ctx.log ++ realChangesEvent E t s.ctx.nval h :=
  exactly_once_event_run hk q h s H hnn u

/-! A concrete configuration used by the examples: ids 3, 4 are equal but not
identical, 5 is not equal to anything else, 6 is rejected; handler 1 always
raises; a static, an `on_trait_change` and an `observe` handler are attached. -/

def exCmp : Cmp :=
  { eqv := fun a b => if a = b ∨ (a = 3 ∧ b = 4) ∨ (a = 4 ∧ b = 3) then .yes else .no
    neq := fun a b => if a = b ∨ (a = 3 ∧ b = 4) ∨ (a = 4 ∧ b = 3) then .no else .yes }

def exEnv : Env :=
  { cmp := exCmp
    validate := fun _ _ v => if v = 6 ∨ v = 0 then .error .traitError else .ok v
    post := fun _ _ _ => .ok ()
    factory := fun _ _ _ => .error .typeError
    handler := fun h _ _ => if h = 1 then .error .runtimeError else .ok .stay
    veto := fun _ => false
    reraiseLegacy := false
    reraiseObserve := false }

def exTrait (m : CMode) (orig : Bool) : TraitCore :=
  { kind := .trait, flags := mkFlags m orig false, validate := some 0, dvt := Generated.CONSTANT_DEFAULT_VALUE,
    dv := some noneId }

def exState : OSt :=
  { cn := some [⟨.static, 0, 1⟩], it := some (some [⟨.static, 0, 1⟩, ⟨.dynamic, 1, 1⟩, ⟨.observe, 2, 1⟩]) }

def exHist : List Op := [.set 3, .set 3, .set 4, .set 6, .set 5, .get, .del, .del, .setq 3, .set 4, .set 5]

theorem exEnv_quiet : Quiet exEnv :=
  ⟨by intro h n a; simp only [exEnv]; split <;> simp, rfl, rfl, fun _ => rfl⟩

theorem exCmp_consistent : Consistent exCmp := by
  intro a b
  simp only [exCmp]
  split <;> simp

theorem exEnv_clean : Clean exEnv noneId :=
  ⟨by decide, by
    intro k n v w h
    simp only [exEnv] at h
    split at h
    · simp at h
    · rename_i hv
      simp at h
      subst h
      exact fun e => hv (Or.inr e)⟩

/-- Non-vacuity of `C02_exactly_once_partial`: its hypotheses hold for the
configuration above (equality mode, a raising handler in the mix) and the
specification filter it computes is non-trivial: 3 → 4 is not a change
(equal), 6 is rejected, the second `del` and `trait_setq` are silent. -/
example :
    StdTrait (exTrait .equality false) .equality false false noneId ∧ Quiet exEnv ∧ PostQuiet exEnv
    ∧ Clean exEnv noneId ∧ Consistent exEnv.cmp ∧ HistOk exHist ∧ Inv 0 .static exState
    ∧ Inv 1 .dynamic exState ∧ Inv 2 .observe exState
    ∧ realChanges exEnv (exTrait .equality false) .equality false noneId ⟨none, 0⟩ exHist
        = [(2, 3), (4, 5), (5, 2), (4, 5)]
    ∧ callsOf 1 (run exEnv (exTrait .equality false) exState exHist).ctx.log = [(2, 3), (4, 5), (5, 2), (4, 5)] := by
  exact ⟨⟨rfl, rfl, rfl, rfl⟩, exEnv_quiet, fun _ _ _ => rfl, exEnv_clean, exCmp_consistent, by decide,
    ⟨rfl, by decide, by decide⟩, ⟨rfl, by decide, by decide⟩, ⟨rfl, by decide, by decide⟩, by decide, by decide⟩

/-- **Negation witness** for the full statement (finding F22): identity mode,
`setattr_original_value`, a validator that returns a new object: assigning the
very same object twice notifies twice, the second time with `old is new`. -/
theorem C02_exactly_once_fails_at_original_value : ¬ C02_exactly_once_statement := by
  intro H
  let E : Env := { exEnv with validate := fun _ _ v => .ok (v + 10) }
  have q : Quiet E := ⟨exEnv_quiet.noRemove, rfl, rfl, fun _ => rfl⟩
  have cl : Clean E noneId := ⟨by decide, by
    intro k n v w h
    simp only [E] at h
    injection h with h
    subst h
    exact Nat.ne_of_gt (Nat.lt_of_lt_of_le (by decide : 0 < 10) (Nat.le_add_left 10 v))⟩
  have := H E (exTrait .identity true) .identity true false noneId 0 .static [.set 5, .set 5] exState
    ⟨rfl, rfl, rfl, rfl⟩ q (fun _ _ _ => rfl) cl (fun _ h => by cases h) (by decide) ⟨rfl, by decide, by decide⟩
  revert this
  decide

/-! ### Truthful old / new -/

/-- After any history of value operations, every handler invocation made by the
next operation carries (what was readable before, what is readable after). -/
theorem C02_truthful
    {E : Env} {t : TraitCore} {m : CMode} {orig po : Bool} {d : Id}
    (st : StdTrait t m orig po d) (q : Quiet E) (pq : PostQuiet E)
    (h : List Op) (op : Op) (s : OSt) (H : ∀ o ∈ h, o.isValue = true) (hop : op.isValue = true)
    (hnn : s.noNotify = false) :
    let s1 := run E t s h
    let s2 := (step E t s1 op).2
    ∀ x ∈ s2.ctx.log.drop s1.ctx.log.length, x.old = readable d s1.slot ∧ x.new = readable d s2.slot :=
  (step_truthful st q pq (run E t s h) op hop (run_noNotify st q pq h s H hnn)).2

example : ∃ x ∈ (run exEnv (exTrait .equality false) exState [.set 3, .set 5]).ctx.log.drop
      (run exEnv (exTrait .equality false) exState [.set 3]).ctx.log.length,
    x.old = 3 ∧ x.new = 5 := by decide

/-! ### The three mechanisms see the same sequence -/

/-- A static, an `on_trait_change` and an `observe` handler registered over the
same history receive the same sequence of (old, new).  `Consistent` is needed
only in equality mode (see the witness below). -/
theorem C02_same_sequence
    {E : Env} {t : TraitCore} {m : CMode} {po : Bool} {d : Id} {ks kd ko : Nat}
    (st : StdTrait t m false po d) (q : Quiet E) (pq : PostQuiet E) (cl : Clean E d)
    (hc : m = .equality → Consistent E.cmp)
    (h : List Op) (s : OSt) (H : HistOk h)
    (Is : Inv ks .static s) (Id' : Inv kd .dynamic s) (Io : Inv ko .observe s)
    (h0 : callsOf ks s.ctx.log = callsOf kd s.ctx.log ∧ callsOf kd s.ctx.log = callsOf ko s.ctx.log) :
    callsOf ks (run E t s h).ctx.log = callsOf kd (run E t s h).ctx.log
    ∧ callsOf kd (run E t s h).ctx.log = callsOf ko (run E t s h).ctx.log := by
  rw [exactly_once_run st q pq cl (fun _ => hc) h s H Is, exactly_once_run st q pq cl (fun _ => hc) h s H Id',
    exactly_once_run st q pq cl (fun _ => hc) h s H Io, h0.1, h0.2]
  exact ⟨rfl, rfl⟩

theorem C02_same_sequence_event
    {E : Env} {t : TraitCore} {ks kd ko : Nat} (hk : t.kind = .event) (q : Quiet E)
    (h : List Op) (s : OSt) (H : ∀ op ∈ h, op.isValue = true) (hnn : s.noNotify = false)
    (us : UniqueIn ks .static (snapshot s.tn s.on)) (ud : UniqueIn kd .dynamic (snapshot s.tn s.on))
    (uo : UniqueIn ko .observe (snapshot s.tn s.on))
    (h0 : callsOf ks s.ctx.log = callsOf kd s.ctx.log ∧ callsOf kd s.ctx.log = callsOf ko s.ctx.log) :
    callsOf ks (run E t s h).ctx.log = callsOf kd (run E t s h).ctx.log
    ∧ callsOf kd (run E t s h).ctx.log = callsOf ko (run E t s h).ctx.log := by
  rw [exactly_once_event_run hk q h s H hnn us, exactly_once_event_run hk q h s H hnn ud,
    exactly_once_event_run hk q h s H hnn uo, h0.1, h0.2]
  exact ⟨rfl, rfl⟩

/-- The hypothesis is needed: with `3 == 4` and `3 != 4` both true (the harness
class `_Inconsistent`), the legacy wrappers fire and the observer does not. -/
theorem C02_same_sequence_needs_consistency :
    ∃ (E : Env) (s : OSt) (h : List Op), Quiet E ∧ PostQuiet E ∧ Clean E noneId ∧ HistOk h
      ∧ Inv 0 .static s ∧ Inv 2 .observe s ∧ ¬ Consistent E.cmp
      ∧ callsOf 0 (run E (exTrait .equality false) s h).ctx.log
          ≠ callsOf 2 (run E (exTrait .equality false) s h).ctx.log := by
  let E : Env := { exEnv with cmp := { exCmp with neq := fun _ _ => .yes } }
  refine ⟨E, exState, [.set 3, .set 4], ⟨exEnv_quiet.noRemove, rfl, rfl, fun _ => rfl⟩, fun _ _ _ => rfl,
    ⟨exEnv_clean.dflt, exEnv_clean.val⟩, by decide, ⟨rfl, by decide, by decide⟩, ⟨rfl, by decide, by decide⟩, ?_,
    by decide⟩
  · intro hc
    have := (hc 3 4).2 (by decide)
    simp [E] at this

/-! ### Rejected assignments and default reads are silent -/

/-- A rejected assignment (standard trait or Event, any flags, any default
kind, any handler mix, no hypothesis on the handlers): the exception is the
validator's, nothing is stored, no handler is called; only the validator's call
ordinal advances. -/
theorem C02_rejected_silent (E : Env) (t : TraitCore) (s : OSt) (v : Id) (e : Exc) (nv : Nat)
    (hrej : specValidate E t (t.kind == .trait) s.ctx.nval v = (.error e, nv)) :
    step E t s (.set v) = ({ exc := some e }, s.withNval nv) := by
  unfold step traitSetattr
  cases hk : t.kind with
  | trait =>
    simp only [hk, beq_self_eq_true] at hrej
    unfold setattrTrait
    simp only [validateAssigned_spec, hrej]
  | event =>
    have hb : (t.kind == Kind.trait) = false := by rw [hk]; rfl
    rw [hb] at hrej
    unfold setattrEvent
    unfold specValidate at hrej
    cases hv : t.validate with
    | none => simp [hv] at hrej
    | some k =>
      simp only [hv, Bool.false_and, Bool.false_eq_true, if_false] at hrej
      simp only [runValidate, hv]
      injection hrej with h1 h2
      rw [h1, ← h2]
      rfl

example : step exEnv (exTrait .none false) exState (.set 6) = ({ exc := some .traitError }, exState.withNval 1) :=
  C02_rejected_silent exEnv _ exState 6 .traitError 1 rfl

/-- The first read of a default: returns the default, stores it, calls no
handler — whatever handlers are registered (the raw notification
`(Uninitialized, default)` is filtered by every wrapper). -/
theorem C02_default_read_silent
    {E : Env} {t : TraitCore} {m : CMode} {orig po : Bool} {d : Id}
    (st : StdTrait t m orig po d) (q : Quiet E) (pq : PostQuiet E) (s : OSt) (hs : s.slot = none) :
    (step E t s .get).1 = { val := some d }
    ∧ (step E t s .get).2.slot = some d
    ∧ (step E t s .get).2.ctx.log = s.ctx.log
    ∧ (step E t s .get).2.tn = s.tn ∧ (step E t s .get).2.on = s.on := by
  rw [step_get_nf st q pq]
  have p := getNF_proj (t := t) (d := d) s
  simp only [hs, Option.getD_none] at p
  refine ⟨?_, p.1, p.2.2.2.2.2.2, p.2.1, p.2.2.1⟩
  simp only [hs, Option.getD_none]

example : (step exEnv (exTrait .none false) exState .get).1 = { val := some noneId }
    ∧ (step exEnv (exTrait .none false) exState .get).2.ctx.log = [] := by decide

/-! ### Handler exceptions -/

/-- Under the default, non-re-raising exception handlers, the whole final state
— the stored value, every handler's call sequence (the log records every
invocation, of raising handlers too), the notifier lists — does not depend on
which handlers raise, or when: it is the state reached with handlers that never
raise.  Any standard or Event trait, any flags, any default kind, any history
(registration operations included). -/
theorem C02_handler_exception (E : Env) (g : Nat → Callback (Id × Id) HAct)
    (q : Quiet E) (q' : Quiet { E with handler := g }) (t : TraitCore) (h : List Op) (s : OSt) :
    run E t s h = run { E with handler := g } t s h := by
  rw [run_silence q, run_silence q']
  rfl

example : (run exEnv (exTrait .none false) exState exHist).slot = some 5
    ∧ callsOf 0 (run exEnv (exTrait .none false) exState exHist).ctx.log
      = callsOf 1 (run exEnv (exTrait .none false) exState exHist).ctx.log
    ∧ (callsOf 0 (run exEnv (exTrait .none false) exState exHist).ctx.log).length = 8 := by decide

end TraitsVerif.Props.C02
