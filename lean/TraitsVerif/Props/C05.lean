/-
Property C05 — TraitList refines list and its change events are faithful
normalised deltas.

Only property theorems and non-vacuity examples live here; the work is in
Lemmas/Seq*.lean.  Everything is universally quantified over the element type,
the list (any length), the operation (any integer index, any slice with
None / positive / negative / oversized start, stop, step), the item validator
(an arbitrary partial function of call ordinal and item), `==` on items and the
permutation `list.sort` applies.
-/
import TraitsVerif.Lemmas.SeqRefine
import TraitsVerif.Generated.Mutators
import TraitsVerif.Lemmas.PyLList
import TraitsVerif.Generated.CtorCopy
import TraitsVerif.Model.CtorCopyAssumed
import TraitsVerif.Lemmas.PyLCtor
namespace TraitsVerif.Props.C05
open TraitsVerif TraitsVerif.Py TraitsVerif.Model
variable {α : Type}

/-- **Refinement (success).** A successful `TraitList` operation leaves exactly
what the builtin list holds after the same operation on the validated items,
and returns the same value. -/
theorem C05_refines_ok (E : Env α) (l : List α) (op : Op α) (o : Out α)
    (h : TraitList.step E l op = .ok o) :
    ∃ op', validateOp E op = .ok op' ∧ pyStep E l op' = .ok (o.items, o.ret) :=
  step_refines_ok E l op o h

/-- **Refinement (completeness).** Where validation succeeds and the builtin
list succeeds on the validated items, `TraitList` succeeds too, same result. -/
theorem C05_refines_complete (E : Env α) (l : List α) (op op' : Op α) (l' : List α)
    (r : Option α) (hv : validateOp E op = .ok op') (hp : pyStep E l op' = .ok (l', r)) :
    ∃ o, TraitList.step E l op = .ok o ∧ o.items = l' ∧ o.ret = r :=
  step_refines_complete E l op op' l' r hv hp

/-- **Refinement (failure).** The only exceptions are the item validator's own
and the one the builtin list raises (same class) on the same operation. -/
theorem C05_refines_error (E : Env α) (l : List α) (op : Op α) (e : Exc)
    (h : TraitList.step E l op = .error e) :
    validateOp E op = .error e
    ∨ (∃ op', validateOp E op = .ok op' ∧ pyStep E l op' = .error e)
    ∨ pyStep E l op = .error e :=
  step_refines_error E l op e h

/-- **Atomicity.** A failing operation leaves the list untouched and emits
nothing: the history continues from the same contents. -/
theorem C05_atomic (E : Env α) (l : List α) (op : Op α) (ops : List (Op α)) (e : Exc)
    (h : TraitList.step E l op = .error e) :
    TraitList.run E l (op :: ops) = .error e :: TraitList.run E l ops := by
  simp [TraitList.run, h]

/-- **Replay law.** Replacing, in the snapshot taken before the operation, the
removed items at `index` by the added items yields the contents after. -/
theorem C05_replay (E : Env α) (l : List α) (op : Op α) (o : Out α) (e : Event α)
    (h : TraitList.step E l op = .ok o) (he : o.event = some e) :
    replay l e = some o.items :=
  (step_event_ok E l op o e h he).1

/-- **Index normal form / removed-exactness.** The index is an integer in
`0..len` at which exactly the removed items sit, or a slice with
`0 ≤ start < stop ≤ len`, `step ≥ 2` selecting exactly the removed items. -/
theorem C05_index_normal (E : Env α) (l : List α) (op : Op α) (o : Out α) (e : Event α)
    (h : TraitList.step E l op = .ok o) (he : o.event = some e) :
    NormalForm l e :=
  (step_event_ok E l op o e h he).2

/-- **Exactly one event per change.** The model emits at most one event per
operation by construction (`Out.event : Option _`); an operation that emits
none did not change the contents. -/
theorem C05_change_has_event (E : Env α) (hs : SortOk E) (l : List α) (op : Op α) (o : Out α)
    (h : TraitList.step E l op = .ok o) (hne : o.items ≠ l) : ∃ e, o.event = some e := by
  cases he : o.event with
  | some e => exact ⟨e, rfl⟩
  | none => exact absurd (step_silent E hs l op o h he) hne

/-- **Identity events.** An operation that changes nothing may only emit an
event whose replay is the identity. -/
theorem C05_identity_event (E : Env α) (l : List α) (op : Op α) (o : Out α) (e : Event α)
    (h : TraitList.step E l op = .ok o) (he : o.event = some e) (hsame : o.items = l) :
    replay l e = some l := by
  rw [C05_replay E l op o e h he, hsame]

/-- What property C05 says about one result `r` obtained from contents `l`. -/
def Good (E : Env α) (l : List α) (op : Op α) : Except Exc (Out α) → Prop
  | .error e =>
      validateOp E op = .error e
      ∨ (∃ op', validateOp E op = .ok op' ∧ pyStep E l op' = .error e)
      ∨ pyStep E l op = .error e
  | .ok o =>
      (∃ op', validateOp E op = .ok op' ∧ pyStep E l op' = .ok (o.items, o.ret))
      ∧ (∀ e, o.event = some e → replay l e = some o.items ∧ NormalForm l e)
      ∧ (o.event = none → o.items = l)

/-- The per-operation claims along a whole history: each operation is `Good`
with respect to the contents left by the operations before it (a failed one
leaves them as they were). -/
def GoodHistory (E : Env α) : List α → List (Op α) → Prop
  | _, [] => True
  | l, op :: ops =>
    Good E l op (TraitList.step E l op) ∧
      GoodHistory E (match TraitList.step E l op with | .ok o => o.items | .error _ => l) ops

/-- **Histories.** Every finite sequence of operations from any starting
contents satisfies all of the above at every step. -/
theorem C05_history (E : Env α) (hs : SortOk E) (l : List α) (ops : List (Op α)) :
    GoodHistory E l ops := by
  induction ops generalizing l with
  | nil => trivial
  | cons op ops ih =>
    refine ⟨?_, ih _⟩
    cases h : TraitList.step E l op with
    | error e => exact step_refines_error E l op e h
    | ok o =>
      exact ⟨step_refines_ok E l op o h, fun e he => step_event_ok E l op o e h he,
        fun he => step_silent E hs l op o h he⟩

/-- `run` visits exactly the states `GoodHistory` talks about (ties the
history theorem to the executable that the correspondence check runs). -/
theorem C05_run_states (E : Env α) (l : List α) (op : Op α) (ops : List (Op α)) :
    TraitList.run E l (op :: ops) =
      TraitList.step E l op ::
        TraitList.run E (match TraitList.step E l op with | .ok o => o.items | .error _ => l) ops := by
  cases h : TraitList.step E l op <;> simp [TraitList.run, h]

/-- **Mutators covered** (over the table translated from the source and the
running interpreter): every public method of the builtin `list` is either
overridden by `TraitList` (and modelled above) or is one of the listed
non-mutating methods.  A new or un-overridden mutator breaks this obligation. -/
def listNonMutators : List String :=
  ["__add__", "__class_getitem__", "__contains__", "__getitem__", "__iter__", "__len__",
   "__mul__", "__reversed__", "__rmul__", "copy", "count", "index"]

theorem C05_mutators_covered :
    ∀ m ∈ Generated.listBuiltinMethods,
      m ∈ Generated.traitListMethods ∨ m ∈ listNonMutators := by
  decide

/-- The overridden mutators are exactly the operations of the model. -/
def modelledMutators : List String :=
  ["__delitem__", "__iadd__", "__imul__", "__setitem__", "append", "clear", "extend",
   "insert", "pop", "remove", "reverse", "sort"]

theorem C05_model_covers_overrides :
    ∀ m ∈ Generated.traitListMethods,
      m ∈ modelledMutators ∨ m ∈ ["__deepcopy__", "__getstate__", "__init__", "__new__",
        "__setstate__", "_notifiers", "notify"] := by
  decide

/-! ### Non-vacuity: concrete states meeting the hypotheses -/

/-! ### The model is the source

`Generated/ListProg.lean` is the *translation of the source text* of every
`TraitList` mutator and of `_normalize_slice_or_index` / `_removed_items` into
the deep-embedded Python subset of `Model/PyL.lean`, redone from /repo's
working tree on every run (`harness/translate/pyl.py`).  The hand-written
`TraitList.step`, about which every theorem above is stated, is exactly the
interpretation of that translation. -/

/-- **`TraitList.step` is what the source says**: for every validator, every
list and every operation, running the translated method body gives the items,
the returned value and the event list of `TraitList.step`; where the model
raises, the interpreted source raises the same exception with the list as it
was and no event fired. -/
theorem C05_step_is_source (E : Env α) (l : List α) (op : Op α) :
    PyL.runTraitListOp Generated.listHelpers Generated.traitListProg E l op
      = PyL.summaryOfStep l (TraitList.step E l op) :=
  Lemmas.PyL.tl_step_is_source E l op

/-- Atomicity read off the source: whenever the interpreted source raises, the
list is unchanged and nobody has been notified. -/
theorem C05_source_atomic (E : Env α) (l : List α) (op : Op α) (e : Exc) (items : List α)
    (evs : List (Event α))
    (h : PyL.runTraitListOp Generated.listHelpers Generated.traitListProg E l op = .raised e items evs) :
    items = l ∧ evs = [] := by
  rw [C05_step_is_source] at h
  cases hs : TraitList.step E l op with
  | ok o => simp [PyL.summaryOfStep, hs] at h
  | error e' =>
    simp only [PyL.summaryOfStep, hs, PyL.Summary.raised.injEq] at h
    exact ⟨h.2.1.symm, h.2.2.symm⟩

/-- The source fires at most one event per call, and exactly the model's. -/
theorem C05_source_events (E : Env α) (l : List α) (op : Op α) (items : List α) (r : Option α)
    (evs : List (Event α))
    (h : PyL.runTraitListOp Generated.listHelpers Generated.traitListProg E l op = .done items r evs) :
    ∃ o, TraitList.step E l op = .ok o ∧ items = o.items ∧ r = o.ret ∧ evs = o.event.toList := by
  rw [C05_step_is_source] at h
  cases hs : TraitList.step E l op with
  | error e' => simp [PyL.summaryOfStep, hs] at h
  | ok o =>
    simp only [PyL.summaryOfStep, hs, PyL.Summary.done.injEq] at h
    exact ⟨o, rfl, h.1.symm, h.2.1.symm, h.2.2.symm⟩

/-- **The property, stated of the interpreted source.** Whenever a translated
`TraitList` method returns: the contents and return value are those of the
builtin list on the validated items; at most one event was fired; every event
fired replays to the new contents from the old ones and is in normal form; and
if the contents changed (under a permuting `sort`) exactly one event was fired. -/
theorem C05_source_property (E : Env α) (hs : SortOk E) (l : List α) (op : Op α) (items : List α)
    (r : Option α) (evs : List (Event α))
    (h : PyL.runTraitListOp Generated.listHelpers Generated.traitListProg E l op = .done items r evs) :
    (∃ op', validateOp E op = .ok op' ∧ pyStep E l op' = .ok (items, r))
    ∧ evs.length ≤ 1
    ∧ (∀ e ∈ evs, replay l e = some items ∧ NormalForm l e)
    ∧ (items ≠ l → evs.length = 1) := by
  obtain ⟨o, hst, rfl, rfl, rfl⟩ := C05_source_events E l op items r evs h
  refine ⟨C05_refines_ok E l op o hst, ?_, ?_, ?_⟩
  · cases o.event <;> simp
  · intro e he
    have he' : o.event = some e := by
      cases hoe : o.event with
      | none => simp [hoe] at he
      | some e' => simp [hoe] at he; rw [he]
    exact ⟨C05_replay E l op o e hst he', C05_index_normal E l op o e hst he'⟩
  · intro hne
    obtain ⟨e, he⟩ := C05_change_has_event E hs l op o hst hne
    simp [he]

def idEnv : Env Int := { v := fun _ x => .ok x, eq := (· == ·), sort := fun _ l => l.mergeSort (· ≤ ·) }

/-- `x[4:0:-2] = [8, 9]` on a length-5 list: a reversed extended slice. -/
example :
    (TraitList.step idEnv [1, 2, 3, 4, 5] (.setSlice ⟨some 4, some 0, some (-2)⟩ [8, 9])).toOption.map
      (fun o => (o.items, o.event.map (fun e => (e.index, e.removed, e.added))))
    = some ([1, 2, 9, 4, 8], some (.slc 2 5 2, [3, 5], [9, 8])) := by decide

/-- `del x[::-2]` with oversized implicit bounds. -/
example :
    (TraitList.step idEnv [1, 2, 3, 4, 5] (.delSlice ⟨none, none, some (-2)⟩)).toOption.map
      (fun o => (o.items, o.event.map (fun e => (e.index, e.removed, e.added))))
    = some ([2, 4], some (.slc 0 5 2, [1, 3, 5], [])) := by decide

/-- `x *= 0` and `x.insert(-9, 7)`. -/
example :
    (TraitList.step idEnv [1, 2] (.imul 0)).toOption.map (fun o => (o.items, o.event.isSome))
      = some ([], true)
    ∧ (TraitList.step idEnv [1, 2] (.insert (-9) 7)).toOption.map
        (fun o => (o.items, o.event.map (fun e => e.index))) = some ([7, 1, 2], some (.idx 0)) := by
  decide

/-- A rejecting validator: the operation fails and the hypotheses of
`C05_atomic` are met. -/
example :
    (TraitList.step { idEnv with v := fun k x => if k = 1 then .error .traitError else .ok x }
      [1] (.extend [5, 6, 7])).toOption.isNone = true := by decide

/-! ### Tie to the source: construction and copying -/

/-- **C05_init_source.**  `TraitList.__new__` / `__init__` in the working tree
are, statement for statement, the ones the model assumes: the validator is
taken iff it `is not None`, every initial item is validated in order, and the
notifier list is a private copy `list(notifiers)` — keeping the caller's list
object (seeded C05-m9) would let later edits of that list change who is
notified. -/
theorem C05_init_source :
    (Generated.CtorCopy.traitListCtorCopy.take 2) = (Model.CtorCopyAssumed.traitListCtorCopy.take 2) := by
  first | rfl | exact ⟨rfl, rfl⟩

/-- **C05_copy_source.**  `TraitList.__deepcopy__` / `__getstate__` /
`__setstate__` are the assumed ones: a deep copy re-validates deep copies of the
items with a deep copy of the validator and carries no notifier; the pickled
state has no `notifiers`, the restored object has `[]`. -/
theorem C05_copy_source :
    (Generated.CtorCopy.traitListCtorCopy.drop 2) = (Model.CtorCopyAssumed.traitListCtorCopy.drop 2) := by
  first | rfl | exact ⟨rfl, rfl⟩

/-- **C05_init_is_source.**  `TraitList.__init__` as an interpreted program
(`translate/ctorprog.py`, `Model/PyLCtor.lean`): for every iterable, validator
choice and notifier argument, running the translated body on the object
`__new__` left gives exactly the modelled constructor — the validator is the
caller's iff one was given, every item goes through it in order with the call
ordinal threaded and nothing is stored when one fails (`TraitList.init`), and
the notifier list is a private copy of the caller's list, never that list
object itself (seeded C05-m9). -/
theorem C05_init_is_source (C : PyLC.Ctx α) (xs : List α) (iv : Option PyLC.VSrc) (ns : Option PyLC.NSrc) :
    PyLC.runListInit Generated.Ctor.traitListInit C xs iv ns = PyLC.listInit C xs iv ns ∧
    (∀ E : Env α, C.given = E.v →
      (PyLC.listInit C xs (some .arg) ns).map (·.items) = TraitList.init E xs) ∧
    (∀ o, PyLC.listInit C xs iv ns = .ok o → o.notifiers ≠ .argAlias ∧ o.notifiers ≠ .ownAlias) := by
  refine ⟨Lemmas.PyLCtor.list_init_is_source C xs iv ns, ?_, ?_⟩
  · intro E hE
    simp only [PyLC.listInit, TraitList.init, Option.getD, PyLC.Ctx.vOf, hE]
    cases valAll E.v 0 xs <;> rfl
  · intro o ho
    simp only [PyLC.listInit] at ho
    cases hv : valAll (C.vOf (iv.getD .everything)) 0 xs with
    | error e => simp [hv] at ho
    | ok ys =>
      simp only [hv, Except.ok.injEq] at ho
      subst ho
      rcases ns with _ | n
      · simp
      · cases n <;> simp

end TraitsVerif.Props.C05
