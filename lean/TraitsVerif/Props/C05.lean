import TraitsVerif.Model.TraitList
import TraitsVerif.Generated.Mutators
namespace TraitsVerif.Props.C05
theorem placeholder : True := trivial
end TraitsVerif.Props.C05
