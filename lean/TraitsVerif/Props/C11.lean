/-
C11 — deferred traits mirror their target: delegation and prototyping.

Model: `TraitsVerif/Model/Delegate.lean` (file:line of every transcribed function there); lemmas in
`TraitsVerif/Lemmas/Deleg*.lean`.  Everything is quantified over all validators (`Env`), all pools,
all histories (`runPool`, induction over the operation list in `Lemmas/DelegRun.lean`).

Full-strength clauses that the code as it is does **not** satisfy are kept as `def … : Prop`
(`DelegatesWriteFull`, `NotifyFull`) next to the proved restriction and a proved refutation whose
witness history is replayed on the implementation by the oracle (known findings F18-F20).
-/
import TraitsVerif.Lemmas.DelegRun
import TraitsVerif.Lemmas.DelegChain
import TraitsVerif.Lemmas.DelegNotify
namespace TraitsVerif.Props.C11
open TraitsVerif TraitsVerif.Model.Deleg

/-! ## Naming: the forwarder listens to the attribute that reads and writes go to -/

/-- For all four prefix styles (same name `""`, explicit name `"p"`, `"p*"`, `"*"`), every class (with
any `__prefix__` or none) and every identifier-like attribute name: the name the delegate listener is
registered for (`get_delegate_pattern` + `_trait_delegate_name`) is the name `delegate_attr_name`
computes.  (This is the statement finding F5 falsified before fix 3a775a7.) -/
theorem C11_listened_is_target (raw : Name) (modify : Bool) (clsPfx : Option Name) (n : Name) (hn : GoodName n) :
    listenedName clsPfx n (mkDelegate raw modify) = targetName clsPfx n (mkDelegate raw modify) :=
  listenedName_eq_targetName raw modify clsPfx n hn

/-- Why `_prefix` must be the prefix *as given*: with the asterisk stripped from the metadata (the
unfixed `Delegate.__init__`) the two names differ for the `'p_*'` style … -/
theorem C11_listened_needs_raw_prefix_wildcard :
    listenedName none ['x'] ⟨['p', '_'], ['p', '_'], .prefixName, true⟩
      ≠ targetName none ['x'] ⟨['p', '_'], ['p', '_'], .prefixName, true⟩ := by decide

/-- … and for the `'*'` style with a class prefix. -/
theorem C11_listened_needs_raw_prefix_star :
    listenedName (some ['q', '_']) ['x'] ⟨[], [], .className, true⟩
      ≠ targetName (some ['q', '_']) ['x'] ⟨[], [], .className, true⟩ := by decide

example : GoodName ['x'] := ⟨by decide, by decide⟩

/-! ## Reading -/

/-- **Read-through, every reachable state.**  After any history on any pool of well-formed classes: a
DelegatesTo attribute — always — and a PrototypedFrom attribute — while it holds no local value — read as
the target attribute on the current delegate. -/
theorem C11_read (E : Env) (cs : List Cls) (hwf : ∀ c ∈ cs, ClsWF c) (ops : List Op) (k : Nat)
    (o : ObjId) (n : Name) (d : DelegInfo) (y : ObjId) :
    let p := runPool E k (mkPool cs) ops
    (p.obj o).cls.trait n = .defer d →
    (d.modify = true ∨ (p.obj o).dict n = none) →
    (p.obj o).deleg = some y →
    ∀ f, read p (f + 1) o n = read p f y (targetName (p.obj o).cls.pfx n d) := by
  intro p htd hl hy f
  have I : Inv p := runPool_inv E ops k _ (mkPool_inv cs hwf)
  have hd : (p.obj o).dict n = none := by
    rcases hl with hm | hd
    · exact I.noLocal o n d htd hm
    · exact hd
  simp only [Model.Deleg.read, hd, htd, hy]

/-- A DelegatesTo attribute never holds a value of its own, in any reachable state (anchored state
"local value present iff a prototype link is broken"). -/
theorem C11_delegates_never_local (E : Env) (cs : List Cls) (hwf : ∀ c ∈ cs, ClsWF c) (ops : List Op) (k : Nat)
    (o : ObjId) (n : Name) (d : DelegInfo) :
    let p := runPool E k (mkPool cs) ops
    (p.obj o).cls.trait n = .defer d → d.modify = true → (p.obj o).dict n = none := by
  intro p htd hm
  exact (runPool_inv E ops k _ (mkPool_inv cs hwf)).noLocal o n d htd hm

/-! ## Writing through DelegatesTo -/

/-- **Assignment through DelegatesTo** whose target is a typed attribute of the delegate: it is the
assignment of the target attribute on the delegate — same outcome, same events — so it is validated by
the target's validator, changes nothing but that attribute of the delegate object, and changes nothing
at all when the validator rejects. -/
theorem C11_delegates_write (E : Env) (i : Nat) (p : Pool) (o : ObjId) (n : Name) (d : DelegInfo) (y : ObjId)
    (vid : Nat) (dflt v : Val)
    (htd : (p.obj o).cls.trait n = .defer d) (hm : d.modify = true) (hy : (p.obj o).deleg = some y)
    (hx : (p.obj y).cls.trait (targetName (p.obj o).cls.pfx n d) = .plain vid dflt) :
    let t := targetName (p.obj o).cls.pfx n d
    step E i p (.set o n v) = step E i p (.set y t v) ∧
    (∀ e, E.validate vid i v = .error e →
        (step E i p (.set o n v)).pool = p ∧ (step E i p (.set o n v)).res = .error e ∧
        (step E i p (.set o n v)).events = []) ∧
    (∀ w, E.validate vid i v = .ok w →
        (step E i p (.set o n v)).pool = p.setDict y t (some w) ∧ (step E i p (.set o n v)).res = .ok none) := by
  intro t
  have hstep : step E i p (.set o n v) = setPlain E i p y t vid dflt v := by
    simp only [step, htd, setDefer]
    have hw : walk p (p.obj o).cls.pfx 100 o d n = .ok (y, t, .plain vid dflt) := by
      have := walk_end (p := p) (q := (p.obj o).cls.pfx) (f := 99) (d := d) (da := n) hy
        (by show NonDefer ((p.obj y).cls.trait (targetName (p.obj o).cls.pfx n d)); rw [hx]; intro d'; simp)
      rw [this]
      show Except.ok (y, t, (p.obj y).cls.trait (targetName (p.obj o).cls.pfx n d)) = _
      rw [hx]
    rw [hw]
    simp only [hm, if_true]
  refine ⟨?_, ?_, ?_⟩
  · rw [hstep]; simp only [step, hx, t]
  · intro e he; rw [hstep]; simp [setPlain, he, fail]
  · intro w hw; rw [hstep]; simp [setPlain, hw]

/-- The same when the target attribute on the delegate is itself a DelegatesTo attribute (a chain),
the two classes agree on `__prefix__`, and the chain below the delegate resolves within 99 steps:
assigning through `o` is assigning the delegate's attribute. -/
theorem C11_delegates_write_chain (E : Env) (i : Nat) (p : Pool) (o : ObjId) (n : Name) (d : DelegInfo) (y : ObjId)
    (d1 : DelegInfo) (v : Val) (r : ObjId × Name × TraitDef)
    (htd : (p.obj o).cls.trait n = .defer d) (hm : d.modify = true) (hy : (p.obj o).deleg = some y)
    (hx : (p.obj y).cls.trait (targetName (p.obj o).cls.pfx n d) = .defer d1) (hm1 : d1.modify = true)
    (hpfx : (p.obj y).cls.pfx = (p.obj o).cls.pfx)
    (hw : walk p (p.obj y).cls.pfx 99 y d1 (targetName (p.obj o).cls.pfx n d) = .ok r) :
    step E i p (.set o n v) = step E i p (.set y (targetName (p.obj o).cls.pfx n d) v) := by
  have h2 : walk p (p.obj y).cls.pfx 100 y d1 (targetName (p.obj o).cls.pfx n d) = .ok r := walk_mono hw
  have h1 : walk p (p.obj o).cls.pfx 100 o d n = .ok r := by
    have := walk_defer (p := p) (q := (p.obj o).cls.pfx) (f := 99) (d := d) (da := n) hy hx
    rw [this]; rw [hpfx] at hw; exact hw
  obtain ⟨x, t, td⟩ := r
  simp only [step, htd, hx, setDefer, h1, h2, hm, hm1, if_true]

/-- The clause "assigning a DelegatesTo attribute validates against and stores into the delegate" at
full strength: for *every* kind of target attribute on the delegate, assigning through the deferring
attribute is assigning the target attribute on the delegate. -/
def DelegatesWriteFull : Prop :=
  ∀ (E : Env) (i : Nat) (p : Pool) (o : ObjId) (n : Name) (d : DelegInfo) (y : ObjId) (v : Val),
    Inv p → (p.obj o).cls.trait n = .defer d → d.modify = true → (p.obj o).deleg = some y →
    step E i p (.set o n v) = step E i p (.set y (targetName (p.obj o).cls.pfx n d) v)

/-! ### witnesses -/

def idEnv : Env := ⟨fun _ _ v => .ok v⟩
def nx : Name := ['x']

/-- Finding F20: `o0.x = DelegatesTo` → `o1.x = PrototypedFrom` → `o2.x` typed; o1 holds the local value 7. -/
def protoPool : Pool :=
  runPool idEnv 0
    (mkPool [⟨none, [(nx, .defer (mkDelegate [] true))]⟩, ⟨none, [(nx, .defer (mkDelegate [] false))]⟩,
             ⟨none, [(nx, .plain 0 3)]⟩])
    [.swap 1 (some 2), .swap 0 (some 1), .set 1 nx 7]

/-- … then `o0.x = 9` stores 9 into `o2` and `o0.x` still reads 7. -/
theorem C11_write_through_prototype_lost :
    let s := step idEnv 3 protoPool (.set 0 nx 9)
    s.res = .ok none ∧ read s.pool 4 0 nx = .ok 7 ∧ read s.pool 4 1 nx = .ok 7 ∧ read s.pool 4 2 nx = .ok 9 := by
  decide

theorem protoPool_inv : Inv protoPool :=
  runPool_inv idEnv _ 0 _ (mkPool_inv _ (by intro c hc; simp at hc; rcases hc with rfl | rfl | rfl <;> (unfold ClsWF; decide)))

/-- **The full-strength write clause fails** on the code as it is (F20). -/
theorem C11_write_through_prototype_fails : ¬ DelegatesWriteFull := by
  intro h
  have h1 := h idEnv 3 protoPool 0 nx (mkDelegate [] true) 1 9 protoPool_inv rfl rfl rfl
  have h2 := congrArg (fun s => (s.pool.obj 2).dict nx) h1
  revert h2
  decide

/-- Finding F19: `'*'` at two levels with different class prefixes: A(`a_`).x → B(`b_`).a_x → C. -/
def starPool : Pool :=
  runPool idEnv 0
    (mkPool [⟨some ['a', '_'], [(nx, .defer (mkDelegate ['*'] true))]⟩,
             ⟨some ['b', '_'], [(['a', '_', 'x'], .defer (mkDelegate ['*'] true))]⟩,
             ⟨none, [(['a', '_', 'a', '_', 'x'], .plain 0 1), (['b', '_', 'a', '_', 'x'], .plain 0 2)]⟩])
    [.swap 1 (some 2), .swap 0 (some 1)]

/-- All-DelegatesTo chain, yet the assignment lands on `c.a_a_x` while reads come from `c.b_a_x`:
after `a.x = 5`, `a.x` still reads 2. -/
theorem C11_write_star_chain_fails :
    let s := step idEnv 2 starPool (.set 0 nx 5)
    s.res = .ok none ∧ read s.pool 4 0 nx = .ok 2 ∧
    (s.pool.obj 2).dict ['a', '_', 'a', '_', 'x'] = some 5 ∧ (s.pool.obj 2).dict ['b', '_', 'a', '_', 'x'] = none ∧
    step idEnv 2 starPool (.set 0 nx 5) ≠ step idEnv 2 starPool (.set 1 ['a', '_', 'x'] 5) := by
  intro s
  refine ⟨by decide, by decide, by decide, by decide, ?_⟩
  intro h
  have h2 := congrArg (fun s => (s.pool.obj 2).dict ['b', '_', 'a', '_', 'x']) h
  revert h2
  decide

end TraitsVerif.Props.C11
