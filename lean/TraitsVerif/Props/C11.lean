/-
C11 — deferred traits mirror their target: delegation and prototyping.

Model: `TraitsVerif/Model/Delegate.lean` (file:line of every transcribed function there); lemmas in
`TraitsVerif/Lemmas/Deleg*.lean`.  Everything is quantified over all validators (`Env`), all pools,
all histories (`runPool`, induction over the operation list in `Lemmas/DelegRun.lean`).

Full-strength clauses that the code as it is does **not** satisfy are kept as `def … : Prop`
(`DelegatesWriteFull`, `NotifyFull`) next to the proved restriction and a proved refutation whose
witness history is replayed on the implementation by the oracle (known findings F19, F20).  Findings
F18 and F21 are repaired in /repo (bead785, ec4908f); their witness histories are regression theorems here.
-/
import TraitsVerif.Lemmas.DelegRun
import TraitsVerif.Lemmas.DelegChain
import TraitsVerif.Lemmas.DelegNotify
import TraitsVerif.Lemmas.DelegWitness
import TraitsVerif.Lemmas.DelegSrc
import TraitsVerif.Lemmas.DelegCopy
namespace TraitsVerif.Props.C11
open TraitsVerif TraitsVerif.Model.Deleg TraitsVerif.Model.Deleg.Witness

/-! ## Naming: the forwarder listens to the attribute that reads and writes go to -/

/-- For all four prefix styles (same name `""`, explicit name `"p"`, `"p*"`, `"*"`), every class (with
any `__prefix__` or none) and every identifier-like attribute name: the name the delegate listener is
registered for (`get_delegate_pattern` + `_trait_delegate_name`) is the name `delegate_attr_name`
computes.  (This is the statement finding F5 falsified before fix 3a775a7.) -/
theorem C11_listened_is_target (raw : Name) (modify : Bool) (clsPfx : Option Name) (n : Name) (hn : GoodName n) :
    listenedName clsPfx n (mkDelegate raw modify) = targetName clsPfx n (mkDelegate raw modify) :=
  listenedName_eq_targetName raw modify clsPfx n hn

/-- Why `_prefix` must be the prefix *as given*: with the asterisk stripped from the metadata (the
unfixed `Delegate.__init__`) the two names differ for the `'p_*'` style … -/
theorem C11_listened_needs_raw_prefix_wildcard :
    listenedName none ['x'] ⟨['p', '_'], ['p', '_'], .prefixName, true⟩
      ≠ targetName none ['x'] ⟨['p', '_'], ['p', '_'], .prefixName, true⟩ := by decide

/-- … and for the `'*'` style with a class prefix. -/
theorem C11_listened_needs_raw_prefix_star :
    listenedName (some ['q', '_']) ['x'] ⟨[], [], .className, true⟩
      ≠ targetName (some ['q', '_']) ['x'] ⟨[], [], .className, true⟩ := by decide

example : GoodName ['x'] := ⟨by decide, by decide⟩

/-! ## Reading -/

/-- **Read-through, every reachable state.**  After any history on any pool of well-formed classes: a
DelegatesTo attribute — always — and a PrototypedFrom attribute — while it holds no local value — read as
the target attribute on the current delegate. -/
theorem C11_read (E : Env) (cs : List Cls) (hwf : ∀ c ∈ cs, ClsWF c) (ops : List Op) (k : Nat)
    (o : ObjId) (n : Name) (d : DelegInfo) (y : ObjId) :
    let p := runPool E k (mkPool cs) ops
    (p.obj o).cls.trait n = .defer d →
    (d.modify = true ∨ (p.obj o).dict n = none) →
    (p.obj o).deleg = some y →
    ∀ f, read p (f + 1) o n = read p f y (targetName (p.obj o).cls.pfx n d) := by
  intro p htd hl hy f
  have I : Inv p := runPool_inv E ops k _ (mkPool_inv cs hwf)
  have hd : (p.obj o).dict n = none := by
    rcases hl with hm | hd
    · exact I.noLocal o n d htd hm
    · exact hd
  simp only [Model.Deleg.read, hd, htd, hy]

/-- A DelegatesTo attribute never holds a value of its own, in any reachable state (anchored state
"local value present iff a prototype link is broken"). -/
theorem C11_delegates_never_local (E : Env) (cs : List Cls) (hwf : ∀ c ∈ cs, ClsWF c) (ops : List Op) (k : Nat)
    (o : ObjId) (n : Name) (d : DelegInfo) :
    let p := runPool E k (mkPool cs) ops
    (p.obj o).cls.trait n = .defer d → d.modify = true → (p.obj o).dict n = none := by
  intro p htd hm
  exact (runPool_inv E ops k _ (mkPool_inv cs hwf)).noLocal o n d htd hm

/-! ## Writing through DelegatesTo -/

/-- **Assignment through DelegatesTo** whose target is a typed attribute of the delegate: it is the
assignment of the target attribute on the delegate — same outcome, same events — so it is validated by
the target's validator, changes nothing but that attribute of the delegate object, and changes nothing
at all when the validator rejects. -/
theorem C11_delegates_write (E : Env) (i : Nat) (p : Pool) (o : ObjId) (n : Name) (d : DelegInfo) (y : ObjId)
    (vid : Nat) (dflt : Val) (cmp : Cmp) (v : Val)
    (htd : (p.obj o).cls.trait n = .defer d) (hm : d.modify = true) (hy : (p.obj o).deleg = some y)
    (hx : (p.obj y).cls.trait (targetName (p.obj o).cls.pfx n d) = .plain vid dflt cmp) :
    let t := targetName (p.obj o).cls.pfx n d
    step E i p (.set o n v) = step E i p (.set y t v) ∧
    (∀ e, E.validate vid i v = .error e →
        (step E i p (.set o n v)).pool = p ∧ (step E i p (.set o n v)).res = .error e ∧
        (step E i p (.set o n v)).events = []) ∧
    (∀ w, E.validate vid i v = .ok w →
        (step E i p (.set o n v)).pool = p.setDict y t (some w) ∧ (step E i p (.set o n v)).res = .ok none) := by
  intro t
  have hstep : step E i p (.set o n v) = setPlain E i p y t vid dflt cmp v := by
    simp only [step, htd, setDefer]
    have hw : walk p (p.obj o).cls.pfx 100 o d n = .ok (y, t, .plain vid dflt cmp) := by
      have := walk_end (p := p) (q := (p.obj o).cls.pfx) (f := 99) (d := d) (da := n) hy
        (by show NonDefer ((p.obj y).cls.trait (targetName (p.obj o).cls.pfx n d)); rw [hx]; intro d'; simp)
      rw [this]
      show Except.ok (y, t, (p.obj y).cls.trait (targetName (p.obj o).cls.pfx n d)) = _
      rw [hx]
    rw [hw]
    simp only [hm, if_true]
  refine ⟨?_, ?_, ?_⟩
  · rw [hstep]; simp only [step, hx, t]
  · intro e he; rw [hstep]; simp [setPlain, he, fail]
  · intro w hw; rw [hstep]; simp [setPlain, hw]

/-- The same when the target attribute on the delegate is itself a DelegatesTo attribute (a chain),
the two classes agree on `__prefix__`, and the chain below the delegate resolves within 99 steps:
assigning through `o` is assigning the delegate's attribute. -/
theorem C11_delegates_write_chain (E : Env) (i : Nat) (p : Pool) (o : ObjId) (n : Name) (d : DelegInfo) (y : ObjId)
    (d1 : DelegInfo) (v : Val) (r : ObjId × Name × TraitDef)
    (htd : (p.obj o).cls.trait n = .defer d) (hm : d.modify = true) (hy : (p.obj o).deleg = some y)
    (hx : (p.obj y).cls.trait (targetName (p.obj o).cls.pfx n d) = .defer d1) (hm1 : d1.modify = true)
    (hpfx : (p.obj y).cls.pfx = (p.obj o).cls.pfx)
    (hw : walk p (p.obj y).cls.pfx 99 y d1 (targetName (p.obj o).cls.pfx n d) = .ok r) :
    step E i p (.set o n v) = step E i p (.set y (targetName (p.obj o).cls.pfx n d) v) := by
  have h2 : walk p (p.obj y).cls.pfx 100 y d1 (targetName (p.obj o).cls.pfx n d) = .ok r := walk_mono hw
  have h1 : walk p (p.obj o).cls.pfx 100 o d n = .ok r := by
    have := walk_defer (p := p) (q := (p.obj o).cls.pfx) (f := 99) (d := d) (da := n) hy hx
    rw [this]; rw [hpfx] at hw; exact hw
  obtain ⟨x, t, td⟩ := r
  simp only [step, htd, hx, setDefer, h1, h2, hm, hm1, if_true]

/-- The clause "assigning a DelegatesTo attribute validates against and stores into the delegate" at
full strength: for *every* kind of target attribute on the delegate, assigning through the deferring
attribute is assigning the target attribute on the delegate. -/
def DelegatesWriteFull : Prop :=
  ∀ (E : Env) (i : Nat) (p : Pool) (o : ObjId) (n : Name) (d : DelegInfo) (y : ObjId) (v : Val),
    Inv p → (p.obj o).cls.trait n = .defer d → d.modify = true → (p.obj o).deleg = some y →
    step E i p (.set o n v) = step E i p (.set y (targetName (p.obj o).cls.pfx n d) v)

/-! ### witnesses -/

/-- Finding F20 (`protoPool`: `o0.x = DelegatesTo` → `o1.x = PrototypedFrom`, holding the local value 7 →
`o2.x` typed): then `o0.x = 9` stores 9 into `o2` and `o0.x` still reads 7. -/
theorem C11_write_through_prototype_lost :
    let s := step idEnv 3 protoPool (.set 0 nx 9)
    s.res = .ok none ∧ read s.pool 4 0 nx = .ok 7 ∧ read s.pool 4 1 nx = .ok 7 ∧ read s.pool 4 2 nx = .ok 9 := by
  decide

/-- **The full-strength write clause fails** on the code as it is (F20). -/
theorem C11_write_through_prototype_fails : ¬ DelegatesWriteFull := by
  intro h
  have h1 := h idEnv 3 protoPool 0 nx (mkDelegate [] true) 1 9 protoPool_inv rfl rfl rfl
  have h2 := congrArg (fun s => (s.pool.obj 2).dict nx) h1
  revert h2
  decide

/-- Finding F19 (`starPool`: `'*'` at two levels with different class prefixes, A(`a_`).x → B(`b_`).a_x → C):
an all-DelegatesTo chain, yet the assignment lands on `c.a_a_x` while reads come from `c.b_a_x`:
after `a.x = 5`, `a.x` still reads 2. -/
theorem C11_write_star_chain_fails :
    let s := step idEnv 2 starPool (.set 0 nx 5)
    s.res = .ok none ∧ read s.pool 4 0 nx = .ok 2 ∧
    (s.pool.obj 2).dict ['a', '_', 'a', '_', 'x'] = some 5 ∧ (s.pool.obj 2).dict ['b', '_', 'a', '_', 'x'] = none ∧
    step idEnv 2 starPool (.set 0 nx 5) ≠ step idEnv 2 starPool (.set 1 ['a', '_', 'x'] 5) := by
  intro s
  refine ⟨by decide, by decide, by decide, by decide, ?_⟩
  intro h
  have h2 := congrArg (fun s => (s.pool.obj 2).dict ['b', '_', 'a', '_', 'x']) h
  revert h2
  decide

/-! ## PrototypedFrom: linked until assigned, then independent; `del` re-links -/

/-- **Local assignment of a prototyped attribute.**  When the chain below it ends in the typed attribute
`(x, t)` (validator `vid`): the value is validated by *that* trait's validator; on rejection nothing
changes; on success the validated value is stored on the deferring object only (every other object, and
every other attribute, is untouched: the prototype keeps its value), the forwarder is removed (link
broken), the handlers of the attribute are told `(old value read through the link, new value)` — unless
the new value is the very object read through the link and the prototype's trait does not have
comparison mode none: an equal but distinct value IS reported, whatever the comparison mode — and the
attribute reads as the assigned value from then on. -/
theorem C11_prototype_assign (E : Env) (i : Nat) (p : Pool) (o : ObjId) (n : Name) (d : DelegInfo)
    (x : ObjId) (t : Name) (vid : Nat) (dflt : Val) (cmp : Cmp) (v : Val)
    (htd : (p.obj o).cls.trait n = .defer d) (hm : d.modify = false)
    (hw : walk p (p.obj o).cls.pfx 100 o d n = .ok (x, t, .plain vid dflt cmp)) :
    (p.obj x).cls.trait t = .plain vid dflt cmp ∧
    (∀ e, E.validate vid i v = .error e → step E i p (.set o n v) = fail p e) ∧
    (∀ w old, E.validate vid i v = .ok w → read p p.fuel o n = .ok old →
      let s := step E i p (.set o n v)
      s.pool = unlink (p.setDict o n (some w)) o n ∧ s.res = .ok none ∧
      s.events = (if cChanged cmp old w then notify (p.setDict o n (some w)) (p.setDict o n (some w)).fuel o n old w
                  else []) ∧
      (s.pool.obj o).fwd n = none ∧
      (∀ f, read s.pool (f + 1) o n = .ok w) ∧
      (∀ j m, ¬(j = o ∧ m = n) → (s.pool.obj j).dict m = (p.obj j).dict m)) := by
  refine ⟨(walk_ok hw).1.symm, ?_, ?_⟩
  · intro e he
    simp only [step, htd, setDefer, hw, hm, he]
    rfl
  · intro w old hv hr s
    have hs : s = { pool := unlink (p.setDict o n (some w)) o n, res := .ok none,
                    events := if cChanged cmp old w then notify (p.setDict o n (some w)) (p.setDict o n (some w)).fuel o n old w
                              else [] } := by
      simp only [s, step, htd, setDefer, hw, hm, hv, hr]
      rfl
    rw [hs]
    refine ⟨rfl, rfl, rfl, ?_, ?_, ?_⟩
    · simp only [unlink_fwd]; simp
    · intro f
      simp only [Model.Deleg.read, unlink_dict, setDict_dict]; simp
    · intro j m hjm
      simp only [unlink_dict, setDict_dict, hjm, if_false]

/-- **Independent once assigned**: whatever the rest of the history does — assignments on the
prototype, on other objects, re-pointing any delegate — as long as it does not assign or delete this
very attribute, a prototyped attribute that holds a local value keeps reading as that value. -/
theorem C11_prototype_independent (E : Env) (p : Pool) (o : ObjId) (n : Name) (d : DelegInfo) (w : Val)
    (htd : (p.obj o).cls.trait n = .defer d) (hloc : (p.obj o).dict n = some w)
    (ops : List Op) (k : Nat) (hnt : ∀ op ∈ ops, op.touches o n = false) :
    ∀ f, read (runPool E k p ops) (f + 1) o n = .ok w := by
  intro f
  have := runPool_untouched E o n d ops k p htd hnt
  simp only [Model.Deleg.read, this, hloc]

/-- **`del` restores the link.**  Deleting the local value of a prototyped attribute (chain ending in a
typed attribute) removes the value; unless the operation raised after deleting (`broken`: the read-back
through the link failed, see `C11_hooks_never_fail`) it succeeds and re-installs the forwarder hooked on
the current delegate; in both cases the attribute reads through the delegate again. -/
theorem C11_prototype_del_relinks (E : Env) (i : Nat) (p : Pool) (I : Inv p) (o : ObjId) (n : Name) (d : DelegInfo)
    (x : ObjId) (t : Name) (vid : Nat) (dflt : Val) (cmp : Cmp) (old : Val)
    (htd : (p.obj o).cls.trait n = .defer d) (hm : d.modify = false)
    (hw : walk p (p.obj o).cls.pfx 100 o d n = .ok (x, t, .plain vid dflt cmp))
    (hloc : (p.obj o).dict n = some old) :
    let s := step E i p (.del o n)
    (s.pool.obj o).dict n = none ∧
    (s.broken = false → s.res = .ok none ∧ (s.pool.obj o).fwd n = some (s.pool.obj o).deleg) ∧
    (∀ y, (p.obj o).deleg = some y →
      ∀ f, read s.pool (f + 1) o n = read s.pool f y (targetName (p.obj o).cls.pfx n d)) := by
  intro s
  have hfwd : (p.obj o).fwd n = none := (I.fwd o n).2 d htd (by rw [hloc]; simp)
  have hfr := effect_frame (step_effect E i p (.del o n))
  -- the three possible outcomes
  have hcases : (s.pool = p.setDict o n none ∧ s.broken = true) ∨
      (∃ h evs, s = { pool := (p.setDict o n none).setFwd o n (some h), res := .ok none, events := evs } ∧
        hook (p.setDict o n none) o n d = (h, false)) := by
    simp only [s, step, htd, setDefer, hw, hm, hloc]
    cases hr : read (p.setDict o n none) (p.setDict o n none).fuel o n with
    | error e => exact Or.inl ⟨rfl, rfl⟩
    | ok cur =>
      simp only [relink, setDict_fwd, hfwd]
      cases hh : hook (p.setDict o n none) o n d with
      | mk h bad =>
        cases bad with
        | true => exact Or.inl ⟨rfl, rfl⟩
        | false => exact Or.inr ⟨h, _, rfl, rfl⟩
  have hdict : (s.pool.obj o).dict n = none := by
    rcases hcases with ⟨hp, _⟩ | ⟨h, evs, hs, _⟩
    · rw [hp, setDict_dict]; simp
    · rw [hs]; simp only [setFwd_dict, setDict_dict]; simp
  refine ⟨hdict, ?_, ?_⟩
  · intro hb
    rcases hcases with ⟨_, hbr⟩ | ⟨h, evs, hs, hh⟩
    · rw [hbr] at hb; cases hb
    · have := hook_ok (p := p.setDict o n none) (o := o) (n := n) (d := d) (by rw [hh])
      rw [hh] at this
      simp only at this
      rw [hs]
      refine ⟨rfl, ?_⟩
      simp only [setFwd_fwd, setFwd_deleg]
      simp [this]
  · intro y hy f
    have hcls : (s.pool.obj o).cls = (p.obj o).cls := hfr.2 o
    have hdel : (s.pool.obj o).deleg = some y := by
      rcases hcases with ⟨hp, _⟩ | ⟨h, evs, hs, _⟩
      · rw [hp]; simp [hy]
      · rw [hs]; simp [hy]
    simp only [Model.Deleg.read, hdict, hcls, htd, hdel]

/-- **The life cycle of a prototyped attribute**, in every reachable state `p` of every history:
(a) while it holds no local value it reads as the target on the current delegate;
(b) a local assignment is validated by the trait at the end of the prototype chain and, once accepted,
the attribute reads as the accepted value after *any* continuation of the history that does not assign
or delete this very attribute;
(c) `del` removes the local value and the attribute reads through the current delegate again. -/
theorem C11_prototype (E : Env) (cs : List Cls) (hwf : ∀ c ∈ cs, ClsWF c) (ops : List Op) (k : Nat)
    (o : ObjId) (n : Name) (d : DelegInfo) :
    let p := runPool E k (mkPool cs) ops
    (p.obj o).cls.trait n = .defer d → d.modify = false →
    ((p.obj o).dict n = none → ∀ y, (p.obj o).deleg = some y →
        ∀ f, read p (f + 1) o n = read p f y (targetName (p.obj o).cls.pfx n d)) ∧
    (∀ x t vid dflt cmp, walk p (p.obj o).cls.pfx 100 o d n = .ok (x, t, .plain vid dflt cmp) →
      (p.obj x).cls.trait t = .plain vid dflt cmp ∧
      ∀ i v,
        (∀ e, E.validate vid i v = .error e → step E i p (.set o n v) = fail p e) ∧
        (∀ w old, E.validate vid i v = .ok w → read p p.fuel o n = .ok old →
          ∀ (ops' : List Op) (k' : Nat), (∀ op ∈ ops', op.touches o n = false) →
            ∀ f, read (runPool E k' (step E i p (.set o n v)).pool ops') (f + 1) o n = .ok w)) ∧
    (∀ x t vid dflt cmp old i, walk p (p.obj o).cls.pfx 100 o d n = .ok (x, t, .plain vid dflt cmp) →
      (p.obj o).dict n = some old →
      ((step E i p (.del o n)).pool.obj o).dict n = none ∧
      ∀ y, (p.obj o).deleg = some y → ∀ f, read (step E i p (.del o n)).pool (f + 1) o n
        = read (step E i p (.del o n)).pool f y (targetName (p.obj o).cls.pfx n d)) := by
  intro p htd hm
  have I : Inv p := runPool_inv E ops k _ (mkPool_inv cs hwf)
  refine ⟨fun hd y hy f => ?_, fun x t vid dflt cmp hw => ?_, fun x t vid dflt cmp old i hw hloc => ?_⟩
  · simp only [Model.Deleg.read, hd, htd, hy]
  · refine ⟨(walk_ok hw).1.symm, fun i v => ?_⟩
    obtain ⟨_, h2, h3⟩ := C11_prototype_assign E i p o n d x t vid dflt cmp v htd hm hw
    refine ⟨h2, fun w old hv hr ops' k' hnt f => ?_⟩
    obtain ⟨hpool, _, _, _, _, _⟩ := h3 w old hv hr
    have hcls : ((step E i p (.set o n v)).pool.obj o).cls.trait n = .defer d := by
      rw [(effect_frame (step_effect E i p (.set o n v))).2 o]; exact htd
    refine C11_prototype_independent E _ o n d w hcls ?_ ops' k' hnt f
    rw [hpool]; simp only [unlink_dict, setDict_dict]; simp
  · obtain ⟨h1, _, h3⟩ := C11_prototype_del_relinks E i p I o n d x t vid dflt cmp old htd hm hw hloc
    exact ⟨h1, h3⟩

/-! ## Re-pointing the delegate -/

/-- **Swap.**  After `o.d = t` (a different object, or None): the delegate reference is `t`; no other
object and no attribute value changed; every forwarder of `o` is hooked on the new delegate or on
nothing — never on the old delegate — every forwarder that existed is hooked on the new delegate, no
listener exception is swallowed (the F18 regression: before fix bead785 a hook could raise); and every
linked deferring attribute of `o` reads through the new delegate.  (`C11_read`,
`C11_delegates_write`, `C11_prototype_*` and `C11_notify` are stated for every reachable state, so they
hold for the new delegate as well.) -/
theorem C11_swap (E : Env) (i : Nat) (p : Pool) (I : Inv p) (o : ObjId) (t : Option ObjId)
    (hne : (p.obj o).deleg ≠ t) :
    let s := step E i p (.swap o t)
    (s.pool.obj o).deleg = t ∧
    (∀ j, (s.pool.obj j).dict = (p.obj j).dict ∧ (j ≠ o → (s.pool.obj j).deleg = (p.obj j).deleg ∧
        (s.pool.obj j).fwd = (p.obj j).fwd)) ∧
    (∀ n h, (s.pool.obj o).fwd n = some (some h) → t = some h) ∧
    (s.hookExc = 0 ∧ ∀ n, (p.obj o).fwd n ≠ none → (s.pool.obj o).fwd n = some t) ∧
    (∀ n d y, (p.obj o).cls.trait n = .defer d → (p.obj o).dict n = none → t = some y →
      ∀ f, read s.pool (f + 1) o n = read s.pool f y (targetName (p.obj o).cls.pfx n d)) := by
  intro s
  have hs : s = { pool := (rehook (p.setDeleg o t) o (p.obj o).cls.deferNames).1, res := .ok none,
                  hookExc := (rehook (p.setDeleg o t) o (p.obj o).cls.deferNames).2 } := by
    simp only [s, step, swap, hne, if_false]
  have I' : Inv s.pool := effect_inv (step_effect E i p (.swap o t)) I
  have hfr : ∀ j, _ := fun j => rehook_frame o (p.obj o).cls.deferNames (p.setDeleg o t) j
  have hdel : (s.pool.obj o).deleg = t := by
    rw [hs]; simp only []; rw [(hfr o).2.1, setDeleg_deleg]; simp
  have hnd := deferNames_nodup _ (I.wf o)
  refine ⟨hdel, ?_, ?_, ?_, ?_⟩
  · intro j
    rw [hs]; simp only []
    refine ⟨by rw [(hfr j).2.2.1]; simp, fun hj => ⟨?_, ?_⟩⟩
    · rw [(hfr j).2.1, setDeleg_deleg]; simp [hj]
    · rw [(hfr j).2.2.2 hj]; simp
  · intro n h hf
    rw [← hdel]; exact I'.hook o n h hf
  · have hx : s.hookExc = 0 := (step_flags E i p (.swap o t)).1
    refine ⟨hx, fun n hf => ?_⟩
    rw [hs] at hx ⊢
    simp only [] at hx ⊢
    obtain ⟨d, htd⟩ := (I.fwd o n).1 hf
    rw [rehook_fwd o _ _ n hnd, deferNames_lookup _ _ _ htd]
    simp only [setDeleg_fwd]
    cases hfn : (p.obj o).fwd n with
    | none => exact absurd hfn hf
    | some r =>
      simp only []
      have hok := rehook_noexc o _ _ hx hnd n d (deferNames_mem _ _ _ htd) (by simp only [setDeleg_fwd]; exact hf)
      rw [hook_ok hok, setDeleg_deleg]; simp
  · intro n d y htd hd ht f
    have hcls : (s.pool.obj o).cls = (p.obj o).cls := (effect_frame (step_effect E i p (.swap o t))).2 o
    have hdict : (s.pool.obj o).dict n = none := by
      rw [hs]; simp only []; rw [(hfr o).2.2.1]; simpa using hd
    simp only [Model.Deleg.read, hdict, hcls, htd, hdel, ht]

/-! ## Chains of deferral -/

/-- **Reading through a chain**: `k` linked levels of deferral (any mix of DelegatesTo and
PrototypedFrom, any prefix styles) read as the attribute at the end of the chain. -/
theorem C11_chain (p : Pool) (P : ObjId → DelegInfo → Prop) (k : Nat) (o : ObjId) (n : Name) (x : ObjId) (t : Name)
    (hc : Chain p P k o n x t) : ∀ f, read p (k + f) o n = read p f x t :=
  chain_read hc

/-- **Writing through a chain** of at most 100 linked levels whose `'*'` levels agree on the class
prefix of the top object, ending in a typed attribute: assignment through a DelegatesTo attribute at the
top is the assignment of the attribute at the end of the chain (validated there, stored there, notified
from there), and afterwards the top attribute reads as the attribute at the end. -/
theorem C11_chain_write (E : Env) (i : Nat) (p : Pool) (k : Nat) (o : ObjId) (n : Name) (d : DelegInfo)
    (x : ObjId) (t : Name) (vid : Nat) (dflt : Val) (cmp : Cmp) (v : Val)
    (hc : Chain p (StarAgree p (p.obj o).cls.pfx) (k + 1) o n x t) (hk : k + 1 ≤ 100)
    (htd : (p.obj o).cls.trait n = .defer d) (hm : d.modify = true)
    (hx : (p.obj x).cls.trait t = .plain vid dflt cmp) :
    step E i p (.set o n v) = step E i p (.set x t v) := by
  have hnd : NonDefer ((p.obj x).cls.trait t) := by rw [hx]; intro d'; simp
  have hw := wchain_walk hnd k o n d 100 htd (chain_wchain hc) hk
  rw [hx] at hw
  simp only [step, htd, setDefer, hw, hm, hx, if_true]

/-- **The recursion limit**: when the attribute is still deferring after 100 levels, assignment and
deletion through it raise DelegationError (a TraitError) and change nothing. -/
theorem C11_chain_limit (E : Env) (i : Nat) (p : Pool) (o : ObjId) (n : Name) (d : DelegInfo)
    (x : ObjId) (t : Name) (d' : DelegInfo) (v : Option Val)
    (hc : WChain p (p.obj o).cls.pfx 100 o n x t) (htd : (p.obj o).cls.trait n = .defer d)
    (hx : (p.obj x).cls.trait t = .defer d') :
    setDefer E i p o n d v = fail p .traitError := by
  have hw := wchain_walk_limit hx 100 o n d 100 htd hc (Nat.le_refl _)
  simp only [setDefer, hw]

/-! ## Notification -/

/-- **Listener hooks never fail** (fix bead785 of finding F18): no operation, in any state, swallows an
exception of a notification handler; and the only operation that can raise *after* having changed the
object is the `del` of a prototyped attribute's local value whose read-back through the link fails
(which needs write walk and read chain to disagree: finding F19, or a missing delegate). -/
theorem C11_hooks_never_fail (E : Env) (k : Nat) (p : Pool) (op : Op) :
    (step E k p op).hookExc = 0 ∧
    ((step E k p op).broken = true → ∃ o n d, op = .del o n ∧ (p.obj o).cls.trait n = .defer d ∧
      d.modify = false ∧ (p.obj o).dict n ≠ none ∧
      ∃ e, read (p.setDict o n none) (p.setDict o n none).fuel o n = .error e) :=
  step_flags E k p op

/-- In every reachable state of a history during which no `del` raised after deleting, every linked
deferring attribute has its forwarder hooked on the current delegate. -/
theorem C11_linked_reachable (E : Env) (cs : List Cls) (hwf : ∀ c ∈ cs, ClsWF c) (ops : List Op)
    (hnf : NoBrokenDel E 0 (mkPool cs) ops) :
    Inv (runPool E 0 (mkPool cs) ops) ∧ Linked (runPool E 0 (mkPool cs) ops) :=
  ⟨runPool_inv E ops 0 _ (mkPool_inv cs hwf),
   runPool_linked E ops 0 _ (mkPool_inv cs hwf) (mkPool_linked cs) hnf⟩

/-- **Linked → notified, once, with the new value.**  After any history (on classes built by
`DelegatesTo` / `PrototypedFrom` with any of the four prefix styles) during which no `del` raised after
deleting (`NoBrokenDel`; in particular after every history without `del`, `C11_notify_no_del`, and in
whatever order the chain was wired — `C11_notify_top_down`): for a deferring attribute `(o, n)` that is linked (DelegatesTo, or PrototypedFrom without local
value) and whose current delegate is `y`, every notification `(a, b)` of the target attribute on `y`
— `notify p _ y t a b` is `call_notifiers` for `(y, t)` — calls the handlers of `(o, n)` with the same
old and new value; exactly once when the delegate graph is acyclic. -/
theorem C11_notify (E : Env) (cs : List Cls) (hok : ∀ c ∈ cs, ClsOK c) (ops : List Op)
    (hnf : NoBrokenDel E 0 (mkPool cs) ops) (o : ObjId) (n : Name) (d : DelegInfo) (y : ObjId) :
    let p := runPool E 0 (mkPool cs) ops
    o < p.size → (p.obj o).cls.trait n = .defer d → (d.modify = true ∨ (p.obj o).dict n = none) →
    (p.obj o).deleg = some y →
    (o, n) ∈ forwarders p y (targetName (p.obj o).cls.pfx n d) ∧
    (∀ f a b, (⟨o, n, a, b⟩ : Event) ∈ notify p (f + 2) y (targetName (p.obj o).cls.pfx n d) a b) ∧
    (∀ rank : ObjId → Nat, (∀ o' y', (p.obj o').deleg = some y' → rank y' < rank o') →
      ∀ f a b, (notify p (f + 2) y (targetName (p.obj o).cls.pfx n d) a b).countP
        (fun e => decide (e.obj = o ∧ e.name = n)) = 1) := by
  intro p ho htd hl hy
  obtain ⟨I, L⟩ := C11_linked_reachable E cs (fun c hc => (hok c hc).1) ops hnf
  have hd : (p.obj o).dict n = none := by
    rcases hl with hm | hd
    · exact I.noLocal o n d htd hm
    · exact hd
  have hcls : ClsOK (p.obj o).cls := by
    rw [(runPool_frame E ops 0 (mkPool cs)).2 o]
    obtain ⟨c, hc, hm⟩ := mkPool_obj cs o
    rw [hc]
    rcases hm with hm | rfl
    · exact hok c hm
    · exact clsOK_empty
  have hmem := forwarder_of_linked L ho hcls htd hd hy
  refine ⟨hmem, fun f a b => notify_contains hmem f a b, fun rank hr f a b => ?_⟩
  exact notify_count_one I.wf (acyclic_of_deleg I.hook rank hr) hmem f a b

/-- Histories of assignments, re-pointings and reads (no `del`): `C11_notify` without any hypothesis on
the history. -/
theorem C11_notify_no_del (E : Env) (cs : List Cls) (hok : ∀ c ∈ cs, ClsOK c) (ops : List Op)
    (hnd : ∀ op ∈ ops, ∀ o n, op ≠ .del o n) (o : ObjId) (n : Name) (d : DelegInfo) (y : ObjId) :
    let p := runPool E 0 (mkPool cs) ops
    o < p.size → (p.obj o).cls.trait n = .defer d → (d.modify = true ∨ (p.obj o).dict n = none) →
    (p.obj o).deleg = some y →
    ∀ f a b, (⟨o, n, a, b⟩ : Event) ∈ notify p (f + 2) y (targetName (p.obj o).cls.pfx n d) a b := by
  intro p ho htd hl hy
  exact (C11_notify E cs hok ops (noBrokenDel_of_no_del E ops 0 _ hnd) o n d y ho htd hl hy).2.1

/-- **The deferring attribute's handlers hear exactly the changes the target's trait reports.**  In a
state where the links are hooked, assigning the (typed, any comparison mode) target attribute on the
current delegate: when the target reports the change (`fires`: comparison mode none — always; identity
— the new value is another object; equality — it is another object and not `==` the old one) the
operation's events start with the target's own event and contain `(o, n, old, new)`; when the target
does not report it (the same object again, or an equal value under comparison mode equality) nobody is
notified.  In particular an equal-but-distinct value on an identity / none target IS reported to the
handlers of the deferring attribute. -/
theorem C11_notify_on_assign (E : Env) (i : Nat) (p : Pool) (I : Inv p) (L : Linked p) (o : ObjId) (n : Name)
    (d : DelegInfo) (y : ObjId) (vid : Nat) (dflt : Val) (cmp : Cmp) (v w : Val)
    (ho : o < p.size) (hcls : ClsOK (p.obj o).cls)
    (htd : (p.obj o).cls.trait n = .defer d) (hd : (p.obj o).dict n = none) (hy : (p.obj o).deleg = some y)
    (hx : (p.obj y).cls.trait (targetName (p.obj o).cls.pfx n d) = .plain vid dflt cmp)
    (hv : E.validate vid i v = .ok w) :
    let t := targetName (p.obj o).cls.pfx n d
    let old := ((p.obj y).dict t).getD dflt
    let s := step E i p (.set y t v)
    (fires E cmp old w = true → s.events.head? = some ⟨y, t, old, w⟩ ∧ (⟨o, n, old, w⟩ : Event) ∈ s.events) ∧
    (fires E cmp old w = false → s.events = []) := by
  intro t old s
  have he := step_effect E i p (.set y t v)
  have hs : s = setPlain E i p y t vid dflt cmp v := by simp only [s, step, t, hx]
  rw [← show s = step E i p (.set y t v) from rfl, hs] at he
  rw [hs]
  simp only [setPlain, hv] at he ⊢
  refine ⟨fun hf => ?_, fun hf => by simp only [old] at hf; simp [hf]⟩
  have hf' : fires E cmp (((p.obj y).dict t).getD dflt) w = true := hf
  simp only [hf', if_true]
  have L' := effect_linked he rfl rfl I L
  have hnd : NonDefer ((p.obj y).cls.trait t) := by rw [hx]; intro d'; simp
  have hmem := forwarder_of_linked L' (o := o) (by simpa using ho) (by simpa using hcls) (n := n) (d := d)
    (by simpa using htd) (by rw [setDict_nondefer_dict hnd htd]; exact hd) (y := y) (by simpa using hy)
  simp only [setDict_cls] at hmem
  have hfuel : (p.setDict y t (some w)).fuel = (p.size - 1) + 2 := by
    show p.size + 1 = p.size - 1 + 2
    have ho' : @LT.lt Nat _ o p.size := ho
    omega
  rw [hfuel]
  exact ⟨by rw [notify_succ]; rfl, notify_contains hmem _ _ _⟩

/-- **A first local PrototypedFrom assignment of an equal but distinct value is reported**, and so is any
local assignment of another object: the notifiers are those of the deferring attribute (kind `delegate`,
its wrappers accept every call), whether they are called is the identity test of `setattr_trait`
(`cChanged`), not the equality test. -/
theorem C11_prototype_assign_reports (E : Env) (i : Nat) (p : Pool) (o : ObjId) (n : Name) (d : DelegInfo)
    (x : ObjId) (t : Name) (vid : Nat) (dflt : Val) (cmp : Cmp) (v w old : Val)
    (htd : (p.obj o).cls.trait n = .defer d) (hm : d.modify = false)
    (hw : walk p (p.obj o).cls.pfx 100 o d n = .ok (x, t, .plain vid dflt cmp))
    (hv : E.validate vid i v = .ok w) (hr : read p p.fuel o n = .ok old) (hne : old ≠ w) :
    (step E i p (.set o n v)).events.head? = some ⟨o, n, old, w⟩ := by
  obtain ⟨_, _, h3⟩ := C11_prototype_assign E i p o n d x t vid dflt cmp v htd hm hw
  obtain ⟨_, _, hev, _⟩ := h3 w old hv hr
  rw [hev]
  have hc : cChanged cmp old w = true := by simp [cChanged, hne]
  simp only [hc, if_true]
  show (notify _ (p.size + 1) o n old w).head? = _
  rw [notify_succ]; rfl

/-- **A local value of a PrototypedFrom attribute is what a direct assignment to the target trait would
store**: whatever the prototype's trait stores for `v` (`Env.validate`: the validated value, or — for the
'original value' kinds Expression / AdaptsTo, driver spec `oshift` — the assigned value itself) is what the
deferring object holds after `o.n = v`, and what the prototype would hold after `x.t = v` (seed C11-m12 —
the flag TRAIT_SETATTR_ORIGINAL_VALUE read from the deferring trait — makes the two differ). -/
theorem C11_prototype_stores_what_target_stores (E : Env) (i : Nat) (p : Pool) (o : ObjId) (n : Name) (d : DelegInfo)
    (x : ObjId) (t : Name) (vid : Nat) (dflt : Val) (cmp : Cmp) (v w old : Val)
    (htd : (p.obj o).cls.trait n = .defer d) (hm : d.modify = false)
    (hw : walk p (p.obj o).cls.pfx 100 o d n = .ok (x, t, .plain vid dflt cmp))
    (hv : E.validate vid i v = .ok w) (hr : read p p.fuel o n = .ok old) :
    ((step E i p (.set o n v)).pool.obj o).dict n = some w
    ∧ ((step E i p (.set x t v)).pool.obj x).dict t = some w := by
  obtain ⟨hx, _, h3⟩ := C11_prototype_assign E i p o n d x t vid dflt cmp v htd hm hw
  obtain ⟨hp, _, _, _, _, _⟩ := h3 w old hv hr
  refine ⟨?_, ?_⟩
  · rw [hp]; simp [unlink, Pool.setFwd, Pool.setDict, Pool.upd]
  · simp [step, hx, setPlain, hv, Pool.setDict, Pool.upd]

/-- `fires` distinguishes the modes on an equal-but-distinct value (here `==` identifies 1 and 101): reported
under identity and none, not under equality; the very same object again is reported under none only. -/
example : let E : Env := { validate := fun _ _ v => .ok v, eqv := fun a b => a % 100 == b % 100 }
    fires E .identity 1 101 = true ∧ fires E .none 1 101 = true ∧ fires E .equality 1 101 = false ∧
    fires E .identity 1 1 = false ∧ fires E .none 1 1 = true ∧ fires E .equality 1 2 = true := by decide

/-- **Unlinked → not notified**, in every reachable state of every history (no hypothesis): a
prototyped attribute that holds a local value has no forwarder, and no notification cascade started on
another attribute ever contains an event for it. -/
theorem C11_notify_unlinked (E : Env) (cs : List Cls) (hwf : ∀ c ∈ cs, ClsWF c) (ops : List Op) (k : Nat)
    (o : ObjId) (n : Name) (d : DelegInfo) :
    let p := runPool E k (mkPool cs) ops
    (p.obj o).cls.trait n = .defer d → (p.obj o).dict n ≠ none →
    (p.obj o).fwd n = none ∧
    ∀ f x t a b, ¬(x = o ∧ t = n) → ∀ e ∈ notify p f x t a b, ¬(e.obj = o ∧ e.name = n) := by
  intro p htd hd
  have I : Inv p := runPool_inv E ops k _ (mkPool_inv cs hwf)
  have hf := (I.fwd o n).2 d htd hd
  refine ⟨hf, fun f x t a b hne e he => ?_⟩
  rintro ⟨ho, hn⟩
  obtain ⟨_, _, h3⟩ := notify_mem f x t e he
  rcases h3 with ⟨h1, h2⟩ | ⟨h, hh⟩
  · exact hne ⟨by rw [← h1, ho], by rw [← h2, hn]⟩
  · rw [ho, hn, hf] at hh; cases hh

/-- The notification clause at full strength: linked → notified, in every reachable state of **every**
history (without the `NoBrokenDel` hypothesis of `C11_notify`). -/
def NotifyFull : Prop :=
  ∀ (E : Env) (cs : List Cls), (∀ c ∈ cs, ClsOK c) → ∀ (ops : List Op) (o : ObjId) (n : Name) (d : DelegInfo) (y : ObjId),
    let p := runPool E 0 (mkPool cs) ops
    o < p.size → (p.obj o).cls.trait n = .defer d → (d.modify = true ∨ (p.obj o).dict n = none) →
    (p.obj o).deleg = some y → (o, n) ∈ forwarders p y (targetName (p.obj o).cls.pfx n d)

/-! ### witnesses -/

/-- Regression witness of finding F18 (`topDown`: the chain `o0.x → o1.x → o2.x` wired top-down, `o0.d = o1`
while `o1.d` is still None).  On the repaired code no hook raises, the forwarder of `o0.x` is hooked on
`o1`, and the change of `o2.x` reaches the handlers of `o1.x` *and* `o0.x`.  (Before fix bead785:
`hookExc = 1`, forwarder unhooked, events for `o2` and `o1` only.) -/
theorem C11_notify_top_down :
    let p := runPool idEnv 0 (mkPool [clsD, clsD, clsT]) topDown
    (step idEnv 0 (mkPool [clsD, clsD, clsT]) (.swap 0 (some 1))).hookExc = 0 ∧
    (p.obj 0).deleg = some 1 ∧ (p.obj 0).fwd nx = some (some 1) ∧ read p 4 0 nx = .ok 3 ∧
    (step idEnv 2 p (.set 2 nx 5)).events = [⟨2, nx, 3, 5⟩, ⟨1, nx, 3, 5⟩, ⟨0, nx, 3, 5⟩] ∧
    read (step idEnv 2 p (.set 2 nx 5)).pool 4 0 nx = .ok 5 := by
  decide

/-- Finding F19, notification side (`deepClasses`, `brokenDel`): the `del` of `a.x` deletes the local
value, its read-back raises (the delegate of `c` was set to None while the write walk ends on `c.a_a_x`),
and `a.x` is left linked without forwarder. -/
theorem C11_notify_broken_del_witness :
    let p := runPool idEnv 0 (mkPool deepClasses) brokenDel
    (step idEnv 5 (runPool idEnv 0 (mkPool deepClasses) (brokenDel.take 5)) (.del 0 nx)).broken = true ∧
    (p.obj 0).dict nx = none ∧ (p.obj 0).deleg = some 1 ∧ (p.obj 0).fwd nx = none ∧
    forwarders p 1 nax = [] := by
  decide

/-- **The full-strength notification clause fails** on the code as it is (F19: a `del` that raises after
deleting leaves the link without forwarder). -/
theorem C11_notify_full_fails : ¬ NotifyFull := by
  intro h
  have := h idEnv deepClasses deepClasses_ok brokenDel 0 nx (mkDelegate ['*'] false) 1
    (by decide) (by decide) (Or.inr (by decide)) (by decide)
  revert this
  decide

/-! ### the hypotheses of the main theorems are satisfiable -/

/-- Three objects wired bottom-up (`bottomUp`): no `del` breaks a link, … -/
example : NoBrokenDel idEnv 0 (mkPool [clsD, clsD, clsT]) bottomUp := by
  unfold NoBrokenDel; decide

/-- … `C11_notify` applies to `(o0, x)` with delegate `o1`, and the cascade of `o2.x` reaches it. -/
example : (⟨0, nx, 3, 5⟩ : Event) ∈
    (step idEnv 2 (runPool idEnv 0 (mkPool [clsD, clsD, clsT]) bottomUp) (.set 2 nx 5)).events := by decide

example : Chain (runPool idEnv 0 (mkPool [clsD, clsD, clsT]) bottomUp)
    (StarAgree (runPool idEnv 0 (mkPool [clsD, clsD, clsT]) bottomUp) none) 2 0 nx 2 nx :=
  .succ (d := mkDelegate [] true) (y := 1) (by decide) (by decide) (by decide) (by intro h; cases h)
    (.succ (d := mkDelegate [] true) (y := 2) (by decide) (by decide) (by decide) (by intro h; cases h) (.zero 2 nx))

/-- `C11_prototype_assign` / `C11_prototype_del_relinks`: a prototyped attribute over a typed one. -/
example : walk protoPool (protoPool.obj 1).cls.pfx 100 1 (mkDelegate [] false) nx
    = .ok (2, nx, .plain 0 3 .equality) := by
  decide

example : (protoPool.obj 1).dict nx = some 7 ∧ (protoPool.obj 1).fwd nx = none := by decide

/-! ## The model is the source

`harness/translate/delegsrc.py` turns the text of the delegation code of the working tree into terms of
the deep embedding `Model/DelegSrc.lean` (`Generated/DelegSrc.lean`, regenerated by every check).  The
theorems below say that the hand-written functions of `Model/Delegate.lean` — about which every
theorem above speaks — are the interpretation of these terms, for all inputs.  A behaviour-changing
edit of the translated source breaks one of them, also on inputs no generator produces. -/

section Source
open TraitsVerif.Model.DelegSrc
open TraitsVerif.Generated.DelegSrc (attrNameHandlers getattrDelegate setattrDelegate initDelegate removeListener)

/-- `delegate_attr_name_{name,prefix,prefix_name,class_name}` and the handler table (ctraits.c): the
target name rule of the model is what the handler selected by `prefix_type` computes. -/
theorem C11_attr_name_is_source (d : DelegInfo) (clsPfx : Option Name) (n : Name) :
    attrNameSrc attrNameHandlers d clsPfx n = some (attrName d clsPfx n) :=
  attrName_is_source d clsPfx n

/-- The order of `delegate_attr_name_handlers[]`, the clamp and the argument order of `_trait_delegate`,
and the argument order `Delegate.as_ctrait` calls it with. -/
theorem C11_handler_table_is_source :
    Generated.DelegSrc.handlerNames = ["delegate_attr_name_name", "delegate_attr_name_prefix",
      "delegate_attr_name_prefix_name", "delegate_attr_name_class_name"]
    ∧ Generated.DelegSrc.clampHi = 3 ∧ Generated.DelegSrc.clampTo = 0
    ∧ Generated.DelegSrc.traitDelegateArgs = ["UUip", "delegate_name", "delegate_prefix", "prefix_type", "modify_delegate"]
    ∧ Generated.DelegSrc.asCtraitArgs = ["self.delegate", "self.prefix", "self.prefix_type", "self.modify"] := by
  decide

/-- `getattr_delegate` (ctraits.c): reading a deferring attribute (no value in `__dict__`) is the
interpretation of the C function, `tp_getattro` of the delegate being the read one level down. -/
theorem C11_read_is_source (p : Pool) (f : Nat) (o : ObjId) (n : Name) :
    read p (f + 1) o n =
      match (p.obj o).dict n with
      | some v => .ok v
      | none =>
        match (p.obj o).cls.trait n with
        | .plain _ dflt _ => .ok dflt
        | .python => .error .attributeError
        | .defer d => execGet getattrDelegate p (some (read p f)) o n d := by
  cases hd : (p.obj o).dict n with
  | some v => simp [Model.Deleg.read, hd]
  | none =>
    cases ht : (p.obj o).cls.trait n with
    | plain vid dflt cmp => simp [Model.Deleg.read, hd, ht]
    | python => simp [Model.Deleg.read, hd, ht]
    | defer d => simpa using read_defer_is_source p f o n d hd ht

/-- The recursion guard of `getattr_delegate` (fix ec4908f of finding F21): with the interpreter's
recursion limit reached the C function raises RecursionError before it calls into the delegate. -/
theorem C11_read_limit_is_source (p : Pool) (o x : ObjId) (n : Name) (d : DelegInfo)
    (hx : (p.obj o).deleg = some x) :
    execGet getattrDelegate p none o n d = .error .runtimeError :=
  read_limit_is_source p o x n d hx

/-- `setattr_delegate` (ctraits.c): assignment / deletion through a deferring attribute — the chain
walk with its 100-iteration bound, the object `delegate_attr_name` is called with, which trait's
`setattr` runs on which object and name, the `TRAIT_MODIFY_DELEGATE` split, the listener removal after
a successful local store, and every error exit — is the interpretation of the C function. -/
theorem C11_write_is_source (E : Env) (k : Nat) (p : Pool) (o : ObjId) (n : Name) (d : DelegInfo) (v : Option Val) :
    setDefer E k p o n d v = execSet setattrDelegate E k p o n d v :=
  setDefer_is_source E k p o n d v

/-- `has_traits_setattro` dispatches a deferring attribute to `setattr_delegate`: on such an attribute
`step` *is* the interpreted C function (assignment and deletion). -/
theorem C11_step_is_source (E : Env) (k : Nat) (p : Pool) (o : ObjId) (n : Name) (d : DelegInfo) (v : Val)
    (htd : (p.obj o).cls.trait n = .defer d) :
    step E k p (.set o n v) = execSet setattrDelegate E k p o n d (some v)
    ∧ step E k p (.del o n) = execSet setattrDelegate E k p o n d none := by
  simp only [step, htd, C11_write_is_source, and_self]

/-- `C11_delegates_write` read on the source: the interpreted `setattr_delegate` on a DelegatesTo
attribute whose target is a typed attribute of the delegate is the assignment of that attribute on
the delegate. -/
theorem C11_delegates_write_source (E : Env) (i : Nat) (p : Pool) (o : ObjId) (n : Name) (d : DelegInfo) (y : ObjId)
    (vid : Nat) (dflt : Val) (cmp : Cmp) (v : Val)
    (htd : (p.obj o).cls.trait n = .defer d) (hm : d.modify = true) (hy : (p.obj o).deleg = some y)
    (hx : (p.obj y).cls.trait (targetName (p.obj o).cls.pfx n d) = .plain vid dflt cmp) :
    execSet setattrDelegate E i p o n d (some v) = step E i p (.set y (targetName (p.obj o).cls.pfx n d) v) := by
  rw [← (C11_step_is_source E i p o n d v htd).1]
  exact (C11_delegates_write E i p o n d y vid dflt cmp v htd hm hy hx).1

/-- **A rejected write through a deferring attribute has no effect**: when an assignment through a
DelegatesTo / PrototypedFrom attribute raises — the validator at the end of the chain rejects the value,
the chain is incomplete or too long, the old value cannot be read — no object's values, delegate
reference or listener table has changed and nobody was notified.  In particular a linked prototyped
attribute keeps its forwarder: later changes of the prototype are still reported (`C11_notify`).  Stated
for the model step and for the interpreted `setattr_delegate` (this is what seed C19-m10 — listener
removed before the delegated setattr — falsifies in the source). -/
theorem C11_rejected_write_no_effect (E : Env) (k : Nat) (p : Pool) (o : ObjId) (n : Name) (d : DelegInfo) (v : Val)
    (e : Exc) (htd : (p.obj o).cls.trait n = .defer d) (h : (step E k p (.set o n v)).res = .error e) :
    step E k p (.set o n v) = fail p e
    ∧ execSet setattrDelegate E k p o n d (some v) = fail p e
    ∧ (∀ j m, ((step E k p (.set o n v)).pool.obj j).dict m = (p.obj j).dict m
        ∧ ((step E k p (.set o n v)).pool.obj j).fwd m = (p.obj j).fwd m
        ∧ ((step E k p (.set o n v)).pool.obj j).deleg = (p.obj j).deleg)
    ∧ (step E k p (.set o n v)).events = [] ∧ (step E k p (.set o n v)).hookExc = 0 := by
  have hs : step E k p (.set o n v) = setDefer E k p o n d (some v) := by simp only [step, htd]
  have hf : step E k p (.set o n v) = fail p e := by
    rw [hs] at h ⊢
    exact setDefer_error_no_effect E k p o n d v e h
  refine ⟨hf, ?_, ?_, ?_, ?_⟩
  · rw [← C11_write_is_source, ← hs, hf]
  · intro j m; rw [hf]; exact ⟨rfl, rfl, rfl⟩
  · rw [hf]; rfl
  · rw [hf]; rfl

/-- The hypothesis is satisfiable: on the F20 pool `o1.x = -1` with a validator that rejects negatives. -/
example : (step { validate := fun _ _ x => if x < 0 then .error .traitError else .ok x } 3 protoPool (.set 1 nx (-1))).res
    = .error .traitError := by decide

/-- `_has_traits_trait(obj, (name, -2))` = `obj.base_trait(name)` (ctraits.c; the second chain walk of
the C code, with `break` exits and the bound `++i >= 100`): the interpreted function returns a trait
exactly when the model's `hookOk` holds, i.e. when `baseOk` finds the end of the deferral chain within
the limit (the call `ListenerItem.register` makes, whose DelegationError fix bead785 of F18 catches). -/
theorem C11_base_trait_is_source (p : Pool) (x : ObjId) (t : Name) :
    (execBase Generated.DelegSrc.hasTraitsTrait p x t).isSome = hookOk p x t :=
  hookOk_is_source p x t

/-- Both outcomes occur: on the F20 pool `o0.base_trait('x')` resolves (to the typed trait of `o2`)… -/
example : execBase Generated.DelegSrc.hasTraitsTrait protoPool 0 nx = some (.plain 0 3 .equality) := by decide

/-- … and on a fresh pool, where `o0.d` is still None, it raises. -/
example : execBase Generated.DelegSrc.hasTraitsTrait (mkPool [clsD, clsD, clsT]) 0 nx = none := by decide

/-- **The name computation may fail** (fixes e4a9aa5 / 3882e87, and 4e38e77 of finding F111):
`trait->delegate_attr_name(…)` returns NULL when `PyUnicode_Concat` fails, which on real inputs happens
only when `type(obj).__prefix__` is not a `str` (prefix style `'*'`).  The model's `attrName` is total
(hypothesis: every `__prefix__` is a `str`; `C11_read_is_source` / `C11_write_is_source` /
`C11_base_trait_is_source` are stated for `totalName`); the interpretation takes the name computation as
a parameter, and with a failing one the interpreted `getattr_delegate` returns the failure, the
interpreted `setattr_delegate` raises it without having changed anything, and the interpreted
`_has_traits_trait` (`base_trait`) on a deferring attribute returns NULL with the exception set and is
free of undefined behaviour — using a NULL name register is *stuck* in the interpreters, so the
unrepaired code (NULL dereference) does not satisfy this. -/
theorem C11_name_failure_is_error_exit (E : Env) (k : Nat) (p : Pool) (recur : Option (ObjId → Name → Except Exc Val))
    (o : ObjId) (n : Name) (d : DelegInfo) (v : Option Val) (e : Exc) :
    execGet getattrDelegate p recur o n d (fun _ _ _ => .error e) = .error e
    ∧ execSet setattrDelegate E k p o n d v (fun _ _ _ => .error e)
        = (match (p.obj o).deleg with
           | none => fail p .traitError
           | some _ => fail p e)
    ∧ ((p.obj o).cls.trait n = .defer d →
        execBase Generated.DelegSrc.hasTraitsTrait p o n (fun _ _ _ => .error e) = none
        ∧ execBaseDefined Generated.DelegSrc.hasTraitsTrait p o n (fun _ _ _ => .error e) = true) :=
  ⟨read_name_failure p recur o n d e, write_name_failure E k p o n d v e, base_name_failure p o n d e⟩

/-- `Delegate.__init__` (trait_types.py): metadata `_prefix`, `self.prefix`, `self.prefix_type`,
`self.modify`; `DelegatesTo` passes `modify=True`, `PrototypedFrom` `modify=False`. -/
theorem C11_delegate_init_is_source (dname pfx : Name) (modify : Bool) :
    initDelegateSrc initDelegate dname pfx modify = some (mkDelegate pfx modify)
    ∧ Generated.DelegSrc.modifyDelegatesTo = true ∧ Generated.DelegSrc.modifyPrototypedFrom = false :=
  ⟨mkDelegate_is_source dname pfx modify, rfl, rfl⟩

/-- `get_delegate_pattern` followed by `_trait_delegate_name` (has_traits.py): the `on_trait_change`
name the forwarder of `n` is registered under is `" <d>:" ++ listenedName`, for every delegate
reference attribute `dname`, prefix as given, class prefix and non-empty attribute name. -/
theorem C11_pattern_is_source (dname raw : Name) (modify : Bool) (clsPfx : Option Name) (n : Name) (hn : n ≠ []) :
    (delegatePatternSrc Generated.DelegSrc.delegatePattern dname raw n).bind
        (traitDelegateNameSrc Generated.DelegSrc.traitDelegateName clsPfx n)
      = some ((' ' :: dname ++ [':']) ++ listenedName clsPfx n (mkDelegate raw modify)) := by
  have hraw : (mkDelegate raw modify).raw = raw := by
    unfold mkDelegate
    split
    · rfl
    · split
      · rfl
      · simp only []
        split <;> rfl
  have hne : Model.Deleg.delegatePattern n raw ≠ [] := by
    unfold Model.Deleg.delegatePattern
    split
    · exact hn
    · split
      · simp [hn]
      · assumption
  rw [delegatePattern_is_source]
  have := traitDelegateName_is_source clsPfx n (' ' :: dname ++ [':']) (Model.Deleg.delegatePattern n raw) hne
  simp only [Option.bind_some, listenedName, hraw]
  simpa using this

/-- `_remove_trait_delegate_listener` (has_traits.py) on the listener table entry of `(o, n)`: `unlink`
(after a local store) and `relink` (after the local value was deleted) are its interpretation;
`hook` stands for `on_trait_change` / `ListenerItem.register`. -/
theorem C11_listener_table_is_source (p : Pool) (o : ObjId) (n : Name) (d : DelegInfo) (evs : List Event) (h : Option ObjId) :
    LSt.ofFwd (((unlink p o n).obj o).fwd n) = removeListenerSrc removeListener true h ((p.obj o).fwd n)
    ∧ LSt.ofFwd (((relink p o n d evs).pool.obj o).fwd n)
        = removeListenerSrc removeListener false (hook p o n d).1 ((p.obj o).fwd n) := by
  rw [unlink_fwd_self, relink_fwd_self, removeListener_remove_is_source, removeListener_restore_is_source]
  exact ⟨rfl, rfl⟩

/-- `_init_trait_delegate_listener` (has_traits.py), interpreted on the class pattern
`get_delegate_pattern` produced: the forwarder of `n` is registered under `" <d>:" ++ listenedName`, stored
in the listener table under `n`, and reports a change of the listened attribute of the delegate as a
change of `n` (`name + notify_name[len(target):]`) — what `forwarders` / `notify` of the model assume.
`__listener_traits__` is filled with `get_delegate_pattern(name, trait)` at its two sites. -/
theorem C11_init_listener_is_source (dname raw : Name) (modify : Bool) (clsPfx : Option Name) (n : Name) (hn : n ≠ [])
    (hc : ':' ∉ listenedName clsPfx n (mkDelegate raw modify)) :
    let out := initListenerSrc Generated.DelegSrc.initListener
      (fun a b => (traitDelegateNameSrc Generated.DelegSrc.traitDelegateName clsPfx a b).getD [])
      clsPfx n ((delegatePatternSrc Generated.DelegSrc.delegatePattern dname raw n).getD [])
    (out.registered = (' ' :: dname ++ [':']) ++ listenedName clsPfx n (mkDelegate raw modify)
      ∧ out.key = n
      ∧ out.reported (listenedName clsPfx n (mkDelegate raw modify)) = n)
    ∧ Generated.DelegSrc.patternSites = ["get_delegate_pattern(name, trait)", "get_delegate_pattern(name, value)"] := by
  have hraw : (mkDelegate raw modify).raw = raw := by
    unfold mkDelegate
    split
    · rfl
    · split
      · rfl
      · simp only []
        split <;> rfl
  have hne : Model.Deleg.delegatePattern n raw ≠ [] := by
    unfold Model.Deleg.delegatePattern
    split
    · exact hn
    · split
      · simp [hn]
      · assumption
  simp only [listenedName, hraw] at hc ⊢
  rw [delegatePattern_is_source]
  have := initListener_is_source clsPfx n (' ' :: dname) (Model.Deleg.delegatePattern n raw) hne hc
  refine ⟨?_, rfl⟩
  simpa using this

/-- The interpretation is not vacuous: on the F20 pool, assigning `o1.x` (PrototypedFrom, local value 7)
through the interpreted `setattr_delegate` stores locally and drops the forwarder … -/
example : ((execSet setattrDelegate idEnv 3 protoPool 1 nx (mkDelegate [] false) (some 9)).pool.obj 1).dict nx = some 9 := by
  decide

/-- … and reading `o0.x` through the interpreted `getattr_delegate` yields the local value of `o1`. -/
example : execGet getattrDelegate protoPool (some (read protoPool 3)) 0 nx (mkDelegate [] true) = .ok 7 := by
  decide

end Source

/-! ## Copies: pickle round trip, `copy.copy`

`Pool.restore` is the state `HasTraits.__setstate__` builds (the whole pool unpickled, or one object
copied): same values and delegates, forwarders re-created exactly for the linked attributes.  Every
theorem above is proved from `Inv` (and `Linked`); the copy preserves them, so the history can continue
on the copy with the same guarantees ("only behaviour after a copy"). -/

/-- **A copy behaves like the original.**  For every pool satisfying the invariants of C11 (every
reachable pool, `C11_linked_reachable`) and either kind of copy: the invariants hold again; every read —
through any chain — returns what it returned before; on a copied object a linked deferring attribute has
its forwarder hooked on the current delegate (so `Linked` holds for it even if the original had lost the
forwarder), and an attribute with a local value — a broken prototype link — has none, hence no change of
any other attribute anywhere is ever reported to its handlers (what seed C11-m13, `_init_trait_listeners`
after `trait_set` in `__setstate__`, breaks). -/
theorem C11_copy (p : Pool) (w : Option ObjId) (I : Inv p) :
    Inv (p.restore w)
    ∧ (∀ f o n, read (p.restore w) f o n = read p f o n)
    ∧ (∀ o n d, (w = none ∨ w = some o) → (p.obj o).cls.trait n = .defer d →
        ((p.obj o).dict n = none → ((p.restore w).obj o).fwd n = some ((p.restore w).obj o).deleg)
        ∧ ((p.obj o).dict n ≠ none → ((p.restore w).obj o).fwd n = none))
    ∧ (∀ o n d, ((p.restore w).obj o).cls.trait n = .defer d → ((p.restore w).obj o).dict n ≠ none →
        ∀ f x t a b, ¬(x = o ∧ t = n) → ∀ e ∈ notify (p.restore w) f x t a b, ¬(e.obj = o ∧ e.name = n)) := by
  have I' := restore_inv p w I
  refine ⟨I', read_restore p w, ?_, ?_⟩
  · intro o n d hw htd
    have h := restore_link_state p w o n d hw htd
    refine ⟨fun hd => ?_, fun hd => ?_⟩
    · rw [h, hd, restore_deleg]
    · rw [h]
      cases hdn : (p.obj o).dict n with
      | none => exact absurd hdn hd
      | some v => rfl
  · intro o n d htd hd f x t a b hne e he
    have hf := (I'.fwd o n).2 d htd hd
    rintro ⟨ho, hn⟩
    obtain ⟨_, _, h3⟩ := notify_mem f x t e he
    rcases h3 with ⟨h1, h2⟩ | ⟨h, hh⟩
    · exact hne ⟨by rw [← h1, ho], by rw [← h2, hn]⟩
    · rw [ho, hn, hf] at hh; cases hh

/-- Non-vacuity: on the F20 pool (`o1.x` holds the local value 7, its forwarder is gone) the pickle round
trip keeps `o1.x` unlinked and `o0.x` linked to `o1`. -/
example : ((protoPool.restore none).obj 1).fwd nx = none ∧ ((protoPool.restore none).obj 0).fwd nx = some (some 1) := by
  decide


/-! ### Clones (`copy.deepcopy`, `clone_traits`) — known finding `clone-localises-linked-prototype`

`Pool.cloneAll` transcribes `clone_traits` / `copy_traits`: the clone is built by ASSIGNING every
deferring attribute the value read through the original.  The property's clause 'a PrototypedFrom
attribute reads as the prototype's value until it is assigned locally' would need the clone of a linked
attribute to be linked; the code does not do that. -/

/-- Full-strength clause for clones: a PrototypedFrom attribute that is linked in a pool satisfying the
invariants is linked in the deep copy of the pool. -/
def CloneKeepsLinks : Prop :=
  ∀ (p : Pool), Inv p → ∀ (o : ObjId) (n : Name) (d : DelegInfo),
    (p.obj o).cls.trait n = .defer d → d.modify = false → (p.obj o).dict n = none →
    ((p.cloneAll idEnv).obj o).dict n = none ∧ ((p.cloneAll idEnv).obj o).fwd n = some ((p.cloneAll idEnv).obj o).deleg

/-- The pool of the witness: `o0.x = PrototypedFrom('d')` linked to `o1.x` (typed, default 3). -/
def clonePool : Pool := runPool idEnv 0 (mkPool [clsP, clsT]) [.swap 0 (some 1)]

theorem clonePool_inv : Inv clonePool :=
  runPool_inv idEnv _ 0 _ (mkPool_inv _ (by
    intro c hc
    simp only [List.mem_cons, List.not_mem_nil, or_false] at hc
    rcases hc with rfl | rfl <;> (unfold ClsWF; decide)))

/-- **The code does not satisfy it** (known finding `clone-localises-linked-prototype`; witness replayed by the
corpus case `same-P … sw 1 2;sw 0 1;cp A d;st 2 x 5;rd 0 x`, one level more): the clone of the linked `o0.x` holds the local value 3 and
has no forwarder, so it no longer follows `o1.x`. -/
theorem C11_clone_localises : ¬ CloneKeepsLinks := by
  intro h
  have := (h clonePool clonePool_inv 0 nx (mkDelegate [] false) (by decide) (by decide) (by decide)).1
  revert this
  decide

/-- What the clone is instead: local value = the value read through the original, forwarder gone; a later
change of the prototype is not seen through it. -/
example : ((clonePool.cloneAll idEnv).obj 0).dict nx = some 3 ∧ ((clonePool.cloneAll idEnv).obj 0).fwd nx = none
    ∧ read (step idEnv 1 (clonePool.cloneAll idEnv) (.set 1 nx 5)).pool 3 0 nx = .ok 3 := by decide


end TraitsVerif.Props.C11
