import TraitsVerif.Model.Delegate
namespace TraitsVerif.Props.C11
theorem placeholder : True := trivial
end TraitsVerif.Props.C11
