import TraitsVerif.Model.Adapt
namespace TraitsVerif.Props.C17
end TraitsVerif.Props.C17
