/-
C17 — adaptation finds an adapter chain iff one exists, and a shortest one.

Only property theorems (+ full-strength statements kept as `def … : Prop` where the
code does not satisfy them, their negation witnesses, and non-vacuity examples).
Model: `Model/Adapt.lean`; vocabulary (`ValidChain`, `SucceedsFrom`, `Deterministic`,
`Homogeneous`, `OneStep`, `WeakOn`): `Lemmas/AdaptSpec.lean`, `Lemmas/AdaptExtra.lean`.
-/
import TraitsVerif.Lemmas.AdaptWitness
import TraitsVerif.Lemmas.AdaptSource3
namespace TraitsVerif.Props.C17
open TraitsVerif TraitsVerif.Model.Adapt TraitsVerif.Lemmas.Adapt
variable {α : Type}

/-! ## identity -/

/-- An adaptee whose type already provides the protocol is returned unchanged — whatever
it is, the object `None` included (repaired in /repo 4b42b24; finding F15) — and no factory
is called; `supports_protocol` is True. -/
theorem C17_identity (cfg : Cfg) (f : Factory α) (srcType : Nat) (adaptee : α) (target : Nat)
    (hasDefault : Bool) (hp : cfg.provides srcType target = true) :
    adapt cfg f srcType adaptee target hasDefault = (.self, []) ∧
    supportsProtocol cfg f srcType adaptee target = (.ok true, []) := by
  simp [adapt, supportsProtocol, hp]

-- `adapt(None, object)`: type 0 = NoneType provides protocol 0 = object; with or without a default
example : adapt (α := Unit) ⟨fun _ _ => true, fun _ => [], []⟩ okFactory 0 () 0 false = (.self, []) ∧
    adapt (α := Unit) ⟨fun _ _ => true, fun _ => [], []⟩ okFactory 0 () 0 true = (.self, []) ∧
    supportsProtocol (α := Unit) ⟨fun _ _ => true, fun _ => [], []⟩ okFactory 0 () 0 = (.ok true, []) :=
  ⟨rfl, rfl, rfl⟩

/-! ## soundness -/

/-- Whatever the factories do (deterministic or not, raising or not): if `adapt`
returns an adapter, the adaptee's type did not provide the protocol, the chain of
offers used is applicable step by step, uses every offer at most once, ends at a
protocol providing the target, and the adapter is what the chain's factories
produced, each one having succeeded. -/
theorem C17_sound {cfg : Cfg} {f : Factory α} {srcType : Nat} {adaptee : α}
    {target : Nat} {hasDefault : Bool} {path : List Offer} {a : α} {tr : List CallRec}
    (hh : Homogeneous cfg)
    (h : adapt cfg f srcType adaptee target hasDefault = (.adapted path a, tr)) :
    cfg.provides srcType target = false ∧ ValidChain cfg srcType target path ∧
      ∃ k, SucceedsFrom f k path adaptee a := by
  unfold adapt at h
  by_cases hp : cfg.provides srcType target = true
  · simp [hp] at h
  · have hp' : cfg.provides srcType target = false := by simpa using hp
    simp only [hp', Bool.false_eq_true, if_false] at h
    rcases hin : adaptInner cfg f srcType adaptee target with ⟨r, tr'⟩
    rw [hin] at h
    cases r with
    | found p a' =>
      simp only [Prod.mk.injEq, Out.adapted.injEq] at h
      obtain ⟨⟨rfl, rfl⟩, _⟩ := h
      unfold adaptInner at hin
      obtain ⟨hc, tr'', hw⟩ := adaptLoop_sound (cfg := cfg) (src := srcType) _ _ (by
        intro e he
        simp only [initSt, List.mem_singleton] at he
        subst he
        exact ⟨Reach.nil, rfl, rfl⟩) _ _ _ hin
      exact ⟨hp', hc.valid hh, _, (walk_done_iff f _ _ _ _).1 hw⟩
    | raised e => simp at h
    | notFound => cases hasDefault <;> simp [noneResult] at h
    | outOfFuel => simp at h

/-- Without the naming precondition soundness is false (finding F16): with two
protocols sharing a bucket, an offer is applied to a type that does not provide its
`from_protocol`. -/
def C17_sound_any_registry : Prop :=
  ∀ (cfg : Cfg) (f : Factory Unit) (srcType target : Nat) (path : List Offer) (a : Unit)
    (tr : List CallRec),
    adapt cfg f srcType () target false = (.adapted path a, tr) →
    ValidChain cfg srcType target path

theorem C17_sound_needs_homogeneous : ¬ C17_sound_any_registry := by
  intro h
  have hv := h collideCfg okFactory 0 2 [⟨1, 1, 2, 0⟩] () [⟨1, .ok⟩] (by decide)
  have := hv.applicable
  simp [Applicable, collideCfg, providesOf] at this

example : adapt chainCfg (refusing [0]) 3 () 2 false =
    (.adapted [⟨1, 0, 1, 0⟩, ⟨2, 1, 2, 1⟩] (), [⟨0, .none⟩, ⟨1, .ok⟩, ⟨2, .ok⟩]) := by decide

/-! ## completeness -/

/-- With factories that are functions of (offer, adaptee) and do not raise, `_adapt`
returns `None` exactly when no applicable, offer-simple chain from the adaptee's type
to the protocol has factories that all succeed. -/
theorem C17_complete {cfg : Cfg} {f : Factory α} {srcType : Nat} {adaptee : α} {target : Nat}
    (hdet : Deterministic f) (hnr : NoRaise f) (hh : Homogeneous cfg) :
    (adaptInner cfg f srcType adaptee target).1 = .notFound ↔
      ¬ ∃ chain a, ValidChain cfg srcType target chain ∧ SucceedsFrom f 0 chain adaptee a := by
  constructor
  · intro h
    rintro ⟨chain, a, hv, hs⟩
    rcases hin : adaptInner cfg f srcType adaptee target with ⟨r, tr⟩
    rw [hin] at h
    simp only at h
    subst h
    unfold adaptInner at hin
    have hdone := (adaptLoop_spec (src := srcType) hdet _ _ (Inv.init cfg srcType target f adaptee)).1 _ hin
    obtain ⟨c, hc, hpre⟩ := exists_cand_prefix hh chain [] Reach.nil hv.nonempty
      (by simpa using hv.applicable) (by simpa using hv.simple) (by simpa using hv.arrives)
    obtain ⟨t, ht⟩ := hpre
    simp only [List.nil_append] at ht
    rw [← ht] at hs
    obtain ⟨r', hr'⟩ := SucceedsFrom_prefix c t 0 adaptee a hs
    obtain ⟨p, d, o, rfl, hrp, hk, ha⟩ := hc
    exact hdone p hrp d o hk ha ⟨r', hr'⟩
  · intro hne
    rcases hin : adaptInner cfg f srcType adaptee target with ⟨r, tr⟩
    cases r with
    | notFound => rfl
    | found p a =>
      exfalso
      unfold adaptInner at hin
      obtain ⟨hc, tr', hw⟩ := adaptLoop_sound (cfg := cfg) (src := srcType) _ _ (by
        intro e he
        simp only [initSt, List.mem_singleton] at he
        subst he
        exact ⟨Reach.nil, rfl, rfl⟩) _ _ _ hin
      exact hne ⟨p, a, hc.valid hh, SucceedsFrom_det hdet _ _ _ _ _ ((walk_done_iff f _ _ _ _).1 hw)⟩
    | raised e =>
      exfalso
      obtain ⟨k, o, a', hf⟩ := adaptLoop_raised cfg f adaptee target _ _ e (by
        unfold adaptInner at hin; rw [hin])
      exact hnr k o a' e hf
    | outOfFuel =>
      exfalso
      exact fuel_suffices cfg f srcType adaptee target (by rw [hin])

/-- The same at the level of `adapt`: an adapter comes back iff a successful chain exists. -/
theorem C17_complete_adapt {cfg : Cfg} {f : Factory α} {srcType : Nat} {adaptee : α}
    {target : Nat} {hasDefault : Bool}
    (hdet : Deterministic f) (hnr : NoRaise f) (hh : Homogeneous cfg)
    (hp : cfg.provides srcType target = false) :
    (∃ path a, (adapt cfg f srcType adaptee target hasDefault).1 = .adapted path a) ↔
      ∃ chain a, ValidChain cfg srcType target chain ∧ SucceedsFrom f 0 chain adaptee a := by
  have hc := C17_complete (cfg := cfg) (f := f) (srcType := srcType) (adaptee := adaptee)
    (target := target) hdet hnr hh
  unfold adapt
  simp only [hp, Bool.false_eq_true, if_false]
  rcases hin : adaptInner cfg f srcType adaptee target with ⟨r, tr⟩
  rw [hin] at hc
  cases r with
  | notFound =>
    have := hc.1 rfl
    constructor
    · rintro ⟨p, a, h⟩; cases hasDefault <;> simp [noneResult] at h
    · intro h; exact absurd h this
  | found p a =>
    constructor
    · intro _
      apply Classical.byContradiction
      intro hne
      have := hc.2 hne
      simp at this
    · intro _; exact ⟨p, a, rfl⟩
  | raised e =>
    exfalso
    obtain ⟨k, o, a', hf⟩ := adaptLoop_raised cfg f adaptee target _ _ e (by
      unfold adaptInner at hin; rw [hin])
    exact hnr k o a' e hf
  | outOfFuel =>
    exfalso
    exact fuel_suffices cfg f srcType adaptee target (by rw [hin])

/-- Full strength without the determinism hypothesis.  False: a factory that answers by
call ordinal can refuse every call `_adapt` actually makes although, tried first, it
would have accepted. -/
def C17_complete_any_factory : Prop :=
  ∀ (cfg : Cfg) (f : Factory Unit) (srcType target : Nat), NoRaise f → Homogeneous cfg →
    ((adaptInner cfg f srcType () target).1 = .notFound ↔
      ¬ ∃ chain a, ValidChain cfg srcType target chain ∧ SucceedsFrom f 0 chain () a)

theorem C17_complete_needs_determinism : ¬ C17_complete_any_factory := by
  intro h
  have h1 := (h twoCfg firstCallOnly 0 1
    (by intro k o a e hf; simp only [firstCallOnly] at hf; split at hf <;> cases hf)
    twoCfg_homogeneous).1 (by decide)
  apply h1
  refine ⟨[⟨1, 0, 1, 0⟩], (), ⟨by simp, ?_, by simp [OfferSimple], by decide⟩, ⟨(), by decide, rfl⟩⟩
  exact ⟨⟨_, List.mem_cons_self, by simp⟩, by decide, trivial⟩

-- The configuration is an argument of every call: the theorems speak about the subclass relation
-- current at that call.  Before `Printable.register(Legacy)` no chain exists for LegacyChild and
-- `_adapt` finds none; after it, with the same offers, the chain exists and is found.
example : (adaptInner (lateCfg false) okFactory 2 () 3).1 = .notFound ∧
    adaptInner (lateCfg true) okFactory 2 () 3 = (.found [⟨0, 0, 3, 0⟩] (), [⟨0, .ok⟩]) := by decide

example : (adaptInner chainCfg (refusing [0, 2]) 3 () 2).1 = .notFound := by decide
example : (adaptInner chainCfg (refusing [0]) 3 () 2).1 ≠ .notFound := by decide

/-! ## minimality -/

/-- The returned chain has the minimum number of adapters among all valid chains
whose factories succeed. -/
theorem C17_minimal {cfg : Cfg} {f : Factory α} {srcType : Nat} {adaptee : α} {target : Nat}
    (hdet : Deterministic f) (hh : Homogeneous cfg) {path : List Offer} {a : α} {tr : List CallRec}
    (h : adaptInner cfg f srcType adaptee target = (.found path a, tr)) :
    ∀ chain a', ValidChain cfg srcType target chain → SucceedsFrom f 0 chain adaptee a' →
      path.length ≤ chain.length := by
  intro chain a' hv hs
  unfold adaptInner at h
  obtain ⟨_, _, hmin, _⟩ :=
    (adaptLoop_spec (src := srcType) hdet _ _ (Inv.init cfg srcType target f adaptee)).2 _ _ _ h
  obtain ⟨c, hc, hpre⟩ := exists_cand_prefix hh chain [] Reach.nil hv.nonempty
    (by simpa using hv.applicable) (by simpa using hv.simple) (by simpa using hv.arrives)
  have hlen : c.length ≤ chain.length := by simpa using hpre.length_le
  obtain ⟨t, ht⟩ := hpre
  simp only [List.nil_append] at ht
  rw [← ht] at hs
  obtain ⟨r', hr'⟩ := SucceedsFrom_prefix c t 0 adaptee a' hs
  have := hmin c hc (fun hf => hf ⟨r', hr'⟩)
  omega

example : adaptInner chainCfg (refusing [0]) 3 () 2 =
    (.found [⟨1, 0, 1, 0⟩, ⟨2, 1, 2, 1⟩] (), [⟨0, .none⟩, ⟨1, .ok⟩, ⟨2, .ok⟩]) := by decide

/-! ## specificity -/

/-- Among the offers that adapt in one step and whose factory accepts, the one
used has the smallest MRO distance from the adaptee's type to its `from_protocol`. -/
theorem C17_specific {cfg : Cfg} {f : Factory α} {srcType : Nat} {adaptee : α} {target : Nat}
    (hdet : Deterministic f) (hh : Homogeneous cfg) {o : Offer} {a : α} {tr : List CallRec}
    (h : adaptInner cfg f srcType adaptee target = (.found [o] a, tr))
    {o' : Offer} (h' : OneStep cfg f srcType adaptee target o') :
    ∃ d d', dist cfg srcType o.frm = some d ∧ dist cfg srcType o'.frm = some d' ∧ d ≤ d' := by
  have H : Compat (edgeLt cfg) (fun e1 e2 : Edge => e1.1 < e2.1) (fun _ => True) := by
    refine ⟨?_, ?_, ?_⟩
    · intro a b c _ _ _ hab
      show a.1 < c.1 ∨ c.1 < b.1
      have : a.1 < b.1 := hab
      omega
    · intro a b _ _ hlt
      simp only [edgeLt, Bool.or_eq_true, Bool.and_eq_true, decide_eq_true_eq, beq_iff_eq] at hlt
      show ¬ b.1 < a.1
      omega
    · intro a b _ _ hlt
      have : ¬ (edgeLt cfg a b = true) := by simp [hlt]
      simp only [edgeLt, Bool.or_eq_true, Bool.and_eq_true, decide_eq_true_eq, beq_iff_eq] at this
      show ¬ a.1 < b.1
      omega
  obtain ⟨d, d', hd, hd', hor⟩ := one_step_order H (fun _ _ => trivial) hdet hh h h'
  refine ⟨d, d', hd, hd', ?_⟩
  rcases hor with heq | hn
  · simp only [Prod.mk.injEq] at heq; omega
  · have : ¬ d' < d := hn
    omega

-- the Sub offer (distance 0) wins over the Base offer (distance 1) registered before it
example : adaptInner distCfg okFactory 1 () 2 = (.found [⟨1, 1, 2, 1⟩] (), [⟨1, .ok⟩]) := by decide
example : OneStep distCfg okFactory 1 () 2 ⟨0, 0, 2, 0⟩ :=
  ⟨⟨_, List.mem_cons_self, by simp⟩, by decide, by decide, ⟨(), rfl⟩⟩
example : dist distCfg 1 0 = some 1 ∧ dist distCfg 1 1 = some 0 := by decide

/-- Full strength of the second clause: at equal distance an offer registered for a
strict subclass is preferred.  False (finding F14). -/
def C17_specific_subclass_full : Prop :=
  ∀ (cfg : Cfg) (f : Factory Unit) (srcType target : Nat) (o : Offer) (a : Unit) (tr : List CallRec)
    (o' : Offer),
    Deterministic f → Homogeneous cfg →
    adaptInner cfg f srcType () target = (.found [o] a, tr) →
    OneStep cfg f srcType () target o' →
    dist cfg srcType o'.frm = dist cfg srcType o.frm →
    ¬ (o'.frm ≠ o.frm ∧ cfg.provides o'.frm o.frm = true)

/-- Foo provides IChild(IBase) and IOther; offers registered IBase→T, IOther→T,
IChild→T: the IBase offer is used. -/
theorem C17_specific_fails_at : ¬ C17_specific_subclass_full := by
  intro h
  have := h specCfg okFactory 3 4 ⟨0, 0, 4, 0⟩ () [⟨0, .ok⟩] ⟨2, 1, 4, 1⟩ okFactory_det
    specCfg_homogeneous (by decide)
    ⟨⟨[⟨2, 1, 4, 1⟩], by simp [specCfg], by simp⟩, by decide, by decide, ⟨(), rfl⟩⟩ (by decide)
  exact this ⟨by decide, by decide⟩

/-- What does hold: when the comparison is a strict weak order on the offers
applicable to the adaptee's type (e.g. their `from_protocol`s at each distance are
totally ordered by `issubclass`, or pairwise unrelated), an offer for a strict
subclass at the same distance is never passed over. -/
theorem C17_specific_subclass_partial {cfg : Cfg} {f : Factory α} {srcType : Nat} {adaptee : α}
    {target : Nat} (hdet : Deterministic f) (hh : Homogeneous cfg)
    (hw : WeakOn cfg (applicable cfg srcType []))
    {o : Offer} {a : α} {tr : List CallRec}
    (h : adaptInner cfg f srcType adaptee target = (.found [o] a, tr))
    {o' : Offer} (h' : OneStep cfg f srcType adaptee target o')
    (heq : dist cfg srcType o'.frm = dist cfg srcType o.frm) :
    ¬ (o'.frm ≠ o.frm ∧ cfg.provides o'.frm o.frm = true) := by
  have H : Compat (edgeLt cfg) (fun e1 e2 : Edge => edgeLt cfg e1 e2 = true)
      (fun e => e ∈ applicable cfg srcType []) := by
    refine ⟨?_, ?_, ?_⟩
    · intro a b c ha hb hc hab; exact hw.1 a ha b hb c hc hab
    · intro a b ha hb hlt hba; rw [hw.2 a ha b hb hlt] at hba; cases hba
    · intro a b _ _ hlt hab; rw [hlt] at hab; cases hab
  obtain ⟨d, d', hd, hd', hor⟩ := one_step_order H (fun _ hx => hx) hdet hh h h'
  rintro ⟨hne, hsub⟩
  rw [hd, hd'] at heq
  simp only [Option.some.injEq] at heq
  subst heq
  rcases hor with heq | hn
  · simp only [Prod.mk.injEq] at heq
    exact hne (by rw [heq.2])
  · apply hn
    simp [edgeLt, hne, hsub]

example : WeakOn chainCfg (applicable chainCfg 3 []) := by
  refine ⟨?_, ?_⟩ <;> decide

/-! ## failure result -/

/-- `_adapt` found nothing: `adapt` raises AdaptationError, or returns the supplied
default; `supports_protocol` is False. -/
theorem C17_default {cfg : Cfg} {f : Factory α} {srcType : Nat} {adaptee : α}
    {target : Nat} (hp : cfg.provides srcType target = false)
    (hnf : (adaptInner cfg f srcType adaptee target).1 = .notFound) :
    (adapt cfg f srcType adaptee target false).1 = .error .adaptationError ∧
    (adapt cfg f srcType adaptee target true).1 = .default ∧
    (supportsProtocol cfg f srcType adaptee target).1 = .ok false := by
  rcases hin : adaptInner cfg f srcType adaptee target with ⟨r, tr⟩
  rw [hin] at hnf
  simp only at hnf
  subst hnf
  simp [adapt, supportsProtocol, hp, hin, noneResult]

example : (adaptInner chainCfg (refusing [0, 2]) 3 () 2).1 = .notFound ∧
    (adapt chainCfg (refusing [0, 2]) 3 () 2 true).1 = .default ∧
    (adapt chainCfg (refusing [0, 2]) 3 () 2 false).1 = .error .adaptationError := by decide

/-- …and the default comes back in no other situation. -/
theorem C17_default_only {cfg : Cfg} {f : Factory α} {srcType : Nat} {adaptee : α}
    {target : Nat} {hasDefault : Bool}
    (h : (adapt cfg f srcType adaptee target hasDefault).1 = .default) :
    hasDefault = true ∧ cfg.provides srcType target = false ∧
      (adaptInner cfg f srcType adaptee target).1 = .notFound := by
  unfold adapt at h
  by_cases hp : cfg.provides srcType target = true
  · simp [hp] at h
  · have hp' : cfg.provides srcType target = false := by simpa using hp
    simp only [hp', Bool.false_eq_true, if_false] at h
    rcases hin : adaptInner cfg f srcType adaptee target with ⟨r, tr⟩
    rw [hin] at h
    cases r <;> cases hasDefault <;> simp [noneResult] at h
    exact ⟨rfl, hp', rfl⟩

/-! ## Supports / AdaptsTo / Instance(adapt=…) -/

/-- The validator of an adapting trait, mode by mode, for a value whose `isinstance`
agrees with `issubclass(type(value), klass)`:
* `None` is decided by `allow_none` alone, in every mode (it is never tested against the class);
* mode 0 (`adapt='no'`) is the isinstance check, and `adapt` is not called;
* modes 1 and 2 hand back exactly what `adapt(value, klass, None)` gives — the value
  itself if it provides the protocol, the adapter otherwise, the factory's exception
  if one raised — and, when `adapt` found nothing, TraitError (mode 1) or the trait's
  default value (mode 2). -/
theorem C17_supports (cfg : Cfg) (f : Factory α) (srcType : Nat) (adaptee : α) (target : Nat)
    (allowNone : Bool) (isInst : Bool) (ad : Out α) (mode : Nat) (hm : mode = 1 ∨ mode = 2) :
    (∀ m, validateTrait m allowNone true isInst ad = (if allowNone then .value else .error .traitError)) ∧
    validateTrait 0 allowNone false (cfg.provides srcType target) ad =
      (if cfg.provides srcType target then .value else .error .traitError) ∧
    validateCalls 0 false = false ∧
    validateTrait mode allowNone false (cfg.provides srcType target)
        (adapt cfg f srcType adaptee target true).1 =
      (match (adapt cfg f srcType adaptee target true).1 with
       | .self => .value
       | .adapted p a => .adapted p a
       | .error e => .error e
       | .default => if mode = 1 then .error .traitError else .default) := by
  refine ⟨?_, ?_, rfl, ?_⟩
  · intro m
    by_cases h0 : m = 0
    · subst h0; cases allowNone <;> simp [validateTrait, validateInstance]
    · simp [validateTrait, validateAdapt, h0]
  · simp [validateTrait, validateInstance]
  · by_cases hp : cfg.provides srcType target = true
    · rcases hm with rfl | rfl <;> simp [validateTrait, validateAdapt, adapt, hp]
    · have hp' : cfg.provides srcType target = false := by simpa using hp
      rcases hm with rfl | rfl <;>
        (simp only [validateTrait, validateAdapt, hp']
         cases (adapt cfg f srcType adaptee target true).1 <;> simp)

example : validateTrait 1 true false (chainCfg.provides 3 2) (adapt chainCfg (refusing [0]) 3 () 2 true).1 =
    .adapted [⟨1, 0, 1, 0⟩, ⟨2, 1, 2, 1⟩] () := by decide
example : validateTrait 2 true false (chainCfg.provides 3 2) (adapt chainCfg (refusing [0, 2]) 3 () 2 true).1 =
    .default := by decide

/-- The C function's own fallback (`validate_trait_adapt`, ctraits.c:3966-3982): when
`adapt` gives `None`, an instance is still accepted as is; `Supports` keeps the
validated value under `name` and the original under `name_`, `AdaptsTo` the reverse. -/
theorem C17_supports_fallback (allowNone : Bool) (mode : Nat) (hm : mode = 1 ∨ mode = 2) :
    validateAdapt (α := α) mode allowNone false true .default = .value ∧
    validateAdapt (α := α) mode allowNone false false .default =
      (if mode = 1 then .error .traitError else .default) ∧
    (∀ v : VOut α, stored false v = v ∧ shadow true v = .value) ∧
    (∀ v : VOut α, stored true v = .value ∧ shadow false v = v) := by
  rcases hm with rfl | rfl <;> simp [validateAdapt, stored, shadow]

/-! ## re-assignment: the shadow attribute follows what `adapt` answers now -/

/-- One assignment to a trait that already holds a value (or none yet).
`AdaptsTo` keeps the original under `name`, `Supports` the validated value.  Whenever
the validated value is not the very object stored so far — in particular whenever
`adapt` built an adapter, a new object — `post_setattr` runs: `AdaptsTo`'s `name_`
holds exactly what the validator returned *now* (not what it returned for an earlier
assignment of the same object), `Supports`'s `name_` the original. -/
theorem C17_shadow_tracks_adapt {β : Type} (same : β → β → Bool) (old : Option (Slots β))
    (dflt original validated : β) :
    (assignSlots true false same old dflt original validated).stored = original ∧
    (assignSlots false true same old dflt original validated).stored = validated ∧
    (∀ s, old = some s → same s.stored validated = false →
      (assignSlots true false same old dflt original validated).shadow = some validated ∧
      (assignSlots false true same old dflt original validated).shadow = some original) ∧
    (old = none → same dflt validated = false →
      (assignSlots true false same old dflt original validated).shadow = some validated ∧
      (assignSlots false true same old dflt original validated).shadow = some original) := by
  refine ⟨rfl, rfl, ?_, ?_⟩
  · intro s hs hne; subst hs; simp [assignSlots, hne]
  · intro hs hne; subst hs; simp [assignSlots, hne]

/-- Full strength: after *every* assignment `AdaptsTo`'s shadow is what the validator
returned now.  False (finding F81): when `adapt` now answers with the assigned object
itself and that object is what `name` already holds, the assignment counts as
unchanged and the shadow keeps the adapter of the earlier assignment. -/
def C17_shadow_full : Prop :=
  ∀ (old : Option (Slots Nat)) (dflt original validated : Nat),
    (assignSlots true false (fun a b => a == b) old dflt original validated).shadow = some validated

theorem C17_shadow_fails_at : ¬ C17_shadow_full := by
  intro h
  -- object 0 assigned before (shadow: adapter 7); adapt now returns object 0 itself
  have := h (some ⟨0, some 7⟩) 99 0 0
  simp [assignSlots] at this

-- the seeded-change scenario: object 0 re-assigned, adapt now builds adapter 8 instead of 7
example : (assignSlots true false (fun a b : Nat => a == b) (some ⟨0, some 7⟩) 99 0 8).shadow = some 8 := by
  decide

/-! ## the model's two CPython pieces and termination -/

/-- `_adapt` as modelled never runs out of fuel: the `while` loop terminates (every
offer-simple path is pushed at most once; `fuelFor = 1 + Σₖ n!/(n−k)!`). -/
theorem C17_terminates (cfg : Cfg) (f : Factory α) (srcType : Nat) (adaptee : α) (target : Nat) :
    (adaptInner cfg f srcType adaptee target).1 ≠ .outOfFuel :=
  fuel_suffices cfg f srcType adaptee target

/-- In every state the loop goes through, the model's sorted list pops exactly what
a min-heap holding the same entries pops: the queue is sorted, its counters are
pairwise distinct, hence (`heap_is_sorted_list`) any minimal entry of any
arrangement of the contents is the list's head. -/
theorem C17_queue_is_heap {cfg : Cfg} {f : Factory α} {adaptee : α} {target src : Nat} {st : St}
    (hrun : Run cfg f adaptee target src st)
    (heap : List Entry) (hperm : heap.Perm st.queue)
    (m : Entry) (rest : List Entry) (hpop : heap.Perm (m :: rest))
    (hmin : ∀ e ∈ rest, keyLt e m = false) :
    ∃ q', st.queue = m :: q' ∧ rest.Perm q' :=
  heap_is_sorted_list st.queue heap hperm hrun.sorted hrun.cntInv.2 m rest hpop hmin

/-- `list.sort` as modelled permutes its input whatever the comparison does (so the
order-independent theorems above hold for any sort), and distinct names give
homogeneous buckets (the precondition of the theorems, from `register_offer`). -/
theorem C17_model_facts (cfg : Cfg) (es : List Edge) (os : List Offer)
    (hnames : ∀ o ∈ os, ∀ o' ∈ os, o.key = o'.key → o.frm = o'.frm) :
    (pySort (edgeLt cfg) es).Perm es ∧ Homogeneous ⟨cfg.provides, cfg.supers, groupsOf os⟩ :=
  ⟨pySort_perm _ _, groupsOf_homogeneous os hnames _ _⟩

/-! ## the model's search is the source

`Generated/AdaptProg.lean` is the translation (regenerated on every run by
`harness/translate/pyadapt.py`) of the source text of `provides_protocol`,
`mro_distance_to_protocol`, `_adapt`, `_get_applicable_offers` and
`_by_weight_then_from_protocol_specificity` into the deep-embedded language
`Model/PyA.lean`. -/

open TraitsVerif.Model.PyA TraitsVerif.Generated.AdaptProg TraitsVerif.Lemmas.AdaptSource in
/-- **`Model.Adapt`'s search is the interpretation of the translated source**: for
every issubclass / MRO table and registry (with non-empty buckets — what
`register_offer` builds, `C17_registry_nonempty`), every factory table (ordinal-dependent
and raising ones included), adaptee type, adaptee and target, interpreting the source
of `_adapt` (and of everything it calls) gives the model's result and the model's
trace of factory calls.  (The result is compared with the path forgotten: `_adapt`
returns the adapter only; the path is what the trace shows.)  No assumption about ties
in the priority queue: the interpreter refuses to compare two heap entries with equal
weight triples (`C17_heap_tie_is_stuck` — Python would go on to compare the paths), and
the proof carries the invariant "every counter in the queue is below the next counter
value" (`Rel.hlt`) through the interpreted `while` loop, so the comparison is never asked. -/
theorem C17_search_is_source (cfg : Cfg) (hne : NonEmptyGroups cfg) (f : Factory α) (srcType : Nat)
    (adaptee : α) (target : Nat) :
    runAdapt adaptProg cfg f srcType adaptee target (fuelFor cfg) =
      (viewRes (adaptInner cfg f srcType adaptee target).1, (adaptInner cfg f srcType adaptee target).2) :=
  runAdapt_eq cfg hne f srcType adaptee target (fuelFor cfg)

open TraitsVerif.Model.PyA TraitsVerif.Lemmas.AdaptSource in
/-- The interpreter does not resolve ties in the priority queue: comparing two entries whose
weight triples (adapters, MRO steps, counter) are equal is stuck. -/
theorem C17_heap_tie_is_stuck (a b : Entry) (h1 : a.nAd = b.nAd) (h2 : a.mroSum = b.mroSum)
    (h3 : a.cnt = b.cnt) : weightLt (α := α) (encEntry a) (encEntry b) = none :=
  weightLt_tie a b h1 h2 h3

open TraitsVerif.Model.PyA TraitsVerif.Generated.AdaptProg TraitsVerif.Lemmas.AdaptSource in
/-- **`adapt` is its source**: interpreting `AdaptationManager.adapt` (the identity shortcut
`provides_protocol(type(adaptee), to_protocol)` taken before anything else — F15 —, the call
of `_adapt`, `result is None`, `default is AdaptationError`, `raise AdaptationError`,
`result = default`) gives the model's `adapt`: same outcome as the caller sees it, same
trace of factory calls; `adaptDefault` is the translated default value of `default`. -/
theorem C17_adapt_is_source (cfg : Cfg) (hne : NonEmptyGroups cfg) (f : Factory α) (srcType : Nat)
    (adaptee : α) (target : Nat) (hasDefault : Bool) :
    runAdaptCall adaptProg cfg f srcType adaptee target adaptDefault hasDefault (fuelFor cfg) =
      (viewOut adaptee (adapt cfg f srcType adaptee target hasDefault).1,
       (adapt cfg f srcType adaptee target hasDefault).2) := by
  have hfuel := fuel_suffices cfg f srcType adaptee target
  unfold adaptInner at hfuel
  simp only [runAdaptCall, callEff_adapt cfg hne, adapt, adaptInner]
  cases hp : cfg.provides srcType target with
  | true => simp [viewOut]
  | false =>
    rcases hl : adaptLoop cfg f adaptee target (fuelFor cfg) (initSt srcType) with ⟨res, tr⟩
    rw [hl] at hfuel
    cases res with
    | found p a => simp [viewOut]
    | raised e => simp [viewOut]
    | outOfFuel => exact absurd rfl hfuel
    | notFound => cases hasDefault <;> simp [viewOut, noneResult, adaptDefault, userDefault]

open TraitsVerif.Model.PyA TraitsVerif.Generated.AdaptProg TraitsVerif.Lemmas.AdaptSource in
/-- **`supports_protocol` is its source** (`self.adapt(obj, protocol, _MISSING) is not _MISSING`). -/
theorem C17_supports_is_source (cfg : Cfg) (hne : NonEmptyGroups cfg) (f : Factory α) (srcType : Nat)
    (adaptee : α) (target : Nat) :
    runSupportsCall adaptProg cfg f srcType adaptee target (fuelFor cfg) =
      supportsProtocol cfg f srcType adaptee target := by
  have hfuel := fuel_suffices cfg f srcType adaptee target
  unfold adaptInner at hfuel
  simp only [runSupportsCall, callEff_supports cfg hne, supportsProtocol, adapt, adaptInner]
  cases hp : cfg.provides srcType target with
  | true => simp
  | false =>
    rcases hl : adaptLoop cfg f adaptee target (fuelFor cfg) (initSt srcType) with ⟨res, tr⟩
    rw [hl] at hfuel
    cases res with
    | found p a => simp
    | raised e => simp
    | outOfFuel => exact absurd rfl hfuel
    | notFound => simp [noneResult]

open TraitsVerif.Model.PyA TraitsVerif.Generated.AdaptProg TraitsVerif.Lemmas.AdaptSource in
/-- **`register_offer` is its source**: interpreting
`offers = self._adaptation_offers.setdefault(offer.from_protocol_name, []); offers.append(offer)`
(the bucket is an alias of the list in the dict) on any registry gives the model's
`registerOffer`; hence registering a sequence of offers on a fresh manager gives `registry`,
the registry `C17_registry_nonempty` and `Homogeneous` (F16: buckets are keyed by NAME) speak about. -/
theorem C17_register_is_source (reg : List (Nat × List Offer)) (o : Offer) (os : List Offer) :
    runRegisterOffer adaptProg reg o = some (registerOffer reg o) ∧
    os.foldlM (runRegisterOffer adaptProg) [] = some (registry os) := by
  refine ⟨register_eq reg o, ?_⟩
  have fold : ∀ (os : List Offer) (r : List (Nat × List Offer)),
      os.foldlM (runRegisterOffer adaptProg) r = some (os.foldl registerOffer r) := by
    intro os
    induction os with
    | nil => intro r; rfl
    | cons o os ih => intro r; simp [List.foldlM_cons, register_eq, ih]
  exact fold os []

open TraitsVerif.Generated.AdaptProg in
/-- The registration wrappers and the bucket key are not interpreted; what the model assumes of
them is pinned to their statement texts (any edit breaks this obligation):
`register_factory(f, A, B)` is `register_offer` of a new `AdaptationOffer(factory=f, from_protocol=A,
to_protocol=B)` (the model's `Offer` with `frm = A`, `to = B`, a fresh `id`);
`register_provides(A, B)` is `register_factory(no_adapter_necessary, A, B)` with
`no_adapter_necessary(x) = x` (an identity factory: kind `p` of the harness);
`from_protocol_name` — the model's `Offer.key` — is the string itself for a lazily named
protocol and `module + "." + __name__` for a class: NOT `__qualname__`, not identity (F16). -/
theorem C17_register_wrappers_source :
    registerFactorySource =
      ["def register_factory(self, factory, from_protocol, to_protocol)",
       "from traits.adaptation.adaptation_offer import AdaptationOffer",
       "self.register_offer(AdaptationOffer(factory=factory, from_protocol=from_protocol, to_protocol=to_protocol))"] ∧
    registerProvidesSource =
      ["def register_provides(self, provider_protocol, protocol)",
       "self.register_factory(no_adapter_necessary, provider_protocol, protocol)"] ∧
    noAdapterNecessarySource = ["def no_adapter_necessary(adaptee)", "return adaptee"] ∧
    offerNameSource =
      ["def _get_from_protocol_name(self)",
       "return self._get_type_name(self._from_protocol)",
       "def _get_type_name(self, type_or_type_name)",
       "if isinstance(type_or_type_name, str): type_name = type_or_type_name else: type_name = '{module}.{name}'.format(module=type_or_type_name.__module__, name=type_or_type_name.__name__)",
       "return type_name"] :=
  ⟨rfl, rfl, rfl, rfl⟩

open TraitsVerif.Lemmas.AdaptSource in
/-- What `register_offer` builds has no empty bucket (`offers[0]` in
`_get_applicable_offers` never raises). -/
theorem C17_registry_nonempty (provides : Nat → Nat → Bool) (supers : Nat → List Nat) (os : List Offer) :
    NonEmptyGroups ⟨provides, supers, groupsOf os⟩ := by
  have step : ∀ (reg : List (Nat × List Offer)) (o : Offer), (∀ kv ∈ reg, kv.2 ≠ []) →
      ∀ kv ∈ registerOffer reg o, kv.2 ≠ [] := by
    intro reg o h kv hkv
    unfold registerOffer at hkv
    split at hkv
    · obtain ⟨kv', hm, rfl⟩ := List.mem_map.1 hkv
      split
      · simp
      · exact h _ hm
    · rcases List.mem_append.1 hkv with hm | hm
      · exact h _ hm
      · simp only [List.mem_singleton] at hm; subst hm; simp
  have fold : ∀ (os : List Offer) (reg : List (Nat × List Offer)), (∀ kv ∈ reg, kv.2 ≠ []) →
      ∀ kv ∈ os.foldl registerOffer reg, kv.2 ≠ [] := by
    intro os
    induction os with
    | nil => intro reg h; exact h
    | cons o os ih => intro reg h; exact ih _ (step reg o h)
  intro g hg
  simp only [groupsOf, registry] at hg
  obtain ⟨kv, hm, rfl⟩ := List.mem_map.1 hg
  exact fold os [] (by simp) kv hm

open TraitsVerif.Model.PyA TraitsVerif.Generated.AdaptProg TraitsVerif.Lemmas.AdaptSource in
/-- Completeness as a statement about the interpreted source: the translated `_adapt`
returns `None` exactly when no valid chain has factories that all succeed. -/
theorem C17_source_complete {cfg : Cfg} {f : Factory α} {srcType : Nat} {adaptee : α} {target : Nat}
    (hne : NonEmptyGroups cfg) (hdet : Deterministic f) (hnr : NoRaise f) (hh : Homogeneous cfg) :
    (runAdapt adaptProg cfg f srcType adaptee target (fuelFor cfg)).1 = .notFound ↔
      ¬ ∃ chain a, ValidChain cfg srcType target chain ∧ SucceedsFrom f 0 chain adaptee a := by
  rw [C17_search_is_source cfg hne, ← C17_complete hdet hnr hh]
  cases (adaptInner cfg f srcType adaptee target).1 <;> simp [viewRes]

open TraitsVerif.Model.PyA TraitsVerif.Generated.AdaptProg TraitsVerif.Lemmas.AdaptSource in
/-- Soundness and minimality as statements about the interpreted source: an adapter
returned by the translated `_adapt` was produced by a valid chain all of whose
factories succeeded, and (deterministic factories) no successful valid chain is shorter. -/
theorem C17_source_sound_minimal {cfg : Cfg} {f : Factory α} {srcType : Nat} {adaptee : α} {target : Nat}
    (hne : NonEmptyGroups cfg) (hh : Homogeneous cfg) {a : α}
    (h : (runAdapt adaptProg cfg f srcType adaptee target (fuelFor cfg)).1 = .found a) :
    ∃ path, ValidChain cfg srcType target path ∧ (∃ k, SucceedsFrom f k path adaptee a) ∧
      (Deterministic f → ∀ chain a', ValidChain cfg srcType target chain → SucceedsFrom f 0 chain adaptee a' →
        path.length ≤ chain.length) := by
  rw [C17_search_is_source cfg hne] at h
  rcases hin : adaptInner cfg f srcType adaptee target with ⟨r, tr⟩
  rw [hin] at h
  cases r with
  | found p a' =>
    simp only [viewRes, ResV.found.injEq] at h
    subst h
    refine ⟨p, ?_, ?_, fun hdet => C17_minimal hdet hh hin⟩
    · unfold adaptInner at hin
      obtain ⟨hc, _, _⟩ := adaptLoop_sound (cfg := cfg) (src := srcType) _ _ (by
        intro e he
        simp only [initSt, List.mem_singleton] at he
        subst he
        exact ⟨Reach.nil, rfl, rfl⟩) _ _ _ hin
      exact hc.valid hh
    · unfold adaptInner at hin
      obtain ⟨_, tr'', hw⟩ := adaptLoop_sound (cfg := cfg) (src := srcType) _ _ (by
        intro e he
        simp only [initSt, List.mem_singleton] at he
        subst he
        exact ⟨Reach.nil, rfl, rfl⟩) _ _ _ hin
      exact ⟨_, (walk_done_iff f _ _ _ _).1 hw⟩
  | raised e => simp [viewRes] at h
  | notFound => simp [viewRes] at h
  | outOfFuel => simp [viewRes] at h

-- the interpreted `register_offer`: two offers under one name share a bucket, a third name opens a new one
open TraitsVerif.Model.PyA TraitsVerif.Generated.AdaptProg in
example : [⟨0, 0, 2, 0⟩, ⟨1, 1, 2, 0⟩, ⟨2, 3, 2, 3⟩].foldlM (runRegisterOffer adaptProg) [] =
    some [(0, [⟨0, 0, 2, 0⟩, ⟨1, 1, 2, 0⟩]), (3, [⟨2, 3, 2, 3⟩])] := by
  rw [(C17_register_is_source [] ⟨0, 0, 0, 0⟩ _).2]; decide

-- the interpreted source on the chain registry: the direct offer declines, the two-step chain is taken
open TraitsVerif.Model.PyA TraitsVerif.Generated.AdaptProg TraitsVerif.Lemmas.AdaptSource in
example : NonEmptyGroups chainCfg ∧
    runAdapt adaptProg chainCfg (refusing [0]) 3 () 2 (fuelFor chainCfg) =
      (.found (), [⟨0, .none⟩, ⟨1, .ok⟩, ⟨2, .ok⟩]) := by
  have hne : NonEmptyGroups chainCfg := by unfold NonEmptyGroups; decide
  refine ⟨hne, ?_⟩
  rw [C17_search_is_source chainCfg hne]
  decide

end TraitsVerif.Props.C17
