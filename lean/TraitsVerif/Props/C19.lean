/-
Property C19 — a failing user callback never leaves an object half-updated.

No new model: this file collects, per callback site of the property's list, the
atomicity theorem of the cluster that owns it, stated with the callback as an
arbitrary partial function failing at an arbitrary call ordinal `k`, plus the
"twin" theorem: after a failure every subsequent operation behaves exactly as
on an object that never saw it.  (Sections are added as clusters land.)
-/
import TraitsVerif.Lemmas.SeqFault
import TraitsVerif.Props.C04
import TraitsVerif.Props.C12
import TraitsVerif.Props.C17
import TraitsVerif.Props.C02
import TraitsVerif.Props.C10
import TraitsVerif.Lemmas.Effects
import TraitsVerif.Generated.Effects
namespace TraitsVerif.Props.C19
open TraitsVerif TraitsVerif.Py TraitsVerif.Model
variable {α : Type}

/-! ### Container item validator failing at its k-th item (List traits) -/

/-- `extend` / `+=` / slice assignment / whole-value assignment: when the item
validator accepts the first `k` items and raises `e` on the next, the
`TraitList` operation raises exactly `e` (the exception reaches the caller
unchanged). -/
theorem C19_list_kth_item_fails (E : Env α) (l pre post : List α) (x : α) (e : Exc)
    (hpre : ∀ i (hi : i < pre.length), ∃ y, E.v i pre[i] = .ok y)
    (hx : E.v pre.length x = .error e) :
    TraitList.step E l (.extend (pre ++ x :: post)) = .error e
    ∧ TraitList.step E l (.iadd (pre ++ x :: post)) = .error e
    ∧ (∀ s r, Py.getSlice l s = .ok r →
        TraitList.step E l (.setSlice s (pre ++ x :: post)) = .error e) := by
  have hv : valAll E.v 0 (pre ++ x :: post) = .error e :=
    valAll_kth_fails E.v e pre x post 0 (by simpa using hpre) (by simpa using hx)
  refine ⟨by simp [TraitList.step, hv], by simp [TraitList.step, hv], ?_⟩
  intro s r hr
  simp [TraitList.step, hr, hv]

/-- With the length guard in front (List trait): the caller sees `e` or the
guard's `TraitError` (or, for an impossible slice, what `list` raises), never
a success — for every mutator that carries items. -/
theorem C19_listobject_kth_item_fails (c : LenCfg) (E : Env α) (l pre post : List α) (x : α)
    (e : Exc)
    (hpre : ∀ i (hi : i < pre.length), ∃ y, E.v i pre[i] = .ok y)
    (hx : E.v pre.length x = .error e) :
    (∃ e', TraitListObject.step c E l (.extend (pre ++ x :: post)) = .error e' ∧
        (e' = e ∨ e' = .traitError))
    ∧ (∃ e', TraitListObject.assign c E (pre ++ x :: post) = .error e' ∧
        (e' = e ∨ e' = .traitError)) := by
  have hv : valAll E.v 0 (pre ++ x :: post) = .error e :=
    valAll_kth_fails E.v e pre x post 0 (by simpa using hpre) (by simpa using hx)
  constructor
  · simp only [TraitListObject.step, guardLen]
    split
    · exact ⟨e, by simp [TraitList.step, hv], Or.inl rfl⟩
    · exact ⟨.traitError, rfl, Or.inr rfl⟩
  · simp only [TraitListObject.assign]
    split
    · exact ⟨e, hv, Or.inl rfl⟩
    · exact ⟨.traitError, rfl, Or.inr rfl⟩

/-- **The source itself is atomic**: whatever makes a translated
`TraitListObject` method (with `super()` = the translated `TraitList` method)
raise — the k-th item validator call, the length guard, the builtin — the
interpreted source ends with the list as it was and nobody notified.  This is
the statement of C19 for list mutators about `Generated/ListProg.lean`, i.e.
about the text of `trait_list_object.py` as it is on this run. -/
theorem C19_list_source_no_effect (c : LenCfg) (E : Env α) (l : List α) (op : Op α) (e : Exc)
    (items : List α) (evs : List (Event α))
    (h : PyL.runTraitListObjectOp Generated.listHelpers Generated.traitListProg Generated.traitListObjectProg
          c E l op = .raised e items evs) :
    items = l ∧ evs = [] := by
  rw [C04.C04_step_is_source] at h
  cases hs : TraitListObject.step c E l op with
  | ok o => simp [PyL.summaryOfStep, hs] at h
  | error e' =>
    simp only [PyL.summaryOfStep, hs, PyL.Summary.raised.injEq] at h
    exact ⟨h.2.1.symm, h.2.2.symm⟩

/-- The k-th item validator call raising, at the level of the source: `extend`
raises `e` (or the guard's `TraitError`), list untouched, no event. -/
theorem C19_list_source_kth_item_fails (c : LenCfg) (E : Env α) (l pre post : List α) (x : α) (e : Exc)
    (hpre : ∀ i (hi : i < pre.length), ∃ y, E.v i pre[i] = .ok y)
    (hx : E.v pre.length x = .error e) :
    ∃ e', PyL.runTraitListObjectOp Generated.listHelpers Generated.traitListProg Generated.traitListObjectProg
            c E l (.extend (pre ++ x :: post)) = .raised e' l [] ∧ (e' = e ∨ e' = .traitError) := by
  obtain ⟨⟨e', h1, h2⟩, _⟩ := C19_listobject_kth_item_fails c E l pre post x e hpre hx
  exact ⟨e', by rw [C04.C04_step_is_source, h1]; rfl, h2⟩

/-- **No effect at all**: a failing step of a List trait leaves contents and
emits nothing (the history goes on from the same state). -/
theorem C19_list_no_effect (c : LenCfg) (E : Env α) (l : List α) (op : TOp α)
    (ops : List (TOp α)) (e : Exc) (h : TraitListObject.tstep c E l op = .error e) :
    TraitListObject.run c E l (op :: ops) = .error e :: TraitListObject.run c E l ops :=
  C04.C04_reject_atomic_silent c E l op ops e h

/-- **Twin**: the outputs of everything executed after a failing operation are
those of the same history without that operation — the object behaves as one
that never saw the failure. -/
theorem C19_list_twin (c : LenCfg) (E : Env α) (l : List α) (ops1 ops2 : List (TOp α))
    (op : TOp α) (e : Exc)
    (h : TraitListObject.tstep c E (TraitListObject.final c E l ops1) op = .error e) :
    TraitListObject.run c E l (ops1 ++ op :: ops2)
      = TraitListObject.run c E l ops1
        ++ .error e :: TraitListObject.run c E (TraitListObject.final c E l ops1) ops2
    ∧ TraitListObject.run c E l (ops1 ++ ops2)
      = TraitListObject.run c E l ops1
        ++ TraitListObject.run c E (TraitListObject.final c E l ops1) ops2 := by
  refine ⟨?_, TraitListObject.run_append c E l ops1 ops2⟩
  rw [TraitListObject.run_append]
  simp [TraitListObject.run, h]

/-! ### Key / value / member validators of Dict and Set traits -/

section DictSet
variable {K V : Type} [DecidableEq K]

/-- Dict: whatever makes the operation fail (in particular a key or value
validator raising at any call ordinal), the contents are as before, no notifier
in any notifier list is called, and the exception is the validator's own or the
builtin dict's KeyError. -/
theorem C19_dict_no_effect (kv : Callback K K) (vv : Callback V V) (d : Py.Dict K V)
    (op : Py.Dict.Op K V) (e : Exc) (h : Model.Map.TraitDict.step kv vv d op = .error e) :
    (Model.Map.TraitDict.next kv vv d op = d
      ∧ ∀ ns, Model.Map.TraitDict.notifications kv vv ns d op = [])
    ∧ (Model.Map.validateOp kv vv d op = .error e ∨
        (e = .keyError ∧ ∃ op', Model.Map.validateOp kv vv d op = .ok op'
          ∧ Py.Dict.step d op' = .error .keyError)) :=
  ⟨C06.C06_atomic kv vv d op e h, C06.C06_failure_causes kv vv d op e h⟩

/-- Dict twin: after a failed operation the rest of the history is that of a
dict that never saw it (`run` continues from the same contents). -/
theorem C19_dict_twin (kv : Callback K K) (vv : Callback V V) (d : Py.Dict K V)
    (op : Py.Dict.Op K V) (ops : List (Py.Dict.Op K V)) (e : Exc)
    (h : Model.Map.TraitDict.step kv vv d op = .error e) :
    Model.Map.TraitDict.run kv vv d (op :: ops) = .error e :: Model.Map.TraitDict.run kv vv d ops := by
  simp [Model.Map.TraitDict.run, Model.Map.TraitDict.next, h]

end DictSet

section SetPart
variable {β : Type} [DecidableEq β]

/-- Set: the same for the item validator. -/
theorem C19_set_no_effect (v : Callback β β) (s : Py.PSet β) (op : Py.PSet.Op β) (e : Exc)
    (h : Model.SetM.TraitSet.step v s op = .error e) :
    Model.SetM.TraitSet.next v s op = s ∧ Model.SetM.TraitSet.notification v s op = none :=
  C07.C07_atomic v s op e h

theorem C19_set_twin (v : Callback β β) (s : Py.PSet β) (op : Py.PSet.Op β)
    (ops : List (Py.PSet.Op β)) (e : Exc) (h : Model.SetM.TraitSet.step v s op = .error e) :
    Model.SetM.TraitSet.run v s (op :: ops) = .error e :: Model.SetM.TraitSet.run v s ops := by
  simp [Model.SetM.TraitSet.run, Model.SetM.TraitSet.next, h]

end SetPart

/-! ### Property getter raising -/

/-- A cached-property getter that raises writes no cache entry; the next read
calls the getter again (C12's model). -/
theorem C19_getter_raises {Val : Type} (P : Model.Property.Env Val) (s : Model.Property.St Val)
    (e : Exc) (hmiss : s.cache = none) (hr : P.G s.calls s.heap = .error e) :
    (Model.Property.readProp P s).1 = .error e ∧ (Model.Property.readProp P s).2.cache = none
    ∧ ∀ v, P.G (s.calls + 1) s.heap = .ok v →
        (Model.Property.readProp P (Model.Property.readProp P s).2).1 = .ok v :=
  have h := C12.C12_getter_raises P s e hmiss hr
  ⟨by rw [h.1], h.2.1, fun v hv => (h.2.2 v hv).1⟩

/-! ### Adapter factory raising -/

/-- An exception that comes out of the adaptation search is exactly one a
factory raised (it reaches the caller unchanged); the offer registry is an
immutable parameter of the search, so nothing is registered or lost by a
failing adaptation. -/
theorem C19_factory_raises {α : Type} (cfg : Model.Adapt.Cfg) (f : Model.Adapt.Factory α)
    (adaptee : α) (target fuel : Nat) (st : Model.Adapt.St) (e : Exc)
    (h : (Model.Adapt.adaptLoop cfg f adaptee target fuel st).1 = .raised e) :
    ∃ k o a', f k o a' = .raise e :=
  Lemmas.Adapt.adaptLoop_raised cfg f adaptee target fuel st e h

/-! ### Custom trait validator raising; change handler raising (scalar attributes) -/

/-- A validator that raises (TraitError or anything else) during an attribute
assignment: the exception reaches the caller unchanged, nothing is stored, no
handler is called — the object state is the pre-state up to the validator's own
call counter (C02's model of `setattr_trait` / `setattr_event`). -/
theorem C19_validator_raises (E : Model.Attr.Env) (t : Model.Attr.TraitCore) (s : Model.Attr.OSt)
    (v : Model.Attr.Id) (e : Exc) (nv : Nat)
    (hrej : Model.Attr.specValidate E t (t.kind == .trait) s.ctx.nval v = (.error e, nv)) :
    Model.Attr.step E t s (.set v) = ({ exc := some e }, s.withNval nv) :=
  C02.C02_rejected_silent E t s v e nv hrej

/-- A change handler that raises (under the default, non-re-raising exception
handlers): the operation is complete and all other handlers still run — the
whole final state, every handler's call log included, is the one reached with
handlers that never raise; hence every subsequent operation behaves as on an
object whose handlers never failed. -/
theorem C19_handler_raises (E : Model.Attr.Env)
    (g : Nat → Callback (Model.Attr.Id × Model.Attr.Id) Model.Attr.HAct)
    (q : Model.Attr.Quiet E) (q' : Model.Attr.Quiet { E with handler := g })
    (t : Model.Attr.TraitCore) (h : List Model.Attr.Op) (s : Model.Attr.OSt) :
    Model.Attr.run E t s h = Model.Attr.run { E with handler := g } t s h :=
  C02.C02_handler_exception E g q q' t h s

/-! ### Default factory / `_name_default` raising -/

/-- A default factory or `_name_default` method that raises on a read: the
exception reaches the caller (unchanged, except that an AttributeError becomes
the UserWarning-as-error when warnings are errors — `surfaced`), nothing is
stored, no handler and no post_setattr hook is called; the only change is the
recorded factory call, so the next read calls the factory again (C10's model of
`getattr_trait` / `default_value_for`). -/
theorem C19_default_raises (E : Model.Attr.Env) (t : Model.Attr.TraitCore) (s : Model.Attr.OSt) (e : Exc)
    (hk : t.kind = .trait) (hu : Model.Attr.callsUser t) (hs : s.slot = none)
    (hr : E.factory (t.dv.getD Model.Attr.noneId) s.ctx.fcalls.length (Model.Attr.factoryArg t s.self) = .error e) :
    (Model.Attr.step E t s .get).1 = { exc := some (Model.Attr.surfaced E e) }
    ∧ (Model.Attr.step E t s .get).2.slot = none
    ∧ (Model.Attr.step E t s .get).2.ctx.log = s.ctx.log
    ∧ (Model.Attr.step E t s .get).2.ctx.postLog = s.ctx.postLog :=
  have h := C10.C10_default_raises E t s e hk hu hs hr
  ⟨h.1, h.2.2.1, h.2.2.2.1, h.2.2.2.2.1⟩

/-! ### Validation precedes mutation precedes notification (source order)

In the functional models above a failing step carries no state, so "no effect"
is true by construction.  The following two theorems close that gap from the
source side: the order of effects on every control-flow path of every mutator
is read from the source by a translator, and for *every* effect sequence in
that order a failure at any point leaves the container unmutated and nobody
notified. -/

open Model.Effects in
/-- **Source order** (decide over the table regenerated from the working tree):
on every path of every mutator of TraitList, TraitListObject, TraitDict and
TraitSet all validator calls and guards come first, then the builtin mutation,
then at most one notification.  Interleaving validation with mutation, or
notifying before mutating, breaks this obligation. -/
theorem C19_effects_ordered :
    ∀ r ∈ Generated.containerEffects, ∀ p ∈ r.2.2, orderedStr p = true := by
  decide

open Model.Effects in
/-- **Order ⇒ atomicity**, for every effect sequence in that order and every
failure point: if the effect that raises is a validator call or a guard, the
container has not been mutated and nobody has been notified; if it is the
builtin operation itself, nobody has been notified; and without a failure at
most one notification is sent. -/
theorem C19_ordered_atomic (fails : Nat → Bool) (es : List Eff) (hord : ordered 0 es = true) :
    match exec fails 0 es {} with
    | (s', none) => s'.notified ≤ 1
    | (s', some j) =>
      ((es[j]? = some .V ∨ es[j]? = some .G) → s'.mutated = false ∧ s'.notified = 0)
      ∧ (es[j]? = some .M → s'.notified = 0) := by
  have h := exec_ordered fails es 0 0 {} hord ⟨fun _ => ⟨rfl, rfl⟩, fun _ => rfl, by simp⟩
  cases hex : exec fails 0 es {} with
  | mk s' r =>
    rw [hex] at h
    cases r with
    | none => exact h
    | some j =>
      obtain ⟨e, he, _, h1, h2⟩ := h
      simp only [Nat.sub_zero] at he h1
      constructor
      · intro hj
        have hpre := (ordered_prefix es 0 j hord hj).2
        have hev : e = .V ∨ e = .G := by
          rcases hj with hj | hj <;> (rw [he] at hj; simp only [Option.some.injEq] at hj)
          · exact Or.inl hj
          · exact Or.inr hj
        exact h1 hev hpre
      · intro hj
        rw [he] at hj; simp only [Option.some.injEq] at hj
        exact h2 (Or.inr (Or.inr hj))

/-! ### Non-vacuity -/

/-- The second validator call raises ValueError inside `extend`. -/
example :
    (TraitList.step { C04.rejNeg with v := fun k x => if k = 1 then .error .valueError else .ok x }
      [1] (.extend [5, 6, 7])).toOption.isNone = true := by decide

/-- The discipline is not vacuous: `VVMN` is ordered, `VMVN` (validate after a mutation) and
`NM` (notify before mutating) are not. -/
example : Model.Effects.orderedStr "VVMN" = true ∧ Model.Effects.orderedStr "VMVMN" = false
    ∧ Model.Effects.orderedStr "NM" = false := by decide

end TraitsVerif.Props.C19
