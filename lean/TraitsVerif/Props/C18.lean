/-
C18 - the compiled core is memory-safe and reference-neutral under any API use.

What is PROVED here (DESIGN §5 C18):

 (a) table-index safety of `func_index` / `__getstate__` / `__setstate__` /
     `trait_new` / `_trait_set_property` / `_trait_delegate` /
     `_trait_set_validate` / `_trait_set_default_value`, over the tables and
     guards TRANSLATED from the working tree's `ctraits.c`
     (`Generated/CTables.lean`): removing a table entry, widening a guard or
     adding an assignment of an unlisted function breaks a theorem below;
 (b) the reference ledger of the attribute core (`Model/RefLedger`): a
     rejected assignment is neutral, a successful one moves exactly the
     references of the slot written, and no operation, however it ends, changes
     a reference count that is not a slot.

What is NOT provable in a model and is searched for at run time instead
(harness/props/c18.py, sanitizer tier): out-of-bounds accesses, use after
free, undefined behaviour of the real machine code.

 (c) reference ownership where the C code hands references over or replaces
     them: `_warn_on_attribute_error` (a failing default computation under any
     warnings filter) and the raw `CTrait` entry points with ALIASED arguments
     (`Model/RefLedger` `Warn`, `Raw`), plus the structural facts translated
     from the working tree that those models rest on (a stolen reference is not
     released again; a field is not released before it is stored again).

 (d) reference neutrality of the C TEXT, path by path (`Generated/RefPaths.lean`,
     translated from the working tree by `harness/translate/crefpaths.py`): on
     every control-flow path of 134 of the 153 functions of the file -
     including the allocation-failure paths no generator reaches - every
     reference acquired is released, returned, stolen or stored exactly once,
     and nothing is released that is not held (`C18_paths_balanced*`, no
     exceptions).

Only property theorems and their non-vacuity examples live here; helpers are
in Lemmas/CTabIndex.lean, Lemmas/CTabLedger.lean and Lemmas/CTabRaw.lean.
-/
import TraitsVerif.Lemmas.CTabIndex
import TraitsVerif.Lemmas.CTabLedger
import TraitsVerif.Lemmas.CTabRaw
import TraitsVerif.Generated.RefPaths
import TraitsVerif.Generated.RefBorrows
import TraitsVerif.Lemmas.RefPaths
namespace TraitsVerif.Props.C18
open TraitsVerif TraitsVerif.Generated TraitsVerif.Model.FuncIndex TraitsVerif.Lemmas.CTab

/-! ## (a) Table-index safety -/

/-- The unbounded `for` of `func_index` stops inside the array: every function
that any assignment in `ctraits.c` can put into a field is an entry of the
table `__getstate__` searches for that field, and the index returned names it. -/
theorem C18_func_index_total (f : Field) (fn : String) (h : fn ∈ assignable f) :
    ∃ i, funcIndex fn (stateTable f) = some i ∧ i < (stateTable f).length ∧
      (stateTable f)[i]? = some fn := by
  have := assignable_covered f (field_mem_all f) fn h
  obtain ⟨i, hi⟩ := Option.isSome_iff_exists.mp this
  exact ⟨i, hi, funcIndex_spec hi⟩

/-- The hand-written API model writes nothing the translated assignment sites
do not know: every field of every constructible trait is assignable. -/
theorem C18_constructible_assignable {t : Fns} (h : Constructible t) (f : Field) :
    t.get f ∈ assignable f :=
  (good_of_constructible h).1 f

/-- `__getstate__` of any trait a program can build returns, and all five
indices lie inside their tables. -/
theorem C18_getstate_in_bounds {t : Fns} (h : Constructible t) :
    ∃ i, getstateIdx t = some i ∧ ∀ f, i.get f < (stateTable f).length ∧
      (stateTable f)[i.get f]? = some (t.get f) := by
  have ha := C18_constructible_assignable h
  obtain ⟨a, ha1, ha2⟩ := C18_func_index_total .getattr _ (ha .getattr)
  obtain ⟨b, hb1, hb2⟩ := C18_func_index_total .setattr _ (ha .setattr)
  obtain ⟨c, hc1, hc2⟩ := C18_func_index_total .postSetattr _ (ha .postSetattr)
  obtain ⟨d, hd1, hd2⟩ := C18_func_index_total .validate _ (ha .validate)
  obtain ⟨e, he1, he2⟩ := C18_func_index_total .delegateAttrName _ (ha .delegateAttrName)
  refine ⟨⟨a, b, c, d, e⟩, ?_, ?_⟩
  · simp only [Fns.get] at ha1 hb1 hc1 hd1 he1
    simp [getstateIdx, ha1, hb1, hc1, hd1, he1]
  · intro f
    cases f
    · exact ha2
    · exact hb2
    · exact hc2
    · exact hd2
    · exact he2

/-- The indices `__getstate__` produced are valid subscripts of the tables
`__setstate__` reads (which are the same tables), so the five unchecked
subscripts of `_trait_setstate` stay inside their initialisers. -/
theorem C18_setstate_of_getstate_in_bounds {t : Fns} {i : Idx} (h : Constructible t)
    (hg : getstateIdx t = some i) :
    (∃ t', setstateIdx i = some t') ∧
      ∀ f, i.get f < (tableNamed (restoreTableName f)).length := by
  obtain ⟨i', hi', hb⟩ := C18_getstate_in_bounds h
  rw [hg] at hi'
  cases hi'
  constructor
  · have e := fun f => (hb f).2
    have r := fun f => restore_table_eq f (field_mem_all f)
    refine ⟨⟨t.getattr, t.setattr, t.postSetattr, t.validate, t.delegateAttrName⟩, ?_⟩
    have e1 := e .getattr; have e2 := e .setattr; have e3 := e .postSetattr
    have e4 := e .validate; have e5 := e .delegateAttrName
    simp only [stateTable, Fns.get, Idx.get] at e1 e2 e3 e4 e5
    simp [setstateIdx, tableAt, r, e1, e2, e3, e4, e5]
  · intro f
    rw [restore_table_eq f (field_mem_all f)]
    exact (hb f).1

/-- Every integer the guards of `trait_new`, `_trait_set_property`,
`_trait_delegate` and `_trait_set_validate` let through subscripts its table
inside the initialiser, at an entry that is not `NULL`; `trait_new` moreover
installs exactly the handler pair of that `TraitKind` and never a property
handler (those dereference fields only `_trait_set_property` fills). -/
theorem C18_kind_in_bounds :
    (∀ k : Int, admitted "trait_new" "kind" k = true →
      k.toNat < (tableNamed "getattr_handlers").length ∧ k.toNat < (tableNamed "setattr_handlers").length ∧
      ent "getattr_handlers" k.toNat ≠ NULL ∧ ent "setattr_handlers" k.toNat ≠ NULL ∧
      requiresProperty (ent "getattr_handlers" k.toNat) = false ∧
      requiresProperty (ent "setattr_handlers" k.toNat) = false ∧
      kindHandlers[k.toNat]? = some (ent "getattr_handlers" k.toNat, ent "setattr_handlers" k.toNat)) ∧
    (∀ k : Int, admitted "_trait_set_property" "get_n" k = true →
      k.toNat < (tableNamed "getattr_property_handlers").length ∧ ent "getattr_property_handlers" k.toNat ≠ NULL) ∧
    (∀ k : Int, admitted "_trait_set_property" "set_n" k = true →
      k.toNat < (tableNamed "setattr_property_handlers").length ∧ ent "setattr_property_handlers" k.toNat ≠ NULL) ∧
    (∀ k : Int, admitted "_trait_set_property" "validate_n" k = true →
      k.toNat < (tableNamed "setattr_validate_handlers").length ∧ ent "setattr_validate_handlers" k.toNat ≠ NULL) ∧
    (∀ k : Int, admitted "_trait_delegate" "prefix_type" k = true →
      k.toNat < (tableNamed "delegate_attr_name_handlers").length ∧
      ent "delegate_attr_name_handlers" k.toNat ≠ NULL) ∧
    (ent "delegate_attr_name_handlers" 0 ≠ NULL ∧ 0 < (tableNamed "delegate_attr_name_handlers").length) ∧
    (∀ k : Int, admitted "_trait_set_validate" "kind" k = true →
      k.toNat < (tableNamed "validate_handlers").length ∧ ent "validate_handlers" k.toNat ≠ NULL) := by
  refine ⟨?_, ?_, ?_, ?_, ?_, ?_, ?_⟩
  · intro k hk
    obtain ⟨h1, h2, h3, h4, h5, h6, h7, -, -⟩ := new_facts _ (admitted_guardList hk).1
    exact ⟨h1, h2, h3, h4, h5, h6, h7⟩
  · intro k hk
    obtain ⟨h1, h2, -⟩ := setProperty_facts.1 _ (admitted_guardList hk).1
    exact ⟨h1, h2⟩
  · intro k hk
    obtain ⟨h1, h2, -⟩ := setProperty_facts.2.1 _ (admitted_guardList hk).1
    exact ⟨h1, h2⟩
  · intro k hk
    obtain ⟨h1, h2, -⟩ := setProperty_facts.2.2.1 _ (admitted_guardList hk).1
    exact ⟨h1, h2⟩
  · intro k hk
    obtain ⟨h1, h2, -⟩ := delegate_facts.1 _ (admitted_guardList hk).1
    exact ⟨h1, h2⟩
  · obtain ⟨h1, h2, -⟩ := delegate_facts.1 _ delegate_facts.2
    exact ⟨h2, h1⟩
  · intro k hk
    obtain ⟨h1, h2, -⟩ := setValidate_facts _ (admitted_guardList hk).1
    exact ⟨h1, h2⟩

/-- `has_traits_getattro` / `has_traits_setattro` call `trait->getattr` and
`trait->setattr` without a NULL test: they are never NULL. -/
theorem C18_getattr_setattr_never_null {t : Fns} (h : Constructible t) :
    t.getattr ≠ NULL ∧ t.setattr ≠ NULL :=
  (good_of_constructible h).2

/-- Every `value_type` that `_trait_set_default_value` accepts has a `case` in
the `switch` of `default_value_for` (so that function never returns NULL
without an exception), and every case whose code subscripts the default-value
tuple is one whose tuple size `_trait_set_default_value` checked. -/
theorem C18_default_value_type_guard (vt : Int) (h : defaultValueTypeOk vt = true) :
    vt.toNat ∈ CTables.defaultValueForCases ∧
    ∀ size, (vt.toNat, size) ∈ CTables.defaultValueForTupleUse →
      ∃ size', size ≤ size' ∧ (vt.toNat, size') ∈ CTables.defaultValueCheckedTuples := by
  have fin : ∀ n ∈ List.range (CTables.defaultValueTypeGuard.2 + 1),
      CTables.defaultValueTypeGuard.1 ≤ n →
      n ∈ CTables.defaultValueForCases ∧
      ∀ p ∈ CTables.defaultValueForTupleUse, p.1 = n →
        ∃ q ∈ CTables.defaultValueCheckedTuples, q.1 = n ∧ p.2 ≤ q.2 := by decide
  simp only [defaultValueTypeOk, Bool.and_eq_true, decide_eq_true_eq] at h
  have hn : vt.toNat ∈ List.range (CTables.defaultValueTypeGuard.2 + 1) := by
    simp only [List.mem_range]; omega
  have hl : CTables.defaultValueTypeGuard.1 ≤ vt.toNat := by omega
  obtain ⟨h1, h2⟩ := fin _ hn hl
  refine ⟨h1, ?_⟩
  intro size hs
  obtain ⟨q, hq, hq1, hq2⟩ := h2 _ hs rfl
  refine ⟨q.2, hq2, ?_⟩
  have : q = (vt.toNat, q.2) := by rw [← hq1]
  rw [← this]; exact hq

/-- The state tuple is laid out consistently: every index `__getstate__` writes
at position `p` is read by `__setstate__` at position `p` with format unit `i`
into the variable that subscripts the same table; the tuple has as many items
as the format has units. -/
theorem C18_state_layout :
    CTables.getstateTupleSize = CTables.setstateFormat.length ∧
    CTables.setstateTargets.length = CTables.setstateFormat.length ∧
    ∀ r ∈ CTables.getstateIndexed,
      CTables.setstateFormat[r.1]? = some 'i' ∧
      ∃ s ∈ CTables.assignSites, s.1 = "_trait_setstate" ∧ s.2.1 = r.2.1 ∧ s.2.2.1 = "tbl" ∧
        s.2.2.2.1 = r.2.2 ∧ CTables.setstateTargets[r.1]? = some s.2.2.2.2 := by
  decide

/-- A widened guard or a reordered table cannot hide behind the other
theorems: fresh traits of kind `k` get the handlers of `TraitKind` `k`, and
nothing outside `0..8` is accepted. -/
theorem C18_kinds_as_modelled :
    guardList "trait_new" "kind" = List.range kindHandlers.length ∧
    (∀ k : Int, traitNew k = none ↔ ¬ (0 ≤ k ∧ k < kindHandlers.length)) := by
  have hg : guardList "trait_new" "kind" = List.range kindHandlers.length := by decide
  refine ⟨hg, ?_⟩
  intro k
  have key : admitted "trait_new" "kind" k = true ↔ (0 ≤ k ∧ k < kindHandlers.length) := by
    constructor
    · intro h
      obtain ⟨h1, h2⟩ := admitted_guardList h
      rw [hg, List.mem_range] at h1
      omega
    · intro ⟨h1, h2⟩
      have hm : k.toNat ∈ guardList "trait_new" "kind" := by
        rw [hg, List.mem_range]; omega
      have hgo : guardOf "trait_new" "kind" = some (guardList "trait_new" "kind") := by decide
      simp [admitted, hgo, h1, hm]
  unfold traitNew
  by_cases h : admitted "trait_new" "kind" k = true
  · simp [h, key.mp h]
  · simp only [h]
    simp only [Bool.false_eq_true, ↓reduceIte, true_iff]
    exact fun h' => h (key.mpr h')

/-- **No container steals a borrowed reference.**  `PyTuple_SET_ITEM` and
`PyList_SET_ITEM` take over the caller's reference: at every such statement of
`ctraits.c` the stored expression is a call returning a new reference, a
variable with `Py_INCREF` as the adjacent statement, or a variable last
assigned from a call returning a new reference - never the result of a
borrowing accessor (`PyTuple_GET_ITEM`, `PyList_GET_ITEM`, `PyDict_GetItem`, …).
(Translated from the working tree; dropping the `Py_INCREF` of the loop that
copies the leading items in `validate_trait_tuple_check` breaks it.) -/
theorem C18_stolen_references_owned :
    CTables.stolenReferences ≠ [] ∧
    ∀ r ∈ CTables.stolenReferences, r.2.2 = "call" ∨ r.2.2 = "incref" ∨ r.2.2 = "owned" := by
  decide

/-- **A dying object is invisible to the collector.**  Every `tp_dealloc` of
the file (both types are GC types) starts with `PyObject_GC_UnTrack`, so a
collection triggered from a finalizer while the fields are being cleared never
sees the object with reference count zero. -/
theorem C18_dealloc_untracks_first :
    CTables.deallocFirstStatement.length = 2 ∧
    ∀ r ∈ CTables.deallocFirstStatement, r.2 = "PyObject_GC_UnTrack" := by
  decide

/-- **A validated property is complete.**  `setattr_validate_property` calls
`traitd->validate` and `traitd->post_setattr` (which holds the property
setter) without a NULL test: for every constructible trait whose `setattr` is
that handler, both are there.  `_trait_set_property` installs the three
together, and `trait.post_setattr = …` no longer touches the slot of a
validated property (F77 repair; before it `trait.post_setattr = None` stored
NULL and `obj.p = 1` was a NULL call). -/
theorem C18_validated_property_complete {t : Fns} (h : Constructible t)
    (hs : t.setattr = "setattr_validate_property") : t.validate ≠ NULL ∧ t.postSetattr ≠ NULL := by
  induction h with
  | new hn =>
    rename_i k t
    unfold traitNew at hn
    split at hn
    · rename_i hk
      cases hn
      have f := new_facts _ (admitted_guardList hk).1
      have : requiresProperty (ent "setattr_handlers" k.toNat) = false := f.2.2.2.2.2.1
      simp only at hs
      rw [show (tableAt "setattr_handlers" k.toNat).getD OOB = ent "setattr_handlers" k.toNat from rfl] at hs
      rw [hs] at this
      exact absurd this (by decide)
    · cases hn
  | step op _ ha ih =>
    rename_i t t'
    cases op with
    | setValidate kind =>
      simp only [apply] at ha
      split at ha
      · rename_i hk
        cases ha
        exact ⟨(setValidate_facts _ (admitted_guardList hk).1).2.1, (ih hs).2⟩
      · cases ha
    | delegate p =>
      simp only [apply] at ha
      cases ha
      exact ih hs
    | setProperty g s v hasV =>
      simp only [apply] at ha
      split at ha
      · rename_i hk
        simp only [Bool.and_eq_true] at hk
        obtain ⟨⟨_, hs'⟩, hv'⟩ := hk
        have fs := setProperty_facts.2.1 _ (admitted_guardList hs').1
        have fv := setProperty_facts.2.2.1 _ (admitted_guardList hv').1
        cases hasV
        · simp only [Bool.false_eq_true, ↓reduceIte] at ha
          cases ha
          exact absurd hs fs.2.2.1
        · simp only [↓reduceIte] at ha
          cases ha
          exact ⟨fv.2.1, fs.2.1⟩
      · cases ha
    | setPostSetattr b =>
      simp only [apply] at ha
      split at ha
      · cases ha
        exact ih hs
      · rename_i hne
        cases ha
        exact absurd hs hne
  | restore _ hg hr ih =>
    rw [roundtrip_eq hg hr] at hs ⊢
    exact ih hs

/-- Regression example, the input of finding F77: `CTrait(4)`,
`property_fields = (get, set, validate)`, `post_setattr = None` - the setter
is still in place. -/
example :
    (apply ⟨"getattr_property1", "setattr_validate_property", "setattr_property2", "setattr_validate1", NULL⟩
      (.setPostSetattr false)) =
      some ⟨"getattr_property1", "setattr_validate_property", "setattr_property2", "setattr_validate1", NULL⟩ := by
  decide

/-- **Bare kinds are answered, not dereferenced.**  `trait_new` installs, for
`TraitKind.delegate` and `TraitKind.constant`, handlers that read a field
`trait_new` leaves NULL (`delegate_name` / `delegate_attr_name`,
`default_value`); a directly built `CTrait(0)` with a container default type
has no `handler` for `call_class`.  After the NULL tests (repairs of F75, F76,
F78) the outcome of using such a trait is modelled (`probeGet/Set/Del`) and is
an exception class or a value: DelegationError (a TraitError) for an undefined
delegate, None / "Cannot modify the constant" for a constant without default,
TraitError for a container default without handler.  The correspondence
(`T|…;probe`) compares exactly these with the real extension. -/
theorem C18_bare_kinds_answered :
    (∃ t, traitNew 3 = some t ∧ probeGet { fns := t } = .traitError ∧ probeSet { fns := t } = .traitError ∧
      probeDel { fns := t } = .traitError) ∧
    (∃ t, traitNew 7 = some t ∧ probeGet { fns := t } = .ok ∧ probeSet { fns := t } = .traitError) ∧
    (∃ t, traitNew 0 = some t ∧ ∀ k ∈ [5, 6, 9], probeGet { fns := t, dvt := k } = .traitError) := by
  decide

/-! Non-vacuity: the hypotheses above are met by real, non-trivial traits. -/

/-- `Property(Int)`'s CTrait (the trait of finding F3) is constructible, its
state is `(10, 13, 2, _, 16, …)` and restoring it gives the same pointers. -/
example :
    let t : Fns := ⟨"getattr_property1", "setattr_validate_property", "setattr_property2",
                    "setattr_validate1", NULL⟩
    Constructible t ∧ getstateIdx t = some ⟨10, 13, 2, 16, 4⟩ ∧ setstateIdx ⟨10, 13, 2, 16, 4⟩ = some t := by
  refine ⟨?_, by decide, by decide⟩
  exact .step (.setProperty 1 2 1 true) (.new (k := 4) (t := ⟨"getattr_event", "setattr_event", NULL, NULL, NULL⟩)
    (by decide)) (by decide)

example : admitted "trait_new" "kind" 8 = true ∧ admitted "trait_new" "kind" 9 = false ∧
    admitted "trait_new" "kind" (-1) = false ∧ defaultValueTypeOk 7 = true ∧ defaultValueTypeOk 11 = false := by
  decide

/-! ## (b) Reference ledger -/

open TraitsVerif.Model.RefLedger TraitsVerif.Lemmas.Ledger

/-- An assignment the validator rejects changes nothing: not a slot, not a
stray reference.  (`refs` is what `sys.getrefcount` minus its baseline reads.) -/
theorem C18_fail_neutral (E : Env) (c : TraitCfg) (s : St) (name : String) (key v : Id) (e : Exc)
    (hc : c.hasValidate = true) (hv : E.validate 0 v = .error e) :
    step E c s (.set name key v) = (some e, s) ∧
      ∀ id, refs (step E c s (.set name key v)).2 id = refs s id := by
  have : step E c s (.set name key v) = (some e, s) := by
    simp [step, setattrTrait, hc, hv]
  exact ⟨this, fun id => by rw [this]⟩

/-- So does a read whose default-value factory raises. -/
theorem C18_fail_neutral_factory (E : Env) (c : TraitCfg) (s : St) (name : String) (key : Id) (e : Exc)
    (hl : lookup s.dict name = none) (hd : E.dflt 0 () = .error e) :
    step E c s (.get name key) = (some e, s) := by
  simp [step, getattr, hl, getattrTrait, hd]

/-- A successful assignment stores the validated (or, under
`TRAIT_SETATTR_ORIGINAL_VALUE`, the original) value in the slot `name`, leaves
every other slot alone, creates no stray reference, and for EVERY object `id`
the references held change exactly by: −1 if `id` was the slot's old value,
+1 if it is the stored value, +1 if it is the key object of a new entry. -/
theorem C18_success_delta {E : Env} {c : TraitCfg} {s s' : St} {name : String} {key v : Id}
    (h : step E c s (.set name key v) = (none, s')) :
    ∃ value, (if c.hasValidate then E.validate 0 v else .ok v) = .ok value ∧
      lookup s'.dict name = some (storedOf c v value) ∧
      (∀ m, m ≠ name → lookup s'.dict m = lookup s.dict m) ∧
      s'.stray = s.stray ∧
      ∀ id, held s' id + b2n (lookup s.dict name = some id)
        = held s id + b2n (storedOf c v value = id) + b2n (lookup s.dict name = none ∧ key = id) := by
  obtain ⟨value, h1, h2, h3, h4⟩ := setattrTrait_held h
  exact ⟨value, h1, h2, h3, (setattrTrait_ok h).choose_spec.2.1, h4⟩

/-- Objects that are neither the stored value, nor the key, nor the value the
slot held before keep their count: nothing else is touched. -/
theorem C18_untouched {E : Env} {c : TraitCfg} {s s' : St} {name : String} {key v : Id}
    (h : step E c s (.set name key v) = (none, s')) (id : Id)
    (h1 : lookup s'.dict name ≠ some id) (h2 : key ≠ id) (h3 : lookup s.dict name ≠ some id) :
    held s' id = held s id := by
  obtain ⟨value, -, hl, -, -, hd⟩ := C18_success_delta h
  have := hd id
  have e1 : b2n (lookup s.dict name = some id) = 0 := by simp [b2n, h3]
  have e2 : b2n (storedOf c v value = id) = 0 := by
    have : storedOf c v value ≠ id := fun h' => h1 (by rw [hl, h'])
    simp [b2n, this]
  have e3 : b2n (lookup s.dict name = none ∧ key = id) = 0 := by simp [b2n, h2]
  omega

/-- **Ledger exact.**  Whatever an operation does and however it ends - the
validator, the default factory, `post_setattr`, a notifier or the `__hash__` of
the attribute name raising at any point - every reference-count change it makes
is a slot of the resulting state: no stray reference.  (Before f934ab1 this
needed the hypothesis that the name can always be hashed: the
`PyDict_SetItem` failure path of `setattr_trait` released the borrowed `name`,
finding F74.) -/
theorem C18_ledger_exact (E : Env) (c : TraitCfg) (s : St) (op : Model.RefLedger.Op) :
    (step E c s op).2.stray = s.stray := by
  cases op with
  | set name key v => exact setattrTrait_stray ..
  | del name key => exact delattrTrait_stray ..
  | get name key => exact getattr_stray ..

/-- An assignment whose `PyDict_SetItem` cannot hash the name, on a trait
without `post_setattr` and without notifiers (no default is materialised
first), is neutral as well: nothing changes. -/
theorem C18_fail_neutral_setitem (E : Env) (c : TraitCfg) (s : St) (name : String) (key v value : Id)
    (hp : c.hasPost = false) (hn : s.hasNotifiers = false)
    (hv : (if c.hasValidate then E.validate 0 v else .ok v) = .ok value) (hh : E.hashOk 0 = false) :
    step E c s (.set name key v) = (some hashExc, s) := by
  simp [step, setattrTrait, hv, hp, hn, setFinish, hh]

/-- Regression example, the input of finding F74: `setattr(obj, n, 5)` with the
`__hash__` of `n` raising inside `PyDict_SetItem`.  The operation raises and the
name object `7` keeps its count (it read −1 before f934ab1). -/
example :
    let E : Env := { validate := fun _ x => .ok x, dflt := fun _ _ => .ok 9, post := fun _ _ => .ok (),
                     notify := fun _ _ => .ok (), hashOk := fun _ => false }
    (step E {} {} (.set "x" 7 5)).1 = some hashExc ∧ refs (step E {} {} (.set "x" 7 5)).2 7 = 0 := by
  decide

/-- **A rebuilt tuple owns its items - exactly.**  For the element-wise tuple
validator (`validate_trait_tuple_check`), every tuple, every element validator
at every position (accepting, converting to any object, raising) and every
object `id`: counting the new reference each element validator returns and
every `Py_INCREF` / `Py_DECREF` of the function (the release of a partly built
tuple on failure included), the net change of `id`'s reference count is the
number of slots of the NEW tuple that hold it - and zero when the value tuple
itself is returned or validation fails.  (The `Py_INCREF` of the loop copying
the leading items is what makes the first case true.) -/
theorem C18_tuple_rebuild_exact (ev : Nat → Id → Except Exc Id) (value : List Id) (id : Id) :
    match (tupleCheck ev value).result with
    | some (some l) => net (tupleCheck ev value).evs id = (l.count id : Int)
    | _ => net (tupleCheck ev value).evs id = 0 :=
  tupleLoop_exact ev value id value 0 none [] (by simp [net])

/-- Non-vacuity: `(v1, v2, v3)` with a converting validator at the LAST
position: the new tuple is `(v1, v2, v9)` and `v1` gained exactly one
reference; with a raising validator after a conversion everything is given back. -/
example :
    let conv : Nat → Id → Except Exc Id := fun i x => if i = 2 then .ok 9 else .ok x
    let fail : Nat → Id → Except Exc Id := fun i x => if i = 1 then .ok 9 else if i = 2 then .error .traitError else .ok x
    (tupleCheck conv [1, 2, 3]).result = some (some [1, 2, 9]) ∧ net (tupleCheck conv [1, 2, 3]).evs 1 = 1 ∧
      net (tupleCheck conv [1, 2, 3]).evs 3 = 0 ∧
      (tupleCheck fail [1, 2, 3]).result = none ∧ net (tupleCheck fail [1, 2, 3]).evs 1 = 0 ∧
      net (tupleCheck fail [1, 2, 3]).evs 9 = 0 := by
  decide

/-- **Dispatch is from a snapshot.**  Whatever the handlers do to the notifier
lists while a notification is being dispatched - remove themselves, remove an
earlier or a later handler, register new ones, on the trait or on the object -
the handlers called are exactly those registered when the change happened
(trait-level first, then object-level), each once, in order. -/
theorem C18_dispatch_snapshot (act : Id → HAct) (l : Lists) : (dispatch act l).1 = l.t ++ l.o :=
  dispatchLoop_calls act (l.t ++ l.o) l

/-- Non-vacuity, the input of a seeded defect: anytrait handlers `[1, 2, 3]`,
the first removes itself: all three are called now, `[2, 3]` at the next change. -/
example :
    let act : Id → HAct := fun h => if h = 1 then .removeSelf else .nothing
    (dispatch act ⟨[], [1, 2, 3]⟩).1 = [1, 2, 3] ∧ (dispatch act ⟨[], [1, 2, 3]⟩).2 = ⟨[], [2, 3]⟩ := by
  decide

/-- `call_notifiers` hands its loop the freshly allocated list and nothing else:
the only assignment to `all_notifiers` is from `PyList_New`, and the loop reads
its callables from `all_notifiers` (translated from the working tree). -/
theorem C18_call_notifiers_private_copy :
    CTables.callNotifiersListSources = ["PyList_New"] ∧ CTables.callNotifiersLoopReads = ["all_notifiers"] := by
  decide

/-! Non-vacuity of the ledger theorems: a trait with `post_setattr` and a
notifier, first assignment (default materialised, then the converted value
stored), then a rejected one. -/
example :
    let E : Env := { validate := fun _ x => if x = 5 then .ok 6 else .error .traitError,
                     dflt := fun _ _ => .ok 9, post := fun _ _ => .ok (), notify := fun _ _ => .ok (),
                     hashOk := fun _ => true }
    let c : TraitCfg := { hasPost := true }
    let s0 : St := { hasNotifiers := true, listsExist := true }
    let r1 := step E c s0 (.set "x" 7 5)
    let r2 := step E c r1.2 (.set "x" 7 4)
    r1.1 = none ∧ held r1.2 6 = 1 ∧ held r1.2 9 = 0 ∧ held r1.2 7 = 1 ∧ held r1.2 5 = 0 ∧
      r2 = (some .traitError, r1.2) := by
  decide

/-! ## (c) References handed over, references replaced -/

/-- **A stolen reference is not released again.**  In the working tree's
`ctraits.c`, no variable passed in a reference-STEALING argument position
(`PyException_SetCause` 2nd, `PyTuple_SET_ITEM` / `PyList_SET_ITEM` 3rd,
`PyErr_Restore` all three) is `Py_DECREF`ed / `Py_XDECREF`ed / `Py_CLEAR`ed
afterwards in the same function before being assigned again.  (Translated;
releasing `exc_value` after `PyException_SetCause` in
`_warn_on_attribute_error` breaks it.) -/
theorem C18_stolen_not_released :
    ("_warn_on_attribute_error", "PyException_SetCause", "exc_value", 0) ∈ CTables.stolenThenReleased ∧
    ∀ r ∈ CTables.stolenThenReleased, r.2.2.2 = 0 := by
  decide

open TraitsVerif.Model.RefLedger.Warn in
/-- **A failing default computation is reference-neutral** for the exception
object it raised, whatever the exception class and the warnings filter:
`_warn_on_attribute_error` ends owning no reference (`own = 0`), and the one
reference it started with (the error indicator's) is afterwards held by exactly
one owner - the error indicator again, or the `__cause__` slot of the
`UserWarning` that replaced the exception. -/
theorem C18_default_failure_neutral (attrErr : Bool) (m : Mode) :
    let l := warnOnAttributeError attrErr m
    l.own = 0 ∧ l.indicator + l.cause = 1 ∧ (l.warningRaised = true → l.indicator = 0 ∧ l.cause = 1) ∧
      (l.warningRaised = true ↔ (attrErr = true ∧ m = .error)) := by
  cases attrErr <;> cases m <;> decide

open TraitsVerif.Model.RefLedger.Warn in
/-- What every way of asking for the value observes: nothing is left over after what came out has been
released (`after = 0`); what came out holds exactly one reference to the exception object, unless the
caller swallowed it; the `UserWarning` has the exception as `__cause__`. -/
theorem C18_default_failure_observed (attrErr : Bool) (m : Mode) (a : Access) :
    let o := observe attrErr m a
    o.after = 0 ∧ (o.out = .swallowed → o.held = 0) ∧ (o.out ≠ .swallowed → o.held = 1) ∧
      (o.out = .warning → o.cause = true) ∧
      (o.out = .swallowed ↔ (attrErr = true ∧ m ≠ .error ∧ a.swallowsAttributeError = true)) := by
  cases attrErr <;> cases m <;> cases a <;> decide

example :
    (Model.RefLedger.Warn.observe true .error .hasattr).out = .warning ∧
    (Model.RefLedger.Warn.observe true .dflt .hasattr).out = .swallowed ∧
    (Model.RefLedger.Warn.observe false .error .hasattr).out = .orig := by decide

/-- **No field is released before it is stored again, and no store forgets
the old reference.**  In the working tree's `ctraits.c` no `Py_DECREF` /
`Py_XDECREF` is applied directly to a struct field that the same function
assigns afterwards (the release could run finalizers - and, when the new value
is the old one, free it - while the field still points to the released object:
F79, repaired d96fc77), and every store into a reference field of a trait
(`trait->F = …`, `&trait->F` handed to `PyArg_ParseTuple`) first puts the old
content into a local that is released after the store, or goes through
`set_value` (F79b, repaired 86511b4).  (Translated: releasing the target's fields
at the top of `trait_clone`, or dropping one of the late `Py_XDECREF(old_…)`,
breaks it.) -/
theorem C18_no_release_before_store :
    (∀ r ∈ CTables.fieldReleases, r.2.2 = false) ∧
    ("trait_clone", "handler", "saved") ∈ CTables.traitFieldStores ∧
    ("_trait_set_validate", "py_validate", "saved") ∈ CTables.traitFieldStores ∧
    ("_trait_setstate", "default_value", "saved") ∈ CTables.traitFieldStores ∧
    ∀ r ∈ CTables.traitFieldStores, r.2.2 = "saved" ∨ r.2.2 = "set_value" := by
  decide

/-- **`trait_clone` owns what it copies**: every reference-holding field of
`trait_object` that it copies from the source is INCREF'ed afterwards, the two
fields it does not copy are `notifiers` and `obj_dict`, and it releases no
field directly (previous theorem: only the remembered old contents, last). -/
theorem C18_clone_owns_what_it_copies :
    (∀ f ∈ CTables.traitObjectFields, (f, true) ∈ CTables.traitCloneCopies ∨ f = "notifiers" ∨ f = "obj_dict") ∧
    (∀ c ∈ CTables.traitCloneCopies, c.2 = true → c.1 ∈ CTables.traitObjectFields) ∧
    (∀ r ∈ CTables.fieldReleases, r.1 ≠ "trait_clone") := by
  decide

open TraitsVerif.Model.RefLedger.Raw TraitsVerif.Lemmas.Raw in
/-- **Raw `CTrait` calls keep every pointer backed by a reference - aliased
arguments included.**  For every modelled entry point (`set_value`: handler /
post_setattr / `__dict__`; `_trait_set_default_value`; `_trait_set_validate`;
`Py_CLEAR`; `_trait_set_property`; `trait_clone`;
`t.__setstate__(s.__getstate__())`; the getters; a field set again from its own
getter): if every slot was backed by a reference before the call, it is at every
point where foreign code can run during the call (after each DECREF) and after
it.  Slots, objects and sources are arbitrary: `t.clone(t)`, a setter given the
object the field already holds and cloning into a trait that holds objects are
instances (`WF`: the slots written by one call are different fields). -/
theorem C18_raw_calls_safe (s : MS) (h : s.Inv) (op : Raw.Op) (hwf : op.WF) :
    Safe (compile s op) s := by
  cases op with
  | set i new => exact safe_set i new s h
  | clear i => exact safe_clear i s h
  | put ws => exact safe_put ws s h hwf
  | copy dst src => exact safe_copy dst src s h hwf.1
  | restate dst src => exact safe_restate dst src s h hwf.1
  | reset i => exact safe_reset i s h
  | read is => exact safe_read is s h

open TraitsVerif.Model.RefLedger.Raw TraitsVerif.Lemmas.Raw in
/-- **Raw `CTrait` calls are reference-neutral**: for every object, the
references that no slot accounts for (the caller's, or leaked ones) are the
same after the call as before - nothing is leaked and nothing is released that
a slot or the caller still owns, for `t.clone(t)` and cloning into a used trait
as for a fresh one. -/
theorem C18_raw_calls_neutral (s : MS) (op : Raw.Op) (hwf : op.WF) (hr : op.InRange s) (o : Nat) :
    (run (compile s op) s).slack o = s.slack o := by
  cases op with
  | set i new => exact neutral_set i new s hr o
  | clear i => exact neutral_clear i s hr o
  | put ws => exact putEvents_neutral ws s s rfl hwf hr o
  | copy dst src =>
    exact putEvents_neutral _ s s rfl (zip_fst_nodup dst _ hwf.1)
      (fun w hw => hr _ (List.of_mem_zip hw).1) o
  | restate dst src => exact neutral_restate dst src s hwf.1 hr o
  | reset i => exact neutral_reset i s o
  | read is => exact neutral_read is s o

open TraitsVerif.Model.RefLedger.Raw TraitsVerif.Lemmas.Raw in
/-- `_trait_set_validate` (store, then release - since d96fc77) is safe for every trait, every old and every
new validator. -/
theorem C18_raw_set_validate_safe (s : MS) (i new : Nat) (h : s.Inv) : Safe (compile s (.set i new)) s :=
  safe_set i new s h

open TraitsVerif.Model.RefLedger.Raw TraitsVerif.Lemmas.Raw in
/-- `Safe` can fail, and the order of the events is what decides: release-then-store (the code before d96fc77)
on a trait that owns the only reference to its validator. -/
example : soleValidator.Inv ∧ ¬ Safe [.incref 2, .decref 1, .store 0 (some 2)] soleValidator :=
  ⟨soleValidator_inv, release_before_store_unsafe⟩

open TraitsVerif.Model.RefLedger.Raw in
/-- Non-vacuity: a trait (slots 0-5) that owns the only reference to its four
objects is cloned onto itself and restored from its own state: the pointers and
every count are as before, no object is ever without a reference at a
checkpoint; replacing the validator shows the old one to nobody while it dies. -/
example :
    let s0 : MS := { ptr := [some 1, some 2, some 3, none, none, some 4],
                     rc := fun o => if 1 ≤ o ∧ o ≤ 4 then 1 else 0 }
    let b := [0, 1, 2, 3, 4, 5]
    let r1 := step s0 (.copy b b)
    let r2 := step s0 (.restate b b)
    r1.1.length = 4 ∧ r1.2.ptr = s0.ptr ∧ [1, 2, 3, 4].map r1.2.rc = [1, 1, 1, 1] ∧
    r1.1.all (fun c => [1, 2, 3, 4].all (fun o => decide (1 ≤ c.rc o))) = true ∧
    r2.2.ptr = s0.ptr ∧ [1, 2, 3, 4].map r2.2.rc = [1, 1, 1, 1] ∧
    visibleDying r2.1 [1, 2, 3, 4] = [] ∧
    visibleDying (step s0 (.set 1 7)).1 [1, 2, 3, 4] = [] ∧ (step s0 (.set 1 7)).2.rc 2 = 0 := by
  decide

/-! ## (d) Every control-flow path of the C text is reference-neutral

`Model/RefLedger` is a hand transcription of `getattr_trait` / `setattr_trait`:
its `stray` component collects every reference-count change that is not the
creation or release of a `__dict__` slot, and `C18_ledger_exact` proves that
`stray` never changes on any modelled path.  The theorems below say the same of
the C TEXT ITSELF: `harness/translate/crefpaths.py` reads the functions listed
in `Generated.RefPaths.covered` from the working tree's `ctraits.c`, enumerates
every control-flow path from entry to `return` (branches on `x == NULL` pruned,
loops unrolled 0-2 times) and records, per value, the ordered reference events
(`Model/RefPaths.Ev`).  `pathOk` demands of every value a path touches: no
release / return / hand-over of a reference the function does not hold at that
point, no `Py_DECREF` of a NULL, and - at the `return` - nothing held and
nothing owed.  This covers what the ledger model's generators cannot reach:
`PyDict_New`, `PyTuple_Pack`, `PyList_New` returning NULL, and every `goto
error` arm.  The transfers that make a function legitimately non-neutral are
events of their own (`ret`: the result handed to the caller; `store`: a
reference put into a struct field or a fresh tuple / list; `take`: the old
contents of an overwritten field) and the stores are pinned by
`C18_paths_stores`.

TRUSTED: the API tables of crefpaths.py (which calls return new / borrowed
references, which steal), that fields keep their value across calls, and the
unrolling bound. -/

/-! No exceptions.  Defects this analysis found in earlier trees, all repaired since (a regression changes the
generated table, `C18_paths_balanced` no longer checks, and the Python twin of the checker
(`harness/props/c18paths.py`) reports `refpath-imbalance:<function>:<value>`, matched by the `fixed` entries of
known_findings.json):
* F107/F107b the unchecked `delegate_attr_name` result in `getattr_delegate` / `setattr_delegate` (e4a9aa5), F108 the
  `args` of `setattr_property0`, F109 `daname` on the recursion-limit exit of `setattr_delegate` (3882e87);
* F120/F121 `_has_traits_trait` left through the `break`s at `temp_delegate == NULL` and
  `!PyHasTraits_Check(delegate)` without releasing `trait` (ec9b27d);
* F122 `validate_trait_tuple_check` returned NULL when `PyTuple_New(n)` failed without releasing `aitem` (5045620);
* F123/F123b `has_traits_new` returned NULL from its three error arms without releasing the new `obj`, in the third
  with a borrowed, never INCREFed `obj->ctrait_dict` stored in it (3c349f5);
* F124/F124b `get_trait` did not check `PyType_GenericAlloc` for NULL and did not release `itrait` when `PyList_New`
  or the final `PyDict_SetItem` failed (001e070). -/

set_option maxRecDepth 100000 in
/-- **Every control-flow path of every function of the working tree's `ctraits.c`
that the reader covers (`C18_paths_cover`; the rest is named in
`C18_paths_unread`) is reference-neutral** - no exception: every
value it touches ends with nothing held and nothing owed, and no prefix of the
path releases, returns or gives away a reference the function does not hold, or
releases / dereferences a NULL.  Removing a `Py_DECREF` from an error arm,
releasing twice (F74), dropping an `INCREF` of a copied field, jumping past a
release, or reverting one of the repairs listed above changes the generated table and this
proof no longer checks. -/
theorem C18_paths_balanced : ∀ p ∈ Generated.RefPaths.paths, Model.RefPaths.pathOk p = true :=
  List.all_eq_true.mp (by decide)

/-- The checker is not vacuous: it rejects the event lists the repaired paths had - a reference acquired and never
released (`_has_traits_trait`, `validate_trait_tuple_check`, `has_traits_new`, `get_trait`: `new` without release), and a
field access through a NULL (`get_trait`: `bad`). -/
example :
    Model.RefPaths.pathOk ⟨"_has_traits_trait", 0, "return NULL", true, [(0, .new)]⟩ = false ∧
    Model.RefPaths.pathOk ⟨"get_trait", 0, "return NULL", true, [(0, .bad)]⟩ = false ∧
    Model.RefPaths.pathOk ⟨"get_trait", 0, "return result", false, [(0, .new), (0, .ret)]⟩ = true := by
  decide

/-! The same, function by function and WITHOUT exceptions, for the nine functions
of the assignment / read / notification / clone core (a failure names the function). -/
theorem C18_paths_balanced_setattr_trait :
    ∀ p ∈ Generated.RefPaths.paths_setattr_trait, Model.RefPaths.pathOk p = true := by decide
theorem C18_paths_balanced_getattr_trait :
    ∀ p ∈ Generated.RefPaths.paths_getattr_trait, Model.RefPaths.pathOk p = true := by decide
theorem C18_paths_balanced_default_value_for :
    ∀ p ∈ Generated.RefPaths.paths_default_value_for, Model.RefPaths.pathOk p = true := by decide
theorem C18_paths_balanced_call_notifiers :
    ∀ p ∈ Generated.RefPaths.paths_call_notifiers, Model.RefPaths.pathOk p = true := by decide
theorem C18_paths_balanced_trait_clone :
    ∀ p ∈ Generated.RefPaths.paths_trait_clone, Model.RefPaths.pathOk p = true := by decide
theorem C18_paths_balanced_trait_set_validate :
    ∀ p ∈ Generated.RefPaths.paths__trait_set_validate, Model.RefPaths.pathOk p = true := by decide
theorem C18_paths_balanced_setattr_readonly :
    ∀ p ∈ Generated.RefPaths.paths_setattr_readonly, Model.RefPaths.pathOk p = true := by decide
theorem C18_paths_balanced_setattr_event :
    ∀ p ∈ Generated.RefPaths.paths_setattr_event, Model.RefPaths.pathOk p = true := by decide
theorem C18_paths_balanced_warn_on_attribute_error :
    ∀ p ∈ Generated.RefPaths.paths__warn_on_attribute_error, Model.RefPaths.pathOk p = true := by decide

/-- What the executable checker's `true` means, for any path: every value the path
touches has net balance 0 (`+1` per `new` / `inc` / `take`, `-1` per `dec` /
`xdec` / `steal` / `ret` / `store`, in any order) and no prefix of the path
releases, returns or gives away a reference to it that the function does not
hold.  With the nine theorems above: e.g. every value on every path of
`setattr_trait` has `balance = 0`. -/
theorem C18_paths_checker_sound (p : Model.RefPaths.Path) (h : Model.RefPaths.pathOk p = true) :
    ∀ x ∈ p.evs, Model.RefPaths.balance p.evs x.1 = 0 ∧ Model.RefPaths.neverNegative p.evs x.1 = true := by
  intro x hx
  have := List.all_eq_true.mp h x hx
  exact Lemmas.RefPaths.valueOk_sound p.evs x.1 (by simpa using this)

/-- The 134 functions the path theorems speak about: every function definition of
`ctraits.c` that is not in `pathsUnread`, in source order. -/
def pathsCovered : List String := [
  "raise_trait_error", "fatal_trait_error", "invalid_attribute_error", "cant_set_items_error",
  "bad_trait_value_error", "bad_delegate_error", "bad_delegate_error2", "undefined_delegate_error",
  "delegation_recursion_error", "delegation_recursion_error2", "delete_readonly_error",
  "set_readonly_error", "set_disallow_error", "set_delete_property_error", "unknown_attribute_error",
  "dictionary_error", "get_value", "get_trait_flag", "set_trait_flag", "call_class", "has_traits_setattro",
  "has_traits_new", "has_traits_clear", "has_traits_getattro", "get_trait", "_has_traits_trait",
  "trait_property_changed", "_has_traits_property_changed", "_has_traits_notifications_enabled",
  "_has_traits_change_notify", "_has_traits_notifications_vetoed", "_has_traits_veto_notify",
  "_has_traits_init", "_has_traits_inited", "_has_traits_set_inited", "_has_traits_instance_traits",
  "_has_traits_class_traits", "_has_traits_notifiers", "get_has_traits_dict", "_warn_on_attribute_error",
  "default_value_for", "getattr_python", "getattr_generic", "getattr_event", "getattr_trait",
  "getattr_delegate", "getattr_disallow", "getattr_constant", "getattr_property0", "getattr_property1",
  "getattr_property2", "getattr_property3", "setattr_python", "setattr_generic", "call_notifiers",
  "setattr_event", "setattr_trait", "setattr_delegate", "setattr_property0", "setattr_property1",
  "setattr_property2", "setattr_property3", "setattr_validate_property", "setattr_validate0",
  "setattr_validate1", "setattr_validate2", "setattr_validate3", "setattr_disallow", "setattr_readonly",
  "setattr_constant", "trait_new", "trait_clear", "is_dunder_name", "trait_getattro",
  "_trait_set_default_value", "_trait_default_value", "_trait_default_value_for", "validate_trait_python",
  "call_validator", "type_converter", "validate_trait_type", "validate_trait_instance",
  "validate_trait_self_type", "as_integer", "validate_trait_integer", "validate_float",
  "_ctraits_validate_float", "validate_trait_float", "validate_complex_number",
  "_ctraits_validate_complex_number", "validate_trait_complex_number", "in_float_range",
  "validate_trait_float_range", "validate_trait_enum", "validate_trait_map", "validate_trait_tuple_check",
  "validate_trait_tuple", "validate_trait_coerce_type", "validate_trait_cast_type",
  "validate_trait_function", "_validate_trait_callable", "validate_trait_callable", "validate_trait_adapt",
  "validate_trait_complex_body", "validate_trait_complex", "_trait_set_validate", "_trait_get_validate", "_trait_validate",
  "post_setattr_trait_python", "delegate_attr_name_name", "delegate_attr_name_prefix",
  "delegate_attr_name_prefix_name", "delegate_attr_name_class_name", "_trait_delegate",
  "_set_trait_comparison_mode", "_get_trait_comparison_mode_int", "_trait_get_property",
  "_trait_set_property", "trait_clone", "_trait_clone", "_trait_notifiers", "func_index", "get_trait_dict",
  "get_trait_handler", "get_trait_post_setattr", "get_trait_property_flag",
  "get_trait_modify_delegate_flag", "set_trait_modify_delegate_flag",
  "get_trait_setattr_original_value_flag", "set_trait_setattr_original_value_flag",
  "get_trait_post_setattr_original_value_flag", "set_trait_post_setattr_original_value_flag",
  "get_trait_is_mapped_flag", "set_trait_is_mapped_flag"]

/-- The 19 function definitions the reader does NOT cover (why: `Generated.RefPaths.unread`). -/
def pathsUnread : List String := [
  "set_value", "dict_getitem", "get_prefix_trait", "has_traits_init", "has_traits_dealloc",
  "has_traits_traverse", "_has_traits_items_event", "set_has_traits_dict", "trait_dealloc",
  "trait_traverse", "_trait_getstate", "_trait_setstate", "set_trait_dict", "set_trait_handler",
  "set_trait_post_setattr", "_ctraits_list_classes", "_ctraits_adapt", "_ctraits_ctrait", "PyInit_ctraits"]

set_option maxRecDepth 100000 in
/-- Non-vacuity of `C18_paths_balanced`: the table speaks about exactly the
functions of `pathsCovered`; every one has at least one path (`pathCounts`, whose
counts add up to the length of `paths`); every function of the core that can fail
has a path that reports an error and a path that does not, and its table is
tagged with its name. -/
theorem C18_paths_cover :
    Generated.RefPaths.covered = pathsCovered ∧
    Generated.RefPaths.pathCounts.map (·.1) = pathsCovered ∧
    (Generated.RefPaths.pathCounts.all fun c => decide (c.2.2 ≥ 1)) = true ∧
    (Generated.RefPaths.pathCounts.map (·.2.2)).sum = Generated.RefPaths.paths.length ∧
    (Generated.RefPaths.paths_setattr_trait.any (·.isErr) && Generated.RefPaths.paths_setattr_trait.any (!·.isErr) &&
      Generated.RefPaths.paths_setattr_trait.all (·.fn == "setattr_trait")) = true ∧
    (Generated.RefPaths.paths_getattr_trait.any (·.isErr) && Generated.RefPaths.paths_getattr_trait.any (!·.isErr) &&
      Generated.RefPaths.paths_getattr_trait.all (·.fn == "getattr_trait")) = true ∧
    (Generated.RefPaths.paths_default_value_for.any (·.isErr) && Generated.RefPaths.paths_default_value_for.any (!·.isErr) &&
      Generated.RefPaths.paths_default_value_for.all (·.fn == "default_value_for")) = true ∧
    (Generated.RefPaths.paths_call_notifiers.any (·.isErr) && Generated.RefPaths.paths_call_notifiers.any (!·.isErr) &&
      Generated.RefPaths.paths_call_notifiers.all (·.fn == "call_notifiers")) = true ∧
    (Generated.RefPaths.paths__trait_set_validate.any (·.isErr) && Generated.RefPaths.paths__trait_set_validate.any (!·.isErr) &&
      Generated.RefPaths.paths__trait_set_validate.all (·.fn == "_trait_set_validate")) = true ∧
    (Generated.RefPaths.paths_setattr_readonly.any (·.isErr) && Generated.RefPaths.paths_setattr_readonly.any (!·.isErr) &&
      Generated.RefPaths.paths_setattr_readonly.all (·.fn == "setattr_readonly")) = true ∧
    (Generated.RefPaths.paths_setattr_event.any (·.isErr) && Generated.RefPaths.paths_setattr_event.any (!·.isErr) &&
      Generated.RefPaths.paths_setattr_event.all (·.fn == "setattr_event")) = true ∧
    Generated.RefPaths.paths_setattr_trait.length ≥ 40 := by
  decide

/-- The function definitions of `ctraits.c` the path theorems do NOT speak about,
by name (reasons in `Generated.RefPaths.unread`: statement forms the reader does
not understand - `#if`, `Py_VISIT` callbacks, `PyObject **` helpers, out-parameters
into fields, assignments to globals, a backward `goto` -, a size cap, a by-design
borrowed return, or a call into one of these).  The list can only change knowingly. -/
theorem C18_paths_unread : Generated.RefPaths.unread.map (·.1) = pathsUnread := by
  decide

/-- The transfers of references into struct fields, all of them, with where the
stored value comes from: fresh `__dict__` / instance-trait dictionaries / notifier
lists of objects that had none, the six fields `trait_clone` copies (each `store`
paid by the `Py_XINCREF` that follows, each overwritten value `take`n and
released - since 86511b4), the arguments the `CTrait` setters keep after
`Py_INCREF`, the class-trait dictionary of `has_traits_new` and the copies of
`get_trait`.  A new store of a reference into a field anywhere in the covered
functions changes this table. -/
theorem C18_paths_stores :
    Generated.RefPaths.stores = [
      ("has_traits_new", "obj->ctrait_dict", "PyDict_GetItem()"),
      ("get_trait", "itrait->notifiers", "PyList_New()"),
      ("get_trait", "itrait->obj_dict", "trait->obj_dict"),
      ("get_trait", "obj->itrait_dict", "PyDict_New()"),
      ("_has_traits_instance_traits", "obj->itrait_dict", "PyDict_New()"),
      ("_has_traits_notifiers", "obj->notifiers", "PyList_New()"),
      ("get_has_traits_dict", "obj->obj_dict", "PyDict_New()"),
      ("getattr_trait", "obj->obj_dict", "PyDict_New()"),
      ("setattr_python", "obj->obj_dict", "PyDict_New()"),
      ("setattr_trait", "obj->obj_dict", "PyDict_New()"),
      ("_trait_set_default_value", "trait->default_value", "PyArg_ParseTuple()"),
      ("_trait_set_validate", "trait->py_validate", "PyArg_ParseTuple()"),
      ("_trait_delegate", "trait->delegate_name", "PyArg_ParseTuple()"),
      ("_trait_delegate", "trait->delegate_prefix", "PyArg_ParseTuple()"),
      ("_trait_set_property", "trait->delegate_name", "PyArg_ParseTuple()"),
      ("_trait_set_property", "trait->delegate_prefix", "PyArg_ParseTuple()"),
      ("_trait_set_property", "trait->py_validate", "PyArg_ParseTuple()"),
      ("trait_clone", "trait->default_value", "source->default_value"),
      ("trait_clone", "trait->delegate_name", "source->delegate_name"),
      ("trait_clone", "trait->delegate_prefix", "source->delegate_prefix"),
      ("trait_clone", "trait->handler", "source->handler"),
      ("trait_clone", "trait->py_post_setattr", "source->py_post_setattr"),
      ("trait_clone", "trait->py_validate", "source->py_validate"),
      ("_trait_notifiers", "trait->notifiers", "PyList_New()"),
      ("get_trait_dict", "trait->obj_dict", "PyDict_New()")] := by
  decide

/-- The three repaired defects, as the analysis saw them before the repairs (the
event lists of the then generated table, values renumbered): the leaked `args`
of `setattr_property0` (F108), the `daname` leaked on the recursion-limit exit
of `setattr_delegate` after one round (F109), and the `Py_DECREF` of the
unchecked NULL name in `getattr_delegate` (F107) are each rejected. -/
example :
    Model.RefPaths.pathOk ⟨"setattr_property0", 2, "return 0", false,
      [(0, .new), (1, .new), (1, .dec)]⟩ = false ∧
    Model.RefPaths.pathOk ⟨"setattr_delegate", 0, "return delegation_recursion_error(...)", true,
      [(0, .inc), (1, .new), (0, .dec)]⟩ = false ∧
    Model.RefPaths.pathOk ⟨"getattr_delegate", 5, "return result", false,
      [(0, .inc), (1, .new), (2, .bad), (0, .dec), (1, .ret)]⟩ = false := by
  decide

/-- The checker can say no: `setattr_trait`'s `PyDict_SetItem` failure arm as it
was before the repair of F74 (`Py_DECREF(name)` of the borrowed name, value 0),
a leaked tuple (value 1), a double release (value 2), a `Py_DECREF` of NULL;
and the idiom `PyList_SET_ITEM(l, i, item); Py_INCREF(item);` is accepted. -/
example :
    Model.RefPaths.pathOk ⟨"f", 0, "return -1", true, [(0, .dec)]⟩ = false ∧
    Model.RefPaths.pathOk ⟨"f", 0, "return -1", true, [(1, .new)]⟩ = false ∧
    Model.RefPaths.pathOk ⟨"f", 0, "return -1", true, [(2, .new), (2, .dec), (2, .dec)]⟩ = false ∧
    Model.RefPaths.pathOk ⟨"f", 0, "return -1", true, [(3, .bad)]⟩ = false ∧
    Model.RefPaths.pathOk ⟨"f", 0, "return 0", false, [(4, .store), (4, .inc), (5, .new), (5, .ret)]⟩ = true := by
  decide

/-! ## (e) No stale borrow on any control-flow path

`harness/translate/crefborrows.py` runs the same reader over the same functions
and records, per path, when a value is acquired FIELD-BORROWED (read from an
object field of a struct, or taken out of a field-borrowed tuple / of a list or
dict without `Py_INCREF`), when it is protected (`Py_INCREF` .. `Py_DECREF`),
when a call that can run arbitrary Python code returns (`acall`: the trusted
table `crefpaths.ACALL` / `ACALL_FIELDS` closed over the call graph of the
file; releases and dictionary operations on attribute names deliberately left
out) and when the value is used.  A use after an `acall` that found neither the
value nor an ancestor tuple protected is a stale borrow - the defect class of
the use-after-free repaired in baa32de (`validate_trait_complex` walked
`trait->py_validate` while a member validator replaced it).  The repaired code
passes because its wrapper keeps `trait->py_validate` alive around
`validate_trait_complex_body` (`CALLER_PROTECTS`, verified by the translator at
every call site). -/

/-- The exceptions, by name: (function, value).  Found on the pinned tree by the
analysis; not confirmed at run time unless said so (known_findings F130..):
* `getattr_trait`, `setattr_trait`: `dict = obj->obj_dict` is used for the
  `PyDict_SetItem` / `PyDict_GetItem` after the default computation / the
  validator ran (which may replace `obj.__dict__`);
* `setattr_trait`, `trait_property_changed`: the notifier lists
  `traito->notifiers` / `obj->notifiers` are read before `post_setattr` /
  `has_traits_getattro` run and handed to `call_notifiers` afterwards;
* `setattr_delegate`: the delegate object and the delegated trait taken out of
  dictionaries (`temp_delegate`, `traitd`) without `Py_INCREF` are used after
  `delegate_attr_name` / `has_traits_getattro` / `get_prefix_trait`;
* `validate_trait_adapt`: `type = PyTuple_GET_ITEM(trait->py_validate, 1)` is used
  after the `adapt` call;
* `validate_trait_tuple` hands `PyTuple_GET_ITEM(trait->py_validate, 1)` to
  `validate_trait_tuple_check`, which keeps using it after member validators ran
  (`Generated.RefBorrows.usesParamsLate`: a callee that uses a parameter after
  arbitrary code makes the unprotected argument a stale use in the CALLER) - this
  one IS confirmed at run time (a member validator that replaces the validator
  crashes the interpreter);
* `_has_traits_trait`, `getattr_delegate`, `setattr_delegate` hand
  `trait->delegate_name` to `has_traits_getattro`, which uses the name after the
  lookup ran arbitrary code. -/
def knownStaleBorrows : List (String × String) := [
  ("getattr_trait", "obj->obj_dict"),
  ("setattr_trait", "obj->obj_dict"),
  ("setattr_trait", "traito->notifiers"),
  ("setattr_trait", "obj->notifiers"),
  ("trait_property_changed", "trait->notifiers"),
  ("trait_property_changed", "obj->notifiers"),
  ("setattr_delegate", "temp_delegate"),
  ("setattr_delegate", "temp_delegate~2"),
  ("setattr_delegate", "traitd~2"),
  ("setattr_delegate", "traitd~3"),
  ("validate_trait_adapt", "type"),
  ("validate_trait_tuple", "PyTuple_GET_ITEM()"),
  ("_has_traits_trait", "trait->delegate_name"),
  ("_has_traits_trait", "trait->delegate_name~2"),
  ("getattr_delegate", "trait->delegate_name"),
  ("setattr_delegate", "traitd->delegate_name"),
  ("setattr_delegate", "traitd->delegate_name~2")]

/-- Indices (in `Generated.RefBorrows.values`) of the values excepted on path `p`. -/
def knownStaleSkip (p : Model.RefBorrows.BPath) : List Nat :=
  (knownStaleBorrows.filter (·.1 == p.fn)).map (fun k => Generated.RefBorrows.values.idxOf k.2)

def borrowOkKnown (p : Model.RefBorrows.BPath) : Bool := Model.RefBorrows.borrowOkExcept (knownStaleSkip p) p

set_option maxRecDepth 100000 in
/-- **On no control-flow path of the covered functions is a field-borrowed value
used after a call that can run arbitrary code without a protecting reference**,
the named exceptions aside.  Reverting baa32de (or dropping the `Py_INCREF` of a
borrowed delegate in `getattr_delegate`) changes the generated table and this
proof no longer checks. -/
theorem C18_paths_no_stale_borrow : ∀ p ∈ Generated.RefBorrows.borrowPaths, borrowOkKnown p = true :=
  List.all_eq_true.mp (by decide)

set_option maxRecDepth 100000 in
/-- The exceptions are real, not slack: each listed value is used stale on some path of its function. -/
theorem C18_paths_known_stale_borrows_real :
    (knownStaleBorrows.all fun k => Generated.RefBorrows.borrowPaths.any fun p =>
      p.fn == k.1 && (Model.RefBorrows.staleBorrows p).contains (Generated.RefBorrows.values.idxOf k.2)) = true := by
  decide

/-- The repaired walk is among the paths (non-vacuity: `validate_trait_complex_body`
has field-borrowed items used after arbitrary calls, all under the caller's
protection), none of the borrow analyses was given up, `validate_trait_tuple_check`
is known to use its first parameter after arbitrary code, and the functions
named are reported as able to run arbitrary code. -/
theorem C18_paths_borrow_cover :
    Generated.RefBorrows.unread = [] ∧
    Generated.RefBorrows.usesParamsLate.lookup "validate_trait_tuple_check" = some [0, 1, 2, 3] ∧
    (["validate_trait_complex_body", "validate_trait_complex", "getattr_delegate", "setattr_trait"].all
      fun f => Generated.RefBorrows.covered.contains f) = true ∧
    (["validate_trait_complex_body", "call_notifiers", "default_value_for", "raise_trait_error"].all
      fun f => Generated.RefBorrows.arbitrary.contains f) = true := by
  decide

/-- The shape of the defect repaired in baa32de and of its repair: the tuple of
alternatives (value 0) read from `trait->py_validate`, an item (value 1) taken
out of it, a member validator called, the item used: stale - and not when the
tuple is protected first, nor when the item is read again after the call. -/
example :
    Model.RefBorrows.borrowOk ⟨"f", 0, [(0, .fborrow none), (1, .fborrow (some 0)), (0, .acall), (1, .use)]⟩ = false ∧
    Model.RefBorrows.borrowOk ⟨"f", 0, [(0, .fborrow none), (0, .protect), (1, .fborrow (some 0)), (0, .acall),
      (1, .use), (0, .use), (0, .unprotect)]⟩ = true ∧
    Model.RefBorrows.borrowOk ⟨"f", 0, [(0, .fborrow none), (0, .acall), (0, .fborrow none), (0, .use)]⟩ = true ∧
    Model.RefBorrows.borrowOk ⟨"f", 0, [(0, .fborrow none), (0, .protect), (0, .unprotect), (0, .acall), (0, .use)]⟩ = false := by
  decide

end TraitsVerif.Props.C18
