/-
C03 — compiled fast validators decide exactly like the Python validators.

Only the property theorems (and non-vacuity examples) live here; the lemmas are
in Lemmas/ValFast.lean, ValAgree.lean, ValOrder.lean, ValInduct.lean.

Model: Model/FastValidate.lean (`fastAlone`, `complexCase`/`fastComplex`,
`fastInCompound`), Model/PyValidate.lean (`pyValidate`, `descOf`,
`ctraitValidate`).  `Env` carries what the validators call out to (type
constructors, user validator functions, adapt, the object's class): every
theorem holds for every `Env`.
-/
import TraitsVerif.Lemmas.ValOrder
import TraitsVerif.Lemmas.ValCSrc7
import TraitsVerif.Lemmas.ValPySrc6
import TraitsVerif.Generated.ValidateTables
namespace TraitsVerif.Props.C03
open TraitsVerif TraitsVerif.Py.Value TraitsVerif.Model.Val

/-! ## The tie to the source tables -/

/-- The tables read from the working tree are the tables the model transcribes:
`validate_handlers[]` entry by entry, the `case` labels of
`validate_trait_complex` and of `_trait_set_validate`, the `ValidateTrait`
enum, and the four negated comparisons of `in_float_range`.  A renumbering, a
new or removed case, a flipped or un-negated range comparison changes the
generated file and this stops checking. -/
theorem C03_tables_modelled :
    Generated.validateHandlers = handlerTable ∧
    Generated.complexCaseLabels = Model.Val.complexCaseLabels ∧
    Generated.setValidateCaseLabels = setValidateLabels ∧
    Generated.validateTraitEnum = Model.Val.validateTraitEnum ∧
    Generated.floatRangeTests = ["!>low", "!>=low", "!<high", "!<=high"] := by decide

/-- Every descriptor kind the model gives a `case` arm is a kind the C switch
has, and every kind `fastAlone` implements has its function in the table. -/
theorem C03_kinds_covered (d : Desc) (h : d.isAlt = true) :
    d.kind ∈ Generated.complexCaseLabels ∧ d.kind ∈ Generated.setValidateCaseLabels ∧
    Generated.validateHandlers[d.kind]? ≠ some "NULL" := by
  cases d <;> simp [Desc.isAlt] at h <;> (simp only [Desc.kind]; decide)

/-! ## The two C copies of every case agree -/

/-- For every descriptor that can be an alternative, every value, every
environment: the `case` arm inside `validate_trait_complex` does exactly what
the stand-alone validator does (accept the same value / move on where the
stand-alone function raises TraitError / pass the same exception), and a
one-element compound is the alternative itself. -/
theorem C03_copies_agree (E : Env) (d : Desc) (v : Val) (h : d.isAlt = true) :
    complexCase E d v = (fastAlone E d v).lift ∧ fastInCompound E d v = fastAlone E d v :=
  ⟨complexCase_eq_lift E d v h, fastInCompound_eq E d v h⟩

example : (Desc.floatRange (some (.fin 0)) (some (.fin 4)) 3).isAlt = true := rfl

/-! ## A compound is its first accepting alternative -/

/-- `validate_trait_complex` over entries `ds` returns the result of the first
entry that, validated on its own, does not raise TraitError (an entry that
raises another exception stops the search with that exception), and TraitError
if there is none.  In particular it accepts `w` iff some entry accepts `w` on
its own and every entry before it says TraitError. -/
theorem C03_compound_first (E : Env) (ds : List Desc) (v : Val)
    (h : ∀ d ∈ ds, d.isEntry = true) :
    fastAlone E (.complex ds) v = firstAccept (ds.map (altAlone E · v)) ∧
    (∀ w, fastAlone E (.complex ds) v = .ok w ↔
      ∃ pre post, ds.map (altAlone E · v) = pre ++ Res.ok w :: post ∧ ∀ r ∈ pre, r = Res.traitError) := by
  have h1 : fastAlone E (.complex ds) v = firstAccept (ds.map (altAlone E · v)) := by
    simp only [fastAlone]; exact fastComplex_first E ds v h
  exact ⟨h1, fun w => by rw [h1]; exact firstAccept_ok_iff _ w⟩

/-- Evaluation order of Either(t1, …, tn[, None]) (what `set_validate` builds):
the alternatives that have a fast validator in declaration order — a nested
compound in place, as a unit —, then `None`, then the alternatives without a
fast validator; the result is that of the first one whose own CTrait validator
does not raise TraitError.  (An alternative with neither descriptor nor validate
method — `Any` — accepts: F48 repaired.) -/
theorem C03_compound_order (E : Env) (hE : CastIdem E) (alts : List TraitType) (wn : Bool)
    (d : Desc) (v : Val)
    (hd : descOf E (.either alts wn) = some d) :
    ctraitValidate E (.either alts wn) v = firstAccept (
      (fastAlts E alts).map (ctraitValidate E · v) ++
      ((if wn then [fastAlone E (.enum [Val.none]) v] else []) ++
       (slowAlts E alts).map (ctraitValidate E · v))) := by
  have := either_first E hE alts wn d v hd
  simpa [ctraitValidate, ctraitValidateWith, hd] using this

/-! ## Tuple is element-wise -/

/-- `validate_trait_tuple`: anything that is not a tuple of the declared length
is rejected; otherwise the elements are validated left to right by the inner
traits' own validators and the first one that is not accepted decides
(TraitError, or its exception); if all are accepted the result is the value
itself when no element changed and a new plain tuple of the results otherwise. -/
theorem C03_tuple (E : Env) (items : List (Option Desc)) (v : Val) :
    ((∀ sub vs, v = .tuple sub vs → items.length ≠ vs.length) → fastAlone E (.tuple items) v = .traitError) ∧
    (∀ sub vs, v = .tuple sub vs → items.length = vs.length →
      fastAlone E (.tuple items) v =
        match elementwise (List.zipWith (optValidate E) items vs) with
        | .error none => .traitError
        | .error (some e) => .raised e
        | .ok ws => if ws = vs then .ok v else .ok (.tuple false ws)) := by
  constructor
  · intro h
    simp only [fastAlone]
    rcases v with a | ⟨sub, vs⟩ | vs
    · simp [tupleCheckWith]
    · simp [tupleCheckWith, h sub vs rfl]
    · simp [tupleCheckWith]
  · intro sub vs hv hlen
    subst hv
    simp only [fastAlone, tupleCheckWith, hlen, if_true, tupleItems_elementwise]
    cases elementwise (List.zipWith (optValidate E) items vs) with
    | error x => cases x <;> rfl
    | ok ws =>
      by_cases hb : ws = vs
      · simp [hb, Val.beqL_refl]
      · have : Val.beqL ws vs = false := by
          cases h : Val.beqL ws vs with
          | false => rfl
          | true => exact absurd ((Val.beqL_iff ws vs).mp h) hb
        simp [hb, this]

/-- The input object is re-used iff no element changed. -/
theorem C03_tuple_reuse (E : Env) (items : List (Option Desc)) (sub : Bool) (vs ws : List Val)
    (hlen : items.length = vs.length)
    (hok : elementwise (List.zipWith (optValidate E) items vs) = .ok ws) :
    (fastAlone E (.tuple items) (.tuple sub vs) = .ok (.tuple sub vs) ↔ ws = vs) := by
  have := (C03_tuple E items (.tuple sub vs)).2 sub vs rfl hlen
  rw [this, hok]
  by_cases hb : ws = vs
  · simp [hb]
  · simp only [hb, if_false, iff_false]
    intro h
    cases h
    exact hb rfl

/-! ## Fast ≡ Python -/

/-- The property at full strength: for every trait type that has a descriptor
and a Python validate method and every value, the fast result and the Python
result are in the relation `Agree` (same accepted value of the same exact type;
Python TraitError ⇒ fast TraitError; where Python raises something else the fast
path does not accept).  FALSE of the pinned tree: see the witnesses below. -/
def C03_agree_full : Prop :=
  ∀ (E : Env), CastIdem E → ∀ (t : TraitType) (d : Desc) (v : Val),
    descOf E t = some d → hasPy t = true → Agree (fastAlone E d v) (pyValidate E t v)

/-- Proved part 1 — every trait type that is not a compound, except the leaves of
findings F41/F42 (TraitCoerceType), and except tuple-subclass instances (F11): full agreement, including "Python raises ⇒ the
fast path does not accept". -/
theorem C03_agree_partial (E : Env) (hE : CastIdem E) (t : TraitType) (d : Desc) (v : Val)
    (hl : t.isLeaf = true) (hc : t.leafClean = true) (hd : descOf E t = some d)
    (hp : hasPy t = true) (hv : (∃ items, t = .tuple items) → v.notTupleSub = true) :
    Agree (fastAlone E d v) (pyValidate E t v) :=
  agree_leaf E hE t d v hl hc hd hp hv

/-- Proved part 2 — all trait types, compounds of any nesting included: wherever
the Python path does not let an exception other than TraitError out, the two
paths give the same result (same accepted value, TraitError iff TraitError).
Missing for the full statement: the leaves excluded by `clean`, tuple
subclasses, and the case where an alternative's Python validate raises a
foreign exception that the C switch swallows (findings F43a–c, F44). -/
theorem C03_agree_compound_partial (E : Env) (hE : CastIdem E) (t : TraitType) (d : Desc) (v : Val)
    (hd : descOf E t = some d) (hc : t.clean = true) (hv : v.notTupleSub = true)
    (hr : ∀ e, pyValidate E t v ≠ .raised e) :
    fastAlone E d v = pyValidate E t v :=
  (agreeP_all E hE t).2 d v hd hc hv hr

/-- An environment in which calling a type on a non-instance raises OverflowError
(think `int(float('inf'))`). -/
def E0 : Env :=
  { cast := fun t v => if Val.exactTy t v then .ok v else .error .overflowError
    fn := fun _ v => .ok v
    adapt := fun _ _ => .ok none
    selfCls := 0
    rx := fun _ _ => false }

theorem E0_castIdem : CastIdem E0 := by
  intro t v h; simp [E0, h]

example : (TraitType.either [.int, .tuple [.float, .str]] true).clean = true := by decide
example : pyValidate E0 (.either [.int, .tuple [.float, .str]] true) Val.none = .ok Val.none := by decide

/-- F11: Tuple(Int, Int) on an instance of a tuple subclass. -/
theorem C03_agree_fails_at_tuple_subclass :
    fastAlone E0 (.tuple [some .int, some .int]) (.tuple true [Val.ofInt 1, Val.ofInt 2])
      = .ok (.tuple true [Val.ofInt 1, Val.ofInt 2]) ∧
    pyValidate E0 (.tuple [.int, .int]) (.tuple true [Val.ofInt 1, Val.ofInt 2])
      = .ok (.tuple false [Val.ofInt 1, Val.ofInt 2]) := by decide

/-- F40 repaired (58d344c): Callable(allow_none=False) rejects None on both paths. -/
example : fastAlone E0 (.callable (some false)) Val.none = .traitError ∧
    pyValidate E0 (.callable false) Val.none = .traitError := by decide

/-- F41: Trait(int) on True — and F42: Trait(float) on 3. -/
theorem C03_agree_fails_at_coerce :
    (fastAlone E0 (.coerce .int []) (Val.ofBool true) = .ok (Val.ofBool true) ∧
     pyValidate E0 (.coerceH .int) (Val.ofBool true) = .traitError) ∧
    (fastAlone E0 (.coerce .float [some .int]) (Val.ofInt 3) = .ok (Val.ofInt 3) ∧
     pyValidate E0 (.coerceH .float) (Val.ofInt 3) ≠ .ok (Val.ofInt 3)) := by decide

/-- F47 repaired (0abe830): Instance(object, allow_none=False) rejects None on both
paths, stand-alone and as a compound alternative. -/
example : fastAlone E0 (.instChk false .object) Val.none = .traitError ∧
    fastInCompound E0 (.instChk false .object) Val.none = .traitError ∧
    pyValidate E0 (.instance .object false 0 Val.none) Val.none = .traitError := by decide

/-- F43a: Either(CInt, Float) on inf — the Python path raises, the fast path accepts. -/
theorem C03_agree_fails_at_compound_exception :
    fastAlone E0 (.complex [.cast .int, .float]) (Val.ofFloat .pinf) = .ok (Val.ofFloat .pinf) ∧
    pyValidate E0 (.either [.cint, .float] false) (Val.ofFloat .pinf) = .raised .overflowError := by decide

/-- The full statement is false of the model (hence, by correspondence, of the code). -/
theorem C03_agree_full_is_false : ¬ C03_agree_full := by
  intro h
  have := h E0 E0_castIdem (.coerceH .int) (.coerce .int []) (Val.ofBool true) (by simp [descOf, coerceRest]) rfl
  rw [C03_agree_fails_at_coerce.1.1, C03_agree_fails_at_coerce.1.2] at this
  simp [Agree] at this


/-! ## The model of the compiled validators IS the source text

`harness/translate/cvalidators.py` translates, on every run, the C source text of every
`validate_trait_*` function of ctraits.c (and of the helpers they call) into terms of the
deep-embedded language `Model/CSrc.lean` (`Generated/CValidators.lean`).  `srcAlone` picks the
function `validate_handlers[kind]` names (translated table) and interprets its term on
`(trait, obj, name, value)`; `norm` identifies a TraitError raised by something a validator
calls with the validator's own (the caller cannot tell them apart).  The theorems hold for
every environment, every inner-trait oracle, every loop bound `fuel` exceeding the tuple
sizes, and every value.  Side conditions (`descOk` / `entryOk`, Lemmas/ValCSrc6.lean):
`adapt()` does not return None wrapped as an adapter; inside a compound an
`adapt='default'` member's default is the compound's (finding F49: the C code asks the
compound trait); `slow_validate` reports TraitError as such; and, for Tuple descriptors
only, `TupleCheckSpec` — the helper `validate_trait_tuple_check` (in-place construction of the
result tuple) is translated and interpreted but its equation with `tupleCheck` is NOT proved. -/

open TraitsVerif.Model.CSrc in
/-- `fastAlone` is the interpretation of the source text of the stand-alone validators:
for every descriptor `d` and value `v`, running the translated C function
`validate_handlers[d.kind]` gives exactly `fastAlone E d v`. -/
theorem C03_fast_is_source (E : Env) (hA : AdaptSome E) (inner : Desc → Val → Res) (cdflt : Val) (fuel : Nat)
    (d : Desc) (v : Val) (hok : descOk E inner cdflt fuel d) :
    srcAlone E inner cdflt fuel d v = some (norm (fastAlone E d v)) :=
  srcAlone_eq E inner cdflt fuel hA d v hok

open TraitsVerif.Model.CSrc in
/-- `fastInCompound` (hence every arm of `complexCase` and the loop `fastComplex`) is the
interpretation of the source text of `validate_trait_complex`: its `for` loop and `switch`
run on the one-entry compound `(7, (d,))` give exactly `fastInCompound E d v`; and on any
compound descriptor the whole function gives `fastAlone E (.complex ds) v` (previous theorem). -/
theorem C03_compound_case_is_source (E : Env) (hA : AdaptSome E) (inner : Desc → Val → Res) (cdflt : Val)
    (fuel : Nat) (d : Desc) (v : Val) (hok : entryOk E inner cdflt fuel d) (hf : 1 < fuel) :
    srcFn E inner cdflt fuel "validate_trait_complex" (.complex [d]) v = some (norm (fastInCompound E d v)) :=
  srcInCompound_eq E inner cdflt fuel hA d v hok hf

open TraitsVerif.Model.CSrc in
/-- C03_copies_agree about the two interpreted SOURCES: for every descriptor that can be
an alternative, the `case` inside `validate_trait_complex` and the stand-alone C function,
both interpreted on their translated text, return the same result for every value. -/
theorem C03_copies_agree_source (E : Env) (hA : AdaptSome E) (inner : Desc → Val → Res) (cdflt : Val)
    (fuel : Nat) (d : Desc) (v : Val) (h : d.isAlt = true)
    (hok : entryOk E inner cdflt fuel d) (hok' : descOk E inner cdflt fuel d) (hf : 1 < fuel) :
    srcFn E inner cdflt fuel "validate_trait_complex" (.complex [d]) v = srcAlone E inner cdflt fuel d v := by
  rw [C03_compound_case_is_source E hA inner cdflt fuel d v hok hf,
    C03_fast_is_source E hA inner cdflt fuel d v hok', (C03_copies_agree E d v h).2]

open TraitsVerif.Model.CSrc in
/-- Fast ≡ Python with the C side read from the source: wherever the Python path lets no
foreign exception out (C03_agree_compound_partial), the interpreted C function returns what
the Python validate method of the model returns. -/
theorem C03_source_agrees_python_partial (E : Env) (hE : CastIdem E) (hA : AdaptSome E)
    (inner : Desc → Val → Res) (cdflt : Val) (fuel : Nat) (t : TraitType) (d : Desc) (v : Val)
    (hd : descOf E t = some d) (hc : t.clean = true) (hv : v.notTupleSub = true)
    (hr : ∀ e, pyValidate E t v ≠ .raised e) (hok : descOk E inner cdflt fuel d) :
    srcAlone E inner cdflt fuel d v = some (norm (pyValidate E t v)) := by
  rw [C03_fast_is_source E hA inner cdflt fuel d v hok, C03_agree_compound_partial E hE t d v hd hc hv hr]

theorem E0_adaptSome : TraitsVerif.Model.CSrc.AdaptSome E0 := by
  intro v cls r h; simp [E0] at h

/-- The side conditions are satisfiable on a non-trivial compound (Either(Int, Str, Bool,
Range(0.0, 1.0, exclude_high), Instance(C, allow_none))) with a loop bound of 8. -/
example : TraitsVerif.Model.CSrc.descOk E0 (fastAlone E0) Val.none 8
    (.complex [.int, .coerce .str [], .coerce .bool [none, some .npBool],
      .floatRange (some (.fin 0)) (some (.fin 4)) 2, .instChk true (.user 1)]) := by
  refine ⟨?_, by decide⟩
  intro d hd
  simp at hd
  rcases hd with rfl | rfl | rfl | rfl | rfl <;> simp [TraitsVerif.Model.CSrc.entryOk]


/-! ## Round 2: the tuple check, and the Python half -/

open TraitsVerif.Model.CSrc in
/-- `validate_trait_tuple_check` (both of its loops, the in-place construction of the result
tuple included), interpreted on its translated source text, is `tupleCheck`: the hypothesis
`TupleCheckSpec` of the theorems above holds whenever the inner CTraits validate with
`fastAlone` and never report a TraitError as a foreign exception. -/
theorem C03_tuple_check_is_source (E : Env) (inner : Desc → Val → Res) (cdflt : Val) (fuel : Nat)
    (items : List (Option Desc))
    (hin : ∀ d, some d ∈ items → ∀ x, inner d x = fastAlone E d x)
    (hte : ∀ d, some d ∈ items → ∀ x, fastAlone E d x ≠ .raised .traitError)
    (hf : items.length < fuel) :
    TupleCheckSpec E inner cdflt fuel items :=
  tupleCheckSpec_holds E inner cdflt fuel items hin hte hf

open TraitsVerif.Model.CSrc in
/-- C03_fast_is_source for Tuple descriptors without any unproved hypothesis: the inner
traits validate with the model, which by C03_fast_is_source is their interpreted source. -/
theorem C03_fast_is_source_tuple (E : Env) (hA : AdaptSome E) (cdflt : Val) (fuel : Nat)
    (items : List (Option Desc)) (v : Val)
    (hte : ∀ d, some d ∈ items → ∀ x, fastAlone E d x ≠ .raised .traitError)
    (hf : items.length < fuel) :
    srcAlone E (fastAlone E) cdflt fuel (.tuple items) v = some (norm (fastAlone E (.tuple items) v)) :=
  C03_fast_is_source E hA (fastAlone E) cdflt fuel (.tuple items) v
    (tupleCheckSpec_holds E (fastAlone E) cdflt fuel items (fun _ _ _ => rfl) hte hf)

open TraitsVerif.Model.PyVSrc in
/-- `pyValidate` is the interpretation of the source text of the Python `validate` methods:
for every covered trait type (`pyCovered6`: Int, Float, Complex, Str, Bytes, Bool, CInt …
CBool, float and int Range with every bound / exclusivity combination (NaN included), Enum, Map,
Instance in every adapt mode, Type, This, Callable (through its super() call), the None member
of Union, typed Tuple (the generator over zip(types, value)) and BaseTuple (the enumerate /
append loop under a bare except, tuples and lists), Union and TraitCompound (validate
and slow_validate: the loops over the alternatives), the legacy handlers TraitCoerceType,
TraitCastType, TraitInstance, TraitFunction, TraitEnum, TraitMap (trait_handlers.py), and their Base* classes) and every value
(`noTE`: no member validator yields the junk result `raised traitError`),
running the translated method of trait_types.py the handler's class defines, with the
attributes its constructor stored, gives exactly `pyValidate E t v`. -/
theorem C03_py_is_source (E : Env) (hE : CastIdem E) (hA : TraitsVerif.Model.CSrc.AdaptSome E)
    (t : TraitType) (v : Val) (h : pyCovered6 t = true) (hn : noTE E t v) :
    srcPy E t v = some (pyValidate E t v) :=
  srcPy_eq6 E hE hA t v h hn

open TraitsVerif.Model.CSrc TraitsVerif.Model.PyVSrc in
/-- The property statement literally about the two SOURCES: under the conditions of
C03_agree_compound_partial, the C function `validate_handlers[kind]` interpreted on its
translated text and the Python `validate` method interpreted on its translated text return
the same result (modulo `norm`), for every covered trait type and every value. -/
theorem C03_sources_agree_partial (E : Env) (hE : CastIdem E) (hA : AdaptSome E)
    (inner : Desc → Val → Res) (cdflt : Val) (fuel : Nat) (t : TraitType) (d : Desc) (v : Val)
    (hd : descOf E t = some d) (hc : t.clean = true) (hv : v.notTupleSub = true)
    (hr : ∀ e, pyValidate E t v ≠ .raised e) (hok : descOk E inner cdflt fuel d)
    (hp : pyCovered6 t = true) (hn : noTE E t v) :
    srcAlone E inner cdflt fuel d v = (srcPy E t v).map norm := by
  rw [C03_source_agrees_python_partial E hE hA inner cdflt fuel t d v hd hc hv hr hok,
    C03_py_is_source E hE hA t v hp hn]
  rfl

example : TraitsVerif.Model.PyVSrc.pyCovered6 (.noFast (.rangeI (some 0) none true false)) = true := rfl
example : TraitsVerif.Model.PyVSrc.pyCovered6 (.functionH 3) = true := rfl
example : TraitsVerif.Model.PyVSrc.pyCovered6 (.baseTuple [.int, .str]) = true := rfl

open TraitsVerif.Model.PyVSrc in
/-- "A compound accepts iff some alternative accepts, with the result of the first accepting
alternative" as a statement about the interpreted PYTHON source: `Union.validate` and
`TraitCompound.validate` (+ `slow_validate`), run on their translated text, return the first
result that is not a TraitError among the member validators in order (for a TraitCompound:
the members with a fast validator first, then the others), TraitError if there is none. -/
theorem C03_py_compound_first_source (E : Env) (v : Val) :
    (∀ alts, (∀ t ∈ alts, ctraitValidate E t v ≠ .raised .traitError) →
      srcPy E (.union alts) v = some (firstOk v (alts.map (fun t => ctraitValidate E t)))) ∧
    (∀ hs, (∀ t ∈ hs, pyValidate E t v ≠ .raised .traitError) →
      srcPy E (.compoundH hs) v = some (firstOk v
        ((hs.filter (fun t => (descOf E t).isSome)).map (fun t => pyValidate E t) ++
         (hs.filter (fun t => !(descOf E t).isSome)).map
           (fun t x => if hasPy t then pyValidate E t x else .ok x)))) :=
  ⟨fun alts h => srcPy_union_first E alts v h, fun hs h => srcPy_compound_first E hs v h⟩

example : TraitsVerif.Model.PyVSrc.noTE E0 (.union [.int, .str]) (Val.ofInt 1) := by
  intro t ht
  simp at ht
  rcases ht with rfl | rfl <;> decide

end TraitsVerif.Props.C03
