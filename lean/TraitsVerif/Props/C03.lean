import TraitsVerif.Model.PyValidate
import TraitsVerif.Generated.ValidateTables
namespace TraitsVerif.Props.C03
open TraitsVerif TraitsVerif.Py TraitsVerif.Model

/-- The tables read from the working tree are the tables the model transcribes. -/
theorem C03_tables_modelled :
    Generated.validateHandlers = handlerTable ∧
    Generated.complexCaseLabels = Model.complexCaseLabels ∧
    Generated.setValidateCaseLabels = setValidateLabels ∧
    Generated.validateTraitEnum = Model.validateTraitEnum ∧
    Generated.floatRangeTests = ["!>low", "!>=low", "!<high", "!<=high"] := by decide

end TraitsVerif.Props.C03
