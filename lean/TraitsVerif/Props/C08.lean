/-
C08 — observe handlers track exactly the objects currently reachable.

Model: TraitsVerif/Model/{Heap,ObsGraph,Hooks,Register,Maintain}.lean (transcription
of traits/observation/*.py and of `call_notifiers` / `setattr_trait` in ctraits.c;
tied to the code by the correspondence check of harness/props/c08.py).

Specification (from scratch, Model/ObsGraph.lean + Model/Hooks.lean):
`hookList h k true g x` = the notifiers a registration of `g` on `x` owes in heap
`h`, one per path; `reach h k g x o` = number of paths ending in a notifying node
at `o`; `specCnt h regs o q` = what all active registrations owe at `(o, q)`;
`cnt H o q` = what the hooks `H` actually hold there.

Only property theorems and their non-vacuity examples live here; lemmas are in
TraitsVerif/Lemmas/Obs*.lean.
-/
import TraitsVerif.Lemmas.ObsAtomic
import TraitsVerif.Lemmas.ObsMutate
import TraitsVerif.Lemmas.ObsQuiet
import TraitsVerif.Lemmas.ObsInv
namespace TraitsVerif.Props.C08
open TraitsVerif TraitsVerif.Model.Obs

/-! ### registration installs exactly the from-scratch hooks -/

/-- L1.  A registration that does not raise adds, at every observable and for every
notifier key, exactly the from-scratch items — nothing else changes. -/
theorem C08_add_spec (h : Heap) (k : HKey) (g : Graph) (x : W) (H : Hooks)
    (hok : (addRemove h k false true g x H).err = none) :
    ∀ o q, cnt (addRemove h k false true g x H).H o q = cnt H o q + cntItems (hookList h k true g x) o q :=
  (addRemove_add h k g true x H hok).2.1

/-- In particular the user notifier's reference count on `o` grows by the number
of paths reaching `o` (`reach`), and stays absent where nothing is reached. -/
theorem C08_add_refcount_is_reach (h : Heap) (k : HKey) (g : Graph) (x : W) (H : Hooks)
    (hok : (addRemove h k false true g x H).err = none) (o : Observable) :
    cnt (addRemove h k false true g x H).H o (.user k) = cnt H o (.user k) + reach h k g x o :=
  C08_add_spec h k g x H hok o (.user k)

/-- A registration raises iff the walk meets a failing `iter_observables` /
`iter_objects` (missing non-optional trait, non-container where a container is
required): a property of the heap alone. -/
theorem C08_add_ok_iff (h : Heap) (k : HKey) (g : Graph) (x : W) (H : Hooks) :
    (addRemove h k false true g x H).err = none ↔ walkOk h true g x = true :=
  ⟨fun hok => (addRemove_add h k g true x H hok).1, addRemove_add_ok h k g true x H⟩

/-- After `observe` on objects without hooks, the hooks are the from-scratch
specification of the single registration (the refinement invariant is established). -/
theorem C08_observe_establishes (h : Heap) (k : HKey) (g : Graph) (x : Id)
    (hok : (addRemove h k false true g (some x) Hooks.empty).err = none) :
    HooksEqReach h (addRemove h k false true g (some x) Hooks.empty).H [⟨k, g, x⟩] := by
  obtain ⟨_, hc, hw⟩ := addRemove_add h k g true (some x) Hooks.empty hok
  refine ⟨hw WF_empty, ?_⟩
  intro o q
  rw [hc]
  simp [specCnt, cnt, Hooks.empty, cntList]

/-! ### the refinement invariant under mutation -/

/-- FULL-STRENGTH statement: the hooks equal the from-scratch hooks of the current
heap after every mutation.  FALSE of the code (finding F10): see
`C08_hooks_eq_reach_fails_at`. -/
def C08_hooks_eq_reach : Prop :=
  ∀ (E : Env) (st : St) (regs : List Reg) (m : Mutation), HooksEqReach st.h st.H regs →
    (mutate E st m).err = none → HooksEqReach (mutate E st m).st.h (mutate E st m).st.H regs

/-- FULL-STRENGTH corollary: a change at `o.n` calls handler key `k` exactly once
iff some registration of `k` reaches `o.n` through a notifying node.  FALSE of the
code (F10): see `C08_fires_iff_reachable_fails_at`. -/
def C08_fires_iff_reachable : Prop :=
  ∀ (E : Env) (st : St) (regs : List Reg) (ms : List Mutation) (o : Id) (n : Name) (v : Val) (k : HKey),
    HooksEqReach st.h st.H regs →
    let st' := (ms.foldl (fun s m => (mutate E s m).st) st)
    let calls := ((mutate E st' (.setField o n v 0)).delivered.filter (fun d => d.key == k)).length
    calls ≤ 1 ∧
    (calls = 1 ↔ 0 < specCnt st'.h regs (.trait o n) (.user k) ∧ fieldVal st'.h (some o) n ≠ v ∧ E.dead k = false)

/-! #### negation witness (F10): `a.child = a; a.observe(h, 'child:child:value'); a.child = b; b.value += 1` -/

def fld (n : Name) (v : Val) : Field := ⟨n, false, .val (if n == nValue then .int 0 else .none), v⟩

def f10Heap : Heap :=
  [(0, .inst [fld nValue (.int 0), fld nChild (.ref 0), fld nTraitAdded .unset]),
   (1, .inst [fld nValue (.int 0), fld nChild .none, fld nTraitAdded .unset])]

/-- `child:child:value` -/
def f10Graph : Graph :=
  .node (.named nChild false false) [.node (.named nChild false false) [.node (.named nValue true false) []]]

def f10Key : HKey := ⟨0, 0⟩
def f10Regs : List Reg := [⟨f10Key, f10Graph, 0⟩]

/-- after `a.observe(h, 'child:child:value')` -/
def f10St1 : St := ⟨f10Heap, (addRemove f10Heap f10Key false true f10Graph (some 0) Hooks.empty).H⟩
/-- after `a.child = b` -/
def f10St2 : St := (mutate {} f10St1 (.setField 0 nChild (.ref 1) 0)).st

/-- `b` is at depth 1 only (`b.child` is None), so nothing reaches `b.value`; yet
the hooks hold a user notifier there, and bumping `b.value` calls the handler. -/
theorem C08_hooks_eq_reach_fails_at :
    (addRemove f10Heap f10Key false true f10Graph (some 0) Hooks.empty).err = none ∧
    (mutate {} f10St1 (.setField 0 nChild (.ref 1) 0)).err = none ∧
    specCnt f10St2.h f10Regs (.trait 1 nValue) (.user f10Key) = 0 ∧
    cnt f10St2.H (.trait 1 nValue) (.user f10Key) = 1 ∧
    (mutate {} f10St2 (.setField 1 nValue (.int 1) 0)).delivered = [.trait f10Key 1 nValue (.int 0) (.int 1)] := by
  decide

theorem C08_hooks_eq_reach_false : ¬ C08_hooks_eq_reach := by
  intro hfull
  obtain ⟨h1, h2, h3, h4, _⟩ := C08_hooks_eq_reach_fails_at
  have inv1 : HooksEqReach f10St1.h f10St1.H f10Regs := C08_observe_establishes f10Heap f10Key f10Graph 0 h1
  have inv2 := hfull {} f10St1 f10Regs (.setField 0 nChild (.ref 1) 0) inv1 h2
  have := inv2.2 (.trait 1 nValue) (.user f10Key)
  rw [show (mutate {} f10St1 (.setField 0 nChild (.ref 1) 0)).st = f10St2 from rfl, h3, h4] at this
  omega

theorem C08_fires_iff_reachable_false : ¬ C08_fires_iff_reachable := by
  intro hfull
  obtain ⟨h1, _, h3, _, h5⟩ := C08_hooks_eq_reach_fails_at
  have inv1 : HooksEqReach f10St1.h f10St1.H f10Regs := C08_observe_establishes f10Heap f10Key f10Graph 0 h1
  have key : ((mutate {} f10St2 (.setField 1 nValue (.int 1) 0)).delivered.filter
      (fun d => d.key == f10Key)).length = 1 := by rw [h5]; decide
  have h0 : 0 < specCnt f10St2.h f10Regs (.trait 1 nValue) (.user f10Key) :=
    ((hfull {} f10St1 f10Regs [.setField 0 nChild (.ref 1) 0] 1 nValue (.int 1) f10Key inv1).2.1 key).1
  omega

/-! ### quiet links, event identity -/

/-- Links written with ':' (`notify=False`) deliver nothing: if no node of any
graph held for handler key `k` notifies, then after ANY mutation (no hypothesis on
the shape of the heap — cycles, sharing, F10 situations included) this is still so
and nothing was delivered to `k`. -/
theorem C08_quiet_links (E : Env) (st : St) (k : HKey) (m : Mutation) (hq : QuietInv st.H k) :
    QuietInv (mutate E st m).st.H k ∧ ∀ d ∈ (mutate E st m).delivered, d.key ≠ k :=
  mutate_quiet E st k m hq

/-- … and registering an all-quiet graph establishes that state. -/
theorem C08_quiet_registration (h : Heap) (k : HKey) (g : Graph) (x : W) (H : Hooks) (hq : QuietInv H k)
    (hg : g.quiet = true) : QuietInv (addRemove h k false true g x H).H k :=
  addRemove_quiet h k k g (fun _ => hg) false true x H hq

/-- The event identifies the object and trait that actually changed: every
delivered event sits on the observable the mutation targets (and was produced by a
live notifier). -/
theorem C08_event_identifies (E : Env) (st : St) (m : Mutation) :
    ∀ d ∈ (mutate E st m).delivered, some d.observable = m.target :=
  fun d hd => (mutate_delivered E st m d hd).1

/-- For a trait assignment the event carries the assigned value as `new`, a
different value as `old`, and comes from a user notifier hooked on that trait. -/
theorem C08_event_identifies_assignment (E : Env) (st : St) (o : Id) (n : Name) (v : Val) (fresh : Id) :
    ∀ d ∈ (mutate E st (.setField o n v fresh)).delivered,
      ∃ k old rc, d = .trait k o n old v ∧ old ≠ v ∧ Notifier.user k rc ∈ st.H.get (.trait o n) :=
  setField_delivered E st o n v fresh

/-! ### non-vacuity -/

def exHeap : Heap :=
  [(0, .inst [fld nValue (.int 0), fld nChild (.ref 1), fld nTraitAdded .unset]),
   (1, .inst [fld nValue (.int 3), fld nChild .none, fld nTraitAdded .unset])]
def exGraph : Graph := .node (.named nChild true false) [.node (.named nValue true false) []]

/-- `child.value` on `a.child = b`: registration succeeds, reaches `b.value` once,
and bumping `b.value` delivers exactly one event naming it. -/
example :
    (addRemove exHeap f10Key false true exGraph (some 0) Hooks.empty).err = none ∧
    reach exHeap f10Key exGraph (some 0) (.trait 1 nValue) = 1 ∧
    (mutate {} ⟨exHeap, (addRemove exHeap f10Key false true exGraph (some 0) Hooks.empty).H⟩
      (.setField 1 nValue (.int 4) 0)).delivered = [.trait f10Key 1 nValue (.int 3) (.int 4)] := by decide

/-- an all-quiet graph exists and `QuietInv` holds of the empty hooks -/
example : (Graph.node (.named nChild false false) [.node (.named nValue false false) []]).quiet = true ∧
    QuietInv Hooks.empty f10Key := ⟨by decide, by intro o n hn; simp [Hooks.empty] at hn⟩

end TraitsVerif.Props.C08
