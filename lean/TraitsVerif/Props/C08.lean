/-
C08 — observe handlers track exactly the objects currently reachable.

Model: TraitsVerif/Model/{Heap,ObsGraph,Hooks,Register,Maintain}.lean (transcription
of traits/observation/*.py and of `call_notifiers` / `setattr_trait` in ctraits.c;
tied to the code by the correspondence check of harness/props/c08.py).

Specification (from scratch, Model/ObsGraph.lean + Model/Hooks.lean):
`hookList h k true g x` = the notifiers a registration of `g` on `x` owes in heap
`h`, one per path; `reach h k g x o` = number of paths ending in a notifying node
at `o`; `specCnt h regs o q` = what all active registrations owe at `(o, q)`;
`cnt H o q` = what the hooks `H` actually hold there.

Only property theorems and their non-vacuity examples live here; lemmas are in
TraitsVerif/Lemmas/Obs*.lean.
-/
import TraitsVerif.Lemmas.ObsAtomic
import TraitsVerif.Lemmas.ObsMutate
import TraitsVerif.Lemmas.ObsQuiet
import TraitsVerif.Lemmas.ObsInvList
import TraitsVerif.Lemmas.ObsInvSetItems
import TraitsVerif.Lemmas.ObsInvDictItems
import TraitsVerif.Lemmas.ObsInvAddTrait
import TraitsVerif.Lemmas.ObsInvContDefault
import TraitsVerif.Lemmas.ObsInvDel
import TraitsVerif.Lemmas.MaintainSource
import TraitsVerif.Lemmas.ObsInvFilteredAdd
import TraitsVerif.Lemmas.ObsInvFilteredCont
import TraitsVerif.Lemmas.ObsInvFilteredList
import TraitsVerif.Lemmas.ObsInvFiltered
import TraitsVerif.Lemmas.ObsSource
import TraitsVerif.Lemmas.NotifierSource
namespace TraitsVerif.Props.C08
open TraitsVerif TraitsVerif.Model.Obs

/-! ### registration installs exactly the from-scratch hooks -/

/-- L1.  A registration that does not raise adds, at every observable and for every
notifier key, exactly the from-scratch items — nothing else changes. -/
theorem C08_add_spec (h : Heap) (k : HKey) (g : Graph) (x : W) (H : Hooks)
    (hok : (addRemove h k false true g x H).err = none) :
    ∀ o q, cnt (addRemove h k false true g x H).H o q = cnt H o q + cntItems (hookList h k true g x) o q :=
  (addRemove_add h k g true x H hok).2.1

/-- In particular the user notifier's reference count on `o` grows by the number
of paths reaching `o` (`reach`), and stays absent where nothing is reached. -/
theorem C08_add_refcount_is_reach (h : Heap) (k : HKey) (g : Graph) (x : W) (H : Hooks)
    (hok : (addRemove h k false true g x H).err = none) (o : Observable) :
    cnt (addRemove h k false true g x H).H o (.user k) = cnt H o (.user k) + reach h k g x o :=
  C08_add_spec h k g x H hok o (.user k)

/-- A registration raises iff the walk meets a failing `iter_observables` /
`iter_objects` (missing non-optional trait, non-container where a container is
required): a property of the heap alone. -/
theorem C08_add_ok_iff (h : Heap) (k : HKey) (g : Graph) (x : W) (H : Hooks) :
    (addRemove h k false true g x H).err = none ↔ walkOk h true g x = true :=
  ⟨fun hok => (addRemove_add h k g true x H hok).1, addRemove_add_ok h k g true x H⟩

open TraitsVerif.Model.ObsL in
/-- SOURCE TIE.  The registration these theorems speak about is the interpreted source: the ObsL term
`Generated.observeProg`, regenerated on every run by harness/translate/obsl.py from the text of
traits/observation/_observe.py, run on an outermost `add_or_remove_notifiers(object=x, graph=g, …)`
(for every heap, graph, handler key and well-formed hooks; fuel `need g` = three calls per level),
ends with the hooks and the exception of `Model.Obs.addRemove`. -/
theorem C08_registration_is_source (h : Heap) (k : HKey) (g : Graph) (rm : Bool) (x : W) (H : Hooks) (hw : WF H)
    (n : Nat) (hn : need g ≤ n) :
    run h Generated.observeProg n (.fn "add_or_remove_notifiers" (ownArgs x (.plain g) k rm)) (H, []) =
      (((addRemove h k rm true g x H).H, [[]]), flowOf (addRemove h k rm true g x H).err) := by
  have := run_arn_outer h k g rm true x H n hn
  simp only [gvOf, if_true] at this
  rw [this, finishS_eq_finish rm H _ (walk_did h k g rm true x H [] hw)]
  rfl

open TraitsVerif.Model.ObsL in
/-- `C08_add_spec` about the INTERPRETED SOURCE: when the translated registration returns normally, every
count has grown by exactly the from-scratch items (`hookList`, one per path), e.g. the user
notifier's reference count by `reach`; and it returns normally iff the walk of the heap meets no
failing `iter_observables` / `iter_objects`. -/
theorem C08_add_spec_source (h : Heap) (k : HKey) (g : Graph) (x : W) (H : Hooks) (hw : WF H)
    (n : Nat) (hn : need g ≤ n) :
    ((run h Generated.observeProg n (.fn "add_or_remove_notifiers" (ownArgs x (.plain g) k false)) (H, [])).2 = .next
      ↔ walkOk h true g x = true) ∧
    ((run h Generated.observeProg n (.fn "add_or_remove_notifiers" (ownArgs x (.plain g) k false)) (H, [])).2 = .next →
      ∀ o q, cnt (run h Generated.observeProg n
        (.fn "add_or_remove_notifiers" (ownArgs x (.plain g) k false)) (H, [])).1.1 o q =
          cnt H o q + cntItems (hookList h k true g x) o q) := by
  rw [C08_registration_is_source h k g false x H hw n hn]
  have hflow : flowOf (addRemove h k false true g x H).err = .next ↔ (addRemove h k false true g x H).err = none := by
    cases (addRemove h k false true g x H).err <;> simp [flowOf]
  refine ⟨?_, ?_⟩
  · simp only [hflow]
    exact C08_add_ok_iff h k g x H
  · intro hr
    exact C08_add_spec h k g x H (hflow.1 hr)

open TraitsVerif.Model.NotL in
/-- SOURCE TIE for the per-observable de-duplication C08 rests on ("calls the handler exactly once"): the
user notifier found by `add_to` is the first one `equals` accepts, and `equals` is handler `==`, target
`is`, dispatcher `==` as written in the source (rows regenerated by harness/translate/notl.py); the
equality of observer graphs used for maintainers (`Graph.beq`: equal nodes, children compared as
sets) is the interpretation (`NotL.geq`) of the rows of `ObserverGraph.__eq__`, and `__hash__` hashes the
same fields with the children as a frozenset (text tie). -/
theorem C08_dedup_is_source (eqo : Id → Id → Bool) (k : HKey) (ns : List Notifier) (a b : NKey) :
    runMethod NKey.equals Generated.userAddProg (.user k) ns = some (userAdd k ns, none) ∧
    rowsHold eqo (equalsRows a) a b = some (NKey.equals a b) ∧
    (∀ g g' : Graph, (decodeGraphRows Generated.graphEqRows).map (fun m => geq m g g') = some (Graph.beq g g')) ∧
    Generated.graphHashFields = ["type:name", "node", "children:frozenset"] :=
  ⟨userAdd_is_source k ns, equals_is_source eqo a b, graph_beq_is_source, rfl⟩

/-- After `observe` on objects without hooks, the hooks are the from-scratch
specification of the single registration (the refinement invariant is established). -/
theorem C08_observe_establishes (h : Heap) (k : HKey) (g : Graph) (x : Id)
    (hok : (addRemove h k false true g (some x) Hooks.empty).err = none) :
    HooksEqReach h (addRemove h k false true g (some x) Hooks.empty).H [⟨k, g, x⟩] := by
  obtain ⟨_, hc, hw⟩ := addRemove_add h k g true (some x) Hooks.empty hok
  refine ⟨hw WF_empty, ?_⟩
  intro o q
  rw [hc]
  simp [specCnt, cnt, Hooks.empty, cntList]

/-! ### the refinement invariant under mutation -/

/-- FULL-STRENGTH statement: the hooks equal the from-scratch hooks of the current
heap after every mutation.  FALSE of the code (finding F10): see
`C08_hooks_eq_reach_fails_at`. -/
def C08_hooks_eq_reach : Prop :=
  ∀ (E : Env) (st : St) (regs : List Reg) (m : Mutation), HooksEqReach st.h st.H regs →
    (mutate E st m).err = none → HooksEqReach (mutate E st m).st.h (mutate E st m).st.H regs

/-- FULL-STRENGTH corollary: a change at `o.n` calls handler key `k` exactly once
iff some registration of `k` reaches `o.n` through a notifying node.  FALSE of the
code (F10): see `C08_fires_iff_reachable_fails_at`. -/
def C08_fires_iff_reachable : Prop :=
  ∀ (E : Env) (st : St) (regs : List Reg) (ms : List Mutation) (o : Id) (n : Name) (v : Val) (k : HKey),
    HooksEqReach st.h st.H regs →
    let st' := (ms.foldl (fun s m => (mutate E s m).st) st)
    let calls := ((mutate E st' (.setField o n v 0)).delivered.filter (fun d => d.key == k)).length
    calls ≤ 1 ∧
    (calls = 1 ↔ 0 < specCnt st'.h regs (.trait o n) (.user k) ∧ fieldVal st'.h (some o) n ≠ v ∧ E.dead k = false)

/-! #### negation witness (F10): `a.child = a; a.observe(h, 'child:child:value'); a.child = b; b.value += 1` -/

def fld (n : Name) (v : Val) : Field := ⟨n, false, .val (if n == nValue then .int 0 else .none), v, .equality⟩

def f10Heap : Heap :=
  [(0, .inst [fld nValue (.int 0), fld nChild (.ref 0), fld nTraitAdded .unset]),
   (1, .inst [fld nValue (.int 0), fld nChild .none, fld nTraitAdded .unset])]

/-- `child:child:value` -/
def f10Graph : Graph :=
  .node (.named nChild false false) [.node (.named nChild false false) [.node (.named nValue true false) []]]

def f10Key : HKey := ⟨0, 0⟩
def f10Regs : List Reg := [⟨f10Key, f10Graph, 0⟩]

/-- after `a.observe(h, 'child:child:value')` -/
def f10St1 : St := ⟨f10Heap, (addRemove f10Heap f10Key false true f10Graph (some 0) Hooks.empty).H⟩
/-- after `a.child = b` -/
def f10St2 : St := (mutate {} f10St1 (.setField 0 nChild (.ref 1) 0)).st

/-- `b` is at depth 1 only (`b.child` is None), so nothing reaches `b.value`; yet
the hooks hold a user notifier there, and bumping `b.value` calls the handler. -/
theorem C08_hooks_eq_reach_fails_at :
    (addRemove f10Heap f10Key false true f10Graph (some 0) Hooks.empty).err = none ∧
    (mutate {} f10St1 (.setField 0 nChild (.ref 1) 0)).err = none ∧
    specCnt f10St2.h f10Regs (.trait 1 nValue) (.user f10Key) = 0 ∧
    cnt f10St2.H (.trait 1 nValue) (.user f10Key) = 1 ∧
    (mutate {} f10St2 (.setField 1 nValue (.int 1) 0)).delivered = [.trait f10Key 1 nValue (.int 0) (.int 1)] := by
  decide

theorem C08_hooks_eq_reach_false : ¬ C08_hooks_eq_reach := by
  intro hfull
  obtain ⟨h1, h2, h3, h4, _⟩ := C08_hooks_eq_reach_fails_at
  have inv1 : HooksEqReach f10St1.h f10St1.H f10Regs := C08_observe_establishes f10Heap f10Key f10Graph 0 h1
  have inv2 := hfull {} f10St1 f10Regs (.setField 0 nChild (.ref 1) 0) inv1 h2
  have := inv2.2 (.trait 1 nValue) (.user f10Key)
  rw [show (mutate {} f10St1 (.setField 0 nChild (.ref 1) 0)).st = f10St2 from rfl, h3, h4] at this
  omega

theorem C08_fires_iff_reachable_false : ¬ C08_fires_iff_reachable := by
  intro hfull
  obtain ⟨h1, _, h3, _, h5⟩ := C08_hooks_eq_reach_fails_at
  have inv1 : HooksEqReach f10St1.h f10St1.H f10Regs := C08_observe_establishes f10Heap f10Key f10Graph 0 h1
  have key : ((mutate {} f10St2 (.setField 1 nValue (.int 1) 0)).delivered.filter
      (fun d => d.key == f10Key)).length = 1 := by rw [h5]; decide
  have h0 : 0 < specCnt f10St2.h f10Regs (.trait 1 nValue) (.user f10Key) :=
    ((hfull {} f10St1 f10Regs [.setField 0 nChild (.ref 1) 0] 1 nValue (.int 1) f10Key inv1).2.1 key).1
  omega

/-! #### proved fragment of the invariant

`SetFrag` (Lemmas/ObsInvSet.lean) collects the hypotheses:
* the object has the trait; no `filtered` node (`*`, `+metadata`) in any active registration;
* no weak reference is dead; the assigned value is not a trait-name string;
* the walks the maintainers perform from the old / new value meet no failing `iter_*`;
* `noSelfReach` — below the OLD value the maintained sub-graphs never come back to the mutated
  trait (the hypothesis F10 violates; cycles, sharing and duplicates elsewhere are allowed);
* `eqStruct` — among the sub-graphs involved, `ObserverGraph.__eq__` is structural equality
  (no two differ only in the order of parallel branches).
`ListCore` (Lemmas/ObsInvList.lean) is the analogue for a mutation of an observed list
(`nsrItems` / `nsrLive`: below the current, removed and added items the maintained
sub-graphs never come back to the list itself, which also makes the iteration over the
LIVE notifier list equal to one over a copy).
`SetCore` (Lemmas/ObsInvSetItems.lean) and `DictCore` (Lemmas/ObsInvDictItems.lean) are the same for a
mutation of an observed set / dict.
`AddCore` (Lemmas/ObsInvAddTrait.lean) is the fragment for `add_trait` of a new name.
Container defaults (`List` / `Dict` / `Set` traits read for the first time) are covered by
`C08_default_materialise_container_partial` (Lemmas/ObsInvContDefault.lean: allocation of an unreferenced cell).
NOT covered (stay correspondence-checked only): the arms of
`clear` on an EMPTY container (no event, only the heap cell changes), `del obj.trait` beyond the three harmless arms of
`C08_hooks_eq_reach_partial_del` (F99: `C08_del_rehooks_default_twice`), `filtered` nodes in `read` / `fires_iff` (assignment, list / set / dict mutations and `add_trait` allow them:
`C08_hooks_eq_reach_partial_*_filtered` below), the silent default of F80. -/

/-- Assignment `o.n = v` to a materialised trait: the hooks are again exactly the
from-scratch hooks of the new heap, and nothing raises.  Series and parallel
graphs of named / list / dict / set observers, any number of registrations and
handlers, arbitrary sharing and cycles subject to `noSelfReach`. -/
theorem C08_hooks_eq_reach_partial (E : Env) (st : St) (regs : List Reg) (o : Id) (n : Name) (v : Val)
    (fresh : Id) (fs : List Field) (f : Field) (hinv : HooksEqReach st.h st.H regs)
    (fr : SetFrag E st regs o n v fs f) (hset : f.val ≠ .unset) :
    HooksEqReach (mutate E st (.setField o n v fresh)).st.h (mutate E st (.setField o n v fresh)).st.H regs ∧
    (mutate E st (.setField o n v fresh)).err = none :=
  setField_preserves E st regs o n v fresh fs f hinv fr hset

/-- Mutations of an observed list — `append`, `insert`, `del l[i]`, `l[i] = x`,
`clear`, `extend` — preserve the invariant and raise nothing: the same object may
occur several times (present twice and removed once keeps one registration's worth
of reference counts), items may be shared with other containers and registrations,
graphs may branch. -/
theorem C08_hooks_eq_reach_partial_list (E : Env) (st : St) (regs : List Reg) (c : Id) (items : List Id)
    (hinv : HooksEqReach st.h st.H regs) :
    (∀ x, ListCore E st regs c items (items ++ [x]) (.list items.length [] [x]) →
      HooksEqReach (mutate E st (.listAppend c x)).st.h (mutate E st (.listAppend c x)).st.H regs ∧
      (mutate E st (.listAppend c x)).err = none) ∧
    (∀ i x, i ≤ items.length → ListCore E st regs c items (items.take i ++ x :: items.drop i) (.list i [] [x]) →
      HooksEqReach (mutate E st (.listInsert c i x)).st.h (mutate E st (.listInsert c i x)).st.H regs ∧
      (mutate E st (.listInsert c i x)).err = none) ∧
    (∀ i y, items[i]? = some y → ListCore E st regs c items (items.eraseIdx i) (.list i [y] []) →
      HooksEqReach (mutate E st (.listDel c i)).st.h (mutate E st (.listDel c i)).st.H regs ∧
      (mutate E st (.listDel c i)).err = none) ∧
    (∀ i x y, items[i]? = some y → ListCore E st regs c items (items.set i x) (.list i [y] [x]) →
      HooksEqReach (mutate E st (.listSet c i x)).st.h (mutate E st (.listSet c i x)).st.H regs ∧
      (mutate E st (.listSet c i x)).err = none) ∧
    (items.isEmpty = false → ListCore E st regs c items [] (.list 0 items []) →
      HooksEqReach (mutate E st (.listClear c)).st.h (mutate E st (.listClear c)).st.H regs ∧
      (mutate E st (.listClear c)).err = none) ∧
    (∀ xs, xs.isEmpty = false → ListCore E st regs c items (items ++ xs) (.list items.length [] xs) →
      HooksEqReach (mutate E st (.listExtend c xs)).st.h (mutate E st (.listExtend c xs)).st.H regs ∧
      (mutate E st (.listExtend c xs)).err = none) :=
  ⟨fun x core => listAppend_preserves E st regs c x items hinv core,
   fun i x hi core => listInsert_preserves E st regs c i x items hi hinv core,
   fun i y hy core => listDel_preserves E st regs c i y items hy hinv core,
   fun i x y hy core => listSet_preserves E st regs c i x y items hy hinv core,
   fun hne core => listClear_preserves E st regs c items hne hinv core,
   fun xs hne core => listExtend_preserves E st regs c xs items hne hinv core⟩

/-- Slice assignment `l[i:j] = xs` on an observed list, any lengths — in particular a
same-length assignment that keeps the objects but changes their MULTIPLICITIES
(`[a, a, b]` ↦ `[a, b, b]`): every object's reference count follows the number of its
occurrences, so a later `pop` cannot leave a still-present object unhooked. -/
theorem C08_hooks_eq_reach_partial_slice (E : Env) (st : St) (regs : List Reg) (c : Id) (i j : Nat) (xs items : List Id)
    (hij : i ≤ j ∧ j ≤ items.length)
    (hne : (((items.drop i).take (j - i)).isEmpty && xs.isEmpty) = false)
    (hinv : HooksEqReach st.h st.H regs)
    (core : ListCore E st regs c items (items.take i ++ xs ++ items.drop j) (.list i ((items.drop i).take (j - i)) xs)) :
    HooksEqReach (mutate E st (.listSlice c i j xs)).st.h (mutate E st (.listSlice c i j xs)).st.H regs ∧
    (mutate E st (.listSlice c i j xs)).err = none :=
  listSlice_preserves E st regs c i j xs items hij hne hinv core

/-- Mutations of an observed SET container — `add`, `discard` / `remove`, `clear` — preserve
the invariant and raise nothing (`SetCore`, Lemmas/ObsInvSetItems.lean, is the analogue of
`ListCore`); `add` of a present element and `discard` of an absent one change nothing and
deliver nothing.  Items may be shared with other containers and registrations, graphs may
branch.  `items.Nodup`: the items of a set cell are distinct (Model/Heap.lean), an invariant of
the three operations (`nodup_insertSorted`, `nodup_filter_ne`). -/
theorem C08_hooks_eq_reach_partial_set (E : Env) (st : St) (regs : List Reg) (c : Id) (items : List Id)
    (hinv : HooksEqReach st.h st.H regs) :
    (∀ x, x ∉ items → SetCore E st regs c items (insertSorted x items) (.set [] [x]) →
      HooksEqReach (mutate E st (.setAdd c x)).st.h (mutate E st (.setAdd c x)).st.H regs ∧
      (mutate E st (.setAdd c x)).err = none) ∧
    (∀ x, x ∈ items → items.Nodup → SetCore E st regs c items (items.filter (· != x)) (.set [x] []) →
      HooksEqReach (mutate E st (.setDiscard c x)).st.h (mutate E st (.setDiscard c x)).st.H regs ∧
      (mutate E st (.setDiscard c x)).err = none) ∧
    (items.isEmpty = false → SetCore E st regs c items [] (.set items []) →
      HooksEqReach (mutate E st (.setClear c)).st.h (mutate E st (.setClear c)).st.H regs ∧
      (mutate E st (.setClear c)).err = none) ∧
    (∀ x, st.h.get c = .set items → x ∈ items →
      (mutate E st (.setAdd c x)).st = st ∧ (mutate E st (.setAdd c x)).delivered = [] ∧
      (mutate E st (.setAdd c x)).err = none) ∧
    (∀ x, st.h.get c = .set items → x ∉ items →
      (mutate E st (.setDiscard c x)).st = st ∧ (mutate E st (.setDiscard c x)).delivered = [] ∧
      (mutate E st (.setDiscard c x)).err = none) :=
  ⟨fun x hx core => setAdd_preserves E st regs c x items hx hinv core,
   fun x hx hnd core => setDiscard_preserves E st regs c x items hx hnd hinv core,
   fun hne core => setClear_preserves E st regs c items hne hinv core,
   fun x hc hx => setAdd_present E st c x items hc hx,
   fun x hc hx => setDiscard_absent E st c x items hc hx⟩

/-- Mutations of an observed DICT container — `d[k] = x` for a new key and for an existing one
(reported as old value removed + new value added), `del d[k]` / `pop`, `clear` — preserve the
invariant and raise nothing (`DictCore`, Lemmas/ObsInvDictItems.lean, is the analogue of
`ListCore`; the objects below a dict are its values).  The same object may sit under several
keys: removed under one key it keeps the other keys' share of the reference counts.  Only the
KEYS are distinct (`(d.map (·.1)).Nodup`, Model/Heap.lean; an invariant of the four operations:
`dict_keys_nodup_append`, `dict_keys_overwrite`, `dict_keys_nodup_filter`). -/
theorem C08_hooks_eq_reach_partial_dict (E : Env) (st : St) (regs : List Reg) (c : Id) (d : List (Key × Id))
    (hinv : HooksEqReach st.h st.H regs) :
    (∀ k x, d.find? (·.1 == k) = none → DictCore E st regs c d (d ++ [(k, x)]) (.dict [] [(k, x)]) →
      HooksEqReach (mutate E st (.dictSet c k x)).st.h (mutate E st (.dictSet c k x)).st.H regs ∧
      (mutate E st (.dictSet c k x)).err = none) ∧
    (∀ k k' x y, d.find? (·.1 == k) = some (k', y) → (d.map (·.1)).Nodup →
      DictCore E st regs c d (d.map (fun kv => if kv.1 == k then (k, x) else kv)) (.dict [(k, y)] [(k, x)]) →
      HooksEqReach (mutate E st (.dictSet c k x)).st.h (mutate E st (.dictSet c k x)).st.H regs ∧
      (mutate E st (.dictSet c k x)).err = none) ∧
    (∀ k k' y, d.find? (·.1 == k) = some (k', y) → (d.map (·.1)).Nodup →
      DictCore E st regs c d (d.filter (·.1 != k)) (.dict [(k, y)] []) →
      HooksEqReach (mutate E st (.dictDel c k)).st.h (mutate E st (.dictDel c k)).st.H regs ∧
      (mutate E st (.dictDel c k)).err = none) ∧
    (d.isEmpty = false → DictCore E st regs c d [] (.dict d []) →
      HooksEqReach (mutate E st (.dictClear c)).st.h (mutate E st (.dictClear c)).st.H regs ∧
      (mutate E st (.dictClear c)).err = none) :=
  ⟨fun k x hk core => dictSet_new_preserves E st regs c k x d hk hinv core,
   fun k k' x y hk hnd core => dictSet_overwrite_preserves E st regs c k k' x y d hk hnd hinv core,
   fun k k' y hk hnd core => dictDel_preserves E st regs c k k' y d hk hnd hinv core,
   fun hne core => dictClear_preserves E st regs c d hne hinv core⟩

/-- `o.add_trait(n, …)`.  For a NEW name the invariant is preserved and nothing raises: every
path of a registration that reaches `o` at a `named n` node (necessarily an optional one, or the
registration would have failed) has left a `trait_added` maintainer on `o.trait_added`; called with
`new = n` it hooks exactly the own items of that node on `o.n` (user notifier if the node
notifies, one maintainer per child), and nothing below, the new trait being absent from
`__dict__` — which is what the from-scratch walk of the new heap adds (`add_dec`,
Lemmas/ObsInvAddTrait.lean).  Any number of registrations, paths and handlers; users and
maintainers observing `trait_added` itself are allowed (`AddCore.okNone`).  For an EXISTING name
the hooks do not change, nothing is delivered, nothing raises. -/
theorem C08_hooks_eq_reach_partial_add_trait (E : Env) (st : St) (regs : List Reg) (o : Id) (n : Name)
    (tagged : Bool) (d : Dflt) (fs : List Field) :
    (HooksEqReach st.h st.H regs → AddCore E st regs o n tagged d fs → findField fs n = none →
      HooksEqReach (mutate E st (.addTrait o n tagged d)).st.h (mutate E st (.addTrait o n tagged d)).st.H regs ∧
      (mutate E st (.addTrait o n tagged d)).err = none) ∧
    (∀ f, st.h.get o = .inst fs → findField fs n = some f →
      (mutate E st (.addTrait o n tagged d)).st.H = st.H ∧ (mutate E st (.addTrait o n tagged d)).delivered = [] ∧
      (mutate E st (.addTrait o n tagged d)).err = none) :=
  ⟨fun hinv core hn => addTrait_preserves E st regs o n tagged d fs hinv core hn,
   fun f ho hf => addTrait_existing E st o n tagged d fs f ho hf⟩

/-- A default materialised after registration (non-container default `d`, read of
an unset trait) gets hooked by the maintainers — the invariant holds in the new
heap — and delivers nothing to the user. -/
theorem C08_default_materialise_partial (E : Env) (st : St) (regs : List Reg) (o : Id) (n : Name) (d : Val)
    (fresh : Id) (fs : List Field) (f : Field) (hinv : HooksEqReach st.h st.H regs)
    (fr : SetFrag E st regs o n d fs f) (hunset : f.val = .unset) (hdflt : f.dflt = .val d) :
    HooksEqReach (mutate E st (.read o n fresh)).st.h (mutate E st (.read o n fresh)).st.H regs ∧
    (mutate E st (.read o n fresh)).err = none ∧ (mutate E st (.read o n fresh)).delivered = [] :=
  read_preserves E st regs o n d fresh fs f hinv fr hunset hdflt

/-- A CONTAINER default (`List` / `Dict` / `Set` trait never read: `default_value_for` builds a
fresh empty container, cell `fresh`) materialised after registration gets hooked by the
maintainers — an items node below the trait leaves its user notifier and item maintainers on the
fresh container — the invariant holds in the new heap, nothing raises and nothing is delivered.
`Unref st.h fresh` / `r.x ≠ fresh`: no cell refers to the fresh identity and it is no
registration's root (then allocating it changes no from-scratch hook list, `alloc_preserves`);
`fr` is the assignment fragment of `C08_hooks_eq_reach_partial` IN THE ALLOCATED HEAP for the value
`.ref fresh`: the read is the assignment of an existing empty container to the unset trait. -/
theorem C08_default_materialise_container_partial (E : Env) (st : St) (regs : List Reg) (o : Id) (n : Name)
    (fresh : Id) (fs : List Field) (f : Field) (hinv : HooksEqReach st.h st.H regs)
    (hu : Unref st.h fresh) (hroots : ∀ r ∈ regs, r.x ≠ fresh) (hunset : f.val = .unset) :
    (f.dflt = .newList → SetFrag E ⟨st.h.upd fresh (.list []), st.H⟩ regs o n (.ref fresh) fs f →
      HooksEqReach (mutate E st (.read o n fresh)).st.h (mutate E st (.read o n fresh)).st.H regs ∧
      (mutate E st (.read o n fresh)).err = none ∧ (mutate E st (.read o n fresh)).delivered = []) ∧
    (f.dflt = .newDict → SetFrag E ⟨st.h.upd fresh (.dict []), st.H⟩ regs o n (.ref fresh) fs f →
      HooksEqReach (mutate E st (.read o n fresh)).st.h (mutate E st (.read o n fresh)).st.H regs ∧
      (mutate E st (.read o n fresh)).err = none ∧ (mutate E st (.read o n fresh)).delivered = []) ∧
    (f.dflt = .newSet → SetFrag E ⟨st.h.upd fresh (.set []), st.H⟩ regs o n (.ref fresh) fs f →
      HooksEqReach (mutate E st (.read o n fresh)).st.h (mutate E st (.read o n fresh)).st.H regs ∧
      (mutate E st (.read o n fresh)).err = none ∧ (mutate E st (.read o n fresh)).delivered = []) :=
  ⟨fun hd fr => read_newList_preserves E st regs o n fresh fs f hinv hu hroots fr hunset hd,
   fun hd fr => read_newDict_preserves E st regs o n fresh fs f hinv hu hroots fr hunset hd,
   fun hd fr => read_newSet_preserves E st regs o n fresh fs f hinv hu hroots fr hunset hd⟩

/-- "Exactly once iff reachable", on the proved fragment: an assignment that really
changes the value (not prevented by `ctrait_prevent_event`) calls handler key `k`
exactly once if some registration of `k` reaches `o.n` through a notifying node —
however many paths reach it, the same object inserted twice, several registrations —
and not at all otherwise.  `UniqueUsers` (at most one user notifier per key on an
observable) is an invariant of every operation, see `C08_unique_users`. -/
theorem C08_fires_iff_reachable_partial (E : Env) (st : St) (regs : List Reg) (o : Id) (n : Name) (v : Val)
    (fresh : Id) (fs : List Field) (f : Field) (hinv : HooksEqReach st.h st.H regs)
    (fr : SetFrag E st regs o n v fs f) (hset : f.val ≠ .unset) (hu : UniqueUsers st.H) (hne : f.val ≠ v)
    (hprev : preventTrait E (storeField st.h o n v) o n f.val v = false) (k : HKey) :
    ((mutate E st (.setField o n v fresh)).delivered.filter (fun d => d.key == k)).length =
      if 0 < specCnt st.h regs (.trait o n) (.user k) then 1 else 0 :=
  setField_calls E st regs o n v fresh fs f hinv fr hset hu hne hprev k

/-- Equal user notifiers are reference-counted, never duplicated: at most one per
handler key and observable, after any registration, removal (successful or not)
and any mutation. -/
theorem C08_unique_users (E : Env) (st : St) (m : Mutation) (h : Heap) (k : HKey) (g : Graph) (rm : Bool) (x : W)
    (hu : UniqueUsers st.H) :
    UniqueUsers (mutate E st m).st.H ∧ UniqueUsers (addRemove h k rm true g x st.H).H :=
  ⟨mutate_unique E st m hu, addRemove_unique h k g rm true x st.H hu⟩

/-- Detached objects are silent, reachable ones only are called: wherever the
invariant holds, an assignment delivers to handler key `k` only if some
registration of `k` reaches the assigned trait through a notifying node. -/
theorem C08_detached_silent (E : Env) (st : St) (regs : List Reg) (o : Id) (n : Name) (v : Val) (fresh : Id)
    (hinv : HooksEqReach st.h st.H regs) :
    ∀ d ∈ (mutate E st (.setField o n v fresh)).delivered,
      0 < specCnt st.h regs (.trait o n) (.user d.key) := by
  intro d hd
  obtain ⟨k, old, rc, rfl, _, hm⟩ := setField_delivered E st o n v fresh d hd
  rw [← hinv.2]
  exact cnt_pos_of_user st.H (.trait o n) k rc hm (hinv.1 _ k rc hm)

/-! ### quiet links, event identity -/

/-- Links written with ':' (`notify=False`) deliver nothing: if no node of any
graph held for handler key `k` notifies, then after ANY mutation (no hypothesis on
the shape of the heap — cycles, sharing, F10 situations included) this is still so
and nothing was delivered to `k`. -/
theorem C08_quiet_links (E : Env) (st : St) (k : HKey) (m : Mutation) (hq : QuietInv st.H k) :
    QuietInv (mutate E st m).st.H k ∧ ∀ d ∈ (mutate E st m).delivered, d.key ≠ k :=
  mutate_quiet E st k m hq

/-- … and registering an all-quiet graph establishes that state. -/
theorem C08_quiet_registration (h : Heap) (k : HKey) (g : Graph) (x : W) (H : Hooks) (hq : QuietInv H k)
    (hg : g.quiet = true) : QuietInv (addRemove h k false true g x H).H k :=
  addRemove_quiet h k k g (fun _ => hg) false true x H hq

/-- The event identifies the object and trait that actually changed: every
delivered event sits on the observable the mutation targets (and was produced by a
live notifier). -/
theorem C08_event_identifies (E : Env) (st : St) (m : Mutation) :
    ∀ d ∈ (mutate E st m).delivered, some d.observable = m.target :=
  fun d hd => (mutate_delivered E st m d hd).1

/-- For a trait assignment the event carries the assigned value as `new`, a
different value as `old` (unless the trait is declared `comparison_mode=none`, which
reports every assignment), and comes from a user notifier hooked on that trait. -/
theorem C08_event_identifies_assignment (E : Env) (st : St) (o : Id) (n : Name) (v : Val) (fresh : Id) :
    ∀ d ∈ (mutate E st (.setField o n v fresh)).delivered,
      ∃ k old rc, d = .trait k o n old v ∧ (old = v → fieldCmp st.h o n = .none) ∧
        Notifier.user k rc ∈ st.H.get (.trait o n) :=
  setField_delivered E st o n v fresh

/-! ### non-vacuity -/

def exHeap : Heap :=
  [(0, .inst [fld nValue (.int 0), fld nChild (.ref 1), fld nTraitAdded .unset]),
   (1, .inst [fld nValue (.int 3), fld nChild .none, fld nTraitAdded .unset])]
def exGraph : Graph := .node (.named nChild true false) [.node (.named nValue true false) []]

/-- `child.value` on `a.child = b`: registration succeeds, reaches `b.value` once,
and bumping `b.value` delivers exactly one event naming it. -/
example :
    (addRemove exHeap f10Key false true exGraph (some 0) Hooks.empty).err = none ∧
    reach exHeap f10Key exGraph (some 0) (.trait 1 nValue) = 1 ∧
    (mutate {} ⟨exHeap, (addRemove exHeap f10Key false true exGraph (some 0) Hooks.empty).H⟩
      (.setField 1 nValue (.int 4) 0)).delivered = [.trait f10Key 1 nValue (.int 3) (.int 4)] := by decide

def xHeap : Heap :=
  [(0, .inst [fld nValue (.int 0), fld nChild (.ref 1), fld nTraitAdded .unset]),
   (1, .inst [fld nValue (.int 3), fld nChild .none, fld nTraitAdded .unset]),
   (2, .inst [fld nValue (.int 5), fld nChild (.ref 0), fld nTraitAdded .unset])]
def xSt : St := ⟨xHeap, (addRemove xHeap f10Key false true exGraph (some 0) Hooks.empty).H⟩
def xRegs : List Reg := [⟨f10Key, exGraph, 0⟩]
def xFs : List Field := [fld nValue (.int 0), fld nChild (.ref 1), fld nTraitAdded .unset]

theorem xHooks : xSt.H.get (.trait 0 nChild) =
    [.user f10Key 1, .maint .trait (.node (.named nValue true false) []) f10Key] := rfl

theorem xVisits : visits xSt.h 0 nChild exGraph (some 0) = [.node (.named nValue true false) []] := rfl

/-- The hypotheses of `C08_hooks_eq_reach_partial` hold on a concrete state with a
cycle (`c.child = a`, `a.child = b`, `child.value` observed on `a`) for `a.child = c`. -/
theorem xFrag : SetFrag {} xSt xRegs 0 nChild (.ref 2) xFs (fld nChild (.ref 1)) where
  ho := rfl
  hf := rfl
  noFiltered := by intro r hr; simp [xRegs] at hr; subst hr; decide
  alive := fun _ => rfl
  notName := by intro m; simp
  okOld := by
    intro c k hm w hw
    rw [xHooks] at hm
    simp at hm
    obtain ⟨rfl, rfl⟩ := hm
    simp [fld, valObjects] at hw
    subst hw
    decide
  okNew := by
    intro c k hm w hw
    rw [xHooks] at hm
    simp at hm
    obtain ⟨rfl, rfl⟩ := hm
    simp [valObjects] at hw
    subst hw
    decide
  noSelfReach := by
    intro r hr c hc w hw
    simp [xRegs] at hr; subst hr
    rw [xVisits] at hc
    simp at hc; subst hc
    simp [fld, valObjects] at hw; subst hw
    decide
  eqStruct := by
    intro c k hm r hr c' hc' he
    rw [xHooks] at hm
    simp at hm
    obtain ⟨rfl, rfl⟩ := hm
    simp [xRegs] at hr; subst hr
    rw [xVisits] at hc'
    simp at hc'; subst hc'
    exact ⟨rfl, rfl⟩

/-- … and the theorem applies: after `a.child = c` the hooks are the from-scratch
hooks (`c.value` hooked, `b.value` released). -/
example : HooksEqReach (mutate {} xSt (.setField 0 nChild (.ref 2) 0)).st.h
    (mutate {} xSt (.setField 0 nChild (.ref 2) 0)).st.H xRegs :=
  (C08_hooks_eq_reach_partial {} xSt xRegs 0 nChild (.ref 2) 0 xFs (fld nChild (.ref 1))
    (C08_observe_establishes xHeap f10Key exGraph 0 (by decide)) xFrag (by simp [fld])).1

/-- and `a.child = c` itself is delivered exactly once to the handler (`child` notifies) -/
example : ((mutate {} xSt (.setField 0 nChild (.ref 2) 0)).delivered.filter (fun d => d.key == f10Key)).length = 1 := by
  rw [C08_fires_iff_reachable_partial {} xSt xRegs 0 nChild (.ref 2) 0 xFs (fld nChild (.ref 1))
    (C08_observe_establishes xHeap f10Key exGraph 0 (by decide)) xFrag (by simp [fld])
    (addRemove_unique xHeap f10Key exGraph false true (some 0) Hooks.empty UniqueUsers_empty)
    (by simp [fld]) (by decide) f10Key]
  decide

example : cnt (mutate {} xSt (.setField 0 nChild (.ref 2) 0)).st.H (.trait 2 nValue) (.user f10Key) = 1 ∧
    cnt (mutate {} xSt (.setField 0 nChild (.ref 2) 0)).st.H (.trait 1 nValue) (.user f10Key) = 0 := by decide

def lHeap : Heap :=
  [(0, .inst [fld nKids (.ref 100), fld nTraitAdded .unset]),
   (1, .inst [fld nValue (.int 3), fld nTraitAdded .unset]),
   (100, .list [1, 1])]
def lGraph : Graph := .node (.named nKids true false) [.node (.listItems true false) [.node (.named nValue true false) []]]
def lSt : St := ⟨lHeap, (addRemove lHeap f10Key false true lGraph (some 0) Hooks.empty).H⟩
def lRegs : List Reg := [⟨f10Key, lGraph, 0⟩]

theorem lHooks : lSt.H.get (.cont 100) =
    [.user f10Key 1, .maint .list (.node (.named nValue true false) []) f10Key] := rfl
theorem lVisits : Gen.visits (listSite 100) actTrue lSt.h lGraph (some 0) = [.node (.named nValue true false) []] := rfl

/-- The hypotheses of `C08_hooks_eq_reach_partial_list` hold on a concrete state where the
SAME object sits twice in the observed list (`a.kids = [b, b]`, `kids.items.value`). -/
theorem lCore : ListCore {} lSt lRegs 100 [1, 1] ([1, 1].eraseIdx 0) (.list 0 [1] []) where
  hc := rfl
  noFiltered := by intro r hr; simp [lRegs] at hr; subst hr; decide
  alive := fun _ => rfl
  okRem := by
    intro mk g k hm y hy
    rw [lHooks] at hm
    simp at hm
    obtain ⟨rfl, rfl, rfl⟩ := hm
    simp [CEvent.removed] at hy
    subst hy
    decide
  okAdd := by intro mk g k _ y hy; simp [CEvent.added] at hy
  nsrItems := by
    intro r hr g hg y hy
    simp [lRegs] at hr; subst hr
    rw [lVisits] at hg
    simp at hg; subst hg
    simp at hy; subst hy
    decide
  nsrLive := by
    intro mk g k hm y hy
    rw [lHooks] at hm
    simp at hm
    obtain ⟨rfl, rfl, rfl⟩ := hm
    simp [CEvent.removed, CEvent.added] at hy
    subst hy
    decide
  eqStruct := by
    intro mk g k hm r hr g' hg' he
    rw [lHooks] at hm
    simp at hm
    obtain ⟨rfl, rfl, rfl⟩ := hm
    simp [lRegs] at hr; subst hr
    rw [lVisits] at hg'
    simp at hg'; subst hg'
    exact ⟨rfl, rfl⟩

/-- … the theorem applies to `del a.kids[0]`, and the reference count on `b.value` goes 2 ↦ 1 -/
example : HooksEqReach (mutate {} lSt (.listDel 100 0)).st.h (mutate {} lSt (.listDel 100 0)).st.H lRegs :=
  ((C08_hooks_eq_reach_partial_list {} lSt lRegs 100 [1, 1]
    (C08_observe_establishes lHeap f10Key lGraph 0 (by decide))).2.2.1 0 1 rfl lCore).1

example : cnt lSt.H (.trait 1 nValue) (.user f10Key) = 2 ∧
    cnt (mutate {} lSt (.listDel 100 0)).st.H (.trait 1 nValue) (.user f10Key) = 1 := by decide

/-- `a.kids = [b, b, c]`, `kids.items.value`; `kids[0:3] = [b, c, c]`; `del kids[2]`: `c` is still
in the list, its reference count is 1 and bumping `c.value` calls the handler once. -/
example :
    let h0 : Heap := [(0, .inst [fld nKids (.ref 100), fld nTraitAdded .unset]),
                      (1, .inst [fld nValue (.int 0), fld nTraitAdded .unset]),
                      (2, .inst [fld nValue (.int 0), fld nTraitAdded .unset]),
                      (100, .list [1, 1, 2])]
    let s0 : St := ⟨h0, (addRemove h0 f10Key false true lGraph (some 0) Hooks.empty).H⟩
    let s1 := (mutate {} s0 (.listSlice 100 0 3 [1, 2, 2])).st
    let s2 := (mutate {} s1 (.listDel 100 2)).st
    cnt s1.H (.trait 2 nValue) (.user f10Key) = 2 ∧ cnt s2.H (.trait 2 nValue) (.user f10Key) = 1 ∧
    (mutate {} s2 (.setField 2 nValue (.int 1) 0)).delivered = [.trait f10Key 2 nValue (.int 0) (.int 1)] := by
  decide

/-- an all-quiet graph exists and `QuietInv` holds of the empty hooks -/
example : (Graph.node (.named nChild false false) [.node (.named nValue false false) []]).quiet = true ∧
    QuietInv Hooks.empty f10Key := ⟨by decide, by intro o n hn; simp [Hooks.empty] at hn⟩

/-! non-vacuity of `C08_hooks_eq_reach_partial_set`: `a.group = {b, c}`, `group.items.value`
observed on `a` (state `SetWitness.sSt`, hypotheses `SetWitness.sCoreDiscard` / `sCoreAdd` /
`sCoreClear` proved in Lemmas/ObsInvSetItems.lean) -/
open SetWitness in
/-- the theorem applies to `a.group.discard(b)` … -/
example : HooksEqReach (mutate {} sSt (.setDiscard 100 1)).st.h (mutate {} sSt (.setDiscard 100 1)).st.H sRegs :=
  ((C08_hooks_eq_reach_partial_set {} sSt sRegs 100 [1, 2]
    (C08_observe_establishes sHeap sKey sGraph 0 (by decide))).2.1 1 (by decide) (by decide) sCoreDiscard).1

open SetWitness in
/-- … `b.value` is released and `c.value` stays hooked -/
example : cnt sSt.H (.trait 1 nValue) (.user sKey) = 1 ∧
    cnt (mutate {} sSt (.setDiscard 100 1)).st.H (.trait 1 nValue) (.user sKey) = 0 ∧
    cnt (mutate {} sSt (.setDiscard 100 1)).st.H (.trait 2 nValue) (.user sKey) = 1 := by decide

open SetWitness in
/-- … and to `a.group.add(d)`: `d.value` gets hooked, and bumping it is delivered once -/
example : HooksEqReach (mutate {} sSt (.setAdd 100 3)).st.h (mutate {} sSt (.setAdd 100 3)).st.H sRegs :=
  ((C08_hooks_eq_reach_partial_set {} sSt sRegs 100 [1, 2]
    (C08_observe_establishes sHeap sKey sGraph 0 (by decide))).1 3 (by decide) sCoreAdd).1

open SetWitness in
example : cnt sSt.H (.trait 3 nValue) (.user sKey) = 0 ∧
    cnt (mutate {} sSt (.setAdd 100 3)).st.H (.trait 3 nValue) (.user sKey) = 1 ∧
    (mutate {} (mutate {} sSt (.setAdd 100 3)).st (.setField 3 nValue (.int 8) 0)).delivered =
      [.trait sKey 3 nValue (.int 7) (.int 8)] := by decide

open SetWitness in
/-- … and to `a.group.clear()`: everything below the set is released, one event is delivered -/
example : HooksEqReach (mutate {} sSt (.setClear 100)).st.h (mutate {} sSt (.setClear 100)).st.H sRegs :=
  ((C08_hooks_eq_reach_partial_set {} sSt sRegs 100 [1, 2]
    (C08_observe_establishes sHeap sKey sGraph 0 (by decide))).2.2.1 (by decide) sCoreClear).1

open SetWitness in
example : cnt (mutate {} sSt (.setClear 100)).st.H (.trait 1 nValue) (.user sKey) = 0 ∧
    cnt (mutate {} sSt (.setClear 100)).st.H (.trait 2 nValue) (.user sKey) = 0 ∧
    (mutate {} sSt (.setClear 100)).delivered = [.set sKey 100 [1, 2] []] := by decide

/-! non-vacuity of `C08_hooks_eq_reach_partial_dict`: `a.byname = {1: b, 2: b}` — the SAME object
under two keys —, `byname.items.value` observed on `a` (state `DictWitness.dSt`, hypotheses
`DictWitness.dCoreDel` / `dCoreOverwrite` / `dCoreNew` / `dCoreClear` proved in
Lemmas/ObsInvDictItems.lean) -/
open DictWitness in
/-- the theorem applies to `del a.byname[1]` … -/
example : HooksEqReach (mutate {} dSt (.dictDel 100 1)).st.h (mutate {} dSt (.dictDel 100 1)).st.H dRegs :=
  ((C08_hooks_eq_reach_partial_dict {} dSt dRegs 100 [(1, 1), (2, 1)]
    (C08_observe_establishes dHeap dKey dGraph 0 (by decide))).2.2.1 1 1 1 rfl (by decide) dCoreDel).1

open DictWitness in
/-- … the reference count on `b.value` goes 2 ↦ 1 (`b` is still there under key 2) and a later
`b.value = 4` is delivered once -/
example : cnt dSt.H (.trait 1 nValue) (.user dKey) = 2 ∧
    cnt (mutate {} dSt (.dictDel 100 1)).st.H (.trait 1 nValue) (.user dKey) = 1 ∧
    (mutate {} (mutate {} dSt (.dictDel 100 1)).st (.setField 1 nValue (.int 4) 0)).delivered =
      [.trait dKey 1 nValue (.int 3) (.int 4)] := by decide

open DictWitness in
/-- … to `a.byname[2] = c` (existing key): `b.value` 2 ↦ 1, `c.value` 0 ↦ 1, one event `{2: b} → {2: c}` -/
example : HooksEqReach (mutate {} dSt (.dictSet 100 2 2)).st.h (mutate {} dSt (.dictSet 100 2 2)).st.H dRegs :=
  ((C08_hooks_eq_reach_partial_dict {} dSt dRegs 100 [(1, 1), (2, 1)]
    (C08_observe_establishes dHeap dKey dGraph 0 (by decide))).2.1 2 2 2 1 rfl (by decide) dCoreOverwrite).1

open DictWitness in
example : cnt (mutate {} dSt (.dictSet 100 2 2)).st.H (.trait 1 nValue) (.user dKey) = 1 ∧
    cnt (mutate {} dSt (.dictSet 100 2 2)).st.H (.trait 2 nValue) (.user dKey) = 1 ∧
    (mutate {} dSt (.dictSet 100 2 2)).delivered = [.dict dKey 100 [(2, 1)] [(2, 2)]] := by decide

open DictWitness in
/-- … to `a.byname[3] = c` (new key): `c.value` gets hooked, `b.value` keeps its two references -/
example : HooksEqReach (mutate {} dSt (.dictSet 100 3 2)).st.h (mutate {} dSt (.dictSet 100 3 2)).st.H dRegs :=
  ((C08_hooks_eq_reach_partial_dict {} dSt dRegs 100 [(1, 1), (2, 1)]
    (C08_observe_establishes dHeap dKey dGraph 0 (by decide))).1 3 2 rfl dCoreNew).1

open DictWitness in
example : cnt dSt.H (.trait 2 nValue) (.user dKey) = 0 ∧
    cnt (mutate {} dSt (.dictSet 100 3 2)).st.H (.trait 2 nValue) (.user dKey) = 1 ∧
    cnt (mutate {} dSt (.dictSet 100 3 2)).st.H (.trait 1 nValue) (.user dKey) = 2 := by decide

open DictWitness in
/-- … and to `a.byname.clear()`: both references to `b.value` are released -/
example : HooksEqReach (mutate {} dSt (.dictClear 100)).st.h (mutate {} dSt (.dictClear 100)).st.H dRegs :=
  ((C08_hooks_eq_reach_partial_dict {} dSt dRegs 100 [(1, 1), (2, 1)]
    (C08_observe_establishes dHeap dKey dGraph 0 (by decide))).2.2.2 (by decide) dCoreClear).1

open DictWitness in
example : cnt (mutate {} dSt (.dictClear 100)).st.H (.trait 1 nValue) (.user dKey) = 0 ∧
    (mutate {} dSt (.dictClear 100)).delivered = [.dict dKey 100 [(1, 1), (2, 1)] []] := by decide

/-! non-vacuity of `C08_hooks_eq_reach_partial_add_trait`: `a.child = b`, `b` without a `value`
trait, graph `child` → optional `value` → optional `child` observed on `a` (state
`AddWitness.aSt`, hypotheses `AddWitness.aCore` proved in Lemmas/ObsInvAddTrait.lean) -/
open AddWitness in
/-- the theorem applies to `b.add_trait("value", …)` … -/
example : HooksEqReach (mutate {} aSt (.addTrait 1 nValue false (.val (.int 0)))).st.h
    (mutate {} aSt (.addTrait 1 nValue false (.val (.int 0)))).st.H aRegs :=
  ((C08_hooks_eq_reach_partial_add_trait {} aSt aRegs 1 nValue false (.val (.int 0)) aFs).1
    (C08_observe_establishes aHeap aKey aGraph 0 (by decide)) aCore rfl).1

open AddWitness in
/-- … `b.value` gets the user notifier and the maintainer for the link below it (nothing was
there before), and a later `b.value = 4` is delivered to the handler -/
example : cnt aSt.H (.trait 1 nValue) (.user aKey) = 0 ∧
    cnt (mutate {} aSt (.addTrait 1 nValue false (.val (.int 0)))).st.H (.trait 1 nValue) (.user aKey) = 1 ∧
    cnt (mutate {} aSt (.addTrait 1 nValue false (.val (.int 0)))).st.H (.trait 1 nValue)
      (.maint .trait (.node (.named nChild true true) []) aKey) = 1 ∧
    ((mutate {} (mutate {} aSt (.addTrait 1 nValue false (.val (.int 0)))).st
      (.setField 1 nValue (.int 4) 0)).delivered.filter (fun d => d.key == aKey)).length = 1 := by decide

/-! non-vacuity of `C08_default_materialise_container_partial`: `a.kids` a `List` trait never read,
`kids.items.value` observed on `a` (state `ContDefaultWitness.cSt`; `cUnref`, `cFrag` proved in
Lemmas/ObsInvContDefault.lean) -/
open ContDefaultWitness in
/-- the theorem applies to the first read of `a.kids` (fresh list = cell 100) … -/
example : HooksEqReach (mutate {} cSt (.read 0 nKids 100)).st.h (mutate {} cSt (.read 0 nKids 100)).st.H cRegs :=
  ((C08_default_materialise_container_partial {} cSt cRegs 0 nKids 100 cFs kidsF
    (C08_observe_establishes cHeap cKey cGraph 0 (by decide)) cUnref
    (by intro r hr; simp [cRegs] at hr; subst hr; decide) rfl).1 rfl cFrag).1

open ContDefaultWitness in
/-- … the fresh list carries the user notifier and the item maintainer, nothing was delivered,
and a later `a.kids.append(b)` hooks `b.value` -/
example : cnt (mutate {} cSt (.read 0 nKids 100)).st.H (.cont 100) (.user cKey) = 1 ∧
    cnt (mutate {} cSt (.read 0 nKids 100)).st.H (.cont 100)
      (.maint .list (.node (.named nValue true false) []) cKey) = 1 ∧
    (mutate {} cSt (.read 0 nKids 100)).delivered = [] ∧
    cnt (mutate {} (mutate {} cSt (.read 0 nKids 100)).st (.listAppend 100 1)).st.H (.trait 1 nValue) (.user cKey) = 1 := by
  decide


/-! ### `filtered` nodes (`*`, `+metadata`) inside the fragments (Lemmas/ObsInvFiltered*.lean) -/

/-- Assignment `o.n = v` to a materialised trait when the registrations MAY contain `filtered`
nodes (`*`, `+metadata`): the hooks are again exactly the from-scratch hooks of the new heap and
nothing raises.  `C08_hooks_eq_reach_partial` without `noFiltered`; what replaces it is
`SetFragF.shape`: `f` is the only field of `o` called `n` (trait names of an object are distinct,
`Shape.of_nodup`) — a filter's verdict on a trait depends on its name and metadata, which an
assignment does not change.  A `filtered` node standing on `o` whose filter matches `n` reads the
assigned trait among all the other matching traits of `o`; those are left alone (`decF`,
`localityF`, Lemmas/ObsInvFiltered.lean).  `noSelfReach` (F10) and `eqStruct` stay. -/
theorem C08_hooks_eq_reach_partial_filtered (E : Env) (st : St) (regs : List Reg) (o : Id) (n : Name) (v : Val)
    (fresh : Id) (f : Field) (pre post : List Field) (hinv : HooksEqReach st.h st.H regs)
    (fr : SetFragF E st regs o n v f pre post) (hset : f.val ≠ .unset) :
    HooksEqReach (mutate E st (.setField o n v fresh)).st.h (mutate E st (.setField o n v fresh)).st.H regs ∧
    (mutate E st (.setField o n v fresh)).err = none :=
  setField_preservesF E st regs o n v fresh f pre post hinv fr hset

/-! non-vacuity of `C08_hooks_eq_reach_partial_filtered`: `a.child = b`, a quiet `*` node on `a`
above an optional notifying `value` (state `FilteredWitness.wSt`, hypotheses `FilteredWitness.wFrag`
proved in Lemmas/ObsInvFiltered.lean); `a.child = c` -/
open FilteredWitness in
example : HooksEqReach (mutate {} wSt (.setField 0 nChild (.ref 2) 0)).st.h
    (mutate {} wSt (.setField 0 nChild (.ref 2) 0)).st.H wRegs :=
  (C08_hooks_eq_reach_partial_filtered {} wSt wRegs 0 nChild (.ref 2) 0 (FilteredWitness.fld nChild (.ref 1))
    [FilteredWitness.fld nValue (.int 0)] [FilteredWitness.fld nTraitAdded .unset] wInv wFrag
    (by simp [FilteredWitness.fld])).1

open FilteredWitness in
/-- `c.value` hooked, `b.value` released, and `c.value = 6` is delivered once -/
example : cnt wSt.H (.trait 1 nValue) (.user wKey) = 1 ∧
    cnt (mutate {} wSt (.setField 0 nChild (.ref 2) 0)).st.H (.trait 2 nValue) (.user wKey) = 1 ∧
    cnt (mutate {} wSt (.setField 0 nChild (.ref 2) 0)).st.H (.trait 1 nValue) (.user wKey) = 0 ∧
    (mutate {} (mutate {} wSt (.setField 0 nChild (.ref 2) 0)).st (.setField 2 nValue (.int 6) 0)).delivered =
      [.trait wKey 2 nValue (.int 5) (.int 6)] := by decide

/-- Mutations of an observed list when the registrations MAY contain `filtered` nodes (`*`,
`+metadata`), above or below the list: `C08_hooks_eq_reach_partial_list` / `_slice` with `ListCoreF`
= `ListCore` WITHOUT `noFiltered` and no hypothesis in its place — a container cell is neither read
nor yielded by a `filtered` node (Lemmas/ObsInvFilteredList.lean: `GenA.decA`, `localityA`,
`stable_at_targetA`, `listRel_updA`). -/
theorem C08_hooks_eq_reach_partial_list_filtered (E : Env) (st : St) (regs : List Reg) (c : Id) (items : List Id)
    (hinv : HooksEqReach st.h st.H regs) :
    (∀ x, ListCoreF E st regs c items (items ++ [x]) (.list items.length [] [x]) →
      HooksEqReach (mutate E st (.listAppend c x)).st.h (mutate E st (.listAppend c x)).st.H regs ∧
      (mutate E st (.listAppend c x)).err = none) ∧
    (∀ i x, i ≤ items.length → ListCoreF E st regs c items (items.take i ++ x :: items.drop i) (.list i [] [x]) →
      HooksEqReach (mutate E st (.listInsert c i x)).st.h (mutate E st (.listInsert c i x)).st.H regs ∧
      (mutate E st (.listInsert c i x)).err = none) ∧
    (∀ i y, items[i]? = some y → ListCoreF E st regs c items (items.eraseIdx i) (.list i [y] []) →
      HooksEqReach (mutate E st (.listDel c i)).st.h (mutate E st (.listDel c i)).st.H regs ∧
      (mutate E st (.listDel c i)).err = none) ∧
    (∀ i x y, items[i]? = some y → ListCoreF E st regs c items (items.set i x) (.list i [y] [x]) →
      HooksEqReach (mutate E st (.listSet c i x)).st.h (mutate E st (.listSet c i x)).st.H regs ∧
      (mutate E st (.listSet c i x)).err = none) ∧
    (items.isEmpty = false → ListCoreF E st regs c items [] (.list 0 items []) →
      HooksEqReach (mutate E st (.listClear c)).st.h (mutate E st (.listClear c)).st.H regs ∧
      (mutate E st (.listClear c)).err = none) ∧
    (∀ xs, xs.isEmpty = false → ListCoreF E st regs c items (items ++ xs) (.list items.length [] xs) →
      HooksEqReach (mutate E st (.listExtend c xs)).st.h (mutate E st (.listExtend c xs)).st.H regs ∧
      (mutate E st (.listExtend c xs)).err = none) ∧
    (∀ i j xs, i ≤ j ∧ j ≤ items.length → (((items.drop i).take (j - i)).isEmpty && xs.isEmpty) = false →
      ListCoreF E st regs c items (items.take i ++ xs ++ items.drop j) (.list i ((items.drop i).take (j - i)) xs) →
      HooksEqReach (mutate E st (.listSlice c i j xs)).st.h (mutate E st (.listSlice c i j xs)).st.H regs ∧
      (mutate E st (.listSlice c i j xs)).err = none) :=
  ⟨fun x core => listAppend_preservesF E st regs c x items hinv core,
   fun i x hi core => listInsert_preservesF E st regs c i x items hi hinv core,
   fun i y hy core => listDel_preservesF E st regs c i y items hy hinv core,
   fun i x y hy core => listSet_preservesF E st regs c i x y items hy hinv core,
   fun hne core => listClear_preservesF E st regs c items hne hinv core,
   fun xs hne core => listExtend_preservesF E st regs c xs items hne hinv core,
   fun i j xs hij hne core => listSlice_preservesF E st regs c i j xs items hij hne hinv core⟩

/-! non-vacuity: `a.kids = [b]` observed through a quiet `*` node on `a` (`*` → optional `items` →
`value`; state `FilteredListWitness.wSt`, hypotheses `wCore`); `a.kids.append(c)` -/
open FilteredListWitness in
example : HooksEqReach (mutate {} wSt (.listAppend 100 2)).st.h (mutate {} wSt (.listAppend 100 2)).st.H wRegs :=
  ((C08_hooks_eq_reach_partial_list_filtered {} wSt wRegs 100 [1] wInv).1 2 wCore).1

open FilteredListWitness in
example : cnt wSt.H (.trait 2 nValue) (.user wKey) = 0 ∧
    cnt (mutate {} wSt (.listAppend 100 2)).st.H (.trait 2 nValue) (.user wKey) = 1 ∧
    cnt (mutate {} wSt (.listAppend 100 2)).st.H (.trait 1 nValue) (.user wKey) = 1 := by decide

/-- Mutations of an observed SET container when the registrations MAY contain `filtered` nodes:
`C08_hooks_eq_reach_partial_set` with `SetCoreF` = `SetCore` WITHOUT `noFiltered`, nothing in its
place (Lemmas/ObsInvFilteredCont.lean). -/
theorem C08_hooks_eq_reach_partial_set_filtered (E : Env) (st : St) (regs : List Reg) (c : Id) (items : List Id)
    (hinv : HooksEqReach st.h st.H regs) :
    (∀ x, x ∉ items → SetCoreF E st regs c items (insertSorted x items) (.set [] [x]) →
      HooksEqReach (mutate E st (.setAdd c x)).st.h (mutate E st (.setAdd c x)).st.H regs ∧
      (mutate E st (.setAdd c x)).err = none) ∧
    (∀ x, x ∈ items → items.Nodup → SetCoreF E st regs c items (items.filter (· != x)) (.set [x] []) →
      HooksEqReach (mutate E st (.setDiscard c x)).st.h (mutate E st (.setDiscard c x)).st.H regs ∧
      (mutate E st (.setDiscard c x)).err = none) ∧
    (items.isEmpty = false → SetCoreF E st regs c items [] (.set items []) →
      HooksEqReach (mutate E st (.setClear c)).st.h (mutate E st (.setClear c)).st.H regs ∧
      (mutate E st (.setClear c)).err = none) :=
  ⟨fun x hx core => setAdd_preservesF E st regs c x items hx hinv core,
   fun x hx hnd core => setDiscard_preservesF E st regs c x items hx hnd hinv core,
   fun hne core => setClear_preservesF E st regs c items hne hinv core⟩

/-- Mutations of an observed DICT container when the registrations MAY contain `filtered` nodes:
`C08_hooks_eq_reach_partial_dict` with `DictCoreF` = `DictCore` WITHOUT `noFiltered`. -/
theorem C08_hooks_eq_reach_partial_dict_filtered (E : Env) (st : St) (regs : List Reg) (c : Id) (d : List (Key × Id))
    (hinv : HooksEqReach st.h st.H regs) :
    (∀ k x, d.find? (·.1 == k) = none → DictCoreF E st regs c d (d ++ [(k, x)]) (.dict [] [(k, x)]) →
      HooksEqReach (mutate E st (.dictSet c k x)).st.h (mutate E st (.dictSet c k x)).st.H regs ∧
      (mutate E st (.dictSet c k x)).err = none) ∧
    (∀ k k' x y, d.find? (·.1 == k) = some (k', y) → (d.map (·.1)).Nodup →
      DictCoreF E st regs c d (d.map (fun kv => if kv.1 == k then (k, x) else kv)) (.dict [(k, y)] [(k, x)]) →
      HooksEqReach (mutate E st (.dictSet c k x)).st.h (mutate E st (.dictSet c k x)).st.H regs ∧
      (mutate E st (.dictSet c k x)).err = none) ∧
    (∀ k k' y, d.find? (·.1 == k) = some (k', y) → (d.map (·.1)).Nodup →
      DictCoreF E st regs c d (d.filter (·.1 != k)) (.dict [(k, y)] []) →
      HooksEqReach (mutate E st (.dictDel c k)).st.h (mutate E st (.dictDel c k)).st.H regs ∧
      (mutate E st (.dictDel c k)).err = none) ∧
    (d.isEmpty = false → DictCoreF E st regs c d [] (.dict d []) →
      HooksEqReach (mutate E st (.dictClear c)).st.h (mutate E st (.dictClear c)).st.H regs ∧
      (mutate E st (.dictClear c)).err = none) :=
  ⟨fun k x hk core => dictSet_new_preservesF E st regs c k x d hk hinv core,
   fun k k' x y hk hnd core => dictSet_overwrite_preservesF E st regs c k k' x y d hk hnd hinv core,
   fun k k' y hk hnd core => dictDel_preservesF E st regs c k k' y d hk hnd hinv core,
   fun hne core => dictClear_preservesF E st regs c d hne hinv core⟩

/-! non-vacuity: `a.group = {b, c}` / `a.byname = {1: b, 2: b}` observed through a quiet `*` node on `a`
(`*` → optional items → `value`; `FilteredSetWitness` / `FilteredDictWitness` in Lemmas/ObsInvFilteredCont.lean) -/
open FilteredSetWitness in
example : HooksEqReach (mutate {} wSt (.setDiscard 100 1)).st.h (mutate {} wSt (.setDiscard 100 1)).st.H wRegs :=
  ((C08_hooks_eq_reach_partial_set_filtered {} wSt wRegs 100 [1, 2] wInv).2.1 1 (by decide) (by decide) wCore).1

open FilteredSetWitness in
example : cnt wSt.H (.trait 1 nValue) (.user wKey) = 1 ∧
    cnt (mutate {} wSt (.setDiscard 100 1)).st.H (.trait 1 nValue) (.user wKey) = 0 ∧
    cnt (mutate {} wSt (.setDiscard 100 1)).st.H (.trait 2 nValue) (.user wKey) = 1 := by decide

open FilteredDictWitness in
/-- the same object under two keys, one key deleted: reference count 2 ↦ 1 -/
example : HooksEqReach (mutate {} wSt (.dictDel 100 1)).st.h (mutate {} wSt (.dictDel 100 1)).st.H wRegs :=
  ((C08_hooks_eq_reach_partial_dict_filtered {} wSt wRegs 100 [(1, 1), (2, 1)] wInv).2.2.1 1 1 1 rfl (by decide) wCore).1

open FilteredDictWitness in
example : cnt wSt.H (.trait 1 nValue) (.user wKey) = 2 ∧
    cnt (mutate {} wSt (.dictDel 100 1)).st.H (.trait 1 nValue) (.user wKey) = 1 := by decide

/-- `o.add_trait(n, …)` for a NEW name when the registrations MAY contain `filtered` nodes:
`C08_hooks_eq_reach_partial_add_trait` (first conjunct) with `AddCoreF` = `AddCore` WITHOUT
`noFiltered`, nothing in its place.  A `filtered` node standing on `o` whose filter matches the new
trait (always for `*`, iff `tagged` for `+tag`) gains the observable `o.n` next to those it already
had, like a `named n` node; its `trait_added` maintainer matches and hooks exactly that
(Lemmas/ObsInvFilteredAdd.lean: `AddRelF`, `add_decF`, `added_atF`, `addG_gainsF`). -/
theorem C08_hooks_eq_reach_partial_add_trait_filtered (E : Env) (st : St) (regs : List Reg) (o : Id) (n : Name)
    (tagged : Bool) (d : Dflt) (fs : List Field) (hinv : HooksEqReach st.h st.H regs)
    (core : AddCoreF E st regs o n tagged d fs) (hn : findField fs n = none) :
    HooksEqReach (mutate E st (.addTrait o n tagged d)).st.h (mutate E st (.addTrait o n tagged d)).st.H regs ∧
    (mutate E st (.addTrait o n tagged d)).err = none :=
  addTrait_preservesF E st regs o n tagged d fs hinv core hn

/-! non-vacuity: `a.child = b`, `child.*` observed on `a` (notifying `*` node on `b`; state
`FilteredAddWitness.aSt`, hypotheses `aCore`); `b.add_trait("value", …)` -/
open FilteredAddWitness in
example : HooksEqReach (mutate {} aSt (.addTrait 1 nValue false (.val (.int 0)))).st.h
    (mutate {} aSt (.addTrait 1 nValue false (.val (.int 0)))).st.H aRegs :=
  (C08_hooks_eq_reach_partial_add_trait_filtered {} aSt aRegs 1 nValue false (.val (.int 0)) aFs aInv aCore rfl).1

open FilteredAddWitness in
/-- the new trait is hooked by the `*` node, and a later `b.value = 4` is delivered once -/
example : cnt aSt.H (.trait 1 nValue) (.user aKey) = 0 ∧
    cnt (mutate {} aSt (.addTrait 1 nValue false (.val (.int 0)))).st.H (.trait 1 nValue) (.user aKey) = 1 ∧
    ((mutate {} (mutate {} aSt (.addTrait 1 nValue false (.val (.int 0)))).st
      (.setField 1 nValue (.int 4) 0)).delivered.filter (fun d => d.key == aKey)).length = 1 := by decide

/-! ### the maintainer is the interpreted source -/

open TraitsVerif.Model.ObsL in
/-- SOURCE TIE.  What a `.trait` maintainer does when its link changes — `maintTrait … .trait` = `removeOld` (walk
the downstream graph from the old value with remove=True unless the value is Undefined / Uninitialized / None,
swallowing NotifierNotFound) then `addNew` — is the interpretation of `observer_change_handler`
(_has_traits_helpers.py) as translated by harness/translate/obsl.py, including the `UNOBSERVABLE_VALUES` list (its
three names are part of the generated term and are compared by identity), for every heap, graph, handler key,
old / new value and well-formed hooks. -/
theorem C08_maintain_is_source (h : Heap) (k : HKey) (g : Graph) (o : Id) (old new : Val) (H : Hooks) (hw : WF H)
    (n : Nat) (hn : need g ≤ n) :
    run h Generated.observeProg (n + 1) (.fn "observer_change_handler" (handlerArgs old new g k)) (H, []) =
      (((maintTrait h .trait g k o old new H).H, []), flowOf (maintTrait h .trait g k o old new H).err) ∧
    Generated.observeProg.unobservable = ["Undefined", "Uninitialized", "None"] :=
  ⟨run_change_handler h k g o old new H hw n hn, rfl⟩

/-! ### `del obj.trait` (`Mutation.delField`, ctraits.c:2441-2489) -/

/-- STATED EXCEPTION (finding F99, known).  `HooksEqReach` is NOT preserved by `del obj.trait` when
the default is an object: `a.child` holds its dynamic default `d`, `a.observe(h, "child.value")`,
the invariant holds; `del a.child` reads the attribute back through `getattr_trait`, which announces
`Uninitialized -> d`, and (when the value changed) announces `old -> d` again: `d.value` carries the
user notifier with reference count 2 where exactly one path reaches it, and after `a.child = other`
the detached `d` still calls the handler (without the `del` it does not). -/
theorem C08_del_rehooks_default_twice :
    (HooksEqReach DelWitness.wSt.h DelWitness.wSt.H DelWitness.wRegs ∧
      ¬ HooksEqReach DelWitness.wDel.h DelWitness.wDel.H DelWitness.wRegs) ∧
    (cnt DelWitness.wDel.H (.trait 1 nValue) (.user DelWitness.wKey) = 2 ∧
      specCnt DelWitness.wDel.h DelWitness.wRegs (.trait 1 nValue) (.user DelWitness.wKey) = 1) ∧
    (let s1 := (mutate {} DelWitness.wDel (.setField 0 nChild (.ref 2) 0)).st
     specCnt s1.h DelWitness.wRegs (.trait 1 nValue) (.user DelWitness.wKey) = 0 ∧
     (mutate {} s1 (.setField 1 nValue (.int 4) 0)).delivered =
       [.trait DelWitness.wKey 1 nValue (.int 3) (.int 4)]) :=
  ⟨DelWitness.del_breaks_invariant,
   ⟨DelWitness.wDel_facts.2.2.2.2.1, DelWitness.wDel_facts.2.2.2.2.2⟩,
   DelWitness.detached_default_still_notifies⟩

/-- `del obj.trait` preserves `HooksEqReach` (and raises nothing) on the fragment where the double
announcement is harmless: (1) the trait is not in `__dict__` — nothing happens at all
(ctraits.c:2451-2454); (2) its default `d` holds no object (None / Undefined): `Uninitialized -> d`
hooks nothing and `old -> d` is the ordinary assignment of `d`; (3) the trait carries no notifier:
the default comes back silently.  (2) and (3) under the hypotheses `SetFrag` of the assignment
theorem `C08_hooks_eq_reach_partial` for the value `d`.  The full statement — for every default —
is false: `C08_del_rehooks_default_twice`. -/
theorem C08_hooks_eq_reach_partial_del (E : Env) (st : St) (regs : List Reg) (o : Id) (n : Name) (d : Val)
    (fresh : Id) (fs : List Field) (f : Field) (hinv : HooksEqReach st.h st.H regs) :
    (st.h.get o = .inst fs → findField fs n = some f → f.val = .unset →
      mutate E st (.delField o n fresh) = ⟨st, [], none⟩) ∧
    (SetFrag E st regs o n d fs f → f.dflt = .val d → valObjects d = [] →
      HooksEqReach (mutate E st (.delField o n fresh)).st.h (mutate E st (.delField o n fresh)).st.H regs ∧
      (mutate E st (.delField o n fresh)).err = none) ∧
    (SetFrag E st regs o n d fs f → f.dflt = .val d → st.H.get (.trait o n) = [] →
      HooksEqReach (mutate E st (.delField o n fresh)).st.h (mutate E st (.delField o n fresh)).st.H regs ∧
      (mutate E st (.delField o n fresh)).err = none ∧ (mutate E st (.delField o n fresh)).delivered = []) :=
  ⟨fun ho hf hu => delField_unset_noop E st o n fresh fs f ho hf hu,
   fun fr hd hn => delField_preserves_scalar_default E st regs o n d fresh fs f hinv fr hd hn,
   fun fr hd he => delField_preserves_unhooked E st regs o n d fresh fs f hinv fr hd he⟩

/-- non-vacuity of `C08_hooks_eq_reach_partial_del` (2): `mate` holds `d`, its default is None;
`del a.mate` unhooks `d.value` and delivers the one change event -/
example :
    cnt DelWitness.pSt.H (.trait 1 nValue) (.user DelWitness.wKey) = 1 ∧
    cnt (mutate {} DelWitness.pSt (.delField 0 nMate 100)).st.H (.trait 1 nValue) (.user DelWitness.wKey) = 0 ∧
    (mutate {} DelWitness.pSt (.delField 0 nMate 100)).delivered =
      [.trait DelWitness.wKey 0 nMate (.ref 1) .none] := by
  decide

open TraitsVerif.Model.ObsL in
/-- SOURCE TIE.  What an item maintainer does when its container changes — `maintCont`: walk the downstream graph
from every removed item with remove=True, then from every added item with remove=False, each walk an outermost
call with its own undo log, the first exception propagating — is the interpretation of the three
`_observer_change_handler` functions (_list_item_observer.py, _dict_item_observer.py — over `.values()` —,
_set_item_observer.py) as translated by harness/translate/obsl.py, for every heap, graph, handler key, change
event and well-formed hooks. -/
theorem C08_maintain_items_is_source (h : Heap) (k : HKey) (g : Graph) (ev : CEvent) (H : Hooks) (hw : WF H)
    (n : Nat) (hn : need g ≤ n) :
    run h Generated.observeProg (n + 1) (.fn (contHandlerName ev) (contHandlerArgs ev g k)) (H, []) =
      (((maintCont h g k ev H).H, []), flowOf (maintCont h g k ev H).err) :=
  run_cont_handler h k g ev H hw n hn

end TraitsVerif.Props.C08
