/-
C08 — observe handlers track exactly the objects currently reachable.

Model: TraitsVerif/Model/{Heap,ObsGraph,Hooks,Register,Maintain}.lean (transcription
of traits/observation/*.py and of `call_notifiers` / `setattr_trait` in ctraits.c;
tied to the code by the correspondence check of harness/props/c08.py).

Specification (from scratch, Model/ObsGraph.lean + Model/Hooks.lean):
`hookList h k true g x` = the notifiers a registration of `g` on `x` owes in heap
`h`, one per path; `reach h k g x o` = number of paths ending in a notifying node
at `o`; `specCnt h regs o q` = what all active registrations owe at `(o, q)`;
`cnt H o q` = what the hooks `H` actually hold there.

Only property theorems and their non-vacuity examples live here; lemmas are in
TraitsVerif/Lemmas/Obs*.lean.
-/
import TraitsVerif.Lemmas.ObsAtomic
import TraitsVerif.Lemmas.ObsMutate
import TraitsVerif.Lemmas.ObsQuiet
import TraitsVerif.Lemmas.ObsInvList
namespace TraitsVerif.Props.C08
open TraitsVerif TraitsVerif.Model.Obs

/-! ### registration installs exactly the from-scratch hooks -/

/-- L1.  A registration that does not raise adds, at every observable and for every
notifier key, exactly the from-scratch items — nothing else changes. -/
theorem C08_add_spec (h : Heap) (k : HKey) (g : Graph) (x : W) (H : Hooks)
    (hok : (addRemove h k false true g x H).err = none) :
    ∀ o q, cnt (addRemove h k false true g x H).H o q = cnt H o q + cntItems (hookList h k true g x) o q :=
  (addRemove_add h k g true x H hok).2.1

/-- In particular the user notifier's reference count on `o` grows by the number
of paths reaching `o` (`reach`), and stays absent where nothing is reached. -/
theorem C08_add_refcount_is_reach (h : Heap) (k : HKey) (g : Graph) (x : W) (H : Hooks)
    (hok : (addRemove h k false true g x H).err = none) (o : Observable) :
    cnt (addRemove h k false true g x H).H o (.user k) = cnt H o (.user k) + reach h k g x o :=
  C08_add_spec h k g x H hok o (.user k)

/-- A registration raises iff the walk meets a failing `iter_observables` /
`iter_objects` (missing non-optional trait, non-container where a container is
required): a property of the heap alone. -/
theorem C08_add_ok_iff (h : Heap) (k : HKey) (g : Graph) (x : W) (H : Hooks) :
    (addRemove h k false true g x H).err = none ↔ walkOk h true g x = true :=
  ⟨fun hok => (addRemove_add h k g true x H hok).1, addRemove_add_ok h k g true x H⟩

/-- After `observe` on objects without hooks, the hooks are the from-scratch
specification of the single registration (the refinement invariant is established). -/
theorem C08_observe_establishes (h : Heap) (k : HKey) (g : Graph) (x : Id)
    (hok : (addRemove h k false true g (some x) Hooks.empty).err = none) :
    HooksEqReach h (addRemove h k false true g (some x) Hooks.empty).H [⟨k, g, x⟩] := by
  obtain ⟨_, hc, hw⟩ := addRemove_add h k g true (some x) Hooks.empty hok
  refine ⟨hw WF_empty, ?_⟩
  intro o q
  rw [hc]
  simp [specCnt, cnt, Hooks.empty, cntList]

/-! ### the refinement invariant under mutation -/

/-- FULL-STRENGTH statement: the hooks equal the from-scratch hooks of the current
heap after every mutation.  FALSE of the code (finding F10): see
`C08_hooks_eq_reach_fails_at`. -/
def C08_hooks_eq_reach : Prop :=
  ∀ (E : Env) (st : St) (regs : List Reg) (m : Mutation), HooksEqReach st.h st.H regs →
    (mutate E st m).err = none → HooksEqReach (mutate E st m).st.h (mutate E st m).st.H regs

/-- FULL-STRENGTH corollary: a change at `o.n` calls handler key `k` exactly once
iff some registration of `k` reaches `o.n` through a notifying node.  FALSE of the
code (F10): see `C08_fires_iff_reachable_fails_at`. -/
def C08_fires_iff_reachable : Prop :=
  ∀ (E : Env) (st : St) (regs : List Reg) (ms : List Mutation) (o : Id) (n : Name) (v : Val) (k : HKey),
    HooksEqReach st.h st.H regs →
    let st' := (ms.foldl (fun s m => (mutate E s m).st) st)
    let calls := ((mutate E st' (.setField o n v 0)).delivered.filter (fun d => d.key == k)).length
    calls ≤ 1 ∧
    (calls = 1 ↔ 0 < specCnt st'.h regs (.trait o n) (.user k) ∧ fieldVal st'.h (some o) n ≠ v ∧ E.dead k = false)

/-! #### negation witness (F10): `a.child = a; a.observe(h, 'child:child:value'); a.child = b; b.value += 1` -/

def fld (n : Name) (v : Val) : Field := ⟨n, false, .val (if n == nValue then .int 0 else .none), v, .equality⟩

def f10Heap : Heap :=
  [(0, .inst [fld nValue (.int 0), fld nChild (.ref 0), fld nTraitAdded .unset]),
   (1, .inst [fld nValue (.int 0), fld nChild .none, fld nTraitAdded .unset])]

/-- `child:child:value` -/
def f10Graph : Graph :=
  .node (.named nChild false false) [.node (.named nChild false false) [.node (.named nValue true false) []]]

def f10Key : HKey := ⟨0, 0⟩
def f10Regs : List Reg := [⟨f10Key, f10Graph, 0⟩]

/-- after `a.observe(h, 'child:child:value')` -/
def f10St1 : St := ⟨f10Heap, (addRemove f10Heap f10Key false true f10Graph (some 0) Hooks.empty).H⟩
/-- after `a.child = b` -/
def f10St2 : St := (mutate {} f10St1 (.setField 0 nChild (.ref 1) 0)).st

/-- `b` is at depth 1 only (`b.child` is None), so nothing reaches `b.value`; yet
the hooks hold a user notifier there, and bumping `b.value` calls the handler. -/
theorem C08_hooks_eq_reach_fails_at :
    (addRemove f10Heap f10Key false true f10Graph (some 0) Hooks.empty).err = none ∧
    (mutate {} f10St1 (.setField 0 nChild (.ref 1) 0)).err = none ∧
    specCnt f10St2.h f10Regs (.trait 1 nValue) (.user f10Key) = 0 ∧
    cnt f10St2.H (.trait 1 nValue) (.user f10Key) = 1 ∧
    (mutate {} f10St2 (.setField 1 nValue (.int 1) 0)).delivered = [.trait f10Key 1 nValue (.int 0) (.int 1)] := by
  decide

theorem C08_hooks_eq_reach_false : ¬ C08_hooks_eq_reach := by
  intro hfull
  obtain ⟨h1, h2, h3, h4, _⟩ := C08_hooks_eq_reach_fails_at
  have inv1 : HooksEqReach f10St1.h f10St1.H f10Regs := C08_observe_establishes f10Heap f10Key f10Graph 0 h1
  have inv2 := hfull {} f10St1 f10Regs (.setField 0 nChild (.ref 1) 0) inv1 h2
  have := inv2.2 (.trait 1 nValue) (.user f10Key)
  rw [show (mutate {} f10St1 (.setField 0 nChild (.ref 1) 0)).st = f10St2 from rfl, h3, h4] at this
  omega

theorem C08_fires_iff_reachable_false : ¬ C08_fires_iff_reachable := by
  intro hfull
  obtain ⟨h1, _, h3, _, h5⟩ := C08_hooks_eq_reach_fails_at
  have inv1 : HooksEqReach f10St1.h f10St1.H f10Regs := C08_observe_establishes f10Heap f10Key f10Graph 0 h1
  have key : ((mutate {} f10St2 (.setField 1 nValue (.int 1) 0)).delivered.filter
      (fun d => d.key == f10Key)).length = 1 := by rw [h5]; decide
  have h0 : 0 < specCnt f10St2.h f10Regs (.trait 1 nValue) (.user f10Key) :=
    ((hfull {} f10St1 f10Regs [.setField 0 nChild (.ref 1) 0] 1 nValue (.int 1) f10Key inv1).2.1 key).1
  omega

/-! #### proved fragment of the invariant

`SetFrag` (Lemmas/ObsInvSet.lean) collects the hypotheses:
* the object has the trait; no `filtered` node (`*`, `+metadata`) in any active registration;
* no weak reference is dead; the assigned value is not a trait-name string;
* the walks the maintainers perform from the old / new value meet no failing `iter_*`;
* `noSelfReach` — below the OLD value the maintained sub-graphs never come back to the mutated
  trait (the hypothesis F10 violates; cycles, sharing and duplicates elsewhere are allowed);
* `eqStruct` — among the sub-graphs involved, `ObserverGraph.__eq__` is structural equality
  (no two differ only in the order of parallel branches).
`ListCore` (Lemmas/ObsInvList.lean) is the analogue for a mutation of an observed list
(`nsrItems` / `nsrLive`: below the current, removed and added items the maintained
sub-graphs never come back to the list itself, which also makes the iteration over the
LIVE notifier list equal to one over a copy).
NOT covered (stay correspondence-checked only): dict / set mutations, `add_trait`,
container defaults, `filtered` nodes, the silent default of F80. -/

/-- Assignment `o.n = v` to a materialised trait: the hooks are again exactly the
from-scratch hooks of the new heap, and nothing raises.  Series and parallel
graphs of named / list / dict / set observers, any number of registrations and
handlers, arbitrary sharing and cycles subject to `noSelfReach`. -/
theorem C08_hooks_eq_reach_partial (E : Env) (st : St) (regs : List Reg) (o : Id) (n : Name) (v : Val)
    (fresh : Id) (fs : List Field) (f : Field) (hinv : HooksEqReach st.h st.H regs)
    (fr : SetFrag E st regs o n v fs f) (hset : f.val ≠ .unset) :
    HooksEqReach (mutate E st (.setField o n v fresh)).st.h (mutate E st (.setField o n v fresh)).st.H regs ∧
    (mutate E st (.setField o n v fresh)).err = none :=
  setField_preserves E st regs o n v fresh fs f hinv fr hset

/-- Mutations of an observed list — `append`, `insert`, `del l[i]`, `l[i] = x`,
`clear`, `extend` — preserve the invariant and raise nothing: the same object may
occur several times (present twice and removed once keeps one registration's worth
of reference counts), items may be shared with other containers and registrations,
graphs may branch. -/
theorem C08_hooks_eq_reach_partial_list (E : Env) (st : St) (regs : List Reg) (c : Id) (items : List Id)
    (hinv : HooksEqReach st.h st.H regs) :
    (∀ x, ListCore E st regs c items (items ++ [x]) (.list items.length [] [x]) →
      HooksEqReach (mutate E st (.listAppend c x)).st.h (mutate E st (.listAppend c x)).st.H regs ∧
      (mutate E st (.listAppend c x)).err = none) ∧
    (∀ i x, i ≤ items.length → ListCore E st regs c items (items.take i ++ x :: items.drop i) (.list i [] [x]) →
      HooksEqReach (mutate E st (.listInsert c i x)).st.h (mutate E st (.listInsert c i x)).st.H regs ∧
      (mutate E st (.listInsert c i x)).err = none) ∧
    (∀ i y, items[i]? = some y → ListCore E st regs c items (items.eraseIdx i) (.list i [y] []) →
      HooksEqReach (mutate E st (.listDel c i)).st.h (mutate E st (.listDel c i)).st.H regs ∧
      (mutate E st (.listDel c i)).err = none) ∧
    (∀ i x y, items[i]? = some y → ListCore E st regs c items (items.set i x) (.list i [y] [x]) →
      HooksEqReach (mutate E st (.listSet c i x)).st.h (mutate E st (.listSet c i x)).st.H regs ∧
      (mutate E st (.listSet c i x)).err = none) ∧
    (items.isEmpty = false → ListCore E st regs c items [] (.list 0 items []) →
      HooksEqReach (mutate E st (.listClear c)).st.h (mutate E st (.listClear c)).st.H regs ∧
      (mutate E st (.listClear c)).err = none) ∧
    (∀ xs, xs.isEmpty = false → ListCore E st regs c items (items ++ xs) (.list items.length [] xs) →
      HooksEqReach (mutate E st (.listExtend c xs)).st.h (mutate E st (.listExtend c xs)).st.H regs ∧
      (mutate E st (.listExtend c xs)).err = none) :=
  ⟨fun x core => listAppend_preserves E st regs c x items hinv core,
   fun i x hi core => listInsert_preserves E st regs c i x items hi hinv core,
   fun i y hy core => listDel_preserves E st regs c i y items hy hinv core,
   fun i x y hy core => listSet_preserves E st regs c i x y items hy hinv core,
   fun hne core => listClear_preserves E st regs c items hne hinv core,
   fun xs hne core => listExtend_preserves E st regs c xs items hne hinv core⟩

/-- Slice assignment `l[i:j] = xs` on an observed list, any lengths — in particular a
same-length assignment that keeps the objects but changes their MULTIPLICITIES
(`[a, a, b]` ↦ `[a, b, b]`): every object's reference count follows the number of its
occurrences, so a later `pop` cannot leave a still-present object unhooked. -/
theorem C08_hooks_eq_reach_partial_slice (E : Env) (st : St) (regs : List Reg) (c : Id) (i j : Nat) (xs items : List Id)
    (hij : i ≤ j ∧ j ≤ items.length)
    (hne : (((items.drop i).take (j - i)).isEmpty && xs.isEmpty) = false)
    (hinv : HooksEqReach st.h st.H regs)
    (core : ListCore E st regs c items (items.take i ++ xs ++ items.drop j) (.list i ((items.drop i).take (j - i)) xs)) :
    HooksEqReach (mutate E st (.listSlice c i j xs)).st.h (mutate E st (.listSlice c i j xs)).st.H regs ∧
    (mutate E st (.listSlice c i j xs)).err = none :=
  listSlice_preserves E st regs c i j xs items hij hne hinv core

/-- A default materialised after registration (non-container default `d`, read of
an unset trait) gets hooked by the maintainers — the invariant holds in the new
heap — and delivers nothing to the user. -/
theorem C08_default_materialise_partial (E : Env) (st : St) (regs : List Reg) (o : Id) (n : Name) (d : Val)
    (fresh : Id) (fs : List Field) (f : Field) (hinv : HooksEqReach st.h st.H regs)
    (fr : SetFrag E st regs o n d fs f) (hunset : f.val = .unset) (hdflt : f.dflt = .val d) :
    HooksEqReach (mutate E st (.read o n fresh)).st.h (mutate E st (.read o n fresh)).st.H regs ∧
    (mutate E st (.read o n fresh)).err = none ∧ (mutate E st (.read o n fresh)).delivered = [] :=
  read_preserves E st regs o n d fresh fs f hinv fr hunset hdflt

/-- "Exactly once iff reachable", on the proved fragment: an assignment that really
changes the value (not prevented by `ctrait_prevent_event`) calls handler key `k`
exactly once if some registration of `k` reaches `o.n` through a notifying node —
however many paths reach it, the same object inserted twice, several registrations —
and not at all otherwise.  `UniqueUsers` (at most one user notifier per key on an
observable) is an invariant of every operation, see `C08_unique_users`. -/
theorem C08_fires_iff_reachable_partial (E : Env) (st : St) (regs : List Reg) (o : Id) (n : Name) (v : Val)
    (fresh : Id) (fs : List Field) (f : Field) (hinv : HooksEqReach st.h st.H regs)
    (fr : SetFrag E st regs o n v fs f) (hset : f.val ≠ .unset) (hu : UniqueUsers st.H) (hne : f.val ≠ v)
    (hprev : preventTrait E (storeField st.h o n v) o n f.val v = false) (k : HKey) :
    ((mutate E st (.setField o n v fresh)).delivered.filter (fun d => d.key == k)).length =
      if 0 < specCnt st.h regs (.trait o n) (.user k) then 1 else 0 :=
  setField_calls E st regs o n v fresh fs f hinv fr hset hu hne hprev k

/-- Equal user notifiers are reference-counted, never duplicated: at most one per
handler key and observable, after any registration, removal (successful or not)
and any mutation. -/
theorem C08_unique_users (E : Env) (st : St) (m : Mutation) (h : Heap) (k : HKey) (g : Graph) (rm : Bool) (x : W)
    (hu : UniqueUsers st.H) :
    UniqueUsers (mutate E st m).st.H ∧ UniqueUsers (addRemove h k rm true g x st.H).H :=
  ⟨mutate_unique E st m hu, addRemove_unique h k g rm true x st.H hu⟩

/-- Detached objects are silent, reachable ones only are called: wherever the
invariant holds, an assignment delivers to handler key `k` only if some
registration of `k` reaches the assigned trait through a notifying node. -/
theorem C08_detached_silent (E : Env) (st : St) (regs : List Reg) (o : Id) (n : Name) (v : Val) (fresh : Id)
    (hinv : HooksEqReach st.h st.H regs) :
    ∀ d ∈ (mutate E st (.setField o n v fresh)).delivered,
      0 < specCnt st.h regs (.trait o n) (.user d.key) := by
  intro d hd
  obtain ⟨k, old, rc, rfl, _, hm⟩ := setField_delivered E st o n v fresh d hd
  rw [← hinv.2]
  exact cnt_pos_of_user st.H (.trait o n) k rc hm (hinv.1 _ k rc hm)

/-! ### quiet links, event identity -/

/-- Links written with ':' (`notify=False`) deliver nothing: if no node of any
graph held for handler key `k` notifies, then after ANY mutation (no hypothesis on
the shape of the heap — cycles, sharing, F10 situations included) this is still so
and nothing was delivered to `k`. -/
theorem C08_quiet_links (E : Env) (st : St) (k : HKey) (m : Mutation) (hq : QuietInv st.H k) :
    QuietInv (mutate E st m).st.H k ∧ ∀ d ∈ (mutate E st m).delivered, d.key ≠ k :=
  mutate_quiet E st k m hq

/-- … and registering an all-quiet graph establishes that state. -/
theorem C08_quiet_registration (h : Heap) (k : HKey) (g : Graph) (x : W) (H : Hooks) (hq : QuietInv H k)
    (hg : g.quiet = true) : QuietInv (addRemove h k false true g x H).H k :=
  addRemove_quiet h k k g (fun _ => hg) false true x H hq

/-- The event identifies the object and trait that actually changed: every
delivered event sits on the observable the mutation targets (and was produced by a
live notifier). -/
theorem C08_event_identifies (E : Env) (st : St) (m : Mutation) :
    ∀ d ∈ (mutate E st m).delivered, some d.observable = m.target :=
  fun d hd => (mutate_delivered E st m d hd).1

/-- For a trait assignment the event carries the assigned value as `new`, a
different value as `old` (unless the trait is declared `comparison_mode=none`, which
reports every assignment), and comes from a user notifier hooked on that trait. -/
theorem C08_event_identifies_assignment (E : Env) (st : St) (o : Id) (n : Name) (v : Val) (fresh : Id) :
    ∀ d ∈ (mutate E st (.setField o n v fresh)).delivered,
      ∃ k old rc, d = .trait k o n old v ∧ (old = v → fieldCmp st.h o n = .none) ∧
        Notifier.user k rc ∈ st.H.get (.trait o n) :=
  setField_delivered E st o n v fresh

/-! ### non-vacuity -/

def exHeap : Heap :=
  [(0, .inst [fld nValue (.int 0), fld nChild (.ref 1), fld nTraitAdded .unset]),
   (1, .inst [fld nValue (.int 3), fld nChild .none, fld nTraitAdded .unset])]
def exGraph : Graph := .node (.named nChild true false) [.node (.named nValue true false) []]

/-- `child.value` on `a.child = b`: registration succeeds, reaches `b.value` once,
and bumping `b.value` delivers exactly one event naming it. -/
example :
    (addRemove exHeap f10Key false true exGraph (some 0) Hooks.empty).err = none ∧
    reach exHeap f10Key exGraph (some 0) (.trait 1 nValue) = 1 ∧
    (mutate {} ⟨exHeap, (addRemove exHeap f10Key false true exGraph (some 0) Hooks.empty).H⟩
      (.setField 1 nValue (.int 4) 0)).delivered = [.trait f10Key 1 nValue (.int 3) (.int 4)] := by decide

def xHeap : Heap :=
  [(0, .inst [fld nValue (.int 0), fld nChild (.ref 1), fld nTraitAdded .unset]),
   (1, .inst [fld nValue (.int 3), fld nChild .none, fld nTraitAdded .unset]),
   (2, .inst [fld nValue (.int 5), fld nChild (.ref 0), fld nTraitAdded .unset])]
def xSt : St := ⟨xHeap, (addRemove xHeap f10Key false true exGraph (some 0) Hooks.empty).H⟩
def xRegs : List Reg := [⟨f10Key, exGraph, 0⟩]
def xFs : List Field := [fld nValue (.int 0), fld nChild (.ref 1), fld nTraitAdded .unset]

theorem xHooks : xSt.H.get (.trait 0 nChild) =
    [.user f10Key 1, .maint .trait (.node (.named nValue true false) []) f10Key] := rfl

theorem xVisits : visits xSt.h 0 nChild exGraph (some 0) = [.node (.named nValue true false) []] := rfl

/-- The hypotheses of `C08_hooks_eq_reach_partial` hold on a concrete state with a
cycle (`c.child = a`, `a.child = b`, `child.value` observed on `a`) for `a.child = c`. -/
theorem xFrag : SetFrag {} xSt xRegs 0 nChild (.ref 2) xFs (fld nChild (.ref 1)) where
  ho := rfl
  hf := rfl
  noFiltered := by intro r hr; simp [xRegs] at hr; subst hr; decide
  alive := fun _ => rfl
  notName := by intro m; simp
  okOld := by
    intro c k hm w hw
    rw [xHooks] at hm
    simp at hm
    obtain ⟨rfl, rfl⟩ := hm
    simp [fld, valObjects] at hw
    subst hw
    decide
  okNew := by
    intro c k hm w hw
    rw [xHooks] at hm
    simp at hm
    obtain ⟨rfl, rfl⟩ := hm
    simp [valObjects] at hw
    subst hw
    decide
  noSelfReach := by
    intro r hr c hc w hw
    simp [xRegs] at hr; subst hr
    rw [xVisits] at hc
    simp at hc; subst hc
    simp [fld, valObjects] at hw; subst hw
    decide
  eqStruct := by
    intro c k hm r hr c' hc' he
    rw [xHooks] at hm
    simp at hm
    obtain ⟨rfl, rfl⟩ := hm
    simp [xRegs] at hr; subst hr
    rw [xVisits] at hc'
    simp at hc'; subst hc'
    exact ⟨rfl, rfl⟩

/-- … and the theorem applies: after `a.child = c` the hooks are the from-scratch
hooks (`c.value` hooked, `b.value` released). -/
example : HooksEqReach (mutate {} xSt (.setField 0 nChild (.ref 2) 0)).st.h
    (mutate {} xSt (.setField 0 nChild (.ref 2) 0)).st.H xRegs :=
  (C08_hooks_eq_reach_partial {} xSt xRegs 0 nChild (.ref 2) 0 xFs (fld nChild (.ref 1))
    (C08_observe_establishes xHeap f10Key exGraph 0 (by decide)) xFrag (by simp [fld])).1

/-- and `a.child = c` itself is delivered exactly once to the handler (`child` notifies) -/
example : ((mutate {} xSt (.setField 0 nChild (.ref 2) 0)).delivered.filter (fun d => d.key == f10Key)).length = 1 := by
  rw [C08_fires_iff_reachable_partial {} xSt xRegs 0 nChild (.ref 2) 0 xFs (fld nChild (.ref 1))
    (C08_observe_establishes xHeap f10Key exGraph 0 (by decide)) xFrag (by simp [fld])
    (addRemove_unique xHeap f10Key exGraph false true (some 0) Hooks.empty UniqueUsers_empty)
    (by simp [fld]) (by decide) f10Key]
  decide

example : cnt (mutate {} xSt (.setField 0 nChild (.ref 2) 0)).st.H (.trait 2 nValue) (.user f10Key) = 1 ∧
    cnt (mutate {} xSt (.setField 0 nChild (.ref 2) 0)).st.H (.trait 1 nValue) (.user f10Key) = 0 := by decide

def lHeap : Heap :=
  [(0, .inst [fld nKids (.ref 100), fld nTraitAdded .unset]),
   (1, .inst [fld nValue (.int 3), fld nTraitAdded .unset]),
   (100, .list [1, 1])]
def lGraph : Graph := .node (.named nKids true false) [.node (.listItems true false) [.node (.named nValue true false) []]]
def lSt : St := ⟨lHeap, (addRemove lHeap f10Key false true lGraph (some 0) Hooks.empty).H⟩
def lRegs : List Reg := [⟨f10Key, lGraph, 0⟩]

theorem lHooks : lSt.H.get (.cont 100) =
    [.user f10Key 1, .maint .list (.node (.named nValue true false) []) f10Key] := rfl
theorem lVisits : Gen.visits (listSite 100) actTrue lSt.h lGraph (some 0) = [.node (.named nValue true false) []] := rfl

/-- The hypotheses of `C08_hooks_eq_reach_partial_list` hold on a concrete state where the
SAME object sits twice in the observed list (`a.kids = [b, b]`, `kids.items.value`). -/
theorem lCore : ListCore {} lSt lRegs 100 [1, 1] ([1, 1].eraseIdx 0) (.list 0 [1] []) where
  hc := rfl
  noFiltered := by intro r hr; simp [lRegs] at hr; subst hr; decide
  alive := fun _ => rfl
  okRem := by
    intro mk g k hm y hy
    rw [lHooks] at hm
    simp at hm
    obtain ⟨rfl, rfl, rfl⟩ := hm
    simp [CEvent.removed] at hy
    subst hy
    decide
  okAdd := by intro mk g k _ y hy; simp [CEvent.added] at hy
  nsrItems := by
    intro r hr g hg y hy
    simp [lRegs] at hr; subst hr
    rw [lVisits] at hg
    simp at hg; subst hg
    simp at hy; subst hy
    decide
  nsrLive := by
    intro mk g k hm y hy
    rw [lHooks] at hm
    simp at hm
    obtain ⟨rfl, rfl, rfl⟩ := hm
    simp [CEvent.removed, CEvent.added] at hy
    subst hy
    decide
  eqStruct := by
    intro mk g k hm r hr g' hg' he
    rw [lHooks] at hm
    simp at hm
    obtain ⟨rfl, rfl, rfl⟩ := hm
    simp [lRegs] at hr; subst hr
    rw [lVisits] at hg'
    simp at hg'; subst hg'
    exact ⟨rfl, rfl⟩

/-- … the theorem applies to `del a.kids[0]`, and the reference count on `b.value` goes 2 ↦ 1 -/
example : HooksEqReach (mutate {} lSt (.listDel 100 0)).st.h (mutate {} lSt (.listDel 100 0)).st.H lRegs :=
  ((C08_hooks_eq_reach_partial_list {} lSt lRegs 100 [1, 1]
    (C08_observe_establishes lHeap f10Key lGraph 0 (by decide))).2.2.1 0 1 rfl lCore).1

example : cnt lSt.H (.trait 1 nValue) (.user f10Key) = 2 ∧
    cnt (mutate {} lSt (.listDel 100 0)).st.H (.trait 1 nValue) (.user f10Key) = 1 := by decide

/-- `a.kids = [b, b, c]`, `kids.items.value`; `kids[0:3] = [b, c, c]`; `del kids[2]`: `c` is still
in the list, its reference count is 1 and bumping `c.value` calls the handler once. -/
example :
    let h0 : Heap := [(0, .inst [fld nKids (.ref 100), fld nTraitAdded .unset]),
                      (1, .inst [fld nValue (.int 0), fld nTraitAdded .unset]),
                      (2, .inst [fld nValue (.int 0), fld nTraitAdded .unset]),
                      (100, .list [1, 1, 2])]
    let s0 : St := ⟨h0, (addRemove h0 f10Key false true lGraph (some 0) Hooks.empty).H⟩
    let s1 := (mutate {} s0 (.listSlice 100 0 3 [1, 2, 2])).st
    let s2 := (mutate {} s1 (.listDel 100 2)).st
    cnt s1.H (.trait 2 nValue) (.user f10Key) = 2 ∧ cnt s2.H (.trait 2 nValue) (.user f10Key) = 1 ∧
    (mutate {} s2 (.setField 2 nValue (.int 1) 0)).delivered = [.trait f10Key 2 nValue (.int 0) (.int 1)] := by
  decide

/-- an all-quiet graph exists and `QuietInv` holds of the empty hooks -/
example : (Graph.node (.named nChild false false) [.node (.named nValue false false) []]).quiet = true ∧
    QuietInv Hooks.empty f10Key := ⟨by decide, by intro o n hn; simp [Hooks.empty] at hn⟩

end TraitsVerif.Props.C08
