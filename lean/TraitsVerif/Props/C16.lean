/-
C16 — legacy `on_trait_change` extended names agree with `observe` on unshared graphs.

Model: `TraitsVerif.Model.Legacy` (ListenerItem chain with its `active` tables,
notifier lists per object, the `handle_*` re-registration scripts, removal).
Specification (`specCalls`, what `observe` promises; C08's `reach` specialised to
chains): a change is delivered iff the changed object is reachable from the root
along the name in the current heap (and, for a link, the link is a `.` link).

Histories start from a tree-shaped heap `h₀` with no registration (`start h₀`;
`Heap.init` = a single root, every graph is then built by the history itself)
and consist of `Op`s; a container change inserts fresh objects and/or objects that were in the
same container before it (reorderings, carry-over reassignments), so the graph stays a tree.
-/
import TraitsVerif.Lemmas.LegacyMain
import TraitsVerif.Lemmas.LegacySource
import TraitsVerif.Lemmas.LegacyParser
import TraitsVerif.Lemmas.LegacyGroup
namespace TraitsVerif.Props.C16
open TraitsVerif.Model.Legacy
open TraitsVerif.Model.LisL (regSrc handleSrc eventOf methOf handlerFor)
open TraitsVerif.Generated.LegacyProg (prog)

/-! ### the model is the source

`Generated/LegacyProg.lean` is the translation (harness/translate/legacysrc.py, Python `ast`,
regenerated from the working tree on every run) of `ListenerItem.register / unregister /
_register_simple / _register_list (= _register_set) / _register_dict / handle_*` of
traits/traits_listener.py into the deep-embedded language `Model/LisL.lean`. -/

/-- `register` and `unregister` of the model are, for all heaps, names, items, objects and
listener states, the interpretation of the translated source: the early-return test
(`new is None or new is Undefined or new in self.active` / `old is not None …` +
`self.active.pop`), the `active` bookkeeping, the `_on_trait_change` calls of the
`_register_<kind>` method that `type_map` and the class-level alias select for the trait's kind
(which handler, on `name` or `name_items`, in which order, under which of `self.notify` /
`self.type` / `next is None`), and the walk into `next` over `getattr(object, name)`.  Hence
`C16_legacy_eq_reach`, `C16_agree`, `C16_remove_stops` … are theorems about the interpreted
source. -/
theorem C16_register_is_source (h : Heap) (ty0 : LType) (fin : Final) (ls : List Link) (k o : Nat)
    (s : LState) :
    register h ty0 fin k ls o s = regSrc prog h ty0 fin false k ls o s ∧
    unregister h ty0 fin k ls o s = regSrc prog h ty0 fin true k ls o s :=
  ⟨TraitsVerif.Model.LisL.register_is_source h ty0 fin ls k o s,
   TraitsVerif.Model.LisL.unregister_is_source h ty0 fin ls k o s⟩

/-- The un/re-registration script of every operation of a history is what the translated
`handle_simple / handle_list / handle_list_items / handle_dict / handle_dict_items` does on the
event the operation sends (`eventOf`: the items of the old and new value, or `removed` / `added` /
`changed` of the `_items` event), where the method is the one the translated `_register_<kind>`
installs on the trait (`handlerFor_table`). -/
theorem C16_handle_is_source {h : Heap} {op : Op} {m : Mut} (hm : mutate h op = some m) :
    match methOf m.trait with
    | some (meth, items) => m.script = handleSrc prog meth items (eventOf h op m)
    | none => m.script = [] := by
  open TraitsVerif.Model.LisL in
  cases op with
  | dictSet o key =>
    simp only [mutate] at hm
    split at hm
    · split at hm <;> cases hm <;> rename_i hf <;>
        simp [methOf, eventOf, handle_dictItems_src, unregAll, regAll, hf]
    · cases hm
  | dictDel o key =>
    simp only [mutate] at hm
    split at hm
    · split at hm <;> cases hm
      simp [methOf, eventOf, handle_dictItems_src, unregAll, regAll, scUnregs, scRegs]
    · cases hm
  | dictUpdate o keys =>
    simp only [mutate] at hm
    split at hm
    · cases hm
      simp [methOf, eventOf, handle_dictItems_src, unregAll]
    · cases hm
  | rearrange o d p n inplace =>
    simp only [mutate] at hm
    split at hm
    · cases hm
      cases inplace <;> simp [methOf, eventOf, handle_list_src, handle_listItems_src]
    · cases hm
  | stray n =>
    simp only [mutate] at hm
    cases hm
    simp [methOf, eventOf, handle_simple_src, unregAll, regAll, scUnregs, scRegs]
  | reg => simp [mutate] at hm
  | unreg => simp [mutate] at hm
  | probe o f =>
    simp only [mutate] at hm
    split at hm <;> cases hm
    simp [methOf]
  | _ =>
    simp only [mutate] at hm
    split at hm
    · cases hm
      simp [methOf, eventOf, handle_simple_src, handle_list_src, handle_listItems_src, handle_dict_src,
        handle_dictItems_src] <;> rfl
    · cases hm

/-- The guards of `register` / `unregister` as written in the source, for EVERY combination of the
facts they test (also `Undefined` / `Uninitialized` values, which the model's heaps do not
contain): register returns at once iff `new` is None, Undefined or already active; unregister
looks at `self.active` iff `old` is neither None nor Uninitialized. -/
theorem C16_guards_are_source (nn nt a b c : Bool) :
    TraitsVerif.Model.LisL.evalCond { nextNone := nn, notify := nt, type := 0, remove := false, valNone := a, valUndefined := b, valActive := c } prog.registerSkip = (a || b || c) ∧
    TraitsVerif.Model.LisL.evalCond { nextNone := nn, notify := nt, type := 0, remove := true, valNone := a, valUninit := b } prog.unregisterGuard = (!a && !b) :=
  ⟨TraitsVerif.Model.LisL.registerSkip_table nn nt a b c, TraitsVerif.Model.LisL.unregisterGuard_table nn nt a b⟩

/-- Deferred items (`deferred=True`, every `@on_trait_change` method): the translated
`_register_<kind>` attaches the same notifiers and skips the walk into the current value(s) exactly
for a registration of a deferred item whose attribute is not yet in `object.__dict__` — where the
value is the empty default, so that `registerTop` = `register` (see Model/Legacy.lean). -/
theorem C16_deferred_is_source (ty : LType) (k : Nat) (l : Link) (remove deferred materialised : Bool) :
    (TraitsVerif.Model.LisL.summary prog (TraitsVerif.Model.LisL.dvtOf l.attr)
        { nextNone := false, notify := l.notify, type := TraitsVerif.Model.LisL.typeNum prog ty, remove := remove, deferred := deferred, materialised := materialised }).tail =
      (if !remove && deferred && !materialised then TraitsVerif.Model.LisL.Tail.none
        else TraitsVerif.Model.LisL.expectedTail l.attr remove) ∧
    (TraitsVerif.Model.LisL.summary prog (TraitsVerif.Model.LisL.dvtOf l.attr)
        { nextNone := false, notify := l.notify, type := TraitsVerif.Model.LisL.typeNum prog ty, remove := remove, deferred := deferred, materialised := materialised }).hooks.map (TraitsVerif.Model.LisL.toHook k l.attr)
      = linkHooks ty k l :=
  ⟨TraitsVerif.Model.LisL.deferred_tail_table ty l remove deferred materialised,
   TraitsVerif.Model.LisL.deferred_hooks_table ty k l remove deferred materialised⟩

/-- DST signatures (handler(new) / handler(name, new); not in the model): the notifiers the translated
source installs for them are the table `dstHooks` (`handle_dst` on a notifying Instance link,
`handle_error` on notifying container links, never the user's handler), and the three listener type
constants are distinct. -/
theorem C16_dst_table (l : Link) (remove : Bool) :
    (TraitsVerif.Model.LisL.summary prog (TraitsVerif.Model.LisL.dvtOf l.attr)
        { nextNone := false, notify := l.notify, type := prog.dstListener, remove := remove }).hooks
      = TraitsVerif.Model.LisL.dstHooks l.attr l.notify ∧
    prog.anyListener ≠ prog.srcListener ∧ prog.anyListener ≠ prog.dstListener ∧
    prog.srcListener ≠ prog.dstListener :=
  ⟨TraitsVerif.Model.LisL.dst_hooks_table l remove, TraitsVerif.Model.LisL.constants_table⟩

/-- `_register_anytrait` as translated: one anytrait notifier with the user's handler and nothing else
(no named notifier, no walk into `next`), for every item flag and both `remove` values. -/
theorem C16_anytrait_is_source (nn nt remove : Bool) (ty : Nat) :
    (match TraitsVerif.Model.LisL.lookup prog.regMethods TraitsVerif.Model.LisL.RegName.anytrait with
     | some b => TraitsVerif.Model.LisL.exec { nextNone := nn, notify := nt, type := ty, remove := remove } b {}
     | none => { raised := true }) =
      { anyHooks := [TraitsVerif.Model.LisL.Who.user], done := true } :=
  TraitsVerif.Model.LisL.anytrait_table nn nt remove ty

/-- Re-registration is synchronous: every notifier bound to a `ListenerItem` method is installed with
`dispatch="extended"`, every notifier of the user's handler with the user's dispatch — for every link
kind (Instance, List, Set, Dict), connector, handler type and for registration and removal.  Before
/repo 257ca45 this failed for Dict links (finding F105, repaired). -/
theorem C16_reregistration_sync (l : Link) (ty : Nat)
    (hty : ty = prog.anyListener ∨ ty = prog.srcListener ∨ ty = prog.dstListener) (remove : Bool) :
    ∀ p ∈ (TraitsVerif.Model.LisL.summary prog (TraitsVerif.Model.LisL.dvtOf l.attr)
        { nextNone := false, notify := l.notify, type := ty, remove := remove }).hooks,
      p.2.2 = (match p.2.1 with | .tl _ => true | .user => false) :=
  TraitsVerif.Model.LisL.reregistration_sync_table l ty hty remove

/-! ### wildcard / metadata items -/

/-- The `if last == "*":` branch of `ListenerItem.register` as translated: an anytrait item (`-` alone)
puts its `active` entry first and goes to `_register_anytrait(new, "", False)` (`C16_anytrait_is_source`:
one anytrait notifier); otherwise the item registers, in `trait_names` order, exactly the traits that
are not events, whose metadata is set (`+m`) / not set (`-m`) when a metadata name is given, and whose
name starts with the prefix when there is one — and hooks `_new_trait_added` on `trait_added`.
Classification of those traits is `type_map`'s (`regKind_table`). -/
theorem C16_wildcard_register_is_source (metaNamed metaDefined prefixNonEmpty : Bool)
    (ts : List TraitsVerif.Model.LisL.TInfo) :
    TraitsVerif.Generated.LegacyProg.wild.selected metaNamed metaDefined prefixNonEmpty ts =
      ts.filter (fun t => !t.isEvent && (!metaNamed || (if metaDefined then t.metaSet else !t.metaSet)) &&
        (!prefixNonEmpty || t.hasPrefix)) ∧
    TraitsVerif.Generated.LegacyProg.wild.anytraitFirst = true ∧
    TraitsVerif.Generated.LegacyProg.wild.hooksTraitAdded = true ∧
    TraitsVerif.Model.LisL.regKind prog .list = .list ∧ TraitsVerif.Model.LisL.regKind prog .dict = .dict ∧
    TraitsVerif.Model.LisL.regKind prog .set = .list ∧ TraitsVerif.Model.LisL.regKind prog .constant = .simple :=
  ⟨TraitsVerif.Model.LisL.wild_selected_is_source metaNamed metaDefined prefixNonEmpty ts, rfl, rfl,
   TraitsVerif.Model.LisL.regKind_table.2.1, TraitsVerif.Model.LisL.regKind_table.2.2.1,
   TraitsVerif.Model.LisL.regKind_table.2.2.2, TraitsVerif.Model.LisL.regKind_table.1⟩

/-- Traits added later: `_new_trait_added` handles a new trait with the `_register_<kind>` method
`register` would have used (same `type_map` lookup on `handler.default_value_type`).  Failed before
/repo a16357d (finding F107: `handler.default_value_`, every late trait registered as simple; repaired). -/
theorem C16_new_trait_added_full (d : TraitsVerif.Model.LisL.DVT) :
    TraitsVerif.Model.LisL.lateKind prog TraitsVerif.Generated.LegacyProg.wild d = TraitsVerif.Model.LisL.regKind prog d :=
  TraitsVerif.Model.LisL.lateKind_table d

-- regression: a List / Dict / Set trait added later is registered by _register_list / _register_dict / _register_list
example : TraitsVerif.Model.LisL.lateKind prog TraitsVerif.Generated.LegacyProg.wild .list = .list := rfl
example : TraitsVerif.Model.LisL.lateKind prog TraitsVerif.Generated.LegacyProg.wild .dict = .dict := rfl
example : TraitsVerif.Model.LisL.lateKind prog TraitsVerif.Generated.LegacyProg.wild .set = .list := rfl

/-! ### the parser: what '.' and ':' mean -/

/-- `ListenerParser(name, deferred=d, handler_type=ty).listener`, interpreted from the translated
source of `parse`, `parse_group` and `parse_item` (Model/ParL.lean, token level), for EVERY name of
the fragment `a₀ c₀ a₁ c₁ … final` with connectors '.' / ':' (any length, any identifiers): the
result is the plain chain of `ListenerItem`s the model assumes (`modelChain`) — item `k` listens to
`aₖ`, has `notify = (cₖ = '.')`, carries the handler's type only for `k = 0` and `ANY_LISTENER`
afterwards (`Model.Legacy.typeOf`, the "bug-for-bug compatibility" of upstream #537 behind finding
F63), is deferred only for `k = 0`, and the last item has `next = None`; no group, no wildcard, no
metadata flag, no optional flag is produced.  Two-level names take the `simple_pat` shortcut of
`parse`, longer ones `parse_group` / `parse_item`: both give the same chain. -/
theorem C16_parser_is_source (ls : List (Nat × Bool)) (fin : Nat) (ty0 : LType) (d : Bool) :
    TraitsVerif.Model.ParL.parseSrc TraitsVerif.Generated.LegacyProg.pprog
        (TraitsVerif.Model.ParL.toksOf ls fin) d (TraitsVerif.Model.LisL.typeNum prog ty0)
      = some (TraitsVerif.Model.ParL.modelChain ty0 d 0 ls fin) := by
  rw [TraitsVerif.Model.ParL.parseSrc_chain, TraitsVerif.Model.ParL.chainFrom_model]

/-- `ListenerGroup` as translated: `register` / `unregister` apply the items' own method to the same
object in list order, `set_next` / `set_notify` forward to every item, and `parse_group` returns
the single item itself for a one-element group. -/
theorem C16_group_is_source {α σ : Type} (remove : Bool) (f : α → σ → σ) (items : List α) (s : σ) :
    TraitsVerif.Model.ParL.groupReg TraitsVerif.Generated.LegacyProg.pprog remove f items s
        = items.foldl (fun s it => f it s) s ∧
    TraitsVerif.Generated.LegacyProg.pprog.groupSetNextForwards = true ∧
    TraitsVerif.Generated.LegacyProg.pprog.groupSetNotifyForwards = true ∧
    TraitsVerif.Generated.LegacyProg.pprog.groupUnwrapsSingle = true := by
  cases remove <;> exact ⟨rfl, rfl, rfl, rfl⟩

-- the interpreted parser on `[a, b].c` (tokens): a group of two items that share the next item `c`
example :
    TraitsVerif.Model.ParL.parseSrc TraitsVerif.Generated.LegacyProg.pprog
      [.lbr, .name 0, .comma, .name 1, .rbr, .dot, .name 2] false 1 =
    some (.group (.item { name := some 0, type := 1, deferred := false } (.item { name := some 2, type := 0, deferred := false } .nil))
      (.group (.item { name := some 1, type := 1, deferred := false } (.item { name := some 2, type := 0, deferred := false } .nil))
        .gnil)) := by rfl
-- `a:b.c`
example :
    TraitsVerif.Model.ParL.parseSrc TraitsVerif.Generated.LegacyProg.pprog
      (TraitsVerif.Model.ParL.toksOf [(0, false), (1, true)] 2) true 1 =
    some (.item { name := some 0, notify := false, type := 1, deferred := true }
      (.item { name := some 1, notify := true, type := 0, deferred := false }
        (.item { name := some 2, type := 0, deferred := false } .nil))) := by rfl

/-- Which handle_* method serves which trait (read off the translated `_register_<kind>`), for `.`
and `:` links and every handler signature of the fragment. -/
theorem C16_handler_table (n : Bool) (ty : LType) :
    handlerFor prog ⟨.child, n⟩ ty false = some .simple ∧
    handlerFor prog ⟨.kids, n⟩ ty false = some .list ∧ handlerFor prog ⟨.kids, n⟩ ty true = some .listItems ∧
    handlerFor prog ⟨.group, n⟩ ty false = some .list ∧ handlerFor prog ⟨.group, n⟩ ty true = some .listItems ∧
    handlerFor prog ⟨.byname, n⟩ ty false = some .dict ∧ handlerFor prog ⟨.byname, n⟩ ty true = some .dictItems :=
  TraitsVerif.Model.LisL.handlerFor_table n ty

/-! ### tree-shapedness -/

/-- Every operation of a history (reassignment of a link to a fresh object or
`None`, list and dict reassignment, slice assignment / append / insert / delete /
clear with fresh objects, dict `__setitem__` / `update` / `|=` / `setdefault` /
`__delitem__` / `pop` / `popitem` / `clear`; in-place reorderings `reverse` / `sort` /
`kids[:] = …` and reassignments of a list or dict that carry current objects over) preserves
tree-shapedness. -/
theorem C16_tree_preserved {h : Heap} {op : Op} {m : Mut} (ht : TreeShaped h)
    (hm : mutate h op = some m) : TreeShaped m.h' := by
  rcases mutate_spec ht hm with ⟨_, _, hh, _, _, _⟩ | ⟨_, _, hc, _⟩
  · rw [hh]; exact ht
  · exact hc.tree ht

/-- … hence every heap of every history is tree-shaped. -/
theorem C16_tree_preserved_run (N : Name) {h₀ : Heap} (ht : TreeShaped h₀) (ops : List Op) :
    TreeShaped (run N (start h₀) ops).h := (inv_run ht ops).tree

/-! ### the refinement invariant -/

/-- After any history the `active` table of `ListenerItem` number `k` is exactly
the set of objects at depth `k` along the name in the current heap (and empty
while no registration exists). -/
theorem C16_legacy_eq_reach (N : Name) {h₀ : Heap} (ht : TreeShaped h₀) (ops : List Op) (k x : Nat) :
    x ∈ (run N (start h₀) ops).s.active k ↔
      ((run N (start h₀) ops).registered = true ∧ x ∈ reach (run N (start h₀) ops).h N.links k) :=
  (inv_run ht ops).act k x

/-- After any history an object reachable at depth `k` carries exactly the
notifiers `ListenerItem` number `k` attaches (in that order), every other object
carries none: in particular exactly one user notifier on the final attribute of
every object at the last depth and none elsewhere. -/
theorem C16_hooks_eq_reach (N : Name) {h₀ : Heap} (ht : TreeShaped h₀) (ops : List Op) (o : Nat) :
    (∀ k, (run N (start h₀) ops).registered = true → o ∈ reach (run N (start h₀) ops).h N.links k →
        (run N (start h₀) ops).s.hooks o = itemHooks N k) ∧
    (((run N (start h₀) ops).registered = false ∨ ∀ k, o ∉ reach (run N (start h₀) ops).h N.links k) →
        (run N (start h₀) ops).s.hooks o = []) := by
  have hinv := inv_run (N := N) ht ops
  refine ⟨fun k hr hk => hinv.good.exact o k ((hinv.act k o).mpr ⟨hr, hk⟩), ?_⟩
  intro hno
  apply hinv.good.none
  intro k hk
  obtain ⟨hr, hx⟩ := (hinv.act k o).mp hk
  rcases hno with h1 | h1
  · rw [h1] at hr; cases hr
  · exact h1 k hx

/-! ### final attribute: legacy = reachability = observe -/

/-- After any history, a change of a final attribute (`value` or `aux`) of ANY
object (reachable, detached, never attached) calls the legacy handler exactly
when — and exactly as often as — the specification of `observe` for the
corresponding expression demands: once iff the registration exists, the attribute
is the one named and the object is currently reachable along the name. -/
theorem C16_agree (N : Name) {h₀ : Heap} (ht : TreeShaped h₀) (ops : List Op) (o : Nat) (f : Final) :
    (step N (run N (start h₀) ops) (.probe o f)).2.2 = specStep N (run N (start h₀) ops) (.probe o f) := by
  have hinv := inv_run (N := N) ht ops
  cases hm : mutate (run N (start h₀) ops).h (.probe o f) with
  | none => simp [step, specStep, hm]
  | some m =>
    obtain ⟨_, hyes, hno⟩ := step_mutate hinv hm
    have hmo : m.o = o ∧ m.trait = .final f ∧ m.fires = true := by
      simp only [mutate] at hm
      split at hm <;> cases hm
      exact ⟨rfl, rfl, rfl⟩
    obtain ⟨e1, e2, e3⟩ := hmo
    simp only [specStep, hm, e1, e2, e3, if_true, specCalls]
    by_cases hc : (run N (start h₀) ops).registered = true ∧
        Reports N (run N (start h₀) ops).h o (.final f)
    · rw [e1, e2] at hyes
      rw [hyes ⟨e3, hc⟩]
      obtain ⟨h1, h2, h3⟩ := hc
      simp [h1, h2, h3]
    · rw [e1, e2] at hno
      rw [hno (fun h => hc h.2)]
      have : ¬((run N (start h₀) ops).registered = true ∧ f = N.final ∧
          o ∈ reach (run N (start h₀) ops).h N.links N.links.length) := hc
      simp only [Bool.and_eq_true, decide_eq_true_eq]
      rw [if_neg this]

/-- The same in words of the property: the handler is called iff the changed
object is currently reachable along the name. -/
theorem C16_agree_iff (N : Name) {h₀ : Heap} (ht : TreeShaped h₀) (ops : List Op) (o : Nat)
    (ho : o < (run N (start h₀) ops).h.next) :
    ((run N (start h₀) ops).registered = true ∧
        o ∈ reach (run N (start h₀) ops).h N.links N.links.length →
      (step N (run N (start h₀) ops) (.probe o N.final)).2.2 = [(o, .final N.final)]) ∧
    (¬((run N (start h₀) ops).registered = true ∧
        o ∈ reach (run N (start h₀) ops).h N.links N.links.length) →
      (step N (run N (start h₀) ops) (.probe o N.final)).2.2 = []) := by
  have hinv := inv_run (N := N) ht ops
  have hm : mutate (run N (start h₀) ops).h (.probe o N.final) =
      some ⟨(run N (start h₀) ops).h, o, .final N.final, [], true⟩ := by simp [mutate, ho]
  obtain ⟨_, hyes, hno⟩ := step_mutate hinv hm
  exact ⟨fun ⟨h1, h2⟩ => hyes ⟨rfl, h1, rfl, h2⟩, fun hn => hno (fun ⟨_, h1, _, h2⟩ => hn ⟨h1, h2⟩)⟩

/-! ### intermediate links -/

/-- Reassignment of a link attribute (`o.child = …`, `o.kids = […]`,
`o.byname = {…}`) after any history: the legacy handler is called exactly as the
specification of `observe` demands — once, with `(o, attribute)`, iff `o` is
currently reachable at a depth where the name follows that attribute with a `.`;
never for a `:` link, never for an object off the name. -/
theorem C16_intermediate (N : Name) {h₀ : Heap} (ht : TreeShaped h₀) (ops : List Op) (op : Op) (m : Mut)
    (a : Attr) (hm : mutate (run N (start h₀) ops).h op = some m) (htr : m.trait = .link a) :
    (step N (run N (start h₀) ops) op).2.2 = specStep N (run N (start h₀) ops) op := by
  have hinv := inv_run (N := N) ht ops
  obtain ⟨_, hyes, hno⟩ := step_mutate hinv hm
  simp only [specStep, hm, specCalls, htr]
  rw [htr] at hyes hno
  by_cases hc : m.fires = true ∧ (run N (start h₀) ops).registered = true ∧
      Reports N (run N (start h₀) ops).h m.o (.link a)
  · rw [hyes hc]
    obtain ⟨h1, h2, h3⟩ := hc
    have := (reportsAt_iff N _ m.o a).mpr h3
    simp [h1, h2, this]
  · rw [hno hc]
    by_cases hf : m.fires = true
    · have : ¬((run N (start h₀) ops).registered = true ∧
          reportsAt N (run N (start h₀) ops).h m.o a = true) :=
        fun ⟨h2, h3⟩ => hc ⟨hf, h2, (reportsAt_iff N _ m.o a).mp h3⟩
      simp only [hf, if_true, Bool.and_eq_true]
      rw [if_neg this]
    · simp [hf]

/-- `:` links report nothing, whatever the operation on the link (reassignment
or container mutation) and wherever the object is. -/
theorem C16_intermediate_quiet (N : Name) {h₀ : Heap} (ht : TreeShaped h₀) (ops : List Op) (op : Op)
    (m : Mut) (a : Attr) (hm : mutate (run N (start h₀) ops).h op = some m)
    (htr : m.trait = .link a ∨ m.trait = .items a)
    (hquiet : ∀ l ∈ N.links, l.attr = a → l.notify = false) :
    (step N (run N (start h₀) ops) op).2.2 = [] := by
  have hinv := inv_run (N := N) ht ops
  obtain ⟨_, _, hno⟩ := step_mutate hinv hm
  apply hno
  rintro ⟨_, _, hrp⟩
  rcases htr with h1 | h1 <;> rw [h1] at hrp
  · obtain ⟨k, l, hl, hla, hn, _⟩ := hrp
    have := hquiet l (List.mem_of_getElem? hl) hla
    rw [this] at hn; cases hn
  · obtain ⟨k, l, hl, hla, hn, _⟩ := hrp
    have := hquiet l (List.mem_of_getElem? hl) hla
    rw [this] at hn; cases hn

/-- Container mutations of a link (`o.kids.append(…)`, `del o.byname[k]`, …):
the legacy handler agrees with the specification of `observe` whenever the
changed object is not the root or the handler takes no arguments.
(PARTIAL: the extra hypothesis is exactly `typeOf … = ANY_LISTENER` for the item
the object is active in; see `C16_intermediate_items_full` and the witness.) -/
theorem C16_intermediate_items_partial (N : Name) {h₀ : Heap} (ht : TreeShaped h₀) (ops : List Op)
    (op : Op) (m : Mut) (a : Attr) (hm : mutate (run N (start h₀) ops).h op = some m)
    (htr : m.trait = .items a) (hty : N.htype = .any ∨ m.o ≠ root) :
    (step N (run N (start h₀) ops) op).2.2 = specStep N (run N (start h₀) ops) op := by
  have hinv := inv_run (N := N) ht ops
  obtain ⟨_, hyes, hno⟩ := step_mutate hinv hm
  simp only [specStep, hm, specCalls, htr]
  rw [htr] at hyes hno
  have hany : ∀ k, m.o ∈ reach (run N (start h₀) ops).h N.links k → typeOf N.htype k = .any := by
    intro k hk
    unfold typeOf
    split
    · rename_i h0
      subst h0
      rcases hty with h1 | h1
      · exact h1
      · exact (h1 (by simpa [mem_reach_zero] using hk)).elim
    · rfl
  by_cases hc : m.fires = true ∧ (run N (start h₀) ops).registered = true ∧
      Reports N (run N (start h₀) ops).h m.o (.items a)
  · rw [hyes hc]
    obtain ⟨h1, h2, k, l, g1, g2, g3, _, g5⟩ := hc
    have := (reportsAt_iff N _ m.o a).mpr ⟨k, l, g1, g2, g3, g5⟩
    simp [h1, h2, this]
  · rw [hno hc]
    by_cases hf : m.fires = true
    · have : ¬((run N (start h₀) ops).registered = true ∧
          reportsAt N (run N (start h₀) ops).h m.o a = true) := by
        rintro ⟨h2, h3⟩
        obtain ⟨k, l, g1, g2, g3, g5⟩ := (reportsAt_iff N _ m.o a).mp h3
        exact hc ⟨hf, h2, k, l, g1, g2, g3, hany k g5, g5⟩
      simp only [hf, if_true, Bool.and_eq_true]
      rw [if_neg this]
    · simp [hf]

/-- FULL-STRENGTH statement for container mutations (NOT a theorem of the code as
it is): every change of a `.` link is reported.  False because `ListenerParser`
gives only the FIRST item the handler's type and every later item `ANY_LISTENER`
(traits_listener.py:1068-1072, 1196-1203, "bug-for-bug compatibility",
enthought/traits#537), and `_register_list/_register_dict` attach the handler to
`<name>_items` only for `ANY_LISTENER` (traits_listener.py:696-704, 794-802). -/
def C16_intermediate_items_full : Prop :=
  ∀ (N : Name) (h₀ : Heap) (_ : TreeShaped h₀) (ops : List Op) (op : Op) (a : Attr),
    (mutate (run N (start h₀) ops).h op).map (·.trait) = some (.items a) →
    (step N (run N (start h₀) ops) op).2.2 = specStep N (run N (start h₀) ops) op

/-- Negation witness (replayed on the implementation by the oracle, signature
`intermediate-items-unreported:first-link-src-handler`): the specification
demands one call, the legacy handler gets none. -/
theorem C16_intermediate_items_fails_at :
    (step witnessName (run witnessName (start Heap.init) witnessOps) witnessOp).2.2 = [] ∧
    specStep witnessName (run witnessName (start Heap.init) witnessOps) witnessOp
      = [(0, .items .kids)] := by
  constructor <;> decide

theorem C16_intermediate_items_full_fails : ¬ C16_intermediate_items_full := by
  intro hfull
  have h := hfull witnessName Heap.init TreeShaped.init witnessOps witnessOp .kids (by decide)
  rw [C16_intermediate_items_fails_at.1, C16_intermediate_items_fails_at.2] at h
  cases h

/-! ### removal -/

/-- Removing the registration tears everything down and stops all calls: right
after `on_trait_change(…, remove=True)` every `active` table is empty and no
object carries a notifier of the registration; and whatever happens afterwards
(without a new registration), no operation calls the handler. -/
theorem C16_remove_stops (N : Name) {h₀ : Heap} (ht : TreeShaped h₀) (ops : List Op) :
    (∀ k, (run N (start h₀) (ops ++ [.unreg])).s.active k = []) ∧
    (∀ o, (run N (start h₀) (ops ++ [.unreg])).s.hooks o = []) ∧
    ∀ (ops' : List Op), (∀ op ∈ ops', op.isReg = false) → ∀ op, op.isReg = false →
      (step N (run N (start h₀) (ops ++ [.unreg] ++ ops')) op).2.2 = [] := by
  have hinv := inv_run (N := N) ht (ops ++ [.unreg])
  have hreg : (run N (start h₀) (ops ++ [.unreg])).registered = false := by
    rw [run_append]
    simp only [run, step]
    split <;> simp_all
  have hact : ∀ k x, x ∉ (run N (start h₀) (ops ++ [.unreg])).s.active k := by
    intro k x hx
    have := ((hinv.act k x).mp hx).1
    rw [hreg] at this; cases this
  refine ⟨fun k => List.eq_nil_iff_forall_not_mem.mpr (hact k),
    fun o => hinv.good.none o (fun k => hact k o), ?_⟩
  intro ops' hops' op hop
  rw [run_append]
  have hne : ∀ op : Op, op.isReg = false → op ≠ .reg := by
    intro op h e; rw [e] at h; cases h
  have key : ∀ (ops' : List Op) (st : St), Inv N st → st.registered = false →
      (∀ op ∈ ops', op.isReg = false) → Inv N (run N st ops') ∧ (run N st ops').registered = false := by
    intro ops'
    induction ops' with
    | nil => intro st hi hr _; exact ⟨hi, hr⟩
    | cons x xs ih =>
      intro st hi hr hx
      simp only [run]
      have hx0 := hx x (by simp)
      exact ih _ (step_inv hi x)
        (not_registered_calls hi hr x (hne x hx0)).1
        (fun op hop => hx op (by simp [hop]))
  obtain ⟨hi, hr⟩ := key ops' _ hinv hreg hops'
  exact (not_registered_calls hi hr op (hne op hop)).2

/-! ### group names `x.[a,b].c`

`Lemmas/LegacyGroup.lean`: a group name is the family of its member chains (`GName.members`), the
handler's calls are the fan-out over the members (`ListenerGroup.register / unregister` =
`C16_group_is_source`), every member with its own copy of the later items.  The real
`ListenerGroup` SHARES the later items between the members (one `active` table per depth); on
tree-shaped heaps the members' subtrees are disjoint, so this is not observable — that step rests on
the differential oracle for group names (both real APIs, c16lib), not on a theorem. -/

/-- Final attribute, group names: after any history the legacy handler is called for a change of a
final attribute of ANY object exactly as the specification of `observe` for the group expression
demands — once per member chain along which the object is currently reachable. -/
theorem C16_group_agree (G : GName) {h₀ : Heap} (ht : TreeShaped h₀) (ops : List Op) (o : Nat) (f : Final) :
    gCalls G h₀ ops (.probe o f) = gSpec G h₀ ops (.probe o f) :=
  flatMap_congr' (fun N _ => C16_agree N ht ops o f)

/-- Reassignment of a link attribute, group names: reported exactly for the members that follow that
attribute with a `.` at the object's depth. -/
theorem C16_group_intermediate (G : GName) {h₀ : Heap} (ht : TreeShaped h₀) (ops : List Op) (op : Op)
    (hlink : ∀ N ∈ G.members, ∃ m a, mutate (run N (start h₀) ops).h op = some m ∧ m.trait = .link a) :
    gCalls G h₀ ops op = gSpec G h₀ ops op :=
  flatMap_congr' (fun N hN => by
    obtain ⟨m, a, hm, htr⟩ := hlink N hN
    exact C16_intermediate N ht ops op m a hm htr)

/-- Removal, group names: after `on_trait_change(…, remove=True)` no operation calls the handler. -/
theorem C16_group_remove_stops (G : GName) {h₀ : Heap} (ht : TreeShaped h₀) (ops ops' : List Op)
    (hops' : ∀ op ∈ ops', op.isReg = false) (op : Op) (hop : op.isReg = false) :
    gCalls G h₀ (ops ++ [.unreg] ++ ops') op = [] := by
  unfold gCalls
  rw [List.flatMap_eq_nil_iff]
  intro N _
  exact (C16_remove_stops N ht ops).2.2 ops' hops' op hop

-- `[child, kids].value`: two member chains; the handler fires for the child and for the list items
example : (GName.members ⟨[⟨[.child, .kids], true⟩], .value, .src, false⟩).length = 2 := by decide
example : gCalls ⟨[⟨[.child, .kids], true⟩], .value, .src, false⟩ Heap.init
    [.setChild 0 true, .setKids 0 2, .reg] (.probe 1 .value) = [(1, .final .value)] := by decide
example : gCalls ⟨[⟨[.child, .kids], true⟩], .value, .src, false⟩ Heap.init
    [.setChild 0 true, .setKids 0 2, .reg] (.probe 3 .value) = [(3, .final .value)] := by decide
example : gCalls ⟨[⟨[.child, .kids], true⟩], .value, .src, false⟩ Heap.init
    [.setChild 0 true, .setKids 0 2, .reg, .setKids 0 0] (.probe 3 .value) = [] := by decide

/-! ### deferred registrations

`Name.deferred` (the `deferred=True` keyword, every `@on_trait_change` method) does not
occur in any hypothesis above: since /repo 0c9dae1 a deferred first item skips the walk
into its container only while the container is not materialised in `object.__dict__`,
i.e. still the empty default, so `registerTop` is `register` (see Model/Legacy.lean) and
all theorems hold for deferred and plain registrations alike, whenever they are made.
Before that commit the refinement invariant failed for `root.kids = [N()]` followed by a
deferred registration of `kids:value` (finding F87, now fixed); the examples below are the
former negation witness, now positive. -/

/-! ### non-vacuity: concrete histories -/

example : TreeShaped Heap.init := TreeShaped.init
example : (run exName (start Heap.init) exOps).registered = true := by decide
example : reach (run exName (start Heap.init) exOps).h exName.links 2 = [2, 3] := by decide
example : (run exName (start Heap.init) exOps).s.active 2 = [2, 3] := by decide
-- the handler fires for a reachable object, with the object and the attribute …
example : (step exName (run exName (start Heap.init) exOps) (.probe 3 .value)).2.2 = [(3, .final .value)] := by
  decide
-- … is silent for an object that has been removed from the list …
example : (step exName (run exName (start Heap.init) (exOps ++ [.splice 1 1 2 0])) (.probe 3 .value)).2.2 = [] := by
  decide
-- … reports the intermediate list mutation (item 1 is ANY_LISTENER) …
example : (step exName (run exName (start Heap.init) exOps) (.splice 1 0 1 1)).2.2 = [(1, .items .kids)] := by
  decide
-- … and nothing after removal.
example : (step exName (run exName (start Heap.init) (exOps ++ [.unreg])) (.probe 3 .value)).2.2 = [] := by
  decide

-- a deferred registration made when `root.kids` already holds object 1 hooks it …
example : (run lateName (start Heap.init) lateOps).s.active 1 = [1] := by decide
example : (step lateName (run lateName (start Heap.init) lateOps) (.probe 1 .value)).2.2 = [(1, .final .value)] := by
  decide
-- … the decorator shape (registered first, items arrive later) hooks them as they arrive,
-- and removal tears everything down
example : (run lateName (start Heap.init) (decoOps.take 3)).s.active 1 = [1, 2] := by decide
example : (step lateName (run lateName (start Heap.init) decoOps) (.probe 1 .value)).2.2 = [] := by decide

end TraitsVerif.Props.C16
