/-
Property C10 — defaults are per-instance, computed once, silent; instances are
isolated.  Only the property theorems and their non-vacuity examples live here;
the model is `Model/Defaults` (`default_value_for`, `TraitType.clone`, class
construction) and `Model/SetAttr` (`getattr_trait`, `setattr_trait`, `get_trait`,
`add_trait`, the world of several instances); proofs are in `Lemmas/Attr*.lean`.

`C10_first_read`, `C10_silent`, `C10_stable_read`, `C10_noninterference` hold for
EVERY environment (arbitrary handlers — raising, self-removing — arbitrary
validators and factories, re-raising exception handlers).  `C10_once` assumes
that default computations do not fail; `C10_fresh_partial` / `C10_isolated`
assume copy-promising defaults (`Good`), which the pinned tree does not provide
for a mutable default overridden by value in a subclass (finding F9).
-/
import TraitsVerif.Lemmas.AttrReset
import TraitsVerif.Lemmas.AttrSource
import TraitsVerif.Lemmas.AttrSourceTrait
namespace TraitsVerif.Props.C10
open TraitsVerif TraitsVerif.Model.Attr

/-! ### Tie to the source -/

/-- The `default_value_for` switch has exactly the eleven cases the model
distinguishes, `DefaultValue` maps its members to them, and the three `clone_*`
sets of trait_type.py are the ones `cloneDefault` consults. -/
theorem source_tie :
    Generated.defaultValueForCases =
      ["CONSTANT_DEFAULT_VALUE", "MISSING_DEFAULT_VALUE", "OBJECT_DEFAULT_VALUE", "LIST_COPY_DEFAULT_VALUE",
       "DICT_COPY_DEFAULT_VALUE", "TRAIT_LIST_OBJECT_DEFAULT_VALUE", "TRAIT_DICT_OBJECT_DEFAULT_VALUE",
       "CALLABLE_AND_ARGS_DEFAULT_VALUE", "CALLABLE_DEFAULT_VALUE", "TRAIT_SET_OBJECT_DEFAULT_VALUE",
       "DISALLOW_DEFAULT_VALUE"]
    ∧ Generated.defaultValueMembers =
      [("unspecified", -1), ("constant", 0), ("missing", 1), ("object", 2), ("list_copy", 3), ("dict_copy", 4),
       ("trait_list_object", 5), ("trait_dict_object", 6), ("callable_and_args", 7), ("callable", 8),
       ("trait_set_object", 9), ("disallow", 10)]
    ∧ [Generated.CONSTANT_DEFAULT_VALUE, Generated.MISSING_DEFAULT_VALUE, Generated.OBJECT_DEFAULT_VALUE,
       Generated.LIST_COPY_DEFAULT_VALUE, Generated.DICT_COPY_DEFAULT_VALUE, Generated.TRAIT_LIST_OBJECT_DEFAULT_VALUE,
       Generated.TRAIT_DICT_OBJECT_DEFAULT_VALUE, Generated.CALLABLE_AND_ARGS_DEFAULT_VALUE,
       Generated.CALLABLE_DEFAULT_VALUE, Generated.TRAIT_SET_OBJECT_DEFAULT_VALUE, Generated.DISALLOW_DEFAULT_VALUE]
      = [0, 1, 2, 3, 4, 5, 6, 7, 8, 9, 10]
    ∧ Generated.cloneCopiesDefaultValue = ["trait_list_object", "trait_dict_object", "trait_set_object"]
    ∧ Generated.cloneBecomesConstantDefaultValue = ["callable_and_args", "callable", "object", "list_copy", "dict_copy"]
    ∧ Generated.cloneNoOverrideDefaultValue = ["disallow"]
    ∧ Generated.getattrByKind[Kind.trait.toNat]? = some "getattr_trait" := by
  decide

/-! ### The model is the source (`Generated/AttrProg.lean`, translated from ctraits.c on every run) -/

open TraitsVerif.Model.MiniC in
/-- `defaultValueFor` is the interpretation of the source of `default_value_for`,
for all eleven default kinds, every default value (NULL included), factory,
validator, flag word and warning mode.  (`default_value_type` in range is what
`set_default_value` enforces.) -/
theorem C10_default_is_source (C : IC) (s : OSt) (dn idn : Bool)
    (hmax : C.t.dvt ≤ Generated.MAXIMUM_DEFAULT_VALUE_TYPE) :
    call C Generated.AttrProg.default_value_for [.trait, .self, .name] s dn idn
      = ofPtr (match defaultValueFor C.E C.t s.self s.name s.ctx with | (r, c) => (r, { s with ctx := c })) :=
  Lemmas.AttrSource.default_value_for_is_source C s dn idn hmax

open TraitsVerif.Model.MiniC in
/-- `getattrTrait` is the interpretation of the source of `getattr_trait`: default
computed (once per call), stored, `post_setattr`'d, announced with
old = Uninitialized; an error exit leaves the default stored. -/
theorem C10_getattr_is_source (C : IC) (s : OSt) (dn idn : Bool) :
    call C Generated.AttrProg.getattr_trait [.trait, .self, .name] s dn idn = ofPtr (getattrTrait C.E C.t s) :=
  Lemmas.AttrSource.getattr_trait_is_source C s dn idn

open TraitsVerif.Model.MiniC in
/-- `setattrTrait` is the interpretation of the source of `setattr_trait` on every path (= `C02_setattr_trait_is_source`;
restated here because `C10_once` / `C10_reset_default` rest on its old-value fetch: on the first assignment to a
never-read attribute with notifiers or a `post_setattr` hook the default is computed ONCE, STORED, and only then
`post_setattr`'d — seeded change C10-m12 dropped the store). -/
theorem C10_setattr_is_source (C : IC) (value : Option Id) (s : OSt) (dn idn : Bool)
    (hdn : dn = true → s.slot = none) :
    call C Generated.AttrProg.setattr_trait [.trait, .trait, .self, .name, ofValue value] s dn idn
      = ofInt (setattrTrait C.E C.t value s) :=
  Lemmas.AttrSource.setattr_trait_is_source C value s dn idn hdn

/-! ### First read -/

/-- The first read of a never-assigned standard trait (no `post_setattr` hook)
returns exactly what `default_value_for` computes for the trait in effect
(instance trait, else class trait) and stores it; a failing default computation
surfaces as the read's exception.  Every environment. -/
theorem C10_first_read (E : Env) (w : World) (i : Nat) (n : Name) (o : Inst) (td : TraitDef)
    (hi : w.insts[i]? = some o) (ht : w.traitOf o n = some td) (hk : td.core.kind = .trait)
    (hp : td.core.post = none) (hs : assocGet o.dict n = none) :
    (∀ v, (defaultValueFor E td.core o.oid n w.ctx).1 = .ok v →
      (World.step E w (.get i n)).1 = { val := some v }
      ∧ ∃ o', (World.step E w (.get i n)).2.insts[i]? = some o' ∧ assocGet o'.dict n = some v)
    ∧ (∀ e, (defaultValueFor E td.core o.oid n w.ctx).1 = .error e →
      (World.step E w (.get i n)).1 = { exc := some e }) :=
  first_read E w i n o td hi ht hk hp hs

/-- The declared default, kind by kind: a static value is returned as is and
nothing is allocated; the object kind returns the object; the five copying
kinds return a brand-new identity (the allocation counter, which no existing
object has) holding the elements of the template. -/
theorem C10_declared_default (E : Env) (P : Nat) (t : TraitCore) (obj : Id) (name : Name) (c : Ctx)
    (wf : CtxWF P c) :
    ((t.dvt = Generated.CONSTANT_DEFAULT_VALUE ∨ t.dvt = Generated.MISSING_DEFAULT_VALUE) →
      defaultValueFor E t obj name c = (.ok (t.dv.getD noneId), c))
    ∧ (t.dvt = Generated.OBJECT_DEFAULT_VALUE → defaultValueFor E t obj name c = (.ok obj, c))
    ∧ (copyKind t →
      (defaultValueFor E t obj name c).1 = .ok c.alloc
      ∧ heapGet c.heap c.alloc = none
      ∧ heapGet (defaultValueFor E t obj name c).2.heap c.alloc = some ((heapGet c.heap (t.dv.getD noneId)).getD [])
      ∧ ∀ x, x < c.alloc → heapGet (defaultValueFor E t obj name c).2.heap x = heapGet c.heap x) := by
  refine ⟨fun h => ?_, fun h => ?_, fun h => ?_⟩
  · unfold defaultValueFor; simp only [h, if_true]
  · unfold defaultValueFor
    have h1 : ¬ (t.dvt = Generated.CONSTANT_DEFAULT_VALUE ∨ t.dvt = Generated.MISSING_DEFAULT_VALUE) := by
      rw [h]; decide
    simp only [h]
    rfl
  · have hfresh := heapGet_fresh_none wf c.alloc (Nat.le_refl _)
    have h1 : ¬ (t.dvt = Generated.CONSTANT_DEFAULT_VALUE ∨ t.dvt = Generated.MISSING_DEFAULT_VALUE) := by
      unfold copyKind at h
      rcases h with h | h | h | h | h <;> rw [h] <;> decide
    have h2 : ¬ t.dvt = Generated.OBJECT_DEFAULT_VALUE := by
      unfold copyKind at h
      rcases h with h | h | h | h | h <;> rw [h] <;> decide
    have hd : defaultValueFor E t obj name c =
        (.ok c.alloc, (c.copyOf (t.dv.getD noneId)).2) := by
      unfold defaultValueFor
      simp only [h1, if_false, h2]
      unfold copyKind at h
      simp only [h, if_true]
      rfl
    rw [hd]
    refine ⟨rfl, hfresh, ?_, fun x hx => ?_⟩
    · exact heapGet_append_self _ _ _ hfresh
    · exact heapGet_append_ne _ _ _ _ (Nat.ne_of_lt hx)

/-! ### Once -/

/-- Over any history of operations on any instances of any classes, the default
factory / `_name_default` of an attribute is invoked at most once per instance,
and once it has been invoked a value is stored.  (Hypothesis inside `OnceInv`:
default computations do not fail — a raising factory or a default rejected by
its own trait is retried by the next read, by design.) -/
theorem C10_once {E : Env} (w : World) (h : List WOp) (g : OnceInv E w) (H : ∀ op ∈ h, OpTotal E op)
    (i : Nat) (o : Inst) (hi : (World.run E w h).insts[i]? = some o) (n : Name) :
    (World.run E w h).fcount o.oid n ≤ 1
    ∧ ((World.run E w h).fcount o.oid n = 1 → (assocGet o.dict n).isSome = true) :=
  (run_onceInv h w g H).once i o hi n

/-- The invariant holds in a world without instances and without recorded calls. -/
theorem C10_once_initial {E : Env} (classes : List ClassRec) (c : Ctx) (hc : c.fcalls = [])
    (tot : ∀ k ∈ classes, ∀ p ∈ k.traits, TotalDefault E p.2.ctrait.core) :
    OnceInv E { classes := classes, insts := [], ctx := c } := by
  refine ⟨fun i o h => by simp at h, fun a b oa ob h => by simp at h, fun i o h => by simp at h,
    fun f hf => by simp [hc] at hf, fun t ht => ?_⟩
  rcases ht with ⟨k, hk, p, hp, rfl⟩ | ⟨o, ho, _⟩
  · exact tot k hk p hp
  · simp at ho

/-- Later reads return the same object and change nothing at all (every environment). -/
theorem C10_stable_read (E : Env) (w : World) (i : Nat) (n : Name) (o : Inst) (td : TraitDef) (v : Id)
    (hi : w.insts[i]? = some o) (ht : w.traitOf o n = some td) (hs : assocGet o.dict n = some v) :
    (World.step E w (.get i n)).1 = { val := some v }
    ∧ (World.step E w (.get i n)).2.ctx = w.ctx
    ∧ ∃ o', (World.step E w (.get i n)).2.insts[i]? = some o' ∧ o'.dict = assocSet o.dict n v := by
  have hslot : (w.focus o n).slot = some v := hs
  have h1 : Model.Attr.step E td.core (w.focus o n) .get = ({ val := some v }, w.focus o n) := by
    unfold Model.Attr.step getattro
    simp only [hslot]
  simp only [World.step, World.onAttr, hi, ht, h1]
  refine ⟨by first | rfl | trivial, by first | rfl | trivial, _, setInst_get_self w i o _ _ hi, ?_⟩
  unfold Inst.absorb
  simp only [hslot]

/-! ### A default factory that raises (atomicity, cited by C19) -/

/-- A read whose default factory / `_name_default` method raises `e` — for every
environment, every state with nothing stored for the attribute, both default
kinds that call user code (`callable_and_args`: `factory(*args, **kw)`;
`callable`: `_name_default(self)`, `Tuple`/`Union` `_get_default_value`), any
handlers registered anywhere:

* the read raises `surfaced E e`, which IS `e` — except on the one path where the
  code does not pass the exception through: an `AttributeError` makes Traits issue
  a `UserWarning` (`_warn_on_attribute_error`, ctraits.c:1794-1838), and when the
  warning filters turn warnings into errors that `UserWarning` (with the
  `AttributeError` as `__cause__`) is raised instead;
* the whole state afterwards equals the state before except for the record of
  the factory call: nothing is stored in the slot, no handler is called, no
  `post_setattr` runs, nothing is allocated, no notifier list changes;
* the NEXT read (no `post_setattr` hook) calls the factory again, with the next
  call ordinal; if this default computation succeeds with `v`, the read returns
  `v` and stores it; if it fails again, again nothing is stored. -/
theorem C10_default_raises (E : Env) (t : TraitCore) (s : OSt) (e : Exc)
    (hk : t.kind = .trait) (hu : callsUser t) (hs : s.slot = none)
    (hr : E.factory (t.dv.getD noneId) s.ctx.fcalls.length (factoryArg t s.self) = .error e) :
    (Model.Attr.step E t s .get).1 = { exc := some (surfaced E e) }
    ∧ (Model.Attr.step E t s .get).2 =
        { s with ctx := { s.ctx with fcalls := s.ctx.fcalls ++ [(t.dv.getD noneId, s.self, s.name)] } }
    ∧ (Model.Attr.step E t s .get).2.slot = none
    ∧ (Model.Attr.step E t s .get).2.ctx.log = s.ctx.log
    ∧ (Model.Attr.step E t s .get).2.ctx.postLog = s.ctx.postLog
    ∧ ((e ≠ .attributeError ∨ E.warnError = false) → surfaced E e = e)
    ∧ (t.post = none →
        let s1 := (Model.Attr.step E t s .get).2
        (Model.Attr.step E t s1 .get).2.ctx.fcalls =
          s.ctx.fcalls ++ [(t.dv.getD noneId, s.self, s.name), (t.dv.getD noneId, s.self, s.name)]
        ∧ (∀ v, (defaultValueFor E t s.self s.name s1.ctx).1 = .ok v →
            (Model.Attr.step E t s1 .get).1 = { val := some v } ∧ (Model.Attr.step E t s1 .get).2.slot = some v)
        ∧ (∀ e2, (defaultValueFor E t s.self s.name s1.ctx).1 = .error e2 →
            (Model.Attr.step E t s1 .get).1 = { exc := some e2 } ∧ (Model.Attr.step E t s1 .get).2.slot = none)) := by
  obtain ⟨h1, h2⟩ := default_raises E t s e hk hu hs hr
  refine ⟨by rw [h1], by rw [h1], by rw [h1]; exact hs, by rw [h1], by rw [h1], ?_, ?_⟩
  · intro h
    unfold surfaced
    rcases h with h | h
    · simp [h]
    · simp [h]
  · intro hp
    rw [h1]
    exact h2 hp _ rfl

/-! ### Reset -/

/-- `del obj.name` / `reset_traits` of an assigned attribute while a notifier list exists (any
default kind, any handler mix, any subset of raising handlers under the non-re-raising
exception handlers, no `post_setattr` hook): the default is computed exactly once (`c` is
the context `default_value_for` leaves), it is STORED, and the object stored — the one
every later read returns (`C10_stable_read`) — is the very object each handler is told as
`new`, with the deleted value as `old`.  (A reset re-arms the default: `C10_once` counts per
reset, which is why `del` is outside its histories.) -/
theorem C10_reset_default {E : Env} (q : Quiet E) (t : TraitCore) (s : OSt) (old v : Id) (c : Ctx)
    (hk : t.kind = .trait) (hp : t.post = none) (hs : s.slot = some old) (hn : s.noNotify = false)
    (hex : (s.tn.isSome || s.on.isSome) = true)
    (hd : defaultValueFor E t s.self s.name s.ctx = (.ok v, c)) :
    (Model.Attr.step E t s .del).1 = {}
    ∧ (Model.Attr.step E t s .del).2.slot = some v
    ∧ (Model.Attr.step E t s .del).2.ctx.fcalls = c.fcalls
    ∧ ∀ x ∈ (Model.Attr.step E t s .del).2.ctx.log.drop s.ctx.log.length, x.old = old ∧ x.new = v :=
  reset_default q t s old v c hk hp hs hn hex hd

/-! ### Silent -/

theorem getattro_log (E : Env) (t : TraitCore) (s : OSt) : (getattro E t s).2.ctx.log = s.ctx.log := by
  unfold getattro
  cases s.slot with
  | some v => rfl
  | none =>
    simp only [traitGetattr]
    cases t.kind with
    | event => rfl
    | trait =>
      simp only []
      unfold getattrTrait
      have h1 := (defaultValueFor_frame E t s.self s.name s.ctx).1.log
      have h1' : (s.defaultValueFor E t).2.ctx.log = s.ctx.log := h1
      cases hd : s.defaultValueFor E t with
      | mk r s1 =>
        rw [hd] at h1'
        cases r with
        | error e => exact h1'
        | ok v =>
          simp only []
          have h3 : (postSetattr E t v { s1 with slot := some v }).2.ctx.log = s1.ctx.log := by
            unfold postSetattr
            cases t.post with
            | none => rfl
            | some p => simp only []; split <;> rfl
          cases hp : postSetattr E t v { s1 with slot := some v } with
          | mk r2 s3 =>
            rw [hp] at h3
            cases r2 with
            | some e => exact h3.trans h1'
            | none =>
              simp only [callNotifiers_uninit']
              split <;> exact h3.trans h1'

/-- No read — in particular no first read of a default of any of the eleven
kinds — reaches a change handler, whatever handlers of whatever kind are
registered on the trait, the instance or the class, whatever the environment. -/
theorem C10_silent (E : Env) (w : World) (i : Nat) (n : Name) :
    (World.step E w (.get i n)).2.ctx.log = w.ctx.log := by
  simp only [World.step, World.onAttr]
  cases hi : w.insts[i]? with
  | none => rfl
  | some o =>
    simp only []
    cases ht : w.traitOf o n with
    | none => rfl
    | some td =>
      simp only []
      have := getattro_log E td.core (w.focus o n)
      unfold Model.Attr.step
      cases hg : getattro E td.core (w.focus o n) with
      | mk r s =>
        rw [hg] at this
        cases r <;> exact this

/-! ### Non-interference -/

/-- **Every environment, every world** (F9 worlds included): an operation on
instance `i` leaves untouched the class records, every other instance's record
(values, instance traits with their definitions and notifier lists, anytrait
notifiers), identity and class of `i`; the handler calls and factory calls it
adds are about `i`; a container that existed before keeps its contents unless
it is reachable from `i` afterwards, and stays a container. -/
theorem C10_noninterference (E : Env) (w : World) (op : WOp) (i : Nat) (ht : op.target = some i) :
    WFrame i w (World.step E w op).2 :=
  step_frame E w op i ht

/-- With copy-promising defaults (`Good`), operations on `i` and creations of
instances, in any interleaving and number, change nothing observable on another
instance `j`: its record, the contents of every object reachable from it, the
class records, the contents of the class-level default templates (hence the
defaults `j` and later instances have yet to materialise), the handler calls
and factory calls about `j`. -/
theorem C10_isolated {E : Env} {P : Nat} (i j : Nat) (hji : j ≠ i) (h : List WOp) (w : World) (g : Good E P w)
    (H : ∀ op ∈ h, OpOk E P op ∧ (op.target = some i ∨ op.target = none)) (hj : j < w.insts.length) :
    SameView j w (World.run E w h) :=
  run_sameView i j hji h w g H hj

/-! ### Freshness -/

/-- Mutable objects reachable from two different instances are disjoint. -/
def Separated (w : World) : Prop :=
  ∀ a b x, a ≠ b → w.ReachIdx a x → w.Mut x → ¬ w.ReachIdx b x

/-- What the model's class construction accepts as "a subclass overrides an
inherited default by value": the value is an already allocated flat container
of atoms (or the name is inherited unchanged). -/
def OverrideOk (P : Nat) (c : Ctx) (d : Decl) : Prop :=
  d.default = none ∧
  (d.member = none ∨ ∃ v ys, d.member = some (.value v) ∧ heapGet c.heap v = some ys ∧ ∀ y ∈ ys, y < P)

/-- **Full statement** (all default kinds of the property's list, including
subclass-overridden defaults): take a good base class, derive a subclass that
overrides inherited defaults by value, build it with the model of
`update_traits_class_dict` / `TraitType.clone`; then after every history the
instances are separated.  FALSE for the pinned tree (finding F9): see
`C10_fresh_fails_at_override`. -/
def C10_fresh_statement : Prop :=
  ∀ (E : Env) (P : Nat) (kb : ClassRec) (c1 : Ctx) (sub : List Decl) (ks : ClassRec) (c2 : Ctx) (h : List WOp),
    Good E P { classes := [kb], ctx := c1 } →
    (∀ d ∈ sub, OverrideOk P c1 d) →
    buildClass E (some kb) sub c1 = (.ok ks, c2) →
    (∀ op ∈ h, OpOk E P op) →
    Separated (World.run E { classes := [kb, ks], ctx := c2 } h)

/-- The statement for worlds whose trait definitions are all copy-promising
(`Good`: constant defaults are atoms, copied templates and factory results hold
atoms or fresh containers): after every history, mutable objects reachable from
two instances are disjoint, none of them is a default template, and the world
stays good.  What is missing for the full statement: `TraitType.clone` would have
to keep a copying default kind when a subclass overrides a mutable default. -/
theorem C10_fresh_partial {E : Env} {P : Nat} (w : World) (h : List WOp) (g : Good E P w)
    (H : ∀ op ∈ h, OpOk E P op) :
    Separated (World.run E w h)
    ∧ (∀ a x, (World.run E w h).ReachIdx a x → (World.run E w h).Mut x →
        ∀ t, (World.run E w h).Cores t → copyKind t → x ≠ t.dv.getD noneId)
    ∧ Good E P (World.run E w h) :=
  ⟨(run_good h w g H).sepI, (run_good h w g H).sepC, run_good h w g H⟩

/-- One default computation of a copy-promising trait yields an atom, the object
itself, or an identity allocated by this very computation. -/
theorem C10_fresh_value {E : Env} {P : Nat} (t : TraitCore) (obj : Id) (name : Name) (c : Ctx)
    (wf : CtxWF P c) (g : GoodCore E P c t) (v : Id) (hv : (defaultValueFor E t obj name c).1 = .ok v) :
    v < P ∨ v = obj ∨ (c.alloc ≤ v ∧ v < (defaultValueFor E t obj name c).2.alloc) :=
  (defaultValueFor_grow t obj name c wf g).2 v hv

/-! ### Examples and the negation witness -/

def exEnv : Env :=
  { cmp := { eqv := fun a b => if a = b then .yes else .no, neq := fun a b => if a = b then .no else .yes }
    validate := fun _ _ v => .ok v
    post := fun _ _ _ => .ok ()
    factory := fun _ _ _ => .error .typeError
    handler := fun h _ _ => if h = 1 then .error .runtimeError else .ok .stay
    veto := fun _ => false
    reraiseLegacy := false
    reraiseObserve := false }

/-- `x = Any([3, 4])` : a list_copy default whose template is object 10; handler 0 is `_x_changed`. -/
def exCore : TraitCore := { dvt := Generated.LIST_COPY_DEFAULT_VALUE, dv := some 10 }

def exBase : ClassRec :=
  { traits := [(0, { handler := exCore, ctrait := { core := exCore, notifiers := some [⟨.static, 0, 1⟩] } })] }

/-- objects 10 (template `[3, 4]`) and 11 (the list `[5]` a subclass will use as overriding default) exist -/
def exCtx : Ctx := { alloc := 12, heap := [(10, [3, 4]), (11, [5])] }

def exWorld : World := { classes := [exBase], ctx := exCtx }

theorem exHeap (x : Id) (ys : List Id) (h : heapGet exCtx.heap x = some ys) :
    (x = 10 ∧ ys = [3, 4]) ∨ (x = 11 ∧ ys = [5]) := by
  unfold heapGet exCtx at h
  simp only [List.find?] at h
  by_cases h1 : (10 : Nat) = x
  · subst h1; simp at h; exact Or.inl ⟨rfl, h.symm⟩
  · by_cases h2 : (11 : Nat) = x
    · subst h2; simp at h; exact Or.inr ⟨rfl, h.symm⟩
    · have e1 : ((10 : Nat) == x) = false := by simpa using h1
      have e2 : ((11 : Nat) == x) = false := by simpa using h2
      simp [e1, e2] at h

theorem exGood : Good exEnv 10 exWorld := by
  have hcore : ∀ t, exWorld.Cores t → t = exCore := by
    rintro t (⟨k, hk, p, hp, rfl⟩ | ⟨o, ho, _⟩)
    · simp only [exWorld, List.mem_singleton] at hk
      subst hk
      simp only [exBase, List.mem_singleton] at hp
      subst hp
      rfl
    · simp [exWorld] at ho
  have hnoinst : ∀ (i : Nat) (o : Inst), exWorld.insts[i]? = some o → False := by
    intro i o h; simp [exWorld] at h
  have hnoreach : ∀ a x, exWorld.ReachIdx a x → False := by
    rintro a x ⟨o, ho, _⟩; exact hnoinst a o ho
  refine ⟨⟨by decide, fun x ys h => ?_⟩, by decide, fun t ht => ?_, fun t ht _ => ?_,
    fun i o h => (hnoinst i o h).elim, fun i o h => (hnoinst i o h).elim,
    fun a b oa ob h => (hnoinst a oa h).elim, fun a b x _ h => (hnoreach a x h).elim,
    fun a x h => (hnoreach a x h).elim⟩
  · rcases exHeap x ys h with ⟨rfl, rfl⟩ | ⟨rfl, rfl⟩ <;> decide
  · rw [hcore t ht]
    refine ⟨fun h => by revert h; decide, fun _ => by decide, fun n a r h => by simp [exEnv] at h,
      fun k h => by simp [exCore] at h⟩
  · rw [hcore t ht]; decide

/-- Non-vacuity of `C10_fresh_partial` / `C10_isolated` / `C10_once`: the
hypotheses hold for a concrete class with a list default and a static handler;
after instance 0 read and mutated its default and registered handlers, instance
1 and an instance created afterwards read a fresh, unmodified `[3, 4]`, every
factory count is ≤ 1, and no handler was called. -/
def exHist : List WOp :=
  [.new 0, .new 0, .get 0 0, .mutate 0 0 5, .regDyn 0 0 2, .mutate 0 0 6, .new 0, .get 1 0, .get 2 0]

example :
    Good exEnv 10 exWorld ∧ (∀ op ∈ exHist, OpOk exEnv 10 op)
    ∧ ((World.run exEnv exWorld exHist).insts.map (fun o => o.dict)) = [[(0, 14)], [(0, 16)], [(0, 17)]]
    ∧ heapGet (World.run exEnv exWorld exHist).ctx.heap 14 = some [3, 4, 5, 6]
    ∧ heapGet (World.run exEnv exWorld exHist).ctx.heap 16 = some [3, 4]
    ∧ heapGet (World.run exEnv exWorld exHist).ctx.heap 17 = some [3, 4]
    ∧ (World.run exEnv exWorld exHist).ctx.log = [] := by
  refine ⟨exGood, opOk_of_bool _ (by decide), by decide, by decide, by decide, by decide, by decide⟩

/-- `x = Any(factory=f)` with a factory (callable 1000) that returns a fresh `[3]`; handler 0 is `_x_changed`. -/
def exEnvF : Env := { exEnv with factory := fun _ _ _ => .ok (.fresh [.atom 3]) }

def exCoreF : TraitCore := { dvt := Generated.CALLABLE_AND_ARGS_DEFAULT_VALUE, dv := some 1000 }

def exWorldF : World :=
  { classes := [{ traits := [(0, { handler := exCoreF,
                                   ctrait := { core := exCoreF, notifiers := some [⟨.static, 0, 1⟩] } })] }],
    ctx := { alloc := 10 } }

/-- Non-vacuity of `C10_once` / `C10_first_read` / `C10_silent`: the invariant
holds initially for a class with a factory default; after reads, a repeated
read, an assignment and a read on a second instance the factory ran exactly
once per instance, the first read returned the fresh object the factory built,
and no handler was called by the reads (the one call is the assignment's). -/
example :
    OnceInv exEnvF exWorldF
    ∧ (World.step exEnvF (World.run exEnvF exWorldF [.new 0]) (.get 0 0)).1 = { val := some 11 }
    ∧ (let w := World.run exEnvF exWorldF [.new 0, .get 0 0, .get 0 0, .set 0 0 4, .get 0 0, .new 0, .get 1 0]
       w.fcount 10 0 = 1 ∧ w.fcount 12 0 = 1 ∧ w.ctx.log = [⟨10, 0, 11, 4⟩]) := by
  refine ⟨C10_once_initial _ _ rfl ?_, by decide, by decide⟩
  intro k hk p hp obj name c
  simp only [List.mem_singleton] at hk
  subst hk
  simp only [List.mem_singleton] at hp
  subst hp
  exact ⟨_, rfl⟩

/-- `x = Any(factory=f)` where `f` raises ValueError on its first call and returns a fresh `[3]` afterwards. -/
def exEnvR : Env :=
  { exEnv with factory := fun _ n _ => if n = 0 then .error .valueError else .ok (.fresh [.atom 3]) }

/-- Non-vacuity of `C10_default_raises`, on the world model: the first read raises
the factory's ValueError, stores nothing and calls nobody (a static handler is
attached); the second read calls the factory again, returns the fresh object 11
and stores it.  With an AttributeError and warnings-as-errors the caller sees
the UserWarning (`Exc.other`) instead. -/
example :
    ((World.runTrace exEnvR exWorldF [.new 0, .get 0 0, .get 0 0]).map
        (fun r => (r.1.exc, r.1.val, r.2.insts.map (fun o => o.dict), r.2.ctx.log, r.2.ctx.fcalls.length))
       = [(none, some 10, [[]], [], 0), (some .valueError, none, [[]], [], 1), (none, some 11, [[(0, 11)]], [], 2)])
    ∧ callsUser exCoreF
    ∧ surfaced { exEnvR with warnError := true } .attributeError = .other
    ∧ surfaced exEnvR .attributeError = .attributeError := by
  refine ⟨by rfl, Or.inl rfl, by decide, by decide⟩

/-- Non-vacuity of `C10_reset_default` on the world model (factory default, static handler 0):
assign, reset, read twice — the reset tells the handler the fresh object 11, which is what is
stored and what both later reads return; the factory ran once. -/
example :
    ((World.runTrace exEnvF exWorldF [.new 0, .set 0 0 4, .del 0 0, .get 0 0, .get 0 0]).map
        (fun r => (r.1.val, r.2.insts.map (fun o => o.dict), r.2.ctx.log.length, r.2.ctx.fcalls.length))
      = [(some 10, [[]], 0, 0), (none, [[(0, 4)]], 1, 1), (none, [[(0, 12)]], 2, 2),
         (some 12, [[(0, 12)]], 2, 2), (some 12, [[(0, 12)]], 2, 2)])
    ∧ (World.run exEnvF exWorldF [.new 0, .set 0 0 4, .del 0 0]).ctx.log.getLast? = some ⟨10, 0, 4, 12⟩ := by
  refine ⟨by rfl, by rfl⟩

/-- What `buildClass` produces for the subclass `x = [5]` (object 11) of `exBase`:
a CONSTANT default holding object 11 itself. -/
def exSub : ClassRec :=
  { traits := [(0, { handler := { exCore with dvt := Generated.CONSTANT_DEFAULT_VALUE, dv := some 11 },
                     ctrait := { core := { exCore with dvt := Generated.CONSTANT_DEFAULT_VALUE, dv := some 11 },
                                 notifiers := none } })] }

/-- **Negation witness** (finding F9): base class `x = Any([3, 4])`, subclass
`x = [5]`.  `TraitType.clone` turns the copying default into a *constant* one
(`clone_becomes_constant_default_value`), so two instances of the subclass read
the very same list object 11. -/
theorem C10_fresh_fails_at_override : ¬ C10_fresh_statement := by
  intro H
  have hb : buildClass exEnv (some exBase) [{ name := 0, member := some (.value 11) }] exCtx =
      (.ok exSub, exCtx) := by rfl
  have hsep := H exEnv 10 exBase exCtx [{ name := 0, member := some (.value 11) }] exSub exCtx
    [.new 1, .new 1, .get 0 0, .get 1 0] exGood
    (by
      intro d hd
      simp only [List.mem_singleton] at hd
      subst hd
      exact ⟨rfl, Or.inr ⟨11, [5], rfl, by decide, by decide⟩⟩)
    hb (opOk_of_bool _ (by decide))
  exact hsep 0 1 11 (by decide) ⟨_, rfl, 0, 11, by decide, Or.inl rfl⟩ (by unfold World.Mut; decide)
    ⟨_, rfl, 0, 11, by decide, Or.inl rfl⟩

end TraitsVerif.Props.C10
