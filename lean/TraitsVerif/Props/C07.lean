/-
Property C07 — TraitSet refines set, its change events are faithful deltas, and
copies (copy / deepcopy / pickle) are equal sets that still validate.
Only the property theorems and their non-vacuity examples live here; the model
is `Model/TraitSet.lean`, helper lemmas are in `Lemmas/Set*.lean`.

All theorems are universally quantified over the member type, the set `s` (any
size), the operation with its operands (any number of iterables of any length,
set or non-set operands of the in-place operators), and the item validator
`v : Nat → α → Except Exc α` (an arbitrary partial function of call ordinal and
argument).
-/
import TraitsVerif.Lemmas.SetStep
import TraitsVerif.Lemmas.PyLMapSet
import TraitsVerif.Py.Dict
import TraitsVerif.Generated.Mutators
import TraitsVerif.Lemmas.PyLObj
import TraitsVerif.Generated.CtorCopy
import TraitsVerif.Model.CtorCopyAssumed
import TraitsVerif.Lemmas.PyLCtor
namespace TraitsVerif.Props.C07
open TraitsVerif TraitsVerif.Py TraitsVerif.Model.SetM
open TraitsVerif.Py.PSet (Op WF Equiv ofList)

variable {α : Type} [DecidableEq α]

/-! ### Refinement -/

/-- **C07_refines.**  One `TraitSet` method call yields the same members, the
same return value and on failure the same exception class as the builtin set on
the validated items.  For `^=` (set operand) and `symmetric_difference_update`
this needs the validated new items to be absent from the set (finding F24: the
code tests containment on the raw items); every other operation needs no
hypothesis. -/
theorem C07_refines (v : Callback α α) (s : PSet α) (op : Op α) (h : SymHyp v s op) :
    SetRefines v s op :=
  set_step_refines v s op h

/-- The hypothesis is vacuous for every operation but the two symmetric-difference ones. -/
theorem C07_refines_unconditional (v : Callback α α) (s : PSet α) (op : Op α)
    (h : (∀ xs, op ≠ .ixor true xs) ∧ ∀ xs, op ≠ .symmetricDifferenceUpdate xs) : SetRefines v s op := by
  apply set_step_refines
  cases op <;> simp_all [SymHyp]

/-- For a validator that leaves absent items absent (in particular the identity,
or any validator when the operand's new items are already valid and not
colliding), `^=` refines the builtin. -/
theorem C07_refines_sym_identity (s : PSet α) (xs : List α) :
    SetRefines (fun _ x => .ok x) s (.symmetricDifferenceUpdate xs) ∧
    SetRefines (fun _ x => .ok x) s (.ixor true xs) := by
  have hid : ∀ (l : List α) (k : Nat), valAll (fun _ x => (.ok x : Except Exc α)) k l = .ok l := by
    intro l; induction l with
    | nil => intro k; rfl
    | cons x l ih => intro k; simp [valAll, ih]
  constructor <;> apply set_step_refines <;> simp only [SymHyp, symRaw] <;> intro ws hws y hy <;>
    (rw [hid] at hws; cases hws
     exact (PSet.mem_diff.mp hy).2 ∘ fun hs => PSet.mem_inter.mpr ⟨hs, (PSet.mem_diff.mp hy).1⟩)

/-- **Negation witness (F24).**  `TraitSet({3}, item_validator=int) ^= {'3'}`:
the model (like the code) leaves `{3}` and notifies nobody, the builtin set on
the validated operand `{3}` removes 3.  So the hypothesis of `C07_refines`
cannot be dropped. -/
theorem C07_refines_fails_at :
    ¬ SetRefines KAtom.intV [KAtom.int 3] (.ixor true [KAtom.str 3]) := by
  intro h
  have h1 : (TraitSet.step KAtom.intV [KAtom.int 3] (.ixor true [KAtom.str 3])).map SOut.proj =
      .ok ([KAtom.int 3], none) := by decide
  have h2 : setReference KAtom.intV [KAtom.int 3] (.ixor true [KAtom.str 3]) = .ok ([], none) := by decide
  unfold SetRefines at h
  rw [h1, h2] at h
  exact absurd ((h.1 (KAtom.int 3)).mp (by simp)) (by simp)

/-- The full-strength refinement statement (`Model.SetM.C07RefinesFull`) is false of
the code as it stands. -/
theorem C07_refines_full_fails : ¬ C07RefinesFull KAtom := by
  intro h
  exact C07_refines_fails_at (h _ _ _ (by decide))

/-- What the model computes on the F24 input and on the input the test suite
pins (`test_ixor_validator_args_with_added`: `{'1','2','3'} ^= {'2', 3, 4}` under
`str`), replayed on the real code by the oracle. -/
theorem C07_F24_model_behaviour :
    TraitSet.step KAtom.intV [KAtom.int 3] (.ixor true [KAtom.str 3]) = .ok { items := [KAtom.int 3] } ∧
    TraitSet.step KAtom.strV [KAtom.str 1, KAtom.str 2, KAtom.str 3] (.ixor true [KAtom.str 2, KAtom.int 3, KAtom.int 4]) =
      .ok { items := [KAtom.str 1, KAtom.str 3, KAtom.str 4],
            event := some ⟨[KAtom.str 2], [KAtom.str 4]⟩ } := by decide

/-- Non-vacuity of `C07_refines`: a coercing validator with a partial overlap. -/
example : SymHyp KAtom.intV [KAtom.int 1, KAtom.int 2] (.symmetricDifferenceUpdate [KAtom.int 2, KAtom.str 5, KAtom.str 5]) ∧
    TraitSet.step KAtom.intV [KAtom.int 1, KAtom.int 2] (.symmetricDifferenceUpdate [KAtom.int 2, KAtom.str 5, KAtom.str 5]) =
      .ok { items := [KAtom.int 1, KAtom.int 5], event := some ⟨[KAtom.int 2], [KAtom.int 5]⟩ } := by
  refine ⟨?_, by decide⟩
  intro ws hws
  have : ws = [KAtom.int 5] := by
    have h : valAll KAtom.intV 0 (symRaw [KAtom.int 1, KAtom.int 2] [KAtom.int 2, KAtom.str 5, KAtom.str 5]) =
        .ok [KAtom.int 5] := by decide
    rw [h] at hws; cases hws; rfl
  subst this; decide

/-- `TraitSet(iterable, item_validator)` is `set` of the validated items. -/
theorem C07_init (v : Callback α α) (xs : List α) :
    TraitSet.init v xs = (valAll v 0 xs).map ofList ∧ ∀ s, TraitSet.init v xs = .ok s → WF s := by
  constructor
  · unfold TraitSet.init; cases valAll v 0 xs <;> rfl
  · intro s h; unfold TraitSet.init at h; split at h <;> cases h; exact PSet.wf_ofList _

/-! ### Failure atomicity -/

/-- **C07_atomic.**  A failing operation leaves the members as they were and
notifies nobody. -/
theorem C07_atomic (v : Callback α α) (s : PSet α) (op : Op α) (e : Exc)
    (h : TraitSet.step v s op = .error e) :
    TraitSet.next v s op = s ∧ TraitSet.notification v s op = none := by
  simp [TraitSet.next, TraitSet.notification, h]

/-- The only failures are the validator's exception (passed through), the
builtin's `KeyError` (`remove` of a non-member, `pop` on an empty set — raised
before anything is notified) and `TypeError` for a non-set operand of an in-place
operator. -/
theorem C07_failure_causes (v : Callback α α) (s : PSet α) (op : Op α) (e : Exc)
    (h : TraitSet.step v s op = .error e) :
    validateSetOp v s op = .error e ∨
      ((e = .keyError ∨ e = .typeError) ∧ ∃ op', validateSetOp v s op = .ok op' ∧ PSet.step s op' = .error e) := by
  have href := set_step_refines v s op
  cases op with
  | add x =>
    simp only [TraitSet.step] at h; simp only [validateSetOp]
    cases hx : v 0 x with
    | error e' => simp [hx] at h; simp [h]
    | ok y => simp [hx] at h; split at h <;> cases h
  | discard x => simp only [TraitSet.step] at h; split at h <;> cases h
  | remove x =>
    simp only [TraitSet.step] at h
    split at h <;> cases h
    rename_i hx
    exact .inr ⟨.inl rfl, _, rfl, by simp [PSet.step, hx]⟩
  | pop hint =>
    simp only [TraitSet.step] at h
    split at h <;> cases h
    rename_i hx
    exact .inr ⟨.inl rfl, _, rfl, by simp [PSet.step, hx]⟩
  | clear => simp only [TraitSet.step] at h; split at h <;> cases h
  | update args =>
    simp only [TraitSet.step] at h; simp only [validateSetOp]
    cases hx : valAll v 0 args.flatten with
    | error e' => simp [hx] at h; simp [h]
    | ok ys => simp [hx] at h
  | differenceUpdate args => simp only [TraitSet.step] at h; cases h
  | intersectionUpdate args => simp only [TraitSet.step] at h; cases h
  | symmetricDifferenceUpdate xs =>
    simp only [TraitSet.step, symParts] at h; simp only [validateSetOp]
    cases hx : valAll v 0 (PSet.diff (ofList xs) (PSet.inter s (ofList xs))) with
    | error e' => simp [hx] at h; simp [h]
    | ok ws => simp [hx] at h; split at h <;> cases h
  | ior isSet xs =>
    cases isSet with
    | false =>
      simp only [TraitSet.step] at h; cases h
      exact .inr ⟨.inr rfl, _, rfl, by simp [PSet.step]⟩
    | true =>
      simp only [TraitSet.step, if_true] at h; simp only [validateSetOp]
      cases hx : valAll v 0 xs with
      | error e' => simp [hx] at h; simp [h]
      | ok ys => simp [hx] at h
  | iand isSet xs =>
    cases isSet with
    | false =>
      simp only [TraitSet.step] at h; cases h
      exact .inr ⟨.inr rfl, _, rfl, by simp [PSet.step]⟩
    | true => simp only [TraitSet.step, if_true] at h; cases h
  | isub isSet xs =>
    cases isSet with
    | false =>
      simp only [TraitSet.step] at h; cases h
      exact .inr ⟨.inr rfl, _, rfl, by simp [PSet.step]⟩
    | true => simp only [TraitSet.step, if_true] at h; cases h
  | ixor isSet xs =>
    cases isSet with
    | false =>
      simp only [TraitSet.step] at h; cases h
      exact .inr ⟨.inr rfl, _, rfl, by simp [PSet.step]⟩
    | true =>
      simp only [TraitSet.step, symParts, if_true] at h; simp only [validateSetOp]
      cases hx : valAll v 0 (PSet.diff (ofList xs) (PSet.inter s (ofList xs))) with
      | error e' => simp [hx] at h; simp [h]
      | ok ws => simp [hx] at h; split at h <;> cases h

/-! ### Events are faithful deltas -/

/-- **C07_delta.**  For the notification `(removed, added)` of a successful
operation: `removed ⊆ pre`, `added ∩ pre = ∅`, `(pre − removed) ∪ added = post`,
and the two are not both empty. -/
theorem C07_delta (v : Callback α α) (s : PSet α) (hwf : WF s) (op : Op α) (o : SOut α) (e : SEvent α)
    (h : TraitSet.step v s op = .ok o) (he : o.event = some e) : Delta s o.items e :=
  (set_step_event hwf h).2.1 e he

/-- **C07_silent.**  An operation that leaves the set equal to what it was
notifies nobody. -/
theorem C07_silent (v : Callback α α) (s : PSet α) (hwf : WF s) (op : Op α) (o : SOut α)
    (h : TraitSet.step v s op = .ok o) (heq : Equiv o.items s) : o.event = none := by
  cases he : o.event with
  | none => rfl
  | some e => exact absurd heq (delta_not_equiv ((set_step_event hwf h).2.1 e he))

/-- **C07_one_event.**  An operation that changes the set notifies (at most once
by construction of `SOut`; every notifier in the list receives the same pair). -/
theorem C07_one_event (v : Callback α α) (s : PSet α) (hwf : WF s) (op : Op α) (o : SOut α)
    (h : TraitSet.step v s op = .ok o) (hne : ¬ Equiv o.items s) : o.event.isSome = true := by
  cases he : o.event with
  | some e => rfl
  | none => exact absurd ((set_step_event hwf h).2.2 he) hne

/-- Non-vacuity of the event theorems: `^=` reporting both directions, `&=`
with a superset (silent), `update` with several iterables and a collision. -/
example :
    TraitSet.step (fun _ x => .ok x) [1, 2, 3] (.ixor true [2, 3, 5, 5]) =
      .ok { items := [1, 5], event := some ⟨[2, 3], [5]⟩ } ∧
    TraitSet.step (fun _ x => .ok x) [1, 2, 3] (.iand true [3, 2, 1, 0]) = .ok { items := [1, 2, 3] } ∧
    TraitSet.step (fun _ x => .ok (x % 5)) [1, 2] (.update [[6, 7], [], [12, 8]]) =
      .ok { items := [1, 2, 3], event := some ⟨[], [3]⟩ } := by decide

/-! ### Invariants -/

/-- The duplicate-freeness representation invariant is preserved. -/
theorem C07_wf_preserved (v : Callback α α) (s : PSet α) (hwf : WF s) (op : Op α) :
    WF (TraitSet.next v s op) := by
  unfold TraitSet.next
  split
  · exact hwf
  · rename_i o h; exact (set_step_event hwf h).1

/-- **members_valid_preserved** (cited by C04).  If every member of the
pre-state is an output of the validator, so is every member of the post-state. -/
theorem members_valid_preserved (v : Callback α α) (s : PSet α) (op : Op α)
    (hv : ∀ x ∈ s, TraitSet.ValidOut v x) : ∀ x ∈ TraitSet.next v s op, TraitSet.ValidOut v x := by
  unfold TraitSet.next
  split
  · exact hv
  · rename_i o h; exact set_step_valid_preserved v s op o h hv

/-- A freshly constructed `TraitSet` satisfies the validity invariant. -/
theorem members_valid_init (v : Callback α α) (xs : List α) (s : PSet α)
    (h : TraitSet.init v xs = .ok s) : ∀ x ∈ s, TraitSet.ValidOut v x := by
  unfold TraitSet.init at h
  split at h <;> cases h
  rename_i ys hys
  exact fun x hx => valAll_valid hys x (PSet.mem_ofList.mp hx)

/-! ### Copies -/

/-- **C07_copy.**  `copy.copy` and a pickle round trip always, and
`copy.deepcopy` whenever the validator accepts the members unchanged (every
idempotent validator does; finding F25 otherwise), yield a `TraitSet` with equal
members, the same validator, no notifiers, which still rejects what the
validator rejects. -/
theorem C07_copy {N : Type} (k : CopyKind) (o : TSObj α N) (_hwf : WF o.items)
    (hfix : k = .deepcopy → FixedOn o.validator o.items) : CopyOK k o := by
  have hadd : ∀ (items : PSet α) x e, o.validator 0 x = .error e →
      TraitSet.step o.validator items (.add x) = .error e := by
    intro items x e hx; simp [TraitSet.step, hx]
  cases k with
  | copy =>
    exact ⟨_, rfl, fun x => PSet.mem_ofList, PSet.wf_ofList _, rfl, rfl, hadd _⟩
  | pickle =>
    exact ⟨_, rfl, fun x => PSet.mem_ofList, PSet.wf_ofList _, rfl, rfl, hadd _⟩
  | deepcopy =>
    have := valAll_fixed (hfix rfl) 0
    refine ⟨{ items := ofList o.items, validator := o.validator, notifiers := [] }, ?_,
      fun x => PSet.mem_ofList, PSet.wf_ofList _, rfl, rfl, hadd _⟩
    simp [TraitSet.copyOp, TraitSet.init, this]

/-- `copy` and `pickle` need no hypothesis. -/
theorem C07_copy_unconditional {N : Type} (k : CopyKind) (hk : k ≠ .deepcopy) (o : TSObj α N)
    (hwf : WF o.items) : CopyOK k o :=
  C07_copy k o hwf (fun h => absurd h hk)

/-- What `deepcopy` does in general: the constructor re-validates the members. -/
theorem C07_deepcopy_revalidates {N : Type} (o : TSObj α N) :
    TraitSet.copyOp .deepcopy o =
      (valAll o.validator 0 o.items).map
        (fun ys => { items := ofList ys, validator := o.validator, notifiers := [] }) := by
  simp only [TraitSet.copyOp, TraitSet.init]
  cases valAll o.validator 0 o.items <;> rfl

/-- **Negation witness (F25).**  `copy.deepcopy(TraitSet([1], item_validator=lambda x: x + 1))`
(contents `{2}`) is `{3}`: the deep copy is not equal to the original, so the
hypothesis of `C07_copy` for `deepcopy` cannot be dropped. -/
theorem C07_copy_fails_at :
    ¬ CopyOK .deepcopy ({ items := [KAtom.int 2], validator := KAtom.incV, notifiers := ([] : List Nat) }) := by
  rintro ⟨o', ho, heq, -⟩
  have hv : valAll KAtom.incV 0 [KAtom.int 2] = .ok [KAtom.int 3] := by decide
  simp only [TraitSet.copyOp, TraitSet.init, hv] at ho
  cases ho
  have : KAtom.int 2 ∈ ofList [KAtom.int 3] := (heq (KAtom.int 2)).mpr (by simp)
  rw [PSet.mem_ofList] at this
  simp at this

theorem C07_copy_full_fails : ¬ C07CopyFull KAtom Nat :=
  fun h => C07_copy_fails_at
    (h .deepcopy { items := [KAtom.int 2], validator := KAtom.incV, notifiers := [] } (by decide))

/-- Non-vacuity of `C07_copy`: a rejecting validator whose members are fixed points. -/
example (v : Callback Int Int) (hv : v = fun _ x => if x < 0 then .error .traitError else .ok x) :
    FixedOn v [3, 1, 2] ∧
    CopyOK .deepcopy ({ items := [3, 1, 2], validator := v, notifiers := [7, 8] } : TSObj Int Nat) := by
  have hf : FixedOn v [3, 1, 2] := by
    subst hv; intro n x hx; simp at hx; rcases hx with h | h | h <;> subst h <;> rfl
  exact ⟨hf, C07_copy _ _ (by show PSet.WF [3, 1, 2]; decide) (fun _ => hf)⟩

/-! ### All histories -/

/-- **C07_step_spec.**  Every clause above for one step from a duplicate-free state. -/
theorem C07_step_spec (v : Callback α α) (s : PSet α) (hwf : WF s) (op : Op α) : SetStepSpec v s op where
  atomic := fun e h => C07_atomic v s op e h
  wf := fun _ h => (set_step_event hwf h).1
  delta := fun o e h he => C07_delta v s hwf op o e h he
  silent := fun o h heq => C07_silent v s hwf op o h heq
  one_event := fun o h hne => C07_one_event v s hwf op o h hne
  refines := fun h => C07_refines v s op h

/-- **C07_history.**  Along every finite history from a duplicate-free state (in
particular from any freshly constructed `TraitSet`) every step satisfies all
clauses. -/
theorem C07_history (v : Callback α α) (ops : List (Op α)) (s : PSet α) (hwf : WF s) :
    SetAlongRun v (fun pre op => WF pre ∧ SetStepSpec v pre op) s ops := by
  induction ops generalizing s with
  | nil => trivial
  | cons op ops ih => exact ⟨⟨hwf, C07_step_spec v s hwf op⟩, ih _ (C07_wf_preserved v s hwf op)⟩

set_option linter.unusedSimpArgs false in
/-- **C07_history_refines.**  After any sequence of operations the `TraitSet`
history (members, return values, exception classes, step by step) equals — up
to the order in which members are stored — the history of a builtin set `b`
that starts equal and is driven by the validated operations, provided the
symmetric-difference hypothesis (F24) holds at each step and `pop` is given the
member the implementation popped. -/
theorem C07_history_refines (v : Callback α α) (ops : List (Op α)) (s b : PSet α) (hsb : Equiv s b)
    (hyp : SetAlongRun v (fun pre op => SymHyp v pre op ∧ GoodHint pre op) s ops) :
    ResEquivAll ((TraitSet.run v s ops).map (·.map SOut.proj)) (setRefRun v s b ops) := by
  induction ops generalizing s b with
  | nil => trivial
  | cons op ops ih =>
    obtain ⟨⟨hsym, hgood⟩, hrest⟩ := hyp
    have h1 : SetRefines v s op := set_step_refines v s op hsym
    unfold SetRefines setReference at h1
    -- the builtin depends on the members only
    have h2 : ResEquiv (setReferenceOn v s s op) (setReferenceOn v s b op) := by
      unfold setReferenceOn
      cases hv : validateSetOp v s op with
      | error e => exact rfl
      | ok op' =>
        apply resEquiv_of_congr hsb
        cases op <;> simp only [validateSetOp] at hv <;>
          first
          | (cases hv; first | trivial | exact hgood)
          | (split at hv <;> cases hv; trivial)
          | skip
        all_goals (rename_i isSet xs; cases isSet <;> simp only [validateSetOp] at hv <;>
          first | (cases hv; trivial) | (split at hv <;> cases hv; trivial))
    have h3 := h1.trans h2
    simp only [TraitSet.run, setRefRun, List.map_cons]
    refine ⟨h3, ?_⟩
    unfold TraitSet.next at hrest ⊢
    cases hs : TraitSet.step v s op with
    | error e =>
      simp only [hs] at hrest h3
      cases hr : setReferenceOn v s b op with
      | error e' => exact ih s b hsb hrest
      | ok r => simp [hr, Except.map, ResEquiv] at h3
    | ok o =>
      simp only [hs] at hrest h3
      cases hr : setReferenceOn v s b op with
      | error e' => simp [hr, Except.map, ResEquiv] at h3
      | ok r =>
        simp only [hr, Except.map] at h3
        exact ih o.items r.1 h3.1 hrest

/-- Non-vacuity of `C07_history_refines`: with the identity validator the
hypotheses hold along a history mixing every kind of operation (the builtin
starts from a differently ordered representation of the same set). -/
example :
    SetAlongRun (fun _ x => .ok x) (fun pre op => SymHyp (fun _ x => .ok x) pre op ∧ GoodHint pre op)
      ([1, 2, 3] : PSet Int)
      [.ixor true [2, 5], .pop (some 3), .update [[7], [1, 8]], .iand false [1], .remove 9,
       .intersectionUpdate [[1, 7, 8], [8, 1]], .clear, .pop none] ∧
    (TraitSet.run (fun _ x => .ok x) ([1, 2, 3] : PSet Int)
      [.ixor true [2, 5], .pop (some 3), .update [[7], [1, 8]], .iand false [1], .remove 9,
       .intersectionUpdate [[1, 7, 8], [8, 1]], .clear, .pop none]).map (·.map SOut.proj) =
      [.ok ([1, 3, 5], none), .ok ([1, 5], some 3), .ok ([1, 5, 7, 8], none), .error .typeError,
       .error .keyError, .ok ([1, 8], none), .ok ([], none), .error .keyError] ∧
    Equiv ([1, 2, 3] : PSet Int) [3, 1, 2] := by
  refine ⟨⟨⟨?_, trivial⟩, ⟨trivial, .inr ⟨3, rfl, by decide⟩⟩, ⟨trivial, trivial⟩, ⟨trivial, trivial⟩,
    ⟨trivial, trivial⟩, ⟨trivial, trivial⟩, ⟨trivial, trivial⟩, ⟨trivial, .inl (by decide)⟩, trivial⟩,
    by decide, fun x => by simp; omega⟩
  intro ws hws
  have h : valAll (fun _ x => (.ok x : Except Exc Int)) 0 (symRaw ([1, 2, 3] : PSet Int) [2, 5]) = .ok [5] := by
    decide
  rw [h] at hws; cases hws; decide

/-! ### Tie to the source by translation: the model is the interpreted source -/

/-- **C07_step_is_source.**  For every item validator, every set and every
operation with its operands, the hand-written `TraitSet.step` is exactly what the
interpreter of `Model/PyLMap.lean` computes on the method body translated from
the working tree (`Generated/MapSetProg.lean`, `translate/pylmap.py`): same
members (as stored), same return value (the in-place operators return the
receiver, `pop` the member), same notifications, same exception — and on an
exception the same (unchanged) members and no notification. -/
theorem C07_step_is_source (v : Callback α α) (s : PSet α) (op : Op α) :
    Model.PyLM.S.runTraitSetOp Generated.traitSetProg v s op
      = Model.PyLM.S.summaryOfStep s op (TraitSet.step v s op) :=
  Lemmas.PyLMS.ts_step_is_source v s op

/-- **C07_source_atomic.**  Atomicity read off the source: whenever the
interpreted source raises (including the `TypeError` Python raises when an
in-place operator returns `NotImplemented`), the set is unchanged and nobody has
been notified. -/
theorem C07_source_atomic (v : Callback α α) (s : PSet α) (op : Op α) (e : Exc)
    (items : PSet α) (evs : List (SEvent α))
    (h : Model.PyLM.S.runTraitSetOp Generated.traitSetProg v s op = .raised e items evs) :
    items = s ∧ evs = [] := by
  rw [C07_step_is_source] at h
  cases hs : TraitSet.step v s op with
  | ok o => simp [Model.PyLM.S.summaryOfStep, hs] at h
  | error e' =>
    simp only [Model.PyLM.S.summaryOfStep, hs, Model.PyLM.S.Summary.raised.injEq] at h
    exact ⟨h.2.1.symm, h.2.2.symm⟩

/-- **C07_source_events.**  The source notifies at most once per call, and
exactly with the model's `(removed, added)`; members and return value are the
model's. -/
theorem C07_source_events (v : Callback α α) (s : PSet α) (op : Op α)
    (items : PSet α) (r : Model.PyLM.S.SRet α) (evs : List (SEvent α))
    (h : Model.PyLM.S.runTraitSetOp Generated.traitSetProg v s op = .done items r evs) :
    ∃ o, TraitSet.step v s op = .ok o ∧ items = o.items ∧ r = Model.PyLM.S.retOf op o.ret ∧
      evs = o.event.toList := by
  rw [C07_step_is_source] at h
  cases hs : TraitSet.step v s op with
  | error e' => simp [Model.PyLM.S.summaryOfStep, hs] at h
  | ok o =>
    simp only [Model.PyLM.S.summaryOfStep, hs, Model.PyLM.S.Summary.done.injEq] at h
    exact ⟨o, rfl, h.1.symm, h.2.1.symm, h.2.2.symm⟩

/-- `TraitSetObject` overrides no mutator (so the `Set` trait's object runs the
`TraitSet` methods above), and `notify` takes `(removed, added)`. -/
theorem C07_source_object_overrides_none :
    Generated.traitSetObjectProg = [] ∧ Generated.traitSetNotifyParams = ["removed", "added"] := by decide

/-- **C07_init_source.**  The constructors of `TraitSet` / `TraitSetObject` in the
working tree are, statement for statement, the ones the model assumes: every
"was it given?" / "is there an owner?" decision is an `is None` test. -/
theorem C07_init_source :
    [Generated.traitSetNewSource, Generated.traitSetInitSource, Generated.traitSetObjectInitSource]
      = setConstructorsAssumed := by decide

/-- Non-vacuity: the interpreted source on the F24 input and on a `&=` with a
list operand (`NotImplemented`, hence `TypeError`, nothing changed). -/
example :
    Model.PyLM.S.runTraitSetOp Generated.traitSetProg KAtom.intV [KAtom.int 3] (.ixor true [KAtom.str 3]) =
      .done [KAtom.int 3] .self [] ∧
    Model.PyLM.S.runTraitSetOp Generated.traitSetProg KAtom.intV [KAtom.int 3] (.iand false [KAtom.int 3]) =
      .raised .typeError [KAtom.int 3] [] := by
  rw [C07_step_is_source, C07_step_is_source]; exact ⟨rfl, rfl⟩

/-! ### The value of a `Set` trait (`TraitSetObject`): which copies still validate -/

/-- **C07_validator_is_source.**  `TraitSetObject.validator` is the
interpretation of the `_validator` method translated from the working tree, for
every state of the attributes it reads, every inner trait, ordinal and value. -/
theorem C07_validator_is_source (σ : TSOSelf) (inner : Bool → Callback α α) :
    Model.PyLM.V.runValidator Generated.traitSetObjectValidator σ inner = TraitSetObject.validator σ inner := by
  funext n x; exact Lemmas.PyLMS.tso_validator_is_source σ inner n x

/-- **C07_trait_value_still_validates.**  The rule the code follows: the live
value of a `Set` trait validates with the inner trait and its owner; a deep copy
of it and the value whose owner has been garbage-collected validate with the
inner trait and owner `None`.  Hence (i) for an inner trait that does not
consult the owner they validate exactly like the live value, and (ii) in every
case an item the inner trait rejects without an owner is rejected by `add`
(also after further deep copies), the set being left as it was. -/
theorem C07_trait_value_still_validates (inner : Bool → Callback α α) :
    TraitSetObject.validator TSOSelf.live inner = inner true ∧
    TraitSetObject.validator TSOSelf.live.afterDeepcopy inner = inner false ∧
    TraitSetObject.validator TSOSelf.live.orphaned inner = inner false ∧
    TraitSetObject.validator TSOSelf.live.afterDeepcopy.afterDeepcopy inner = inner false ∧
    ((∀ n x, inner false n x = inner true n x) →
      TraitSetObject.validator TSOSelf.live.afterDeepcopy inner = TraitSetObject.validator TSOSelf.live inner ∧
      TraitSetObject.validator TSOSelf.live.orphaned inner = TraitSetObject.validator TSOSelf.live inner) ∧
    (∀ (s : PSet α) x e, inner false 0 x = .error e →
      TraitSet.step (TraitSetObject.validator TSOSelf.live.afterDeepcopy inner) s (.add x) = .error e ∧
      TraitSet.step (TraitSetObject.validator TSOSelf.live.orphaned inner) s (.add x) = .error e) := by
  have h1 : TraitSetObject.validator TSOSelf.live inner = inner true := by
    funext n x; simp [TraitSetObject.validator, TSOSelf.live]
  have h2 : TraitSetObject.validator TSOSelf.live.afterDeepcopy inner = inner false := by
    funext n x; simp [TraitSetObject.validator, TSOSelf.live, TSOSelf.afterDeepcopy]
  have h3 : TraitSetObject.validator TSOSelf.live.orphaned inner = inner false := by
    funext n x; simp [TraitSetObject.validator, TSOSelf.live, TSOSelf.orphaned]
  have h4 : TraitSetObject.validator TSOSelf.live.afterDeepcopy.afterDeepcopy inner = inner false := by
    funext n x; simp [TraitSetObject.validator, TSOSelf.live, TSOSelf.afterDeepcopy]
  refine ⟨h1, h2, h3, h4, ?_, ?_⟩
  · intro h
    have : inner false = inner true := by funext n x; exact h n x
    rw [h1, h2, h3, this]; exact ⟨rfl, rfl⟩
  · intro s x e he
    rw [h2, h3]; simp [TraitSet.step, he]

set_option linter.unusedSectionVars false in
/-- What `__setstate__` leaves behind (a pickle round trip of the trait value;
also the own attributes of a `copy.copy`, whose `item_validator` however stays
the bound method of the original): no trait, so nothing is validated — by design
of `__getstate__`, which drops `trait` and `object` (DESIGN §5 C04/C14). -/
theorem C07_restored_trait_value_does_not_validate (inner : Bool → Callback α α) :
    TraitSetObject.validator TSOSelf.afterSetstate inner = fun _ x => .ok x := by
  funext n x; simp [TraitSetObject.validator, TSOSelf.afterSetstate]

/-- **Negation witness for the seeded change C07-m7.**  A `_validator` that
skips validation whenever the owner is absent (`trait is None or object is None`
after dereferencing, the shape of `TraitDictObject._key_validator`) lets a deep
copy of a `Set(Int)`-like value accept what the inner trait rejects. -/
theorem C07_trait_value_needs_validation_without_owner :
    TraitSetObject.validator TSOSelf.live.afterDeepcopy (fun _ _ x => match x with | .int _ => .ok x | .str _ => .error .traitError)
        0 (KAtom.str 7) = .error .traitError ∧
    (fun (σ : TSOSelf) (inner : Bool → Callback KAtom KAtom) (n : Nat) (x : KAtom) =>
        match σ.object, σ.trait with
        | some true, some false => inner true n x
        | _, _ => (.ok x : Except Exc KAtom))
      TSOSelf.live.afterDeepcopy (fun _ _ x => match x with | .int _ => .ok x | .str _ => .error .traitError) 0 (KAtom.str 7)
        = .ok (KAtom.str 7) := by
  constructor <;> rfl

/-! ### Tie to the source: the notifier of a `Set` trait's value -/

open TraitsVerif.Model.PyLO TraitsVerif.Model.Obj in
/-- **C07_notifier_gate_is_source.**  The modelled delivery gate of
`TraitSetObject.notifier` (`Model/ContainerObject.lean`) is the interpretation
of its source as translated by `translate/pylobj.py`, for every state of `self`;
and so is the item validator in the richer state space of that model (which
agrees with `TraitSetObject.validator` above). -/
theorem C07_notifier_gate_is_source {β : Type} (σ : OSelf) (inner : Bool → Callback β β) :
    runNotifier Generated.Obj.traitSetObjectNotifier σ = setNotifier σ ∧
    runValidator Generated.Obj.traitSetObjectItemValidator .item σ inner = setItemValidator σ inner ∧
    setItemValidator σ inner
      = TraitSetObject.validator ⟨σ.object, (traitOrNone σ).map (·.itemNone)⟩ inner := by
  refine ⟨Lemmas.PyLObj.set_notifier_is_source σ, ?_, ?_⟩
  · funext n x; exact Lemmas.PyLObj.set_item_validator_is_source σ inner n x
  · funext n x
    obtain ⟨tr, ob, ni, cu⟩ := σ
    rcases tr with _ | _ | t <;> rcases ob with _ | _ <;> simp [setItemValidator, TraitSetObject.validator, traitOrNone]

open TraitsVerif.Model.PyLO TraitsVerif.Model.Obj in
/-- **C07_items_event_gate.**  The `<name>_items` event of a `Set` trait is
delivered — once, as `TraitSetEvent(removed=removed, added=added)` built from the
notifier's own arguments in that order — exactly when the trait has an items
event, the owner is alive and the set is still the owner's current value. -/
theorem C07_items_event_gate (σ : OSelf) (ds : List Delivery) :
    setNotifier σ = .ok ds →
      (ds = [⟨"TraitSetEvent", [("removed", 1), ("added", 2)]⟩] ∧
        σ.nameItems = true ∧ σ.object = some true ∧ σ.current = true ∧ ∃ t, σ.trait = some (some t)) ∨
      (ds = [] ∧ (σ.nameItems = false ∨ σ.object = some false ∨ σ.current = false)) := by
  obtain ⟨tr, ob, ni, cu⟩ := σ
  rcases tr with _ | _ | t <;> rcases ob with _ | _ | _ <;> cases ni <;> cases cu <;>
    simp [setNotifier, deliver, setDelivery] <;> intro h <;> simp [← h]

open TraitsVerif.Model.PyLO TraitsVerif.Model.Obj in
/-- Non-vacuity: live value with / without items event, replaced value, collected owner. -/
example :
    runNotifier Generated.Obj.traitSetObjectNotifier (OSelf.live {} true) = .ok [setDelivery] ∧
    runNotifier Generated.Obj.traitSetObjectNotifier (OSelf.live {} false) = .ok [] ∧
    runNotifier Generated.Obj.traitSetObjectNotifier (OSelf.live {} true).detached = .ok [] ∧
    runNotifier Generated.Obj.traitSetObjectNotifier (OSelf.live {} true).orphaned = .ok [] := by
  refine ⟨?_, ?_, ?_, ?_⟩ <;> first | rfl | decide

/-- **C07_copy_is_source.**  The copy / pickle methods of `TraitSet` and
`TraitSetObject` are, statement for statement, the ones `TraitSet.copyOp` /
`TraitSetObject.copyOp` (and so `C07_copy`, `C07_trait_value_still_validates`)
transcribe: `__deepcopy__` calls the constructor — which validates — with a deep
copy of `self.item_validator` / with `self.trait` and no owner;
`__getstate__` drops `notifiers` (and `object`, `trait`), keeps
`item_validator`; `__setstate__` restores `notifiers`; `__reduce_ex__`
rebuilds from `list(self)`. -/
theorem C07_copy_is_source :
    Generated.CtorCopy.traitSetCtorCopy = Model.CtorCopyAssumed.traitSetCtorCopy ∧
    Generated.CtorCopy.traitSetObjectCtorCopy = Model.CtorCopyAssumed.traitSetObjectCtorCopy := by
  first | rfl | exact ⟨rfl, rfl⟩

/-- **C07_init_is_source.**  `TraitSet.__init__` and `TraitSetObject.__init__`
as interpreted programs (`translate/ctorprog.py`, `Model/PyLCtor.lean`; the
latter run with `super().__init__` bound to the translated former): for every
iterable, validator and notifier argument / trait, owner and value they are the
modelled constructors, whose members are `TraitSet.init` of the chosen
validator — every initial member goes through it in order with the call ordinal
threaded, nothing is stored if one fails — i.e. what whole-value assignment of a
`Set` trait establishes (`C07_init`, `members_valid_init`); the validator is the
caller's iff one was given / the object's own `_validator`; the notifier list
is the one given (the caller's list object: `TraitSet` does not copy it) /
`[self.notifier]`; owner by weak reference iff not `None`, `name_items` iff the
trait has an items event. -/
theorem C07_init_is_source (C : Model.PyLC.Ctx α) (xs : List α) (iv : Option Model.PyLC.VSrc)
    (ns : Option Model.PyLC.NSrc) (t : Option Bool) (owner : Bool) :
    Model.PyLC.runListInit Generated.Ctor.traitSetInit C xs iv ns = Model.PyLC.setInit C xs iv ns ∧
    Model.PyLC.runListObjectInit Generated.Ctor.traitSetObjectInit Generated.Ctor.traitSetInit C t owner xs
      = Model.PyLC.setObjectInit C t owner xs ∧
    (Model.PyLC.setInit C xs (some .arg) ns).map (fun o => ofList o.items) = TraitSet.init C.given xs ∧
    (Model.PyLC.setObjectInit C t owner xs).map (fun o => ofList o.items) = TraitSet.init C.own xs ∧
    (∀ o, Model.PyLC.setObjectInit C t owner xs = .ok o →
      o.itemValidator = .own ∧ o.notifiers = .ownAlias ∧ o.object = some owner ∧ o.trait = some t ∧
      o.nameItems = some (t == some true)) := by
  refine ⟨Lemmas.PyLCtor.set_init_is_source C xs iv ns, Lemmas.PyLCtor.set_object_init_is_source C t owner xs, ?_, ?_, ?_⟩
  · simp only [Model.PyLC.setInit, TraitSet.init, Option.getD, Model.PyLC.Ctx.vOf]
    cases valAll C.given 0 xs <;> rfl
  · simp only [Model.PyLC.setObjectInit, TraitSet.init]
    cases valAll C.own 0 xs <;> rfl
  · intro o ho
    simp only [Model.PyLC.setObjectInit] at ho
    cases hv : valAll C.own 0 xs with
    | error e => simp [hv] at ho
    | ok ys => simp only [hv, Except.ok.injEq] at ho; subst ho; simp

/-! ### Tie to the source: the mutators that exist are the mutators modelled -/

/-- Every method of the running interpreter's builtin `set` is either a
non-mutator or a mutator that `TraitSet` overrides and `TraitSet.step` models
(tables regenerated from the working tree by `translate/mutators.py`). -/
theorem C07_mutators_covered :
    ∀ m ∈ Generated.setBuiltinMethods,
      m ∈ setNonMutators ∨ (m ∈ setModelledMutators ∧ m ∈ Generated.traitSetMethods) := by decide

end TraitsVerif.Props.C07
