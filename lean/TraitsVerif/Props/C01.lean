/-
C01 — assigned values always lie in the trait's declared domain.

Only the property theorems (and non-vacuity examples) live here; lemmas are in
Lemmas/ValSound.lean (soundness), ValSource.lean (exception provenance),
ValAssign.lean (assignment histories).

Model: `validate` = the CTrait's validator (Model/PyValidate.lean: compiled
validator where the handler has a descriptor, Python method otherwise),
`inDomain` / `Conv` / `mappedValue` = the documentation (Model/Domain.lean),
`Assign.step` / `Assign.run` = setattr_trait reduced to validate → store →
post_setattr (Model/Assign.lean).  Hypotheses on the environment (`EnvOK`) are
facts about CPython / the adaptation registry / user functions.
-/
import TraitsVerif.Lemmas.ValSource2
import TraitsVerif.Lemmas.ValAssign
import TraitsVerif.Lemmas.ValCSrc6
import TraitsVerif.Generated.ValidateTables
namespace TraitsVerif.Props.C01
open TraitsVerif TraitsVerif.Py.Value TraitsVerif.Model.Val TraitsVerif.Model.Val.Assign

/-! ## Accepted ⇒ in the declared domain, and the documented conversion -/

/-- The property at full strength: whatever the trait's validator accepts lies
in the declared domain and is the documented conversion of the assigned value.
FALSE of the pinned tree for TraitCoerceType(float / complex) (finding F42), and
for a Base* class of a trait whose Python validate is not clean. -/
def C01_sound_full : Prop :=
  ∀ (E : Env), EnvOK E → ∀ (tt : TraitType) (v w : Val),
    validate E tt v = .ok w → inDomain E tt w = true ∧ Conv E tt v w

/-- Proved for every trait type of the model — Int … CBool, float and int Range
with every bound / exclusivity combination (NaN included: it is in no bounded
range), Enum, Map, Tuple, BaseTuple, ValidatedTuple (with and without fvalidate), Instance (all adapt modes), Type, This,
Callable, Module, String (all four validator variants), PrefixList, PrefixMap,
the legacy Trait*() handlers, Base* classes, and Either / Union / TraitCompound
/ Tuple nestings of any depth — provided no TraitCoerceType(float | complex)
occurs in it (`soundClean`). -/
theorem C01_sound_partial (E : Env) (hE : EnvOK E) (tt : TraitType) (hc : tt.soundClean = true)
    (v w : Val) (h : validate E tt v = .ok w) : inDomain E tt w = true ∧ Conv E tt v w :=
  (soundP_all E hE tt).2.1 hc v w h

/-- The Python validate methods are sound as well (they are what a Base* class
validates with), where they are `pyClean`. -/
theorem C01_sound_python (E : Env) (hE : EnvOK E) (tt : TraitType) (hc : tt.soundClean = true)
    (hp : tt.pyClean = true) (v w : Val) (h : pyValidate E tt v = .ok w) :
    inDomain E tt w = true ∧ Conv E tt v w :=
  (soundP_all E hE tt).2.2 hc hp v w h

/-- An environment for the examples: type constructors return their argument
when it already is an exact instance and raise OverflowError otherwise. -/
def E0 : Env :=
  { cast := fun t v => if Val.exactTy t v then .ok v else .error .overflowError
    fn := fun _ v => .ok v
    adapt := fun _ _ => .ok none
    selfCls := 0
    rx := fun _ _ => false }

theorem E0_ok : EnvOK E0 where
  castIdem := by intro t v h; simp [E0, h]
  castTyped := by
    intro t v w h
    simp only [E0] at h
    split at h
    · cases h; assumption
    · cases h
  adaptProvides := by intro v c r h; simp [E0] at h
  adaptNotNone := by intro v c r h; simp [E0] at h
  fnRange := by intro f v w _; rfl
  asarrayTyped := by intro v t d s h; simp [E0] at h

example : (TraitType.either [.rangeF (some (.fin 0)) (some (.fin 8)) true false,
    .tuple [.int, .union [.str, .noneTrait]]] true).soundClean = true := by decide
example : validate E0 (.rangeF (some (.fin 0)) (some (.fin 8)) true false) (Val.ofInt 2)
    = .ok (Val.ofFloat (.fin 8)) := by decide
/-- NaN is rejected by every bounded float Range (the F2 repair, e60e19b). -/
example : validate E0 (.rangeF (some (.fin 0)) none false false) (Val.ofFloat .nan) = .traitError := by decide

/-- Either(1, 2, Str) / Trait(7, 1, 2, Str): the definition's own default (None / 7) is not
one of the listed constants and no member accepts it — rejected; with constants alone
(Trait(7, 1, 2)) the default is a legal value. -/
example : validate E0 (traitMaker Val.none [Val.ofInt 1, Val.ofInt 2] [.str]) Val.none = .traitError ∧
    validate E0 (traitMaker (Val.ofInt 7) [Val.ofInt 1, Val.ofInt 2] [.str]) (Val.ofInt 7) = .traitError ∧
    validate E0 (traitMaker (Val.ofInt 7) [Val.ofInt 1, Val.ofInt 2] []) (Val.ofInt 7) = .ok (Val.ofInt 7) := by decide

/-- F42: Trait(float) stores the int 3. -/
theorem C01_sound_fails_at_coerce :
    validate E0 (.coerceH .float) (Val.ofInt 3) = .ok (Val.ofInt 3) ∧
    inDomain E0 (.coerceH .float) (Val.ofInt 3) = false := by decide

theorem C01_sound_full_is_false : ¬ C01_sound_full := by
  intro h
  have := (h E0 E0_ok (.coerceH .float) (Val.ofInt 3) (Val.ofInt 3) C01_sound_fails_at_coerce.1).1
  rw [C01_sound_fails_at_coerce.2] at this
  cases this

/-! ## Rejection and other exceptions: no effect -/

/-- A TraitError leaves the attribute and every other attribute exactly as they
were (validation precedes every write in `setattr_trait`). -/
theorem C01_reject (E : Env) (cls : ClassDef) (st : State) (name : String) (v : Val)
    (h : (step E cls st name v).2 = some .traitError) : (step E cls st name v).1 = st := by
  simp only [step] at h ⊢
  cases ht : traitOf cls name with
  | none => simp [ht] at h
  | some tt =>
    simp only [ht] at h ⊢
    cases hv : validate E tt v with
    | traitError => rfl
    | raised e => rfl
    | ok w =>
      simp only [hv] at h
      split at h
      · split at h
        · cases h
        · split at h <;> cases h
      · cases h

/-- … and a validator that says TraitError makes the assignment raise TraitError. -/
theorem C01_reject_iff (E : Env) (cls : ClassDef) (st : State) (name : String) (v : Val)
    (tt : TraitType) (ht : traitOf cls name = some tt) (hv : validate E tt v = .traitError) :
    step E cls st name v = (st, some .traitError) := by
  simp [step, ht, hv]

/-- Any other exception `e` that surfaces leaves the object untouched and was
raised by the value's own `__index__` / `__float__` / `__complex__` (or the
int → float overflow inside them), by a type constructor called on the value
(`int(float('inf'))`: the overflowing numeric conversion), or by one of the two
documented user callbacks (an adapter factory, `fvalidate` of ValidatedTuple).
Nothing else: no `==` of the value (F45 repaired: BaseEnum guards the
containment check), no "NoneType is not callable" (F48 repaired: an `Any` member
of a compound accepts), no user validator function (the C switch turns its
exceptions into TraitError).  `realBase`: Base* classes wrap plain trait types. -/
theorem C01_passthrough (E : Env) (hE : EnvOK E) (cls : ClassDef) (hwf : ClassWF cls)
    (st : State) (name : String) (v : Val) (tt : TraitType) (e : Exc)
    (ht : traitOf cls name = some tt) (hb : tt.realBase = true)
    (h : (step E cls st name v).2 = some e) (hne : e ≠ .traitError) :
    (step E cls st name v).1 = st ∧ Src2 E e := by
  obtain ⟨hv, hst⟩ := step_error E cls st name v tt e ht (hwf name tt ht) h
  refine ⟨hst, ?_⟩
  rcases hv with ⟨_, he⟩ | hv
  · exact absurd he hne
  · exact (srcP2_all E hE.castIdem tt hb).2 v e hv

/-- The statement's wording exactly: with user callbacks that do not raise, the
only sources left are the value's conversion protocol and type constructors. -/
theorem C01_passthrough_quiet_callbacks (E : Env) (hE : EnvOK E) (cls : ClassDef) (hwf : ClassWF cls)
    (st : State) (name : String) (v : Val) (tt : TraitType) (e : Exc)
    (ht : traitOf cls name = some tt) (hb : tt.realBase = true)
    (hadapt : ∀ x c e', E.adapt x c ≠ .error e') (hpred : ∀ f x e', E.pred f x ≠ .error e')
    (h : (step E cls st name v).2 = some e) (hne : e ≠ .traitError) :
    (step E cls st name v).1 = st ∧
    ((∃ x, index x = .error e) ∨ (∃ x, asDouble x = .error e) ∨ (∃ x, asComplex x = .error e) ∨
     (∃ t x, E.cast t x = .error e)) := by
  obtain ⟨h1, h2⟩ := C01_passthrough E hE cls hwf st name v tt e ht hb h hne
  refine ⟨h1, ?_⟩
  rcases h2 with h | h | h | h | ⟨x, c, h⟩ | ⟨f, x, h⟩
  · exact Or.inl h
  · exact Or.inr (Or.inl h)
  · exact Or.inr (Or.inr (Or.inl h))
  · exact Or.inr (Or.inr (Or.inr h))
  · exact absurd h (hadapt x c e)
  · exact absurd h (hpred f x e)

/-- Without `realBase` (arbitrary terms of the model, Python paths of legacy
handlers included) the weaker provenance `Src` still holds. -/
theorem C01_passthrough_partial (E : Env) (hE : EnvOK E) (cls : ClassDef) (hwf : ClassWF cls)
    (st : State) (name : String) (v : Val) (tt : TraitType) (e : Exc)
    (ht : traitOf cls name = some tt) (h : (step E cls st name v).2 = some e) (hne : e ≠ .traitError) :
    (step E cls st name v).1 = st ∧ Src E e := by
  obtain ⟨hv, hst⟩ := step_error E cls st name v tt e ht (hwf name tt ht) h
  refine ⟨hst, ?_⟩
  rcases hv with ⟨_, he⟩ | hv
  · exact absurd he hne
  · exact (srcP_all E hE.castIdem tt).2.1 v e hv

example : (TraitType.either [.noFast (.enum [Val.ofInt 1]), .any, .tuple [.int, .validatedTuple [.float] none]]
    false).realBase = true := by decide
/-- BaseEnum on a value whose `==` raises: TraitError (was ValueError before the F45 repair). -/
example : validate E0 (.noFast (.enum [Val.ofInt 1])) (.atom (.badEq 0)) = .traitError := by decide
/-- Either(Int, Any) on a string: the Any member accepts (was TypeError before the F48 repair). -/
example : validate E0 (.either [.int, .any] false) (Val.ofStr "a") = .ok (Val.ofStr "a") := by decide

/-! ## Histories: every readable value is in its domain -/

/-- Over every history of assignments (attribute assignment, constructor
keyword, trait_set all run `Assign.step`) on an object with any number of
attributes, starting from the empty instance dict: whatever is stored under a
declared name lies in that trait's declared domain. -/
theorem C01_readable (E : Env) (hE : EnvOK E) (cls : ClassDef) (hc : ClassClean cls)
    (hs : NoShadowClash cls) (ops : List (String × Val)) :
    Readable E cls (run E cls [] ops) :=
  readable_run E hE cls hc hs ops [] (by intro n tt w _ h; simp [lookup] at h)

example : ClassClean [("x", TraitType.int), ("y", .map [Val.ofStr "yes"] [Val.ofInt 1])] := by
  intro n tt h
  simp only [traitOf, List.find?] at h
  split at h <;> simp at h
  · subst h; rfl
  · split at h <;> simp at h
    subst h; rfl

/-- After every history of assignments to declared attributes, the shadow
attribute of every mapped trait that has a value holds `map[value]`. -/
theorem C01_mapped (E : Env) (cls : ClassDef) (hw : ClassWF cls) (hs : NoShadowClash cls)
    (ops : List (String × Val)) (hd : ∀ op ∈ ops, (traitOf cls op.1).isSome = true) :
    ShadowOK cls (run E cls [] ops) :=
  shadow_run E cls hw hs ops hd [] (by intro n tt w _ _ h; simp [lookup] at h)

example : run E0 [("y", TraitType.map [Val.ofStr "yes", Val.ofStr "no"] [Val.ofInt 1, Val.ofInt 0])] []
    [("y", Val.ofStr "no"), ("y", Val.ofInt 5)] = [("y", Val.ofStr "no"), ("y_", Val.ofInt 0)] := by decide

/-! ## The tie to the source tables -/

/-- The comparisons of `in_float_range` the model transcribes (NaN-rejecting form). -/
theorem C01_range_tests_modelled :
    Generated.floatRangeTests = ["!>low", "!>=low", "!<high", "!<=high"] := by decide


/-! ## Soundness of the compiled validators as read from the source text -/

open TraitsVerif.Model.CSrc in
/-- C01_sound_partial about the interpreted SOURCE (see C03_fast_is_source): whenever the
C function `validate_handlers[kind]`, run on its translated source text with the descriptor
the trait type builds, returns a value, that value lies in the declared domain and is the
documented conversion of the value assigned. -/
theorem C01_sound_source (E : Env) (hE : EnvOK E) (hA : AdaptSome E) (inner : Desc → Val → Res)
    (cdflt : Val) (fuel : Nat) (tt : TraitType) (hc : tt.soundClean = true) (d : Desc)
    (hd : descOf E tt = some d) (hok : descOk E inner cdflt fuel d) (v w : Val)
    (h : srcAlone E inner cdflt fuel d v = some (.ok w)) : inDomain E tt w = true ∧ Conv E tt v w := by
  rw [srcAlone_eq E inner cdflt fuel hA d v hok] at h
  have hf : fastAlone E d v = .ok w := by
    cases hr : fastAlone E d v with
    | ok x => rw [hr] at h; simpa [norm] using h
    | traitError => rw [hr] at h; simp [norm] at h
    | raised e => rw [hr] at h; cases e <;> simp [norm] at h
  exact C01_sound_partial E hE tt hc v w (by simpa [validate, ctraitValidate, ctraitValidateWith, hd] using hf)

end TraitsVerif.Props.C01
