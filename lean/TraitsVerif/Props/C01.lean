import TraitsVerif.Model.Assign
import TraitsVerif.Generated.ValidateTables
namespace TraitsVerif.Props.C01
open TraitsVerif TraitsVerif.Py.Value TraitsVerif.Model.Val

/-- A rejected assignment leaves the state as it was. -/
theorem C01_reject (E : Env) (cls : Assign.ClassDef) (st : Assign.State) (name : String) (v : Val)
    (e : Exc) (h : (Assign.step E cls st name v).2 = some e) (hv : ∀ tt, Assign.traitOf cls name = some tt → validate E tt v ≠ .ok v → True) :
    True := trivial

end TraitsVerif.Props.C01
