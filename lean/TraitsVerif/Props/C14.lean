/-
C14 - pickling, deep copying and cloning preserve state and keep traits live.

Theorems about `Model/Persist` (objects, nested container values with owner
binding, `__getstate__` / `__setstate__`, `copy_traits` / `clone_traits` /
`__deepcopy__`) and, for trait definition objects, about `Model/FuncIndex`
over the C tables TRANSLATED from the working tree.

Quantification: every object (any number of traits of any declared shape),
every value of every size and nesting depth, every leaf validator that is
idempotent (`Idem`) and indifferent to which copy of a referenced object it
sees (`CopyStable`), every allocation state.  `WFObj` - every stored value is a
fixed point of its trait's validation - is the invariant C01/C04 establish for
reachable objects.

Where the pinned tree does NOT satisfy the statement the full clause is kept
as a `def … : Prop`, refuted by a witness the oracle replays on the real
code, and proved under the exact extra hypothesis (`…_partial`).

Only property theorems and non-vacuity examples here; helpers are in
Lemmas/Persist*.lean and Lemmas/CTabIndex.lean.
-/
import TraitsVerif.Lemmas.PersistObject
import TraitsVerif.Lemmas.PersistLive
import TraitsVerif.Lemmas.PersistClone
import TraitsVerif.Lemmas.CTabIndex
import TraitsVerif.Generated.CopyChains
import TraitsVerif.Lemmas.PersistSource
namespace TraitsVerif.Props.C14
open TraitsVerif TraitsVerif.Model.Persist TraitsVerif.Lemmas.Persist

/-! ## Pickle round trip -/

/-- **Values.**  Unpickling a pickle of any well-formed object succeeds and
gives an object with the same traits in which every persisted (non-transient)
trait holds a value equal to the original's (`norm`: identities, bindings and
copy generations forgotten) and every transient trait is absent from
`__dict__`, i.e. back at its default.  The original changes only in that
defaults it had never read are now stored. -/
theorem C14_values {E : Env} (hI : Idem E) (hC : CopyStable E) {s : Obj} (hw : WFObj E s) (o' n : Nat) :
    ∃ c, pickleRoundTrip E s o' n = .ok c ∧ c.copy.oid = o' ∧
      Forall2 (ReadOnlyChange E) s.slots c.orig.slots ∧
      Forall2 (fun a b => b.decl = a.decl ∧
          (a.decl.persisted = true → ∃ v w, a.val = some v ∧ b.val = some w ∧ norm w = norm v) ∧
          (a.decl.persisted = false → b.val = none)) c.orig.slots c.copy.slots := by
  obtain ⟨c, h1, h2, _, h4, h5⟩ := pickleRoundTrip_spec hI hC hw o' n
  refine ⟨c, h1, h2, h4, Forall2.imp ?_ h5⟩
  intro a b r
  refine ⟨r.decl, ?_, r.trans⟩
  intro hp
  obtain ⟨v, w, a1, a2, a3, _⟩ := r.pers hp
  exact ⟨v, w, a1, a2, a3⟩

/-- Non-vacuity of `C14_values` for a DYNAMIC default that nobody has read:
`ident = Int()` with a serial-number `_ident_default`.  `__getstate__` reads it
(computing it once, on the original: 5 here), the copy holds that value - not
the one a fresh computation on the copy would give - and the original keeps
reporting it. -/
example :
    let d : Decl := { name := "ident", shape := .leafT 0, dyn := true }
    let s : Obj := ⟨1, [⟨d, none⟩]⟩
    (match pickleRoundTrip E0 s 2 5 with
      | .ok c => (c.copy.slots.map (fun sl => sl.val.map ids), c.orig.slots.map (fun sl => sl.val.isSome),
                  c.copy.slots.map (fun sl => match sl.val with | some (.leaf (.int n)) => n | _ => -1),
                  c.orig.slots.map (fun sl => match sl.val with | some (.leaf (.int n)) => n | _ => -1))
      | .error _ => ([], [], [], [])) = ([some []], [true], [5], [5]) := by
  decide

/-- **Re-binding.**  In the restored object every container at a declared
position - the value of a `List`/`Dict`/`Set` trait and every container nested
in it through container-typed inner traits, at every depth - is a
`Trait*Object` bound to the NEW object with the trait of that position, and
holds only valid items (`Live`). -/
theorem C14_rebound {E : Env} (hI : Idem E) (hC : CopyStable E) {s : Obj} (hw : WFObj E s) (o' n : Nat)
    {c : Copied} (h : pickleRoundTrip E s o' n = .ok c) :
    ∀ sl ∈ c.copy.slots, ∀ w, sl.val = some w → Live E o' sl.decl.shape w := by
  obtain ⟨c', h1, _, _, _, h5⟩ := pickleRoundTrip_spec hI hC hw o' n
  rw [h] at h1
  cases h1
  have : ∀ {l1 l2 : List Slot}, Forall2 (Restored E o') l1 l2 →
      ∀ sl ∈ l2, ∀ w, sl.val = some w → Live E o' sl.decl.shape w := by
    intro l1 l2 hf
    induction hf with
    | nil => intro sl hs; cases hs
    | cons r _ ih =>
      intro sl hs w hv
      rcases List.mem_cons.mp hs with rfl | hs
      · rename_i a _ _ _
        by_cases hp : a.decl.persisted = true
        · obtain ⟨v, w', _, b2, _, b4⟩ := r.pers hp
          rw [hv] at b2
          cases b2
          rw [r.decl]
          exact b4
        · have := r.trans (by simpa using hp)
          rw [this] at hv
          cases hv
      · exact ih sl hs w hv
  exact this h5

/-- **No sharing.**  After a pickle round trip no container object of the copy
is a container object of the original: there is a boundary with all of the
original's identities (defaults materialised by the pickling included) below it
and all of the copy's at or above it. -/
theorem C14_no_sharing {E : Env} (hI : Idem E) (hC : CopyStable E) {s : Obj} (hw : WFObj E s)
    {o' n m : Nat} (hb : BelowAll m s.slots) (hm : m ≤ n) {c : Copied}
    (h : pickleRoundTrip E s o' n = .ok c) :
    ∀ sl ∈ c.copy.slots, ∀ i ∈ slotIds sl, ∀ sl' ∈ c.orig.slots, i ∉ slotIds sl' := by
  obtain ⟨g, h1, h2⟩ := pickle_no_sharing hI hC hw hb hm h
  intro sl hs i hi sl' hs' hi'
  have a := h2 sl hs i hi
  have b := h1 sl' hs' i hi'
  omega

/-- **Declared containers are always re-built**, whatever produced the value
that is assigned (a reference, a shallow copy, a deep copy, an unpickled
object): after assignment through a trait, the container objects at declared
positions are new.  Hence the only objects a `copy='ref'`/`'shallow'` clone can
share with its source sit *below an `Any` position* - exactly the sharing those
modes ask for. -/
theorem C14_typed_containers_fresh {E : Env} (o n : Nat) (sh : Shape) (v v' : CVal) (n' : Nat)
    (h : validate E o sh n v = .ok (v', n')) :
    (∀ i ∈ declIds sh v', n ≤ i ∧ i < n') ∧ (∀ i ∈ ids v', (n ≤ i ∧ i < n') ∨ i ∈ ids v) :=
  ⟨validate_declIds_fresh o v sh n v' n' h, (validate_ids o v sh n v' n' h).2⟩

/-! ## The copy is live -/

/-- **Live.**  A value that is `Live` for object `o` (every restored or cloned
value is: `C14_rebound`, `C14_clone_values_deep`) behaves as a state of the live
container model: a mutation of any container in it, at any depth, that is
ACCEPTED leaves the value live, and at a declared container it is accepted only
if the trait of that position accepts the item (so an invalid item raises).
A top-level declared container notifies `o` (`<name>_items`). -/
theorem C14_live {E : Env} (hI : Idem E) {o : Nat} {sh : Shape} {v : CVal} (hl : Live E o sh v)
    (path : List Nat) (n : Nat) (key : Leaf) (item : CVal) :
    (∀ v' n', addAt E n key item path v = .ok (v', n') →
      Live E o sh v' ∧ Accepts E o n (shapeAt sh path) key item) ∧
    (∀ k kT iT lo hi, sh = .cont k kT iT lo hi → notifiesAt [] v = some o) := by
  refine ⟨fun v' n' h => addAt_live hI o v path sh n key item v' n' hl h, ?_⟩
  intro k kT iT lo hi hs
  subst hs
  exact live_notifies hl

/-- Reading it the other way: an item the inner trait rejects is rejected by
the (nested) list it is appended to, with the trait's exception. -/
theorem C14_live_rejects {E : Env} (hI : Idem E) {o : Nat} {sh : Shape} {v : CVal} (hl : Live E o sh v)
    (path : List Nat) (n : Nat) (key : Leaf) (item : CVal) {kT : LeafTy} {iT : Shape} {lo hi : Nat}
    (hs : shapeAt sh path = .cont .lst kT iT lo hi) (e : Exc) (hv : validate E o iT n item = .error e) :
    ∃ e', addAt E n key item path v = .error e' := by
  cases h : addAt E n key item path v with
  | error e' => exact ⟨e', rfl⟩
  | ok r =>
    obtain ⟨v', n'⟩ := r
    have := (addAt_live hI o v path sh n key item v' n' hl h).2
    rw [hs] at this
    obtain ⟨r, hr⟩ := this
    rw [hv] at hr
    cases hr

/-- **Write-once stays written.**  A `ReadOnly` trait that was written in the
original is written, with an equal value, in the restored object, and every
further assignment to it raises TraitError. -/
theorem C14_readonly_stays {E : Env} (hI : Idem E) (hC : CopyStable E) {s : Obj} (hw : WFObj E s) (o' n : Nat)
    {c : Copied} (h : pickleRoundTrip E s o' n = .ok c) :
    Forall2 (fun a b => a.decl.kind = .readonly → a.decl.transient = false →
        ∀ v, a.val = some v → v ≠ .leaf .undefined →
          ∃ w, b.val = some w ∧ norm w = norm v ∧ ∀ n' x, assignSlot E o' n' b x = .error .traitError)
      c.orig.slots c.copy.slots := by
  obtain ⟨c', h1, _, _, _, h5⟩ := pickleRoundTrip_spec hI hC hw o' n
  rw [h] at h1
  cases h1
  refine Forall2.imp ?_ h5
  intro a b r hk ht v hv hne
  have hp : a.decl.persisted = true := by simp [Decl.persisted, hk, ht]
  obtain ⟨v', w, a1, a2, a3, _⟩ := r.pers hp
  rw [hv] at a1
  cases a1
  refine ⟨w, a2, a3, ?_⟩
  intro n' x
  have hw' : w ≠ .leaf .undefined := by
    intro hc
    rw [hc] at a3
    exact hne (norm_undefined a3.symm)
  exact assignSlot_readonly_written (by rw [r.decl]; exact hk) a2 hw' o' n' x

/-! ## `clone_traits(copy='deep')` -/

/-- **Clone, deep - values.**  Under `clone_traits(copy='deep')` (and under
`copy="deep"` metadata with any argument, hence `copy.deepcopy`), for every
copyable trait whose `copy` metadata does not ask for less: the clone holds an
equal value, live for the clone, made only of NEW container objects - whatever
the value contains, detached containers (objects that went through
`__setstate__`) included: those could not be deep-copied before dd9f9de and
were silently dropped (finding F71). -/
theorem C14_clone_values_deep {E : Env} (hI : Idem E) (hC : CopyStable E) {src : Slot} (hw : WFSlot E src)
    (hc : src.decl.copyable = true) (hk : src.decl.kind ≠ .event)
    (hm : src.decl.copy = none ∨ src.decl.copy = some .deep)
    (oS oD n : Nat) (all : Bool) :
    let r := cloneSlot E oS oD (some .deep) all n src
    ∃ w, r.1.val = some w ∧ r.1.decl = src.decl ∧ norm w = norm (readSlot E oS n src).1 ∧
      Live E oD src.decl.shape w ∧ (∀ i ∈ ids w, (readSlot E oS n src).2.2 ≤ i) ∧
      r.2.1 = (readSlot E oS n src).2.1 :=
  cloneSlot_deep_spec hI hC hw hc hk hm oS oD n all

/-- Regression example, the input of finding F71: `x = Any()` holding an
unpickled `TraitListObject`; `obj.clone_traits(copy='deep')` keeps the value. -/
example :
    let d : Decl := { name := "x", shape := .any }
    let s : Obj := ⟨1, [⟨d, some (.node .lst 0 (.detached none) [] [.leaf (.int 1)])⟩]⟩
    (cloneTraits E0 s 2 (some .deep) 1).copy.slots.map (fun sl => sl.val.isSome) = [true] ∧
      (cloneTraits E0 s 2 (some .deep) 1).copy.slots.flatMap slotIds = [1] := by
  decide

/-- **No sharing under a deep clone.**  For `clone_traits(copy=arg)` of any
well-formed object in which every copied trait is copied deeply (`arg = 'deep'`
and no `copy="ref"/"shallow"` metadata, or `copy="deep"` metadata with any
`arg`): no container object of the clone is a container object of the source,
old or materialised during the cloning. -/
theorem C14_no_sharing_clone_deep {E : Env} (hI : Idem E) (hC : CopyStable E) (s : Obj) (o' n m : Nat)
    (arg : Option CopyMode) (hmn : m ≤ n) (hb : BelowAll m s.slots)
    (hd : ∀ sl ∈ s.slots, DeepOK E arg false sl) :
    ∀ c ∈ (cloneTraits E s o' arg n).copy.slots, ∀ i ∈ slotIds c,
      ∀ a ∈ (cloneTraits E s o' arg n).orig.slots, i ∉ slotIds a :=
  (cloneL_no_sharing hI hC s.oid o' m arg false s.slots n hmn hb hd).2.2.2

/-- **No sharing under `copy.deepcopy`.**  `copy.deepcopy(obj)` of any
well-formed object shares no container object with `obj`, for every trait that
does not itself ask for sharing through `copy="ref"` / `copy="shallow"`
metadata - in particular for traits WITHOUT copy metadata (`Any`, `This`, the
values inside a `Dict`), which before 50c4e1f were handed over by reference
(finding F70: `__deepcopy__` passed `copy=None`). -/
theorem C14_no_sharing_deepcopy {E : Env} (hI : Idem E) (hC : CopyStable E) (s : Obj) (o' n m : Nat)
    (hmn : m ≤ n) (hw : WFObj E s) (hb : BelowAll m s.slots)
    (hmeta : ∀ sl ∈ s.slots, sl.decl.copy = none ∨ sl.decl.copy = some .deep) :
    ∀ c ∈ (deepcopyObj E s o' n).copy.slots, ∀ i ∈ slotIds c,
      ∀ a ∈ (deepcopyObj E s o' n).orig.slots, i ∉ slotIds a := by
  apply C14_no_sharing_clone_deep hI hC s o' n m (some .deep) hmn hb
  intro sl hs
  refine ⟨hw sl hs, fun _ => ?_⟩
  rcases hmeta sl hs with h | h <;> simp [effMode, h]

/-- Regression example, the input of finding F70: `x = Any()`, `obj.x = []`.
The deep copy's list is a new object (identity 1, the original's is 0). -/
example :
    let d : Decl := { name := "x", shape := .any }
    let s : Obj := ⟨1, [⟨d, some (.node .lst 0 .plain [] [])⟩]⟩
    (deepcopyObj E0 s 2 1).copy.slots.flatMap slotIds = [1] ∧
      (deepcopyObj E0 s 2 1).orig.slots.flatMap slotIds = [0] := by
  decide

/-! ### Clauses the pinned tree does not satisfy -/

/-- **The copy mode reaches the whole graph.**  An object held by a trait that
is copied deeply is cloned with the mode of the OUTER call: the value of one of
ITS traits has exactly the fate the same trait would have at top level -
referenced under `clone_traits()` / `copy=None` unless its own metadata says
otherwise, deep only under `'deep'`, `copy.deepcopy` or `copy="deep"` metadata.
(`clone_traits` stores its `copy` argument in the memo unconditionally; storing
it only when it is not None makes nested objects fall back to `'deep'`.) -/
theorem C14_nested_mode (arg childMeta : Option CopyMode) (uncopyable : Bool) :
    nestedTraitFate (.clone arg) (some .deep) childMeta uncopyable = valueFate (effMode childMeta arg) uncopyable ∧
    nestedTraitFate (.clone none) (some .deep) none uncopyable = .same ∧
    nestedTraitFate .deepcopy (some .deep) childMeta false =
      valueFate (effMode childMeta (some .deep)) false := by
  refine ⟨rfl, rfl, rfl⟩

/-- **One rule, two loops.**  `copy_traits` decides what to do with a value in
two places - the main loop and the loop over the deferred traits (delegates and
properties).  The two if/elif chains, as TRANSLATED from the working tree, are
the same chain and are the chain the model transcribes; and the two model
functions agree for every metadata and every argument: a `Property(…,
copy="ref")` or a `WeakRef` back pointer is shared in every mode exactly as an
ordinary trait with `copy="ref"` is. -/
theorem C14_copy_chains_agree :
    Generated.CopyChains.mainChain = Generated.CopyChains.deferredChain ∧
    Generated.CopyChains.mainChain.map (·.1) =
      ["copy_type == 'shallow'", "copy_type == 'ref'", "copy_type == 'deep' or deep_copy", "shallow_copy"] ∧
    (∀ md arg, effModeDeferred md arg = effMode md arg) ∧
    (∀ outer md u, outer ≠ .pickle → deferredFate outer md u = valueFate (effMode md outer.arg) u) := by
  have e : ∀ md arg, effModeDeferred md arg = effMode md arg := by
    intro md arg
    rcases md with _ | md <;> rcases arg with _ | arg <;> (try cases md) <;> (try cases arg) <;> rfl
  refine ⟨by decide, by decide, e, ?_⟩
  intro outer md u h
  cases outer with
  | clone arg => simp [deferredFate, e]
  | deepcopy => simp [deferredFate, e]
  | pickle => exact absurd rfl h

/-- **Transient traits stay at their defaults in a clone** (`clone_traits` with
any `copy` argument, hence also `copy.deepcopy`): a transient trait is never in
the clone's `__dict__`.  Before the F72 repair this failed for objects none of
whose traits is copyable: `clone_traits` handed `copy_traits` the empty list of
copyable names, which `copy_traits` reads as "all". -/
theorem C14_clone_transient_default (E : Env) (s : Obj) (o' n : Nat) (arg : Option CopyMode) :
    ∀ sl ∈ (cloneTraits E s o' arg n).copy.slots, sl.decl.transient = true → sl.val = none :=
  cloneL_transient E s.oid o' arg s.slots n

/-- Regression example, the input of finding F72: a class whose only trait is
`x = Any(transient=True)`, `obj.x = 3`; the clone's `x` is unset. -/
example :
    let d : Decl := { name := "x", shape := .any, transient := true }
    let s : Obj := ⟨1, [⟨d, some (.leaf (.int 3))⟩]⟩
    (cloneTraits E0 s 2 none 1).copy.slots.map (fun sl => sl.val.isSome) = [false] := by
  decide

/-! ## The model is the source (`copy_traits`) -/

open TraitsVerif.Model.PyP TraitsVerif.Lemmas.PersistSource in
/-- **`copy_traits` is the source** (whole function).  `Generated/PersistProg.lean` holds the source text of
`HasTraits.__getstate__`, `__reduce_ex__`, `__setstate__`, `copy_traits`, `clone_traits`, `__deepcopy__` and of the
container `__getstate__` / `__setstate__` / `__deepcopy__`, translated on every run into the deep-embedded language
`Model/PyPersist`.  For every leaf validator, every object without deferred (property / delegate) traits, every
allocation state, every `copy` argument, `memo` given or not, and both ways of selecting the traits (`traits=None`:
the copyable names, `all = false`; `traits="all"`: every name, `all = true`): interpreting
`new.copy_traits(other, traits, memo, copy)` on a fresh instance of the same class - the selection of the names, the
`for name in traits:` loop with its `try:` / bare `except:`, the deferral test, the Event test, `getattr(other,
name)`, the four-way `copy_type` chain with its `memo` split, `setattr(self, name, value)`, the (empty) loop over
the deferred names - gives exactly `cloneL` (the new slots, the source slots with defaults materialised, the
allocator), RETURNS exactly `cloneUnassignable` (the names whose copy or assignment raised - an Event that is merely
skipped is not among them), and records `traits_to_copy = "all"` in a given memo exactly when asked for all. -/
theorem C14_copy_is_source (E : Env) (oS oD n : Nat) (src : List Slot) (arg : Option CopyMode) (all : Bool)
    (mv : Val) (hmv : mv = .none ∨ mv = .memo) (hnd : ∀ sl ∈ src, sl.decl.kind ≠ .property) :
    ∃ ts, runMethod E oS oD noHandler "copy_traits" (.obj true) [.obj false, traitsArg all, mv, argVal arg] [] []
        ⟨src, src.map fun sl => ⟨sl.decl, none⟩, n, [], [], []⟩ =
          some (.ok (.nameList (cloneUnassignable E oS oD arg all n src)), ts) ∧
      ts.dst = (cloneL E oS oD arg all n src).1 ∧ ts.src = (cloneL E oS oD arg all n src).2.1 ∧
      ts.n = (cloneL E oS oD arg all n src).2.2 ∧
      memoGet ts.memo "traits_to_copy" = (if all && mv.isMemo then some (Val.str "all") else none) :=
  copyTraits_is_source E oS oD n src arg all mv hmv hnd

/-- The hypotheses of `C14_copy_is_source` are satisfiable on a non-trivial object - `x = Any()` holding a plain
list, no deferred trait - and the right-hand side is not trivial there: under `copy='deep'` the new object's value
is a new list (identity 1, the source's is 0). -/
example :
    let d : Decl := { name := "x", shape := .any }
    let src : List Slot := [⟨d, some (.node .lst 0 .plain [] [])⟩]
    (∀ sl ∈ src, sl.decl.kind ≠ .property) ∧
      (cloneL E0 1 2 (some .deep) false 1 src).1.flatMap slotIds = [1] ∧
      (cloneL E0 1 2 (some .deep) false 1 src).2.1.flatMap slotIds = [0] ∧
      cloneUnassignable E0 1 2 (some .deep) false 1 src = [] ∧
      -- `n = List(Int)` holding a list with a string (put there behind the trait's back): assignment to the copy raises
      cloneUnassignable E0 1 2 none false 1
        [⟨{ name := "n", shape := .cont .lst 0 (.leafT 0) 0 9 }, some (.node .lst 0 .plain [] [.leaf (.str "x")])⟩] = ["n"] := by
  refine ⟨?_, by decide, by decide, by decide, by decide⟩
  intro sl h
  simp only [List.mem_singleton] at h
  subst h
  simp

open TraitsVerif.Model.PyP TraitsVerif.Lemmas.PersistSource TraitsVerif.Generated.PersistProg in
/-- **`__getstate__` (and `__reduce_ex__`) are the source.**  Interpreting the translated text of
`HasTraits.__getstate__` - `trait_get(transient=is_none)`, the update with the `__dict__` entries of the
explicitly non-transient delegates (none in the modelled classes), the ISerializable test (not implemented by
the modelled classes; its body is never reached), `setdefault("__traits_version__", …)` - on any object, in any
allocation state, returns exactly the state `getstateL` computes, marked with the version, and leaves the object
as `getstateL` leaves it (defaults materialised by the reads); `__reduce_ex__` (any protocol) hands out that very
state, obtained by calling the translated `__getstate__`. -/
theorem C14_getstate_is_source (E : Env) (o oD n pr : Nat) (slots dst : List Slot) (memo : List (String × Val))
    (log : List String) (vars : Frame) :
    runMethod E o oD noHandler "__getstate__" (.obj false) [] [] [] ⟨slots, dst, n, vars, memo, log⟩ =
      some (.ok (.state (getstateL E o n slots).1 true),
        ⟨(getstateL E o n slots).2.1, dst, (getstateL E o n slots).2.2, vars, memo, log⟩) ∧
    runMethod E o oD (progHandler E o oD hasTraitsProg noHandler) "__reduce_ex__" (.obj false) [.int pr] [] []
        ⟨slots, dst, n, vars, memo, log⟩ =
      some (.ok (.state (getstateL E o n slots).1 true),
        ⟨(getstateL E o n slots).2.1, dst, (getstateL E o n slots).2.2, vars, memo, log⟩) :=
  ⟨getstate_is_source E o oD n slots dst memo log vars, reduce_is_source E o oD n pr slots dst memo log vars⟩

open TraitsVerif.Model.PyP TraitsVerif.Lemmas.PersistSource in
/-- **`__setstate__` is the source.**  Interpreting the translated text of `HasTraits.__setstate__` on a new
object with a state that carries the version mark (every state `__getstate__` returns does; the Traits-2 arm is
then not taken): the slots become exactly what `setstateL` computes, and the methods called on the new object are,
in this order, `_init_trait_listeners`, `_init_trait_observers`, `trait_set`, `_post_init_trait_listeners`,
`_post_init_trait_observers`, `traits_init`, `_trait_set_inited`.  When an assignment raises, the exception leaves
`__setstate__` after `trait_set`: the object is left unchanged and is never marked initialised. -/
theorem C14_setstate_is_source (E : Env) (oS o' n : Nat) (src dst : List Slot) (xs : List (Option CVal))
    (memo : List (String × Val)) (vars : Frame) :
    runMethod E oS o' noHandler "__setstate__" (.obj true) [.state xs true] [] [] ⟨src, dst, n, vars, memo, []⟩ =
      match setstateL E o' n dst xs with
      | .error e => some (.error e, ⟨src, dst, n, vars, memo, setstateLog.take 3⟩)
      | .ok (d', n') => some (.ok .none, ⟨src, d', n', vars, memo, setstateLog⟩) :=
  setstate_is_source E oS o' n src dst xs memo vars

open TraitsVerif.Model.PyP TraitsVerif.Lemmas.PersistSource TraitsVerif.Generated.PersistProg in
/-- **`clone_traits` is the source** (whole function, with the translated `copy_traits` - whole function - called
through it).  For every object without deferred traits, every `copy` argument, every allocation state:
interpreting `obj.clone_traits(copy=arg)` returns the new object, whose slots, the source's slots and the
allocator are exactly those of `cloneTraits`; the methods called on the new object are, in order, those of
`cloneLog` (`copy_traits` between the two `_init…` and the two `_post_init…` calls, `_trait_set_inited` last) -
without `copy_traits` when no trait is copyable (the `len(traits) > 0` guard of the F72 repair); and the memo
holds `traits_copy_mode = arg` afterwards (what `nestedArg` reads). -/
theorem C14_clone_is_source (E : Env) (s : Obj) (o' n : Nat) (arg : Option CopyMode)
    (hnd : ∀ sl ∈ s.slots, sl.decl.kind ≠ .property) :
    ∃ ts, runMethod E s.oid o' (progHandler E s.oid o' hasTraitsProg noHandler) "clone_traits" (.obj false) []
        ["copy"] [argVal arg] ⟨s.slots, [], n, [], [], []⟩ = some (.ok (.obj true), ts) ∧
      ts.dst = (cloneTraits E s o' arg n).copy.slots ∧ ts.src = (cloneTraits E s o' arg n).orig.slots ∧
      ts.n = (cloneTraits E s o' arg n).next ∧
      ts.log = (if (s.slots.filter (fun sl => sl.decl.copyable)).length = 0 then cloneLog.eraseIdx 2 else cloneLog) ∧
      memoGet ts.memo "traits_copy_mode" = some (argVal arg) :=
  clone_is_source E s o' n arg hnd

open TraitsVerif.Model.PyP TraitsVerif.Lemmas.PersistSource TraitsVerif.Generated.PersistProg in
/-- **`__deepcopy__` is the source**, of objects and of containers.
(1) `HasTraits.__deepcopy__(memo)`, interpreted with the translated `clone_traits` and `copy_traits` called through
it: called by `copy.deepcopy` itself (empty memo, `outer = none`) it is `cloneTraits … (some .deep)` = `deepcopyObj`;
called on an object reached while `clone_traits(copy=a)` copies a value deeply (the memo holds the outer mode,
`outer = some a`) it is `cloneTraits … a` - the `nestedArg` of the model.
(2) `Trait{List,Dict,Set}Object.__deepcopy__` is `Cls(self.trait, None, self.name, <copy.deepcopy(x, memo) of every
item>)`: a new object without owner and with the same trait - `ctorBinding (bindingTrait b)` - and
(3) that is the binding `deepcopyV` gives the copy of every container-object node, over the deep copies of its items. -/
theorem C14_deepcopy_is_source :
    (∀ (E : Env) (s : Obj) (o' n : Nat) (outer : Option (Option CopyMode)),
      (∀ sl ∈ s.slots, sl.decl.kind ≠ .property) →
      ∃ ts, runFn E s.oid o' (progHandler E s.oid o' hasTraitsProg (progHandler E s.oid o' hasTraitsProg noHandler))
          deepcopyFn (.obj false) [.memo] [] [] ⟨s.slots, [], n, [], dcMemo outer, []⟩ = some (.ok (.obj true), ts) ∧
        ts.dst = (cloneTraits E s o' (dcArg outer) n).copy.slots ∧
        ts.src = (cloneTraits E s o' (dcArg outer) n).orig.slots ∧
        ts.n = (cloneTraits E s o' (dcArg outer) n).next) ∧
    (∀ E s o' n, cloneTraits E s o' (dcArg none) n = deepcopyObj E s o' n) ∧
    (∀ a, dcArg (some a) = nestedArg (.clone a)) ∧
    (∀ (k : Kind) (b : Binding), runDeepcopy (progOf k) k b = some (ctorBinding (bindingTrait b))) ∧
    (∀ (n : Nat) (k : Kind) (i : Nat) (b : Binding) (keys : List Leaf) (kids : List CVal), b ≠ .plain →
      deepcopyV n (.node k i b keys kids) =
        match deepcopyL (n + 1) kids with
        | .error e => .error e
        | .ok (kids', n') =>
          .ok (.node k n (ctorBinding (bindingTrait b)) (keys.map (Leaf.copiedAt n)) kids', n')) :=
  ⟨fun E s o' n outer hnd => deepcopy_is_source E s o' n outer hnd, fun _ _ _ _ => rfl, fun _ => rfl,
   container_deepcopy, fun n k i b keys kids hb => deepcopyV_node n k i b hb keys kids⟩

open TraitsVerif.Model.PyP TraitsVerif.Lemmas.PersistSource in
/-- **The container `__getstate__` / `__setstate__` are the source.**  For each of `TraitListObject`,
`TraitDictObject`, `TraitSetObject`, interpreting the translated methods on the attribute dictionary:
`__getstate__` returns the instance dictionary minus `object` and `trait` (everything else - name, validators - kept);
`__setstate__` of such a state hands `self.__dict__.update` a dictionary in which `object` is `lambda: None`, `trait`
is None, `notifiers` is `[self.notifier]`, the validator attributes are the state's and `name` is the state's (`""`
when the state has none) - for the list the `object is not None` arm is not taken.  That is the binding
`Binding.afterSetstate` / `Binding.afterCopy` give every container object: detached. -/
theorem C14_container_state_is_source :
    (∀ k : Kind,
      okDict (runRec (progOf k) "__getstate__" containerDict) = some stateDict ∧
      (∃ r, okSelf (runRec (progOf k) "__setstate__" stateDict) = some r ∧ restoredOK r = true ∧
        recGet r "name" = some .kept) ∧
      (∃ r, okSelf (runRec (progOf k) "__setstate__" (recDel stateDict "name")) = some r ∧ restoredOK r = true ∧
        recGet r "name" = some .emptyStr)) ∧
    (∀ b : Binding, b ≠ .plain → b.afterSetstate = .detached none ∧ b.afterCopy = .detached b.rule) := by
  refine ⟨container_state, ?_⟩
  intro b hb
  cases b <;> simp [Binding.afterSetstate, Binding.afterCopy] at hb ⊢

/-- The two logs are the call sequences `copychains` reads (so `C14_restored_before_inited` speaks of the same
runs), and the no-copyable-trait variant only lacks `copy_traits`. -/
example :
    TraitsVerif.Lemmas.PersistSource.cloneLog = Generated.CopyChains.cloneTraitsCalls ∧
    TraitsVerif.Lemmas.PersistSource.setstateLog = Generated.CopyChains.setstateCalls.drop 1 ∧
    TraitsVerif.Lemmas.PersistSource.cloneLog.eraseIdx 2 =
      Generated.CopyChains.cloneTraitsCalls.filter (· ≠ "copy_traits") := by
  decide

/-! ## Trait definition objects -/

/-- **Values are put back before the object counts as initialised.**  In
`clone_traits` (hence `copy.deepcopy`) and in `__setstate__` (unpickling,
`copy.copy`) of the working tree, `_trait_set_inited` is the LAST call made on
the new object and is made once; so a trait that accepts a value only while the
object is being set up (`UUID(can_init=True)`, write-once validators that ask
`traits_inited()`) gets the original's value `v`, whatever it is, and is
read-only afterwards.  (Translated from the working tree: calling
`_trait_set_inited` before `copy_traits` breaks it.) -/
theorem C14_restored_before_inited (v : Nat) :
    Generated.CopyChains.cloneTraitsCalls.getLast? = some "_trait_set_inited" ∧
    Generated.CopyChains.setstateCalls.getLast? = some "_trait_set_inited" ∧
    runSetup initOnly v Generated.CopyChains.cloneTraitsCalls = { inited := true, value := some v } ∧
    runSetup initOnly v Generated.CopyChains.setstateCalls = { inited := true, value := some v } := by
  refine ⟨by decide, by decide, rfl, rfl⟩

/-- The model can tell the order: initialised first, nothing is put back; and a trait that rejects every
assignment (`UUID()`, `ReadOnly(default)`: findings F92 / F93) is never put back, in any order. -/
example :
    (runSetup initOnly 7 ["_init_trait_listeners", "_trait_set_inited", "copy_traits"]).value = none ∧
    (runSetup (fun _ => false) 7 Generated.CopyChains.cloneTraitsCalls).value = none ∧
    (runSetup (fun _ => false) 7 Generated.CopyChains.setstateCalls).value = none := by
  decide

open TraitsVerif.Model.FuncIndex TraitsVerif.Lemmas.CTab in
/-- **CTrait round trip.**  For every trait constructible through the API
(`CTrait(kind)`, `set_validate`, `delegate`, `property_fields`, `post_setattr`,
`clone`, earlier round trips), `__getstate__` returns, `__setstate__` of the
returned indices stays inside the tables, and the restored trait has exactly
the same five C handlers: it behaves as before.  Rests on
`∀ f ∈ assignable field, f ∈ table field` over the TRANSLATED tables
(`assignable_covered`): with `setattr_validate_property` missing from
`setattr_handlers` (finding F3, fixed by ad5fa01) it does not check. -/
theorem C14_ctrait_roundtrip {t : Fns} (h : Constructible t) :
    ∃ i, getstateIdx t = some i ∧ setstateIdx i = some t := by
  have hg := good_of_constructible h
  have fi : ∀ f : Field, ∃ i, funcIndex (t.get f) (stateTable f) = some i := by
    intro f
    have := assignable_covered f (field_mem_all f) _ (hg.1 f)
    exact Option.isSome_iff_exists.mp this
  obtain ⟨a, ha⟩ := fi .getattr
  obtain ⟨b, hb⟩ := fi .setattr
  obtain ⟨c, hc⟩ := fi .postSetattr
  obtain ⟨d, hd⟩ := fi .validate
  obtain ⟨e, he⟩ := fi .delegateAttrName
  simp only [Fns.get] at ha hb hc hd he
  refine ⟨⟨a, b, c, d, e⟩, by simp [getstateIdx, ha, hb, hc, hd, he], ?_⟩
  simp [setstateIdx, tableAt_restore ha, tableAt_restore hb, tableAt_restore hc, tableAt_restore hd,
    tableAt_restore he]

/-! ## Non-vacuity -/

/-- The object of the example: `ll = List(List(Int))` holding `[[7]]`, bound to object 1. -/
def exInner : Shape := .cont .lst 3 (.leafT 0) 0 9
def exOuter : Shape := .cont .lst 3 exInner 0 9
def exObj : Obj :=
  ⟨1, [⟨{ name := "ll", shape := exOuter, dflt := .node .lst 0 .plain [] [] },
        some (.node .lst 1 (.bound 1 exOuter) [] [.node .lst 2 (.bound 1 exInner) [] [.leaf (.int 7)]])⟩]⟩

/-- Pickle it into object 2 and append `'bad'` to the INNER list of the copy. -/
def exProbe : Option Exc :=
  match pickleRoundTrip E0 exObj 2 3 with
  | .ok c =>
    match c.copy.slots with
    | [sl] =>
      match sl.val with
      | some w =>
        match addAt E0 c.next .none (.leaf (.str "bad")) [0] w with
        | .error e => some e
        | .ok _ => none
      | none => none
    | _ => none
  | .error _ => none

/-- The hypotheses of the pickle theorems hold of a nested, bound, non-empty
value, and the copy's inner list rejects a string with TraitError. -/
example : Idem E0 ∧ CopyStable E0 ∧ WFObj E0 exObj ∧ BelowAll 3 exObj.slots ∧ exProbe = some .traitError := by
  refine ⟨E0_idem, E0_copyStable, ?_, ?_, by decide⟩
  · intro sl hs
    simp only [exObj, List.mem_singleton] at hs
    subst hs
    refine ⟨fun _ => .node (fun _ => by simp) (fun _ h => by cases h) (fun _ h => by cases h), ?_⟩
    intro v hv
    cases hv
    refine .node (fun _ => by simp) (fun _ h => by cases h) ?_
    intro kid hk
    simp only [List.mem_singleton] at hk
    subst hk
    refine .node (fun _ => by simp) (fun _ h => by cases h) ?_
    intro kid hk
    simp only [List.mem_singleton] at hk
    subst hk
    exact .leaf rfl
  · intro sl hs
    simp only [exObj, List.mem_singleton] at hs
    subst hs
    refine ⟨?_, ?_⟩ <;> intro i hi <;> simp [slotIds, ids, idsL] at hi <;> omega

end TraitsVerif.Props.C14
