/-
C12 — observed / cached properties are never stale and announce dependency changes.

Model: `Model/Property.lean` (what it transcribes is listed there, file:line).
Vocabulary (`Lemmas/PropertyInv.lean`, `Lemmas/PropertyCount.lean`):

* `Inv P g s`            the cache holds nothing, or `g` of the current heap
* `PartialGetter G g`    whenever the getter returns, it returns `g heap` (it may raise)
* `PureGetter G g`       the getter never raises and computes `g`
* `DependsOnly g E root` user contract: `g` is a function of what the observables
                         selected by the expression hold
* `ObserveSound P`       interface assumption on the observe machinery (property C08):
                         a notifying change of a matched observable calls the handler
* `ObserveTight P`       interface assumption (C08): the handler is called for nothing else
* `Quiet P s steps`      a history of reads / listener changes / non-relevant mutations

Every theorem quantifies over all expressions of the path fragment, all heaps
(any size, sharing, repetition, cycles), all getters satisfying the contract,
all sibling-reader placements and all histories.
-/
import TraitsVerif.Lemmas.PropertyExamples
import TraitsVerif.Generated.PropertyState
import TraitsVerif.Lemmas.PropertySource
namespace TraitsVerif.Props.C12
open TraitsVerif TraitsVerif.Model.Property

variable {Val : Type}

/-! ## The tie to the source: the functions the model transcribes are unchanged -/

/-- What `harness/translate/propstate.py` reads from the working tree
(`_create_property_observe_state` with its state dict and handler, the blocks of
`update_traits_class_dict` that wire `observe` / `depends_on` / `cached`, the
metadata `traits.Property` derives from the getter, `cached_property`'s wrapper, the legacy listener, `_init_trait_observers` / `_post_init…`, the
life-cycle order of `__setstate__`, `clone_traits`, C `has_traits_init`, and
the calls of C `trait_property_changed`) is the text the model was written
against.  In particular `post_init = False` and observers are installed before
`trait_set` / `copy_traits` / the constructor's `setattr`s. -/
theorem C12_source_as_modelled :
    Generated.PropertyState.postInit = Source.postInit
    ∧ Generated.PropertyState.dispatch = Source.dispatch
    ∧ Generated.PropertyState.handlerSrc = Source.handlerSrc
    ∧ Generated.PropertyState.observeStateSrc = Source.observeStateSrc
    ∧ Generated.PropertyState.wiringSrc = Source.wiringSrc
    ∧ Generated.PropertyState.propertyMetadataSrc = Source.propertyMetadataSrc
    ∧ Generated.PropertyState.cacheNameSrc = Source.cacheNameSrc
    ∧ Generated.PropertyState.cachedPropertySrc = Source.cachedPropertySrc
    ∧ Generated.PropertyState.legacyListenerSrc = Source.legacyListenerSrc
    ∧ Generated.PropertyState.initObserversSrc = Source.initObserversSrc
    ∧ Generated.PropertyState.postInitObserversSrc = Source.postInitObserversSrc
    ∧ Generated.PropertyState.setstateCalls = Source.setstateCalls
    ∧ Generated.PropertyState.cloneCalls = Source.cloneCalls
    ∧ Generated.PropertyState.cInitOrder = Source.cInitOrder
    ∧ Generated.PropertyState.cPropertyChangedCalls = Source.cPropertyChangedCalls :=
  ⟨rfl, rfl, rfl, rfl, rfl, rfl, rfl, rfl, rfl, rfl, rfl, rfl, rfl, rfl, rfl⟩

/-- The observer of a property is not a `post_init` observer. -/
theorem C12_observer_not_post_init : Generated.PropertyState.postInit = false := rfl

/-! ## The tie to the source, second form: the model's step functions ARE the interpreted source

`harness/translate/propsrc.py` turns `_create_property_observe_state.handler`, `cached_property`
(the assignment of `name` and the body of `decorator`) and the body of C `trait_property_changed`
into terms of the deep embedding `Model/PropL.lean`; the interpreter there runs them on the model state. -/

/-- For every environment and every state: the model's read is the interpretation of
`cached_property.decorator` (called with exactly the object, `getattr_property1`), the model's
`tpc` is the interpretation of the C body of `trait_property_changed` (with that read as
`has_traits_getattro`), and the model's invalidation handler is the interpretation of
`_create_property_observe_state.handler` (with that `tpc` as `instance.trait_property_changed`);
the C body returns `-1` exactly when somebody listens and the read raised (the getter's exception
propagates, `C12_getter_raises_in_handler`); the observer is not a `post_init` observer.  `mutate` / `step` / `run` are built from exactly these
three functions, so every theorem below is a theorem about the interpreted source. -/
theorem C12_step_is_source (P : Env Val) (s : St Val) :
    readProp P s = Model.PropL.readSrc Generated.PropertyProg.decoratorProg P s
    ∧ (∀ old, tpc P s old
        = Model.PropL.tpcSrc Generated.PropertyProg.tpcBody Generated.PropertyProg.decoratorProg P s old)
    ∧ (P.legacy = false → handlerObserve P s
        = Model.PropL.handlerSrc Generated.PropertyProg.handlerProg Generated.PropertyProg.tpcBody
            Generated.PropertyProg.decoratorProg P s)
    ∧ (∀ old, Model.PropL.tpcRcSrc Generated.PropertyProg.tpcBody Generated.PropertyProg.decoratorProg P s old
        = (if listening P s then (match (readProp P s).1 with | .error _ => -1 | .ok _ => 0) else 0))
    ∧ Generated.PropertyProg.postInit = Source.postInit
    ∧ Generated.PropertyProg.getterArgs = ["obj"] :=
  ⟨Model.PropL.readProp_is_source P s, fun old => Model.PropL.tpc_is_source P s old,
   fun hl => Model.PropL.handlerObserve_is_source P hl s,
   fun old => Model.PropL.tpcRc_is_source P s old, rfl, rfl⟩

/-- The C handlers behind a property, read from ctraits.c as data (`Generated.PropertyProg.handlers`),
and the Python glue that decides which of them is installed:

* a set / delete of the property in the model (`setProp`) is what the installed handlers do, for every
  environment, state and setter arity 0-3: deleting raises TraitError before anything else; without a
  validator `setattr_property[set_n]` calls `traitd->delegate_prefix` (the setter); with one,
  `setattr_validate_property` calls `traitd->validate` first, fails if it fails, and hands the VALIDATED
  value to the same `setattr_property[set_n]` (installed as `post_setattr`); a failing setter propagates;
* handler `n` of the setter / validator tables passes `()`, `(value)`, `(obj, value)`, `(obj, name, value)`,
  handler `n` of the getter table the first `n` of `(obj, name, trait)`, the getters call `trait->delegate_name`, the
  validators `trait->py_validate`; the tables are indexed by `get_n` / `set_n` / `validate_n` and
  `delegate_name, delegate_prefix, py_validate := get, set, validate`;
* `CTrait.property_fields` hands `_set_property` each callable followed by its arity,
  `len(inspect.signature(f).parameters)` (`0` for `None`), in the order `(fget, fset, fvalidate)`. -/
def setterArgs : Nat → List Model.PropL.HArg
  | 0 => []
  | 1 => [.value]
  | 2 => [.obj, .value]
  | _ => [.obj, .name, .value]

theorem C12_property_handlers_are_source :
    (∀ (Val : Type) (P : Env Val), P.setN ≤ 3 → ∀ s a,
        setProp P s a = Model.PropL.setSrc Generated.PropertyProg.handlers P s a)
    ∧ (∀ n, n ≤ 3 →
        Model.PropL.viaTable Generated.PropertyProg.handlers.install.getTable Generated.PropertyProg.handlers.get n
          = some ⟨.trait, .delegate_name, [.obj, .name, .trait].take n⟩
        ∧ (Model.PropL.viaTable Generated.PropertyProg.handlers.install.setTable Generated.PropertyProg.handlers.set n).map
            (fun h => (h.call.who, h.call.field, h.call.args))
          = some (.traitd, .delegate_prefix, setterArgs n)
        ∧ Model.PropL.viaTable Generated.PropertyProg.handlers.install.validateTable
            Generated.PropertyProg.handlers.validate n
          = some ⟨.trait, .py_validate, setterArgs n⟩)
    ∧ (Generated.PropertyProg.handlers.install.getIndexedBy, Generated.PropertyProg.handlers.install.plainSetIndexedBy,
        Generated.PropertyProg.handlers.install.validatedPostIndexedBy,
        Generated.PropertyProg.handlers.install.validatedValidateIndexedBy,
        Generated.PropertyProg.handlers.install.validatedSetattr, Generated.PropertyProg.handlers.install.validatedWhen)
        = ("get_n", "set_n", "set_n", "validate_n", "setattr_validate_property", "validate != Py_None")
    ∧ Generated.PropertyProg.handlers.install.fields
        = [("delegate_name", "get"), ("delegate_prefix", "set"), ("py_validate", "validate")]
    ∧ Generated.PropertyProg.noneArity = 0
    ∧ Generated.PropertyProg.arityOf = "len(signature.parameters)"
    ∧ Generated.PropertyProg.pairOrder = ["callable", "arity"]
    ∧ Generated.PropertyProg.fieldsOrder = ["fget", "fset", "fvalidate"] := by
  refine ⟨fun _ P hn s a => Model.PropL.setProp_is_source P hn s a, ?_, rfl, rfl, rfl, rfl, rfl, rfl⟩
  intro n hn
  have h4 : n = 0 ∨ n = 1 ∨ n = 2 ∨ n = 3 := by omega
  rcases h4 with h | h | h | h <;> subst h <;> decide

/-- Never stale also after a SET through the property's own setter: whatever dependency writes the setter
performs (any list of mutations, computed from the heap and the validated value), the invariant holds
afterwards and the next read returns `g` of the new heap; a rejected value, a read-only property and a
deletion change nothing. -/
theorem C12_setter_never_stale (P : Env Val) (g : Heap → Val) (hG : PartialGetter P.G g)
    (hD : DependsOnly g P.E P.root) (hS : ObserveSound P) (s : St Val) (a : SetArg) (hi : Inv P g s) :
    Inv P g (setProp P s a).2
    ∧ (∀ v, (readProp P (setProp P s a).2).1 = .ok v → v = g (setProp P s a).2.heap)
    ∧ (∀ e, (setProp P s a).1 = .error e → (setProp P s a).2 = s) := by
  have h := setProp_inv P g hG hD hS s a hi
  refine ⟨h, fun v hv => readProp_value P g hG _ h v hv, ?_⟩
  have hc : ∀ x e, (callSetter P s x).1 = .error e → (callSetter P s x).2 = s := by
    intro x e
    unfold callSetter
    cases P.fset with
    | none => simp
    | some f => simp only; cases f s.heap (if P.setN = 0 then none else some x) <;> simp
  intro e
  cases a with
  | delete => simp [setProp]
  | value x =>
    simp only [setProp]
    cases P.fvalidate with
    | none => exact hc x e
    | some fv =>
      simp only
      cases fv x with
      | error e' => simp
      | ok y => exact hc y e

/-- Non-vacuity of the setter theorems: `exKids` with a validated arity-2 setter that writes the value to
`value` of the first kid; a set of 7 on the fixture state changes node 2, pops the cache, announces
`(9, 11)`; deleting and a rejected value change nothing. -/
example :
    let P : Env Int := { exKids with
      fset := some (fun h x => match (h 0).kids, x with
        | k :: _, some v => .ok [⟨k, .scalar .value v, false⟩]
        | _, _ => .ok []),
      fvalidate := some (fun x => if x < 0 then .error .traitError else .ok x) }
    (setProp P exKidsFinal (.value 7)).1 = .ok ()
    ∧ (readProp P (setProp P exKidsFinal (.value 7)).2).1 = .ok 11
    ∧ ((setProp P exKidsFinal (.value 7)).2.notes.drop exKidsFinal.notes.length).map (fun n => (n.old, n.new))
        = [(.val 9, 11)]
    ∧ (setProp P exKidsFinal (.value (-1))).1 = .error .traitError
    ∧ (setProp P exKidsFinal .delete).1 = .error .traitError
    ∧ Model.PropL.setSrc Generated.PropertyProg.handlers P exKidsFinal (.value 7) = setProp P exKidsFinal (.value 7) := by
  refine ⟨by decide, by decide, by decide, by decide, by decide, ?_⟩
  exact (Model.PropL.setProp_is_source _ (by decide) _ _).symm

/-- The legacy `depends_on` listener, read from `HasTraits._init_trait_property_listener`: `pre_notify`
(registered first, with `priority=True`) and `notify`, interpreted with the `cached + ':old'` dictionary
slot the model abstracts away.  For a cached `depends_on` property the model's dispatch of a firing change
is: run `pre_notify` on the state with an empty slot (it drops the cache entry and parks it in the slot),
the sibling handlers, then `notify` with that slot (it empties the slot and calls
`trait_property_changed(name, old)` unless the parked entry is `Undefined`), the later siblings; for an
uncached one `notify` is `trait_property_changed(name, None)`.  The slot is empty again afterwards. -/
theorem C12_depends_on_handler_is_source (P : Env Val) (hl : P.legacy = true) (s0 : St Val) (m : Mutation) :
    (P.cached = true →
      let c1 := Model.PropL.execL P (tpc P) Generated.PropertyProg.legacyPreNotifyProg { st := s0 }
      let c2 := Model.PropL.execL P (tpc P) Generated.PropertyProg.legacyNotifyProg
                  { st := sib P (P.sibPre m) c1.st, oldSlot := c1.oldSlot }
      dispatchFire P s0 m = sib P (P.sibPost m && s0.dyn) c2.st ∧ c2.oldSlot = none)
    ∧ (P.cached = false →
      dispatchFire P s0 m = sib P (P.sibPost m && s0.dyn)
        (Model.PropL.execL P (tpc P) Generated.PropertyProg.legacyNotifyUncachedProg
          { st := sib P (P.sibPre m) s0 }).st)
    ∧ Generated.PropertyProg.legacyRegistrations = ["pre_notify:priority", "notify"] := by
  refine ⟨fun hc => ?_, fun hc => ?_, rfl⟩
  · have h1 := Model.PropL.legacyPre_is_source P hl hc s0
    have h2 := Model.PropL.legacyNotify_is_source P (sib P (P.sibPre m) (popCache P s0)) (popOld P s0)
      (Model.PropL.popOld_legacy_ne_undefined P hl s0)
    simp only [h1.1, h1.2, h2.1, h2.2, dispatchFire, hl, if_true, and_self]
  · rw [Model.PropL.legacyNotifyUncached_is_source]
    have hp : popCache P s0 = s0 := by simp [popCache, hc]
    have ho : popOld P s0 = .none := by simp [popOld, hc, hl]
    simp only [dispatchFire, hl, if_true, hp, ho]

/-- Never stale for `depends_on=` properties, stated on the interpreted listener: from any state
satisfying the invariant (after the heap was changed, so only the weak invariant is assumed), running the
translated `pre_notify`, any sibling handlers, and the translated `notify` re-establishes the invariant. -/
theorem C12_never_stale_source_depends_on (P : Env Val) (g : Heap → Val) (hG : PartialGetter P.G g)
    (hl : P.legacy = true) (hc : P.cached = true) (s0 : St Val) (hw : NoEntryIfUncached P s0) (b : Bool) :
    let c1 := Model.PropL.execL P (tpc P) Generated.PropertyProg.legacyPreNotifyProg { st := s0 }
    Inv P g (Model.PropL.execL P (tpc P) Generated.PropertyProg.legacyNotifyProg
      { st := sib P b c1.st, oldSlot := c1.oldSlot }).st := by
  have h1 := Model.PropL.legacyPre_is_source P hl hc s0
  have h2 := Model.PropL.legacyNotify_is_source P (sib P b (popCache P s0)) (popOld P s0)
    (Model.PropL.popOld_legacy_ne_undefined P hl s0)
  simp only [h1.1, h1.2, h2.1]
  exact legacyNotify_inv P g hG _ _ (sib_inv P g hG b _ (popCache_inv P g s0 hw))

/-- Never stale, stated on the interpreted source: after any history, running the translated
`cached_property.decorator` returns what the getter computes from the heap as it is now, and
running the translated observer handler leaves the invariant intact. -/
theorem C12_never_stale_source (P : Env Val) (g : Heap → Val) (hG : PartialGetter P.G g)
    (hD : DependsOnly g P.E P.root) (hS : ObserveSound P) (hp : P.postInit = false) (hl : P.legacy = false)
    (steps : List Step) (s : St Val) (hi : Inv P g s) :
    (∀ v, (Model.PropL.readSrc Generated.PropertyProg.decoratorProg P (run P s steps)).1 = .ok v →
        v = g (run P s steps).heap)
    ∧ Inv P g (Model.PropL.handlerSrc Generated.PropertyProg.handlerProg Generated.PropertyProg.tpcBody
        Generated.PropertyProg.decoratorProg P (run P s steps)) := by
  have hr := run_inv P g hG hD hS hp steps s hi
  refine ⟨fun v hv => ?_, ?_⟩
  · rw [← Model.PropL.readProp_is_source] at hv
    exact readProp_value P g hG _ hr v hv
  · rw [← Model.PropL.handlerObserve_is_source P hl]
    exact handlerObserve_inv P g hG _ hr.weak

/-- Non-vacuity: the interpreted source, run on the fixture state (cached entry 9, a class-level
listener): the handler pops the entry, `trait_property_changed` finds a listener, re-reads through
the decorator (one getter call, entry refilled) and delivers `(9, 9)`. -/
example :
    let s' := Model.PropL.handlerSrc Generated.PropertyProg.handlerProg Generated.PropertyProg.tpcBody
      Generated.PropertyProg.decoratorProg exKids exKidsFinal
    s'.cache = some 9 ∧ s'.calls = exKidsFinal.calls + 1
      ∧ (s'.notes.drop exKidsFinal.notes.length).map (fun n => (n.old, n.new)) = [(.val 9, 9)] := by
  decide

/-! ## Never stale -/

/-- The invariant `cache = none ∨ cache = some (g heap)` is preserved by every
history of mutations (scalar, Instance, list / dict / set reassignment and
item mutation, anywhere in the heap), reads, listener changes, constructions
and copies. -/
theorem C12_never_stale (P : Env Val) (g : Heap → Val) (hG : PartialGetter P.G g)
    (hD : DependsOnly g P.E P.root) (hS : ObserveSound P) (hp : P.postInit = false)
    (steps : List Step) (s : St Val) (hi : Inv P g s) : Inv P g (run P s steps) :=
  run_inv P g hG hD hS hp steps s hi

/-- …in particular from every fresh object, whatever the heap around it. -/
theorem C12_never_stale_from_new (P : Env Val) (g : Heap → Val) (hG : PartialGetter P.G g)
    (hD : DependsOnly g P.E P.root) (hS : ObserveSound P) (hp : P.postInit = false)
    (h0 : Heap) (steps : List Step) : Inv P g (run P { heap := h0 } steps) :=
  run_inv P g hG hD hS hp steps _ (Or.inl rfl)

/-- After any history, a read that returns, returns what the getter computes
from the heap as it is now (cached or not). -/
theorem C12_read_correct (P : Env Val) (g : Heap → Val) (hG : PartialGetter P.G g)
    (hD : DependsOnly g P.E P.root) (hS : ObserveSound P) (hp : P.postInit = false)
    (steps : List Step) (s : St Val) (hi : Inv P g s) (v : Val)
    (hv : (readProp P (run P s steps)).1 = .ok v) : v = g (run P s steps).heap :=
  readProp_value P g hG _ (run_inv P g hG hD hS hp steps s hi) v hv

/-- With a getter that never raises, every read returns `g heap`. -/
theorem C12_read_correct_total (P : Env Val) (g : Heap → Val) (hG : PureGetter P.G g)
    (hD : DependsOnly g P.E P.root) (hS : ObserveSound P) (hp : P.postInit = false)
    (steps : List Step) (s : St Val) (hi : Inv P g s) :
    (readProp P (run P s steps)).1 = .ok (g (run P s steps).heap) :=
  readProp_ok P g hG _ (run_inv P g hG.partial hD hS hp steps s hi)

/-- Negation witness (sanity): without `ObserveSound` the invariant fails — a
machinery that misses the change of `value` leaves the cache stale. -/
theorem C12_never_stale_needs_ObserveSound :
    ∃ (P : Env Int) (g : Heap → Int) (s : St Int) (steps : List Step),
      PureGetter P.G g ∧ DependsOnly g P.E P.root ∧ P.postInit = false ∧ Inv P g s ∧
      ¬ Inv P g (run P s steps) := by
  refine ⟨{ E := [⟨[], .scalar .value⟩], root := 0, G := fun _ h => .ok (h 0).value,
            fires := fun _ _ => false },
          fun h => (h 0).value, { heap := fun _ => {} },
          [.read, .change ⟨0, .scalar .value 5, false⟩], fun _ _ => rfl, ?_, rfl, Or.inl rfl, by decide⟩
  exact dependsOnly_foldExpr (fun c => match c with | .int v => v | _ => 0) (fun _ _ => 0)
    [⟨[], .scalar .value⟩] 0 (fun l => l.headD 0)

/-! ## At most one getter run between two relevant changes -/

/-- However many reads, listener changes and non-relevant mutations follow,
the getter of a cached property runs at most once. -/
theorem C12_at_most_once_quiet (P : Env Val) (g : Heap → Val) (hG : PureGetter P.G g)
    (hc : P.cached = true) (hu : ∀ h, P.isUndef (g h) = false) (hT : ObserveTight P)
    (s : St Val) (seg : List Step) (hq : Quiet P s seg) :
    (run P s seg).calls ≤ s.calls + 1 :=
  Nat.le_trans (calls_le_phi P _) (Nat.le_trans (run_quiet_phi P g hG hc hu hT seg s hq) (phi_le P s))

/-- Between two relevant changes: from just before a change `m` (including
the recomputation done to notify listeners) up to the next relevant change the
getter runs at most once.  `hpre`: no sibling handler reads the property
before the invalidation (see `C12_sibling_read_before_invalidation_is_stale`). -/
theorem C12_at_most_once (P : Env Val) (g : Heap → Val) (hG : PureGetter P.G g)
    (hc : P.cached = true) (hu : ∀ h, P.isUndef (g h) = false) (hT : ObserveTight P)
    (s : St Val) (m : Mutation) (hpre : P.legacy = true ∨ P.sibPre m = false)
    (seg : List Step) (hq : Quiet P (mutate P s m) seg) :
    (run P (mutate P s m) seg).calls ≤ s.calls + 1 :=
  Nat.le_trans (calls_le_phi P _)
    (Nat.le_trans (run_quiet_phi P g hG hc hu hT seg _ hq) (mutate_fire_phi P g hG hc hu s m hpre))

/-- Negation witness: without `ObserveTight` (a machinery that also calls the
handler for a change of an unmatched observable — what F10 does on the real
code after a link reachable through itself was re-pointed) the getter reruns
although nothing relevant changed. -/
theorem C12_at_most_once_needs_ObserveTight :
    ∃ (P : Env Int) (g : Heap → Int) (s : St Int) (seg : List Step),
      PureGetter P.G g ∧ P.cached = true ∧ ObserveSound P ∧ Quiet P s seg ∧
      (run P s seg).calls = s.calls + 2 :=
  ⟨{ E := [⟨[], .scalar .value⟩], root := 0, G := fun _ h => .ok (h 0).value,
     fires := fun _ _ => true },
   fun h => (h 0).value, { heap := fun _ => {} },
   [.read, .change ⟨0, .scalar .aux 1, false⟩, .read],
   fun _ _ => rfl, rfl, fun _ _ _ => rfl, by decide, by decide⟩

/-! ## Announcing -/

/-- A change that alters what the getter computes delivers exactly one
property notification to the listeners present, carrying the recomputed new
value; when no sibling handler ran before the invalidation, `old` is the
cache entry that was dropped (`Undefined` / `None` when there was none). -/
theorem C12_announces (P : Env Val) (g : Heap → Val) (hG : PureGetter P.G g)
    (hD : DependsOnly g P.E P.root) (hS : ObserveSound P) (s : St Val) (m : Mutation)
    (hi : Inv P g s) (hL : listening P s = true)
    (hu : P.legacy = true → ∀ h, P.isUndef (g h) = false)
    (halt : g (apply m s.heap) ≠ g s.heap) :
    ∃ old, (mutate P s m).notes = s.notes ++ [mkNote P s old (g (apply m s.heap))]
      ∧ ((P.legacy = true ∨ P.sibPre m = false) → old = popOld P s) := by
  have hrel : relevant P.E P.root s.heap m = true := by
    cases hr : relevant P.E P.root s.heap m
    · exact absurd (hD _ _ (sameViews_of_not_relevant P.E P.root s.heap m hr)).symm halt
    · rfl
  have hch : changed s.heap m = true := by
    simp only [relevant, Bool.and_eq_true] at hrel
    exact hrel.1
  have hf := hS _ _ hrel
  refine ⟨if P.legacy then popOld P s else popOld P (sib P (P.sibPre m) { s with heap := apply m s.heap }), ?_, ?_⟩
  · unfold mutate
    simp only [hch, hf, if_true]
    refine dispatchFire_notes P g hG { s with heap := apply m s.heap } m (fun hc => hi.weak hc) hL ?_
    intro hl v hv
    cases hi with
    | inl h => rw [h] at hv; cases hv
    | inr h => rw [h.2] at hv; cases hv; exact hu hl _
  · intro hpre
    by_cases hl : P.legacy = true
    · simp [hl]
    · cases hpre with
      | inl h => exact absurd h hl
      | inr h => simp [hl, h, popOld_heap_irrel]

/-- The dropped entry was truthful: it is `g` of the heap before the change. -/
theorem C12_announces_old_truthful (P : Env Val) (g : Heap → Val) (s : St Val) (hi : Inv P g s)
    (v : Val) (ho : popOld P s = .val v) : v = g s.heap := by
  unfold popOld at ho
  by_cases hc : P.cached = true
  · simp only [hc, if_true] at ho
    cases hcv : s.cache with
    | none =>
      rw [hcv] at ho
      by_cases hl : P.legacy = true <;> simp [hl] at ho
    | some w =>
      rw [hcv] at ho
      simp only [Old.val.injEq] at ho
      cases hi with
      | inl h => rw [h] at hcv; cases hcv
      | inr h => rw [h.2] at hcv; cases hcv; exact ho.symm
  · by_cases hl : P.legacy = true <;> simp [hc, hl] at ho

/-! ## Copies -/

/-- Objects produced by `__init__(**kw)`, unpickling, `clone_traits` and
`copy.deepcopy` satisfy the invariant, and keep it along every later history
(also when a handler reads the property in the middle of the restore). -/
theorem C12_copies (P : Env Val) (g : Heap → Val) (hG : PartialGetter P.G g)
    (hD : DependsOnly g P.E P.root) (hS : ObserveSound P) (hp : P.postInit = false)
    (h0 : Heap) (ws : List Write) (steps : List Step) :
    Inv P g (restore P h0 ws) ∧ Inv P g (run P (restore P h0 ws) steps) :=
  ⟨restore_inv P g hG hD hS hp h0 ws,
   run_inv P g hG hD hS hp steps _ (restore_inv P g hG hD hS hp h0 ws)⟩

/-- Negation witness (the ordering matters): were the property's observer
installed after the values (`post_init = True`), a copy whose restore is
interleaved with one read (a static handler on `aux` reading the property)
comes out with a stale cache: `p = Property(observe="inst.value")`, node 1 has
`value = 7`, restoring `value, aux, inst, …` caches the getter's result for
`inst = None` at `aux` and keeps it after `inst = node 1`. -/
theorem C12_copies_order_matters :
    ∃ (P : Env Int) (g : Heap → Int) (h0 : Heap) (ws : List Write),
      PureGetter P.G g ∧ DependsOnly g P.E P.root ∧ ObserveSound P ∧ P.postInit = true ∧
      ¬ Inv P g (restore P h0 ws) := by
  let g : Heap → Int := fun h => match (h 0).inst with | none => -1 | some i => (h i).value
  refine ⟨{ E := [⟨[.inst], .scalar .value⟩], root := 0, G := fun _ h => .ok (g h),
            fires := firesSpec [⟨[.inst], .scalar .value⟩] 0, postInit := true,
            sibPre := fun m => decide (m.w.slot = .scalar .aux) },
          g, fun i => if i = 1 then { value := 7 } else {},
          rootWrites { aux := 1, inst := some 1 }, fun _ _ => rfl, ?_, fun _ _ h => h, rfl, by decide⟩
  have := dependsOnly_foldExpr (fun c => match c with | .int v => v | _ => 0)
    (fun c l => match c with | .ref none => -1 | _ => l.headD 0) [⟨[.inst], .scalar .value⟩] 0
    (fun l => l.headD 0)
  intro h h' hv
  have := this h h' hv
  simp only [foldExpr, foldView, List.map, targets, content, Obj.get, Link.slot, List.headD] at this
  show (match (h 0).inst with | none => -1 | some i => (h i).value)
     = (match (h' 0).inst with | none => -1 | some i => (h' i).value)
  cases h1 : (h 0).inst <;> cases h2 : (h' 0).inst <;> simp_all [Content.targets]

/-! ## Reads by sibling handlers during a dispatch -/

/-- FULL statement (false of the code as it is): every value a sibling handler
reads during the dispatch of a change is `g` of the heap after the change. -/
def NestedReadsCorrect (P : Env Val) (g : Heap → Val) : Prop :=
  ∀ (s : St Val) (m : Mutation), Inv P g s →
    ∀ v, .ok v ∈ (mutate P s m).nested → .ok v ∈ s.nested ∨ v = g (apply m s.heap)

/-- Proved part: it holds when no sibling handler precedes the property's
observer on a firing change (handlers attached later, and everything under the
legacy `depends_on`, whose invalidation has priority).  Missing: `@observe`
methods / static `_x_changed` methods on a dependency are dispatched before the
property's own observer, see the witness below. -/
theorem C12_nested_reads_correct_partial (P : Env Val) (g : Heap → Val) (hG : PartialGetter P.G g)
    (hD : DependsOnly g P.E P.root) (hS : ObserveSound P)
    (hpre : P.legacy = true ∨ ∀ m, P.sibPre m = false) : NestedReadsCorrect P g := by
  intro s m hi v hv
  -- a nested read at a state satisfying `Inv` adds a correct value
  have nr : ∀ (t : St Val), Inv P g t → ∀ w, .ok w ∈ (nestedRead P t).nested →
      .ok w ∈ t.nested ∨ w = g t.heap := by
    intro t ht w hw
    simp only [nestedRead, readProp_nested, List.mem_append, List.mem_singleton] at hw
    cases hw with
    | inl h => exact Or.inl h
    | inr h => exact Or.inr (readProp_value P g hG t ht w h.symm)
  have sb : ∀ (b : Bool) (t : St Val), Inv P g t → ∀ w, .ok w ∈ (sib P b t).nested →
      .ok w ∈ t.nested ∨ w = g t.heap := by
    intro b t ht w hw
    unfold sib at hw
    split at hw
    · exact nr t ht w hw
    · exact Or.inl hw
  have tn : ∀ (t : St Val) (o : Old Val), (tpc P t o).nested = t.nested := by
    intro t o
    unfold tpc
    repeat' split
    all_goals simp
  have pn : ∀ (t : St Val), (popCache P t).nested = t.nested := by
    intro t; unfold popCache; split <;> rfl
  have hw0 : NoEntryIfUncached P { s with heap := apply m s.heap } := fun hc => hi.weak hc
  unfold mutate at hv
  simp only at hv
  split at hv
  · rename_i hch
    split at hv
    · -- fires
      unfold dispatchFire at hv
      split at hv
      · have i1 := popCache_inv P g { s with heap := apply m s.heap } hw0
        have i2 := sib_inv P g hG (P.sibPre m) _ i1
        have i3 := legacyNotify_inv P g hG _ (popOld P { s with heap := apply m s.heap }) i2
        have ln : ∀ (t : St Val) (o : Old Val), (legacyNotify P t o).nested = t.nested := by
          intro t o
          unfold legacyNotify
          repeat' split
          all_goals first | rfl | apply tn
        rcases sb _ _ i3 v hv with h | h
        · rw [ln] at h
          rcases sb _ _ i1 v h with h' | h'
          · rw [pn] at h'; exact Or.inl h'
          · right; simpa using h'
        · right; simpa using h
      · rename_i hl
        have hs : P.sibPre m = false := by
          cases hpre with
          | inl h => exact absurd h hl
          | inr h => exact h m
        rw [hs, sib_false] at hv
        have i3 := handlerObserve_inv P g hG { s with heap := apply m s.heap } hw0
        rcases sb _ _ i3 v hv with h | h
        · unfold handlerObserve at h
          rw [tn, pn] at h
          exact Or.inl h
        · right; simpa [handlerObserve] using h
    · -- does not fire: not relevant, the invariant already holds in the new heap
      rename_i hf
      have hr : relevant P.E P.root s.heap m = false := by
        cases hrel : relevant P.E P.root s.heap m
        · rfl
        · exact absurd (hS _ _ hrel) hf
      have hg : g s.heap = g (apply m s.heap) :=
        hD _ _ (sameViews_of_not_relevant P.E P.root s.heap m hr)
      have i0 : Inv P g { s with heap := apply m s.heap } := by
        cases hi with
        | inl h => left; exact h
        | inr h => right; exact ⟨h.1, by simp only; rw [← hg]; exact h.2⟩
      unfold dispatchQuiet at hv
      have i1 := sib_inv P g hG (P.sibPre m) _ i0
      rcases sb _ _ i1 v hv with h | h
      · rcases sb _ _ i0 v h with h' | h'
        · exact Or.inl h'
        · right; simpa using h'
      · right; simpa using h
  · exact Or.inl hv

/-- Negation witness (a defect of the tree, known finding): a static
`_value_changed` method (or an `@observe("value")` method) that reads a cached
`Property(observe="value")` is dispatched before the property's observer and
is handed the value cached before the change. -/
theorem C12_sibling_read_before_invalidation_is_stale :
    ∃ (P : Env Int) (g : Heap → Int),
      PureGetter P.G g ∧ DependsOnly g P.E P.root ∧ ObserveSound P ∧ ObserveTight P ∧
      P.postInit = false ∧ ¬ NestedReadsCorrect P g := by
  refine ⟨{ E := [⟨[], .scalar .value⟩], root := 0, G := fun _ h => .ok (h 0).value,
            fires := firesSpec [⟨[], .scalar .value⟩] 0,
            sibPre := fun m => decide (m.w.slot = .scalar .value) },
          fun h => (h 0).value, fun _ _ => rfl, ?_, fun _ _ h => h, fun _ _ _ h => h, rfl, ?_⟩
  · exact dependsOnly_foldExpr (fun c => match c with | .int v => v | _ => 0) (fun _ _ => 0)
      [⟨[], .scalar .value⟩] 0 (fun l => l.headD 0)
  · intro hN
    have := hN { heap := fun _ => {}, cache := some 0 } ⟨0, .scalar .value 5, false⟩
      (Or.inr ⟨rfl, rfl⟩) 0 (by decide)
    revert this
    decide

/-! ## A raising getter (cited by C19) -/

/-- A getter that raises writes no cache entry and changes nothing but the
call counter; the next read calls the getter again and, if that call succeeds,
returns and stores its value. -/
theorem C12_getter_raises (P : Env Val) (s : St Val) (e : Exc) (hmiss : s.cache = none)
    (hr : P.G s.calls s.heap = .error e) :
    readProp P s = (.error e, { s with calls := s.calls + 1 })
    ∧ (readProp P s).2.cache = none
    ∧ ∀ v, P.G (s.calls + 1) s.heap = .ok v →
        (readProp P (readProp P s).2).1 = .ok v
        ∧ (readProp P (readProp P s).2).2.cache = (if P.cached then some v else none) := by
  have h1 : readProp P s = (.error e, { s with calls := s.calls + 1 }) := by
    unfold readProp compute
    rw [hmiss, hr]
    simp
  refine ⟨h1, by rw [h1]; exact hmiss, ?_⟩
  intro v hv
  rw [h1]
  unfold readProp compute
  simp only [hmiss, hv]
  by_cases hc : P.cached = true <;> simp [hc]

/-- The same inside the invalidation handler: the entry is dropped, nothing is
stored, no notification is delivered, the invariant holds. -/
theorem C12_getter_raises_in_handler (P : Env Val) (s : St Val) (e : Exc)
    (hw : NoEntryIfUncached P s) (hr : P.G s.calls s.heap = .error e) :
    (handlerObserve P s).cache = none ∧ (handlerObserve P s).notes = s.notes := by
  have hc0 : (popCache P s).cache = none := by
    unfold popCache
    by_cases hc : P.cached = true
    · simp [hc]
    · simp only [Bool.not_eq_true] at hc
      simp only [hc]
      exact hw hc
  have hG' : P.G (popCache P s).calls (popCache P s).heap = .error e := by
    rw [popCache_calls, popCache_heap]; exact hr
  have h1 : (readProp P (popCache P s)).1 = .error e := by
    unfold readProp compute
    rw [hc0, hG']
    simp
  have h2 : (readProp P (popCache P s)).2.cache = none := by
    unfold readProp compute
    rw [hc0, hG']
    simp
  unfold handlerObserve tpc
  split
  · rw [h1]
    exact ⟨h2, by simp⟩
  · exact ⟨hc0, by simp⟩

/-! ## The instances the correspondence check runs -/

/-- The getters the driver instantiates satisfy the user contract for every
expression, so with `fires := firesSpec` every hypothesis of the theorems
above holds of exactly the environments that are compared with the real code. -/
theorem C12_canonical_getters_depend_only (E : Expr) (root : Id) (undef : Bool) :
    DependsOnly (viewGetter E root) E root ∧ DependsOnly (sumGetter E root undef) E root
      ∧ DependsOnly (falsyGetter E root) E root :=
  ⟨dependsOnly_foldExpr _ _ E root (fun l => "&".intercalate l),
   dependsOnly_foldExpr sumLeaf _ E root
     (fun l => if undef && l.foldl (· + ·) 0 % 5 == 3 then "U" else toString (l.foldl (· + ·) 0)),
   dependsOnly_foldExpr sumLeaf _ E root
     (fun l => let t := l.foldl (· + ·) 0
       if t % 5 == 0 then "N" else if t % 5 == 1 then "0" else if t % 5 == 2 then "''"
       else if t % 5 == 3 then "[]" else toString t)⟩

/-- Closed form for those environments: no assumption left but the interface
one (`fires` is the specification). -/
theorem C12_never_stale_canonical (P : Env String) (hf : P.fires = firesSpec P.E P.root)
    (hG : PartialGetter P.G (viewGetter P.E P.root)) (hp : P.postInit = false)
    (h0 : Heap) (steps : List Step) :
    Inv P (viewGetter P.E P.root) (run P { heap := h0 } steps) :=
  C12_never_stale_from_new P _ hG (C12_canonical_getters_depend_only P.E P.root false).1
    (firesSpec_sound P hf) hp h0 steps

/-! ## Non-vacuity: the hypotheses are satisfiable on non-trivial instances

Fixtures (`Lemmas/PropertyExamples.lean`): `exKids` is
`Property(observe="kids.items.value")` with a class-level listener and the getter
`exKidsG = sum(k.value for k in self.kids)`; `exKidsFinal` is the state after
`kids = [1, 2, 1]` (values 3, 5), a read, one occurrence of node 1 removed in place,
node 1 bumped to 4. -/

example : PureGetter exKids.G exKidsG := fun _ _ => rfl
example : ObserveSound exKids ∧ ObserveTight exKids := ⟨fun _ _ h => h, fun _ _ _ h => h⟩
example : DependsOnly exKidsG exKids.E exKids.root := by
  have := dependsOnly_foldExpr (fun c => match c with | .int v => v | _ => 0)
    (fun _ l => l.foldl (· + ·) 0) [⟨[.kids], .scalar .value⟩] 0 (fun l => l.headD 0)
  intro h h' hv
  have := this h h' hv
  simpa [foldExpr, foldView, targets, content, Obj.get, Link.slot, Content.targets, exKidsG] using this

example :
    exKidsFinal.cache = some 9 ∧ exKidsFinal.calls = 3 ∧ (readProp exKids exKidsFinal).1 = .ok 9
      ∧ exKidsFinal.notes.map (fun n => (n.old, n.new))
          = [(.undefined, 11), (.val 11, 8), (.val 8, 9)] := by
  decide

/-- `Quiet` is satisfiable on a segment that does change the heap: reads, a listener change and a
change of an unmatched object; and a relevant change that alters `g` exists. -/
example : Quiet exKids exKidsFinal [.read, .change ⟨3, .scalar .value 7, false⟩, .attach, .read,
    .change ⟨0, .scalar .aux 3, false⟩, .read] := by decide
example : exKidsG (apply ⟨1, .scalar .value 6, false⟩ exKidsFinal.heap) ≠ exKidsG exKidsFinal.heap := by decide
example : Inv exKids exKidsG exKidsFinal := by decide
/-- a restore that passes through an intermediate cached value -/
example : (restore exKids (fun i => if i = 1 then { value := 3 } else {})
    (rootWrites { value := 1, kids := [1, 1] })).notes.map (fun n => (n.old, n.new)) = [(.undefined, 6)] := by decide

end TraitsVerif.Props.C12
