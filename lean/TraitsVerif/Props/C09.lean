/-
C09 — observe registration is counted, reversible, failure-atomic and weak.

Model: TraitsVerif/Model/{Heap,ObsGraph,Hooks,Register,Maintain}.lean (transcription
of traits/observation/_observe.py, _trait_event_notifier.py,
_observer_change_notifier.py, observe.py; tied to the code by the correspondence
check of harness/props/c09.py).  Notation: `cnt H o q` = number of registrations
equal to notifier key `q` held at observable `o` (reference counts of equal user
notifiers, number of equal maintainers); `hookList h k true g x` = the notifiers a
registration of graph `g` on object `x` owes in heap `h`, computed from scratch.

Only property theorems and their non-vacuity examples live here; lemmas are in
TraitsVerif/Lemmas/Obs*.lean.
-/
import TraitsVerif.Lemmas.ObsAtomic
import TraitsVerif.Lemmas.ObsMutate
import TraitsVerif.Lemmas.ObsInv
namespace TraitsVerif.Props.C09
open TraitsVerif TraitsVerif.Model.Obs

/-- `n` calls of `add_or_remove_notifiers` with the same arguments, stopping at the
first one that raises. -/
def regN (h : Heap) (k : HKey) (rm : Bool) (g : Graph) (x : W) : Nat → Hooks → Res
  | 0, H => ⟨H, none⟩
  | n + 1, H =>
    let r := addRemove h k rm true g x H
    match r.err with
    | some e => ⟨r.H, some e⟩
    | none => regN h k rm g x n r.H

/-! ### add / remove are inverse, counted -/

/-- Removing right after a successful registration (heap unchanged) does not raise
and restores every count: per observable, reference counts and numbers of
maintainers are what they were. -/
theorem C09_add_remove_inverse (h : Heap) (k : HKey) (g : Graph) (x : W) (H : Hooks) (hw : WF H)
    (hadd : (addRemove h k false true g x H).err = none) :
    (addRemove h k true true g x (addRemove h k false true g x H).H).err = none ∧
    (∀ o q, cnt (addRemove h k true true g x (addRemove h k false true g x H).H).H o q = cnt H o q) ∧
    WF (addRemove h k true true g x (addRemove h k false true g x H).H).H := by
  obtain ⟨hok, hc, hwf⟩ := addRemove_add h k g true x H hadd
  obtain ⟨e, c, w⟩ := addRemove_remove h k g true x _ (hwf hw) hok (fun o q => by rw [hc]; omega)
  refine ⟨e, ?_, w⟩
  intro o q
  have := c o q
  rw [hc] at this
  omega

/-- `n` registrations add `n` times the from-scratch items (reference counting:
an equal user notifier is counted, not duplicated). -/
theorem C09_counted_adds (h : Heap) (k : HKey) (g : Graph) (x : W) (hok : walkOk h true g x = true) :
    ∀ (n : Nat) (H : Hooks), WF H →
      (regN h k false g x n H).err = none ∧
      (∀ o q, cnt (regN h k false g x n H).H o q = cnt H o q + n * cntItems (hookList h k true g x) o q) ∧
      WF (regN h k false g x n H).H := by
  intro n
  induction n with
  | zero => intro H hw; exact ⟨rfl, by simp [regN], hw⟩
  | succ n ih =>
    intro H hw
    have he := addRemove_add_ok h k g true x H hok
    obtain ⟨_, hc, hwf⟩ := addRemove_add h k g true x H he
    obtain ⟨e2, c2, w2⟩ := ih _ (hwf hw)
    simp only [regN, he]
    refine ⟨e2, ?_, w2⟩
    intro o q
    rw [c2, hc, Nat.succ_mul]; omega

/-- `m ≤ n` removals after `n` registrations never raise and leave `n - m`
registrations' worth of notifiers. -/
theorem C09_counted_removes (h : Heap) (k : HKey) (g : Graph) (x : W) (hok : walkOk h true g x = true) :
    ∀ (m : Nat) (H : Hooks) (base : Observable → NKey → Nat) (n : Nat), m ≤ n → WF H →
      (∀ o q, cnt H o q = base o q + n * cntItems (hookList h k true g x) o q) →
      (regN h k true g x m H).err = none ∧
      (∀ o q, cnt (regN h k true g x m H).H o q = base o q + (n - m) * cntItems (hookList h k true g x) o q) ∧
      WF (regN h k true g x m H).H := by
  intro m
  induction m with
  | zero => intro H base n _ hw hc; exact ⟨rfl, by simpa [regN] using hc, hw⟩
  | succ m ih =>
    intro H base n hmn hw hc
    obtain ⟨n', rfl⟩ : ∃ n', n = n' + 1 := ⟨n - 1, by omega⟩
    have hle : ∀ o q, cntItems (hookList h k true g x) o q ≤ cnt H o q := by
      intro o q; rw [hc, Nat.succ_mul]; omega
    obtain ⟨e, c, w⟩ := addRemove_remove h k g true x H hw hok hle
    have hc' : ∀ o q, cnt (addRemove h k true true g x H).H o q =
        base o q + n' * cntItems (hookList h k true g x) o q := by
      intro o q
      have := c o q
      rw [hc, Nat.succ_mul] at this
      omega
    obtain ⟨e2, c2, w2⟩ := ih _ base n' (by omega) w hc'
    simp only [regN, e]
    refine ⟨e2, ?_, w2⟩
    intro o q
    rw [c2]
    have : n' + 1 - (m + 1) = n' - m := by omega
    rw [this]

/-- Registering `n` times and unregistering `n` times leaves every object as
before: no call raises and every count is back. -/
theorem C09_n_adds_n_removes (h : Heap) (k : HKey) (g : Graph) (x : W) (H : Hooks) (n : Nat) (hw : WF H)
    (hok : walkOk h true g x = true) :
    (regN h k false g x n H).err = none ∧
    (regN h k true g x n (regN h k false g x n H).H).err = none ∧
    (∀ o q, cnt (regN h k true g x n (regN h k false g x n H).H).H o q = cnt H o q) := by
  obtain ⟨e1, c1, w1⟩ := C09_counted_adds h k g x hok n H hw
  obtain ⟨e2, c2, _⟩ := C09_counted_removes h k g x hok n _ (fun o q => cnt H o q) n (Nat.le_refl _) w1 c1
  refine ⟨e1, e2, ?_⟩
  intro o q
  rw [c2]; simp

/-- Interleaving with OTHER handlers / expressions / roots: any successful call
for another registration shifts every count by that registration's own items, so
counts of different registrations add up independently (the general form behind
"any order of removal"). -/
theorem C09_calls_commute_on_counts (h : Heap) (k k' : HKey) (g g' : Graph) (x x' : W) (H : Hooks)
    (h1 : (addRemove h k false true g x H).err = none)
    (h2 : (addRemove h k' false true g' x' (addRemove h k false true g x H).H).err = none) :
    ∀ o q, cnt (addRemove h k' false true g' x' (addRemove h k false true g x H).H).H o q =
      cnt H o q + cntItems (hookList h k true g x) o q + cntItems (hookList h k' true g' x') o q := by
  intro o q
  rw [(addRemove_add h k' g' true x' _ h2).2.1, (addRemove_add h k g true x H h1).2.1]

/-! ### interleaving with mutations: registration and removal move the refinement invariant

`HooksEqReach h H regs` (hooks = from-scratch hooks of all active registrations `regs` in
the current heap) is preserved by the mutations of `C08_hooks_eq_reach_partial`; the two
theorems below add / remove a registration from `regs`.  Together: for ANY interleaving
of observe / unobserve calls of several handlers, expressions and roots with such
mutations, every removal of an active registration succeeds — whatever happened to
the object graph in between — and when all are removed the hooks hold nothing
(`specCnt h [] = 0`). -/

theorem C09_register_under_invariant (h : Heap) (H : Hooks) (regs : List Reg) (r : Reg)
    (hinv : HooksEqReach h H regs) (hok : (addRemove h r.k false true r.g (some r.x) H).err = none) :
    HooksEqReach h (addRemove h r.k false true r.g (some r.x) H).H (r :: regs) := by
  obtain ⟨_, hc, hw⟩ := addRemove_add h r.k r.g true (some r.x) H hok
  refine ⟨hw hinv.1, ?_⟩
  intro o q
  rw [hc, hinv.2]
  simp [specCnt]; omega

theorem C09_unregister_under_invariant (h : Heap) (H : Hooks) (pre post : List Reg) (r : Reg)
    (hinv : HooksEqReach h H (pre ++ r :: post)) (hok : walkOk h true r.g (some r.x) = true) :
    (addRemove h r.k true true r.g (some r.x) H).err = none ∧
    HooksEqReach h (addRemove h r.k true true r.g (some r.x) H).H (pre ++ post) := by
  have hspec : ∀ o q, specCnt h (pre ++ r :: post) o q =
      specCnt h (pre ++ post) o q + cntItems (hookList h r.k true r.g (some r.x)) o q := by
    intro o q
    simp only [specCnt, List.map_append, List.map_cons, List.sum_append, List.sum_cons]
    omega
  have hle : ∀ o q, cntItems (hookList h r.k true r.g (some r.x)) o q ≤ cnt H o q := by
    intro o q; rw [hinv.2, hspec]; omega
  obtain ⟨e, c, w⟩ := addRemove_remove h r.k r.g true (some r.x) H hinv.1 hok hle
  refine ⟨e, w, ?_⟩
  intro o q
  have := c o q
  rw [hinv.2, hspec] at this
  omega

/-- with no registration left, nothing is held anywhere -/
theorem C09_nothing_left (h : Heap) (H : Hooks) (hinv : HooksEqReach h H []) : ∀ o q, cnt H o q = 0 := by
  intro o q; rw [hinv.2]; rfl

/-! ### one removal too many -/

/-- With nothing of handler key `k` held (in particular after `n` registrations and
`n` removals on objects that had none), a removal that owes at least one notifier
raises NotifierNotFound and leaves the hooks literally unchanged. -/
theorem C09_extra_remove (h : Heap) (k : HKey) (g : Graph) (x : W) (H : Hooks) (hw : WF H) (hn : NoKey H k)
    (hok : walkOk h true g x = true) (hne : (hookList h k true g x).isEmpty = false) :
    (addRemove h k true true g x H).H = H ∧
    (addRemove h k true true g x H).err = some .notifierNotFound := by
  obtain ⟨a, b⟩ := addRemove_rm_nokey h k g true x H hw hn hok
  exact ⟨a, by simpa [nnfUnless, hne] using b⟩

/-- … and that is the state `n` registrations followed by `n` removals produce. -/
theorem C09_extra_remove_after_balanced (h : Heap) (k : HKey) (g : Graph) (x : W) (H : Hooks) (n : Nat)
    (hw : WF H) (hn : NoKey H k) (hok : walkOk h true g x = true)
    (hne : (hookList h k true g x).isEmpty = false) :
    let H' := (regN h k true g x n (regN h k false g x n H).H).H
    (addRemove h k true true g x H').H = H' ∧ (addRemove h k true true g x H').err = some .notifierNotFound := by
  obtain ⟨e1, c1, w1⟩ := C09_counted_adds h k g x hok n H hw
  obtain ⟨e2, c2, w2⟩ := C09_counted_removes h k g x hok n _ (fun o q => cnt H o q) n (Nat.le_refl _) w1 c1
  have hn' : NoKey (regN h k true g x n (regN h k false g x n H).H).H k := by
    intro o q hq
    rw [c2]; simp [hn o q hq]
  exact C09_extra_remove h k g x _ w2 hn' hok hne

/-! ### failure atomicity

Since fix 4ea62e3 there is ONE undo log per outermost call: nested walks (children,
extra graphs) and all graphs of an expression record into it, and the owner rolls
everything back.  The clause is proved at full strength, for registration and for
removal, wherever in the walk the exception is raised and however many sibling
subtrees or graphs had completed.  (Before the fix it was false — findings F4, F4b,
F4c; their histories are kept as regression cases below and in the corpus of
harness/props/c09.py.) -/

/-- A call of `add_or_remove_notifiers` (registration or removal) that raises leaves
every count — reference counts of user notifiers, numbers of maintainers, at every
observable — exactly as it was. -/
theorem C09_failure_atomic (h : Heap) (k : HKey) (rm : Bool) (g : Graph) (x : W) (H : Hooks) (hw : WF H)
    (he : (addRemove h k rm true g x H).err ≠ none) :
    (∀ o q, cnt (addRemove h k rm true g x H).H o q = cnt H o q) ∧ WF (addRemove h k rm true g x H).H :=
  addRemove_atomic h k g rm true x H hw he

/-- The same for `HasTraits.observe(handler, expression, remove=…)` as a whole: an
expression compiling to several graphs is applied with one shared log, so a failure
in a later graph also takes back the earlier ones (a compile error touches nothing). -/
theorem C09_failure_atomic_observe (h : Heap) (handler : Nat) (root : Id) (rm : Bool) (e : Expr) (H : Hooks)
    (hw : WF H) (he : (observe h handler root rm e H).err ≠ none) :
    (∀ o q, cnt (observe h handler root rm e H).H o q = cnt H o q) ∧ WF (observe h handler root rm e H).H :=
  observe_atomic h handler root rm e H hw he

/-- … and for the calls the maintainers make while the object graph changes (they
are outermost calls too): whatever a maintainer's failed walk touched is restored. -/
theorem C09_failure_atomic_any_call (h : Heap) (k : HKey) (rm extra : Bool) (g : Graph) (x : W) (H : Hooks)
    (hw : WF H) (he : (addRemove h k rm extra g x H).err ≠ none) :
    ∀ o q, cnt (addRemove h k rm extra g x H).H o q = cnt H o q :=
  (addRemove_atomic h k g rm extra x H hw he).1

/-! #### regression: the former negation witnesses

F4:  `P(children=[Child(), Bad()]).observe(h, 'children.items.name')`;
F4b: `obj.observe(h, '[name, nosuch]')`. -/

def fld (n : Name) (v : Val) : Field := ⟨n, false, .val .none, v, .equality⟩

/-- object 0: `kids = [1, 2]` (list cell 100); object 1 has trait 8 (`name`), object 2 has not. -/
def f4Heap : Heap :=
  [(0, .inst [fld nKids (.ref 100), fld nTraitAdded .unset]),
   (1, .inst [fld 8 .unset, fld nTraitAdded .unset]),
   (2, .inst [fld nTraitAdded .unset]),
   (100, .list [1, 2])]

/-- `kids.items.name` with `items` = ListItemObserver. -/
def f4Graph : Graph :=
  .node (.named nKids true false) [.node (.listItems true false) [.node (.named 8 true false) []]]

def f4Key : HKey := ⟨0, 0⟩

/-- The registration raises ValueError after the first child's subtree completed,
and the handler is NOT left attached to the first child's trait any more. -/
example :
    (addRemove f4Heap f4Key false true f4Graph (some 0) Hooks.empty).err = some .valueError ∧
    cnt (addRemove f4Heap f4Key false true f4Graph (some 0) Hooks.empty).H (.trait 1 8) (.user f4Key) = 0 := by
  decide

/-- `[name, nosuch]` on object 1: the first graph registers, the second raises, nothing stays. -/
example :
    (observe f4Heap 0 1 false (.parallel (.single (.named 8 true false)) (.single (.named 11 true false)))
      Hooks.empty).err = some .valueError ∧
    cnt (observe f4Heap 0 1 false (.parallel (.single (.named 8 true false)) (.single (.named 11 true false)))
      Hooks.empty).H (.trait 1 8) (.user ⟨0, 1⟩) = 0 := by
  decide

/-! ### weakness -/

/-- Nothing is ever delivered to a handler key whose target or bound-method owner
is flagged dead. -/
theorem C09_dead_gets_nothing (E : Env) (st : St) (m : Mutation) :
    ∀ d ∈ (mutate E st m).delivered, E.dead d.key = false :=
  fun d hd => (mutate_delivered E st m d hd).2

/-- When every notifier's weak reference is dead, a change delivers nothing,
raises nothing and touches no hook (`skip` = the mutation itself is ill-formed). -/
theorem C09_dead_is_mute (E : Env) (st : St) (m : Mutation) (hall : ∀ o, AllDead E (st.H.get o)) :
    (mutate E st m).delivered = [] ∧ (mutate E st m).st.H = st.H ∧
      ((mutate E st m).err = none ∨ mutate E st m = skip st) :=
  mutate_allDead E st m hall

/-! ### non-vacuity -/

/-- `child.value` on `a.child = b`: the hypotheses of the theorems above hold on a
concrete state, and the registration owes something. -/
def exHeap : Heap :=
  [(0, .inst [fld nValue .unset, fld nChild (.ref 1), fld nTraitAdded .unset]),
   (1, .inst [fld nValue (.int 3), fld nChild .none, fld nTraitAdded .unset])]
def exGraph : Graph := .node (.named nChild true false) [.node (.named nValue true false) []]

example : walkOk exHeap true exGraph (some 0) = true ∧
    (hookList exHeap f4Key true exGraph (some 0)).isEmpty = false ∧
    (addRemove exHeap f4Key false true exGraph (some 0) Hooks.empty).err = none ∧
    cnt (regN exHeap f4Key false exGraph (some 0) 2 Hooks.empty).H (.trait 1 nValue) (.user f4Key) = 2 := by decide

example : WF Hooks.empty ∧ NoKey Hooks.empty f4Key :=
  ⟨WF_empty, by intro o q _; rfl⟩

/-- the hypothesis of `C09_failure_atomic` is satisfiable on non-empty hooks: a second,
failing registration on top of a successful one restores the first one's counts -/
example :
    let H1 := (addRemove exHeap f4Key false true exGraph (some 0) Hooks.empty).H
    (addRemove exHeap f4Key false true (.node (.named nChild true false) [.node (.named nValue true false) [],
        .node (.named 11 true false) []]) (some 0) H1).err = some .valueError ∧
    cnt (addRemove exHeap f4Key false true (.node (.named nChild true false) [.node (.named nValue true false) [],
        .node (.named 11 true false) []]) (some 0) H1).H (.trait 1 nValue) (.user f4Key) = 1 := by
  decide

/-- a dead handler with live hooks: the hypothesis of `C09_dead_is_mute` on a non-empty state -/
example : ∀ o, AllDead { deadH := fun _ => true }
    ((addRemove exHeap f4Key false true exGraph (some 0) Hooks.empty).H.get o) := by
  intro o n _
  simp [Env.dead]

end TraitsVerif.Props.C09
