/-
C09 — observe registration is counted, reversible, failure-atomic and weak.

Model: TraitsVerif/Model/{Heap,ObsGraph,Hooks,Register,Maintain}.lean (transcription
of traits/observation/_observe.py, _trait_event_notifier.py,
_observer_change_notifier.py, observe.py; tied to the code by the correspondence
check of harness/props/c09.py).  Notation: `cnt H o q` = number of registrations
equal to notifier key `q` held at observable `o` (reference counts of equal user
notifiers, number of equal maintainers); `hookList h k true g x` = the notifiers a
registration of graph `g` on object `x` owes in heap `h`, computed from scratch.

Only property theorems and their non-vacuity examples live here; lemmas are in
TraitsVerif/Lemmas/Obs*.lean.
-/
import TraitsVerif.Lemmas.ObsAtomic
import TraitsVerif.Lemmas.ObsMutate
import TraitsVerif.Lemmas.ObsInv
import TraitsVerif.Lemmas.ObsSource
import TraitsVerif.Lemmas.NotifierSource
import TraitsVerif.Lemmas.NodeSource
namespace TraitsVerif.Props.C09
open TraitsVerif TraitsVerif.Model.Obs

/-- `n` calls of `add_or_remove_notifiers` with the same arguments, stopping at the
first one that raises. -/
def regN (h : Heap) (k : HKey) (rm : Bool) (g : Graph) (x : W) : Nat → Hooks → Res
  | 0, H => ⟨H, none⟩
  | n + 1, H =>
    let r := addRemove h k rm true g x H
    match r.err with
    | some e => ⟨r.H, some e⟩
    | none => regN h k rm g x n r.H

/-! ### SOURCE TIE: the registration model is the interpreted source

`Generated.observeProg` is the ObsL term (Model/ObsL.lean) that harness/translate/obsl.py produces, on
every run, from the text of traits/observation/_observe.py (`add_or_remove_notifiers`,
`undo_processed`, `_AddOrRemoveNotifier.__init__/__call__/_add_or_remove_*`) and of `apply_observers`
(observe.py).  `ObsL.run h observeProg n callee (hooks, logs)` interprets a call with fuel `n`
(`need g` = three calls per level of the graph).  The theorems hold for EVERY heap, graph, handler
key, hooks and undo log. -/

open TraitsVerif.Model.ObsL in
/-- A nested `add_or_remove_notifiers(object=x, graph=g, …, _processed=<shared log>)` of the source —
steps in order (reversed for removal), recursion into children and extra graphs, everything
recorded in the one shared log, no roll-back of its own — is `Model.Obs.walk`. -/
theorem C09_walk_is_source (h : Heap) (k : HKey) (g : Graph) (rm extra : Bool) (x : W) (H : Hooks)
    (log : List Item) (n : Nat) (hn : need g ≤ n) :
    run h Generated.observeProg n (.fn "add_or_remove_notifiers" (arnArgs x (gvOf extra g) k rm)) (H, [log]) =
      (((walk h k rm extra g x H log).1, [(walk h k rm extra g x H log).2.1]),
        flowOf (walk h k rm extra g x H log).2.2) :=
  run_arn_walk h k g rm extra x H log n hn

open TraitsVerif.Model.ObsL in
/-- An outermost `add_or_remove_notifiers(object=x, graph=g, …)` of the source (it owns the undo log:
on an exception `undo_processed` then re-raise, else clear) is `Model.Obs.addRemove`: same hooks,
same exception, log left empty. -/
theorem C09_register_is_source (h : Heap) (k : HKey) (g : Graph) (rm extra : Bool) (x : W) (H : Hooks)
    (hw : WF H) (n : Nat) (hn : need g ≤ n) :
    run h Generated.observeProg n (.fn "add_or_remove_notifiers" (ownArgs x (gvOf extra g) k rm)) (H, []) =
      (((addRemove h k rm extra g x H).H, [[]]), flowOf (addRemove h k rm extra g x H).err) := by
  rw [run_arn_outer h k g rm extra x H n hn, finishS_eq_finish rm H _ (walk_did h k g rm extra x H [] hw)]
  rfl

open TraitsVerif.Model.ObsL in
/-- `apply_observers(object, graphs, handler, dispatcher=…, remove=…)` of the source (one undo log for
all graphs, rolled back on any exception) is `Model.Obs.applyObservers`: same hooks, same exception. -/
theorem C09_apply_observers_is_source (h : Heap) (handler : Nat) (root : Id) (rm : Bool) (gs : List Graph)
    (H : Hooks) (hw : WF H) (n : Nat) (hn : needL gs ≤ n) :
    (run h Generated.observeProg (n + 1) (.fn "apply_observers"
      [some (.obj (some root)), some (.graphs (gs.map .plain)), some (.handler handler), some .disp, some (.bool rm)])
        (H, [])).1.1 = (applyObservers h ⟨handler, root⟩ rm (some root) gs H).H ∧
    (run h Generated.observeProg (n + 1) (.fn "apply_observers"
      [some (.obj (some root)), some (.graphs (gs.map .plain)), some (.handler handler), some .disp, some (.bool rm)])
        (H, [])).2 = flowOf (applyObservers h ⟨handler, root⟩ rm (some root) gs H).err := by
  rw [run_apply_observers h handler root rm gs H n hn _ rfl]
  have := finishA_eq_finish rm H _ (applyObserversW_did h ⟨handler, root⟩ rm (some root) gs H [] hw)
  exact ⟨this.1, by unfold applyObservers; rw [← this.2]; rfl⟩

open TraitsVerif.Model.ObsL in
/-- the DEFAULTS of the signatures are part of the translated term: `apply_observers(…)` with `remove` omitted (as
`HasTraits.observe`'s caller `_init_trait_observers` does) registers (`remove=False`), and an outermost
`add_or_remove_notifiers` is one with `_processed` omitted (`_processed=None`: it owns the undo log) —
`C09_register_is_source` is stated with that argument omitted. -/
theorem C09_defaults_are_source (h : Heap) (handler : Nat) (root : Id) (gs : List Graph)
    (H : Hooks) (hw : WF H) (n : Nat) (hn : needL gs ≤ n) :
    (run h Generated.observeProg (n + 1) (.fn "apply_observers"
      [some (.obj (some root)), some (.graphs (gs.map .plain)), some (.handler handler), some .disp, none])
        (H, [])).1.1 = (applyObservers h ⟨handler, root⟩ false (some root) gs H).H ∧
    (Generated.observeProg.fns.lookup "add_or_remove_notifiers").map (·.defaults) =
      some [none, none, none, none, none, none, some .noneLit] := by
  refine ⟨?_, rfl⟩
  rw [run_apply_observers h handler root false gs H n hn _ rfl]
  exact (finishA_eq_finish false H _ (applyObserversW_did h ⟨handler, root⟩ false (some root) gs H [] hw)).1

/-! #### the reference counting of the two notifier classes

`Generated.userAddProg`, `userRemoveProg`, `maintAddProg`, `maintRemoveProg` are the NotL terms
(Model/NotL.lean) harness/translate/notl.py produces from the text of `TraitEventNotifier.add_to /
remove_from` (_trait_event_notifier.py) and `ObserverChangeNotifier.add_to / remove_from`
(_observer_change_notifier.py): the loop `for other in notifiers[:]: if self.equals(other): …`, the
`_ref_count` arithmetic, `break` / `else: raise`.  `userEqualsRows` / `maintEqualsRows` are the
conjunctions of the two `equals` methods as (field, operator) rows.  `add_to` / `remove_from` of the
registration walk above (`addItem` / `removeItem`, Model/Hooks.lean) are these functions. -/

open TraitsVerif.Model.NotL in
/-- counted registration, at one observable: `userAdd` (bump the first equal notifier's `_ref_count`, else
append with count 1) and `userRemove` (count 1: remove from the list; else decrement; none equal:
NotifierNotFound) are the interpreted `TraitEventNotifier.add_to` / `remove_from`, for every list. -/
theorem C09_refcount_is_source (k : HKey) (ns : List Notifier) :
    runMethod NKey.equals Generated.userAddProg (.user k) ns = some (userAdd k ns, none) ∧
    runMethod NKey.equals Generated.userRemoveProg (.user k) ns =
      some (match userRemove k ns with
        | .ok l => (l, none)
        | .error e => (ns, some e)) :=
  ⟨userAdd_is_source k ns, userRemove_is_source k ns⟩

open TraitsVerif.Model.NotL in
/-- `maintAdd` (append) and `maintRemove` (remove the first equal one, else NotifierNotFound) are the
interpreted `ObserverChangeNotifier.add_to` / `remove_from`. -/
theorem C09_maintainer_list_is_source (mk : MKind) (g : Graph) (k : HKey) (ns : List Notifier) :
    runMethod NKey.equals Generated.maintAddProg (.maint mk g k) ns = some (maintAdd mk g k ns, none) ∧
    runMethod NKey.equals Generated.maintRemoveProg (.maint mk g k) ns =
      some (match maintRemove mk g k ns with
        | .ok l => (l, none)
        | .error e => (ns, some e)) :=
  ⟨maintAdd_is_source mk g k ns, maintRemove_is_source mk g k ns⟩

open TraitsVerif.Model.NotL in
/-- `NKey.equals` (what "the same registration" means) is the conjunction the two `equals` methods of the
source spell out — handler `==`, target `is`, dispatcher `==` (+ observer_handler `is`, graph `==` for
maintainers) — whatever `==` of two distinct targets is (`eqo`): comparing targets with `==` breaks it. -/
theorem C09_equals_is_source (eqo : Id → Id → Bool) (a b : NKey) :
    rowsHold eqo (equalsRows a) a b = some (NKey.equals a b) :=
  equals_is_source eqo a b

open TraitsVerif.Model.ObsL in
/-- Failure atomicity stated about the INTERPRETED SOURCE: if the translated
`add_or_remove_notifiers` raises — at any node of the walk, for registration or removal — every
count is what it was before the call. -/
theorem C09_failure_atomic_source (h : Heap) (k : HKey) (g : Graph) (rm extra : Bool) (x : W) (H : Hooks)
    (hw : WF H) (n : Nat) (hn : need g ≤ n) (e : Exc)
    (hr : (run h Generated.observeProg n (.fn "add_or_remove_notifiers" (ownArgs x (gvOf extra g) k rm)) (H, [])).2
      = .raised e) :
    ∀ o q, cnt (run h Generated.observeProg n
      (.fn "add_or_remove_notifiers" (ownArgs x (gvOf extra g) k rm)) (H, [])).1.1 o q = cnt H o q := by
  rw [C09_register_is_source h k g rm extra x H hw n hn] at hr ⊢
  have he : (addRemove h k rm extra g x H).err ≠ none := by
    intro h0
    rw [h0] at hr
    simp [flowOf] at hr
  exact (addRemove_atomic h k g rm extra x H hw he).1

/-! ### add / remove are inverse, counted -/

/-- Removing right after a successful registration (heap unchanged) does not raise
and restores every count: per observable, reference counts and numbers of
maintainers are what they were. -/
theorem C09_add_remove_inverse (h : Heap) (k : HKey) (g : Graph) (x : W) (H : Hooks) (hw : WF H)
    (hadd : (addRemove h k false true g x H).err = none) :
    (addRemove h k true true g x (addRemove h k false true g x H).H).err = none ∧
    (∀ o q, cnt (addRemove h k true true g x (addRemove h k false true g x H).H).H o q = cnt H o q) ∧
    WF (addRemove h k true true g x (addRemove h k false true g x H).H).H := by
  obtain ⟨hok, hc, hwf⟩ := addRemove_add h k g true x H hadd
  obtain ⟨e, c, w⟩ := addRemove_remove h k g true x _ (hwf hw) hok (fun o q => by rw [hc]; omega)
  refine ⟨e, ?_, w⟩
  intro o q
  have := c o q
  rw [hc] at this
  omega

open TraitsVerif.Model.ObsL in
/-- Reversibility stated about the INTERPRETED SOURCE: a registration that does not raise followed by
the removal (heap unchanged) does not raise and restores every count. -/
theorem C09_add_remove_inverse_source (h : Heap) (k : HKey) (g : Graph) (x : W) (H : Hooks) (hw : WF H)
    (n : Nat) (hn : need g ≤ n)
    (hadd : (run h Generated.observeProg n
      (.fn "add_or_remove_notifiers" (ownArgs x (.plain g) k false)) (H, [])).2 = .next) :
    let H1 := (run h Generated.observeProg n (.fn "add_or_remove_notifiers" (ownArgs x (.plain g) k false)) (H, [])).1.1
    (run h Generated.observeProg n (.fn "add_or_remove_notifiers" (ownArgs x (.plain g) k true)) (H1, [])).2 = .next ∧
    ∀ o q, cnt (run h Generated.observeProg n
      (.fn "add_or_remove_notifiers" (ownArgs x (.plain g) k true)) (H1, [])).1.1 o q = cnt H o q := by
  have e1 := C09_register_is_source h k g false true x H hw n hn
  simp only [gvOf, if_true] at e1
  rw [e1] at hadd ⊢
  have hok : (addRemove h k false true g x H).err = none := by
    cases hx : (addRemove h k false true g x H).err with
    | none => rfl
    | some e => rw [hx] at hadd; simp [flowOf] at hadd
  have hw1 := addRemove_WF h k g false true x H hw
  have e2 := C09_register_is_source h k g true true x (addRemove h k false true g x H).H hw1 n hn
  simp only [gvOf, if_true] at e2
  simp only
  rw [e2]
  obtain ⟨a, b, _⟩ := C09_add_remove_inverse h k g x H hw hok
  exact ⟨by simp only [a]; rfl, b⟩

/-- `n` registrations add `n` times the from-scratch items (reference counting:
an equal user notifier is counted, not duplicated). -/
theorem C09_counted_adds (h : Heap) (k : HKey) (g : Graph) (x : W) (hok : walkOk h true g x = true) :
    ∀ (n : Nat) (H : Hooks), WF H →
      (regN h k false g x n H).err = none ∧
      (∀ o q, cnt (regN h k false g x n H).H o q = cnt H o q + n * cntItems (hookList h k true g x) o q) ∧
      WF (regN h k false g x n H).H := by
  intro n
  induction n with
  | zero => intro H hw; exact ⟨rfl, by simp [regN], hw⟩
  | succ n ih =>
    intro H hw
    have he := addRemove_add_ok h k g true x H hok
    obtain ⟨_, hc, hwf⟩ := addRemove_add h k g true x H he
    obtain ⟨e2, c2, w2⟩ := ih _ (hwf hw)
    simp only [regN, he]
    refine ⟨e2, ?_, w2⟩
    intro o q
    rw [c2, hc, Nat.succ_mul]; omega

/-- `m ≤ n` removals after `n` registrations never raise and leave `n - m`
registrations' worth of notifiers. -/
theorem C09_counted_removes (h : Heap) (k : HKey) (g : Graph) (x : W) (hok : walkOk h true g x = true) :
    ∀ (m : Nat) (H : Hooks) (base : Observable → NKey → Nat) (n : Nat), m ≤ n → WF H →
      (∀ o q, cnt H o q = base o q + n * cntItems (hookList h k true g x) o q) →
      (regN h k true g x m H).err = none ∧
      (∀ o q, cnt (regN h k true g x m H).H o q = base o q + (n - m) * cntItems (hookList h k true g x) o q) ∧
      WF (regN h k true g x m H).H := by
  intro m
  induction m with
  | zero => intro H base n _ hw hc; exact ⟨rfl, by simpa [regN] using hc, hw⟩
  | succ m ih =>
    intro H base n hmn hw hc
    obtain ⟨n', rfl⟩ : ∃ n', n = n' + 1 := ⟨n - 1, by omega⟩
    have hle : ∀ o q, cntItems (hookList h k true g x) o q ≤ cnt H o q := by
      intro o q; rw [hc, Nat.succ_mul]; omega
    obtain ⟨e, c, w⟩ := addRemove_remove h k g true x H hw hok hle
    have hc' : ∀ o q, cnt (addRemove h k true true g x H).H o q =
        base o q + n' * cntItems (hookList h k true g x) o q := by
      intro o q
      have := c o q
      rw [hc, Nat.succ_mul] at this
      omega
    obtain ⟨e2, c2, w2⟩ := ih _ base n' (by omega) w hc'
    simp only [regN, e]
    refine ⟨e2, ?_, w2⟩
    intro o q
    rw [c2]
    have : n' + 1 - (m + 1) = n' - m := by omega
    rw [this]

/-- Registering `n` times and unregistering `n` times leaves every object as
before: no call raises and every count is back. -/
theorem C09_n_adds_n_removes (h : Heap) (k : HKey) (g : Graph) (x : W) (H : Hooks) (n : Nat) (hw : WF H)
    (hok : walkOk h true g x = true) :
    (regN h k false g x n H).err = none ∧
    (regN h k true g x n (regN h k false g x n H).H).err = none ∧
    (∀ o q, cnt (regN h k true g x n (regN h k false g x n H).H).H o q = cnt H o q) := by
  obtain ⟨e1, c1, w1⟩ := C09_counted_adds h k g x hok n H hw
  obtain ⟨e2, c2, _⟩ := C09_counted_removes h k g x hok n _ (fun o q => cnt H o q) n (Nat.le_refl _) w1 c1
  refine ⟨e1, e2, ?_⟩
  intro o q
  rw [c2]; simp

/-- Interleaving with OTHER handlers / expressions / roots: any successful call
for another registration shifts every count by that registration's own items, so
counts of different registrations add up independently (the general form behind
"any order of removal"). -/
theorem C09_calls_commute_on_counts (h : Heap) (k k' : HKey) (g g' : Graph) (x x' : W) (H : Hooks)
    (h1 : (addRemove h k false true g x H).err = none)
    (h2 : (addRemove h k' false true g' x' (addRemove h k false true g x H).H).err = none) :
    ∀ o q, cnt (addRemove h k' false true g' x' (addRemove h k false true g x H).H).H o q =
      cnt H o q + cntItems (hookList h k true g x) o q + cntItems (hookList h k' true g' x') o q := by
  intro o q
  rw [(addRemove_add h k' g' true x' _ h2).2.1, (addRemove_add h k g true x H h1).2.1]

/-! ### interleaving with mutations: registration and removal move the refinement invariant

`HooksEqReach h H regs` (hooks = from-scratch hooks of all active registrations `regs` in
the current heap) is preserved by the mutations of `C08_hooks_eq_reach_partial`; the two
theorems below add / remove a registration from `regs`.  Together: for ANY interleaving
of observe / unobserve calls of several handlers, expressions and roots with such
mutations, every removal of an active registration succeeds — whatever happened to
the object graph in between — and when all are removed the hooks hold nothing
(`specCnt h [] = 0`). -/

theorem C09_register_under_invariant (h : Heap) (H : Hooks) (regs : List Reg) (r : Reg)
    (hinv : HooksEqReach h H regs) (hok : (addRemove h r.k false true r.g (some r.x) H).err = none) :
    HooksEqReach h (addRemove h r.k false true r.g (some r.x) H).H (r :: regs) := by
  obtain ⟨_, hc, hw⟩ := addRemove_add h r.k r.g true (some r.x) H hok
  refine ⟨hw hinv.1, ?_⟩
  intro o q
  rw [hc, hinv.2]
  simp [specCnt]; omega

theorem C09_unregister_under_invariant (h : Heap) (H : Hooks) (pre post : List Reg) (r : Reg)
    (hinv : HooksEqReach h H (pre ++ r :: post)) (hok : walkOk h true r.g (some r.x) = true) :
    (addRemove h r.k true true r.g (some r.x) H).err = none ∧
    HooksEqReach h (addRemove h r.k true true r.g (some r.x) H).H (pre ++ post) := by
  have hspec : ∀ o q, specCnt h (pre ++ r :: post) o q =
      specCnt h (pre ++ post) o q + cntItems (hookList h r.k true r.g (some r.x)) o q := by
    intro o q
    simp only [specCnt, List.map_append, List.map_cons, List.sum_append, List.sum_cons]
    omega
  have hle : ∀ o q, cntItems (hookList h r.k true r.g (some r.x)) o q ≤ cnt H o q := by
    intro o q; rw [hinv.2, hspec]; omega
  obtain ⟨e, c, w⟩ := addRemove_remove h r.k r.g true (some r.x) H hinv.1 hok hle
  refine ⟨e, w, ?_⟩
  intro o q
  have := c o q
  rw [hinv.2, hspec] at this
  omega

/-- with no registration left, nothing is held anywhere -/
theorem C09_nothing_left (h : Heap) (H : Hooks) (hinv : HooksEqReach h H []) : ∀ o q, cnt H o q = 0 := by
  intro o q; rw [hinv.2]; rfl

/-! ### one removal too many -/

/-- With nothing of handler key `k` held (in particular after `n` registrations and
`n` removals on objects that had none), a removal that owes at least one notifier
raises NotifierNotFound and leaves the hooks literally unchanged. -/
theorem C09_extra_remove (h : Heap) (k : HKey) (g : Graph) (x : W) (H : Hooks) (hw : WF H) (hn : NoKey H k)
    (hok : walkOk h true g x = true) (hne : (hookList h k true g x).isEmpty = false) :
    (addRemove h k true true g x H).H = H ∧
    (addRemove h k true true g x H).err = some .notifierNotFound := by
  obtain ⟨a, b⟩ := addRemove_rm_nokey h k g true x H hw hn hok
  exact ⟨a, by simpa [nnfUnless, hne] using b⟩

/-- … and that is the state `n` registrations followed by `n` removals produce. -/
theorem C09_extra_remove_after_balanced (h : Heap) (k : HKey) (g : Graph) (x : W) (H : Hooks) (n : Nat)
    (hw : WF H) (hn : NoKey H k) (hok : walkOk h true g x = true)
    (hne : (hookList h k true g x).isEmpty = false) :
    let H' := (regN h k true g x n (regN h k false g x n H).H).H
    (addRemove h k true true g x H').H = H' ∧ (addRemove h k true true g x H').err = some .notifierNotFound := by
  obtain ⟨e1, c1, w1⟩ := C09_counted_adds h k g x hok n H hw
  obtain ⟨e2, c2, w2⟩ := C09_counted_removes h k g x hok n _ (fun o q => cnt H o q) n (Nat.le_refl _) w1 c1
  have hn' : NoKey (regN h k true g x n (regN h k false g x n H).H).H k := by
    intro o q hq
    rw [c2]; simp [hn o q hq]
  exact C09_extra_remove h k g x _ w2 hn' hok hne


/-! #### the counted / reversible / one-too-many clauses about the INTERPRETED SOURCE -/

/-- `n` calls of the translated `add_or_remove_notifiers` (outermost, same arguments), stopping at the first
one that does not return normally: the hooks and how the last call ended. -/
def regNS (h : Heap) (k : HKey) (rm : Bool) (g : Graph) (x : W) (fuel : Nat) : Nat → Hooks → Hooks × Model.ObsL.Flow
  | 0, H => (H, .next)
  | n + 1, H =>
    let r := Model.ObsL.run h Generated.observeProg fuel
      (.fn "add_or_remove_notifiers" (Model.ObsL.ownArgs x (.plain g) k rm)) (H, [])
    match r.2 with
    | .next => regNS h k rm g x fuel n r.1.1
    | f => (r.1.1, f)

open TraitsVerif.Model.ObsL in
theorem regNS_eq_regN (h : Heap) (k : HKey) (rm : Bool) (g : Graph) (x : W) (fuel : Nat) (hf : need g ≤ fuel) :
    ∀ (n : Nat) (H : Hooks), WF H →
      regNS h k rm g x fuel n H = ((regN h k rm g x n H).H, flowOf (regN h k rm g x n H).err) := by
  intro n
  induction n with
  | zero => intro H _; rfl
  | succ n ih =>
    intro H hw
    have e := C09_register_is_source h k g rm true x H hw fuel hf
    simp only [gvOf, if_true] at e
    simp only [regNS, regN, e]
    cases hx : (addRemove h k rm true g x H).err with
    | some ex => simp [flowOf]
    | none =>
      simp only [flowOf]
      exact ih _ (addRemove_WF h k g rm true x H hw)

open TraitsVerif.Model.ObsL in
/-- COUNTED / REVERSIBLE about the interpreted source: `n` registrations then `n` removals by the translated
`add_or_remove_notifiers` all return normally and leave every count as before any registration. -/
theorem C09_n_adds_n_removes_source (h : Heap) (k : HKey) (g : Graph) (x : W) (H : Hooks) (n : Nat) (hw : WF H)
    (hok : walkOk h true g x = true) (fuel : Nat) (hf : need g ≤ fuel) :
    (regNS h k false g x fuel n H).2 = .next ∧
    (regNS h k true g x fuel n (regNS h k false g x fuel n H).1).2 = .next ∧
    (∀ o q, cnt (regNS h k true g x fuel n (regNS h k false g x fuel n H).1).1 o q = cnt H o q) := by
  obtain ⟨e1, e2, c⟩ := C09_n_adds_n_removes h k g x H n hw hok
  obtain ⟨_, _, w1⟩ := C09_counted_adds h k g x hok n H hw
  rw [regNS_eq_regN h k false g x fuel hf n H hw]
  simp only
  rw [regNS_eq_regN h k true g x fuel hf n _ w1]
  simp only [e1, e2, flowOf]
  exact ⟨trivial, trivial, c⟩

open TraitsVerif.Model.ObsL in
/-- ONE REMOVAL TOO MANY about the interpreted source: with nothing of this handler registered, the translated
removal raises NotifierNotFound and leaves the hooks exactly as they were. -/
theorem C09_extra_remove_source (h : Heap) (k : HKey) (g : Graph) (x : W) (H : Hooks) (hw : WF H) (hn : NoKey H k)
    (hok : walkOk h true g x = true) (hne : (hookList h k true g x).isEmpty = false) (fuel : Nat)
    (hf : need g ≤ fuel) :
    run h Generated.observeProg fuel (.fn "add_or_remove_notifiers" (ownArgs x (.plain g) k true)) (H, []) =
      ((H, [[]]), .raised .notifierNotFound) := by
  have e := C09_register_is_source h k g true true x H hw fuel hf
  simp only [gvOf, if_true] at e
  obtain ⟨a, b⟩ := C09_extra_remove h k g x H hw hn hok hne
  rw [e, a, b]
  rfl

/-! ### failure atomicity

Since fix 4ea62e3 there is ONE undo log per outermost call: nested walks (children,
extra graphs) and all graphs of an expression record into it, and the owner rolls
everything back.  The clause is proved at full strength, for registration and for
removal, wherever in the walk the exception is raised and however many sibling
subtrees or graphs had completed.  (Before the fix it was false — findings F4, F4b,
F4c; their histories are kept as regression cases below and in the corpus of
harness/props/c09.py.) -/

/-- A call of `add_or_remove_notifiers` (registration or removal) that raises leaves
every count — reference counts of user notifiers, numbers of maintainers, at every
observable — exactly as it was. -/
theorem C09_failure_atomic (h : Heap) (k : HKey) (rm : Bool) (g : Graph) (x : W) (H : Hooks) (hw : WF H)
    (he : (addRemove h k rm true g x H).err ≠ none) :
    (∀ o q, cnt (addRemove h k rm true g x H).H o q = cnt H o q) ∧ WF (addRemove h k rm true g x H).H :=
  addRemove_atomic h k g rm true x H hw he

/-- The same for `HasTraits.observe(handler, expression, remove=…)` as a whole: an
expression compiling to several graphs is applied with one shared log, so a failure
in a later graph also takes back the earlier ones (a compile error touches nothing). -/
theorem C09_failure_atomic_observe (h : Heap) (handler : Nat) (root : Id) (rm : Bool) (e : Expr) (H : Hooks)
    (hw : WF H) (he : (observe h handler root rm e H).err ≠ none) :
    (∀ o q, cnt (observe h handler root rm e H).H o q = cnt H o q) ∧ WF (observe h handler root rm e H).H :=
  observe_atomic h handler root rm e H hw he

/-- … and for the calls the maintainers make while the object graph changes (they
are outermost calls too): whatever a maintainer's failed walk touched is restored. -/
theorem C09_failure_atomic_any_call (h : Heap) (k : HKey) (rm extra : Bool) (g : Graph) (x : W) (H : Hooks)
    (hw : WF H) (he : (addRemove h k rm extra g x H).err ≠ none) :
    ∀ o q, cnt (addRemove h k rm extra g x H).H o q = cnt H o q :=
  (addRemove_atomic h k g rm extra x H hw he).1

/-! #### regression: the former negation witnesses

F4:  `P(children=[Child(), Bad()]).observe(h, 'children.items.name')`;
F4b: `obj.observe(h, '[name, nosuch]')`. -/

def fld (n : Name) (v : Val) : Field := ⟨n, false, .val .none, v, .equality⟩

/-- object 0: `kids = [1, 2]` (list cell 100); object 1 has trait 8 (`name`), object 2 has not. -/
def f4Heap : Heap :=
  [(0, .inst [fld nKids (.ref 100), fld nTraitAdded .unset]),
   (1, .inst [fld 8 .unset, fld nTraitAdded .unset]),
   (2, .inst [fld nTraitAdded .unset]),
   (100, .list [1, 2])]

/-- `kids.items.name` with `items` = ListItemObserver. -/
def f4Graph : Graph :=
  .node (.named nKids true false) [.node (.listItems true false) [.node (.named 8 true false) []]]

def f4Key : HKey := ⟨0, 0⟩

/-- The registration raises ValueError after the first child's subtree completed,
and the handler is NOT left attached to the first child's trait any more. -/
example :
    (addRemove f4Heap f4Key false true f4Graph (some 0) Hooks.empty).err = some .valueError ∧
    cnt (addRemove f4Heap f4Key false true f4Graph (some 0) Hooks.empty).H (.trait 1 8) (.user f4Key) = 0 := by
  decide

/-- `[name, nosuch]` on object 1: the first graph registers, the second raises, nothing stays. -/
example :
    (observe f4Heap 0 1 false (.parallel (.single (.named 8 true false)) (.single (.named 11 true false)))
      Hooks.empty).err = some .valueError ∧
    cnt (observe f4Heap 0 1 false (.parallel (.single (.named 8 true false)) (.single (.named 11 true false)))
      Hooks.empty).H (.trait 1 8) (.user ⟨0, 1⟩) = 0 := by
  decide

/-! ### weakness -/

/-- Nothing is ever delivered to a handler key whose target or bound-method owner
is flagged dead. -/
theorem C09_dead_gets_nothing (E : Env) (st : St) (m : Mutation) :
    ∀ d ∈ (mutate E st m).delivered, E.dead d.key = false :=
  fun d hd => (mutate_delivered E st m d hd).2

/-- When every notifier's weak reference is dead, a change delivers nothing,
raises nothing and touches no hook (`skip` = the mutation itself is ill-formed). -/
theorem C09_dead_is_mute (E : Env) (st : St) (m : Mutation) (hall : ∀ o, AllDead E (st.H.get o)) :
    (mutate E st m).delivered = [] ∧ (mutate E st m).st.H = st.H ∧
      ((mutate E st m).err = none ∨ mutate E st m = skip st) :=
  mutate_allDead E st m hall

/-! ### non-vacuity -/

/-- `child.value` on `a.child = b`: the hypotheses of the theorems above hold on a
concrete state, and the registration owes something. -/
def exHeap : Heap :=
  [(0, .inst [fld nValue .unset, fld nChild (.ref 1), fld nTraitAdded .unset]),
   (1, .inst [fld nValue (.int 3), fld nChild .none, fld nTraitAdded .unset])]
def exGraph : Graph := .node (.named nChild true false) [.node (.named nValue true false) []]

example : walkOk exHeap true exGraph (some 0) = true ∧
    (hookList exHeap f4Key true exGraph (some 0)).isEmpty = false ∧
    (addRemove exHeap f4Key false true exGraph (some 0) Hooks.empty).err = none ∧
    cnt (regN exHeap f4Key false exGraph (some 0) 2 Hooks.empty).H (.trait 1 nValue) (.user f4Key) = 2 := by decide

/-- non-vacuity of the source tie: the INTERPRETED source (not the model) run on the F4 witness raises
ValueError after the first child's subtree had been hooked, and leaves no hook; on `exHeap` it returns
normally and the user notifier's count on `1.value` is 1; the fuel bound of the theorems is concrete. -/
example :
    Model.ObsL.need f4Graph = 12 ∧ Model.ObsL.need exGraph = 9 ∧
    (Model.ObsL.run f4Heap Generated.observeProg 12 (.fn "add_or_remove_notifiers"
      (Model.ObsL.ownArgs (some 0) (.plain f4Graph) f4Key false)) (Hooks.empty, [])).2 = .raised .valueError ∧
    cnt (Model.ObsL.run f4Heap Generated.observeProg 12 (.fn "add_or_remove_notifiers"
      (Model.ObsL.ownArgs (some 0) (.plain f4Graph) f4Key false)) (Hooks.empty, [])).1.1 (.trait 1 8) (.user f4Key) = 0 ∧
    (Model.ObsL.run exHeap Generated.observeProg 9 (.fn "add_or_remove_notifiers"
      (Model.ObsL.ownArgs (some 0) (.plain exGraph) f4Key false)) (Hooks.empty, [])).2 = .next ∧
    cnt (Model.ObsL.run exHeap Generated.observeProg 9 (.fn "add_or_remove_notifiers"
      (Model.ObsL.ownArgs (some 0) (.plain exGraph) f4Key false)) (Hooks.empty, [])).1.1 (.trait 1 nValue) (.user f4Key) = 1 := by
  decide

/-- the interpreted source counts: two registrations put reference count 2 on `1.value`, two removals take it
back to 0, a third removal raises NotifierNotFound -/
example :
    cnt (regNS exHeap f4Key false exGraph (some 0) 9 2 Hooks.empty).1 (.trait 1 nValue) (.user f4Key) = 2 ∧
    (regNS exHeap f4Key true exGraph (some 0) 9 2 (regNS exHeap f4Key false exGraph (some 0) 9 2 Hooks.empty).1).2 = .next ∧
    cnt (regNS exHeap f4Key true exGraph (some 0) 9 2
      (regNS exHeap f4Key false exGraph (some 0) 9 2 Hooks.empty).1).1 (.trait 1 nValue) (.user f4Key) = 0 ∧
    (regNS exHeap f4Key true exGraph (some 0) 9 3
      (regNS exHeap f4Key false exGraph (some 0) 9 2 Hooks.empty).1).2 = .raised .notifierNotFound := by
  decide

example : WF Hooks.empty ∧ NoKey Hooks.empty f4Key :=
  ⟨WF_empty, by intro o q _; rfl⟩

/-- the hypothesis of `C09_failure_atomic` is satisfiable on non-empty hooks: a second,
failing registration on top of a successful one restores the first one's counts -/
example :
    let H1 := (addRemove exHeap f4Key false true exGraph (some 0) Hooks.empty).H
    (addRemove exHeap f4Key false true (.node (.named nChild true false) [.node (.named nValue true false) [],
        .node (.named 11 true false) []]) (some 0) H1).err = some .valueError ∧
    cnt (addRemove exHeap f4Key false true (.node (.named nChild true false) [.node (.named nValue true false) [],
        .node (.named 11 true false) []]) (some 0) H1).H (.trait 1 nValue) (.user f4Key) = 1 := by
  decide

/-- a dead handler with live hooks: the hypothesis of `C09_dead_is_mute` on a non-empty state -/
example : ∀ o, AllDead { deadH := fun _ => true }
    ((addRemove exHeap f4Key false true exGraph (some 0) Hooks.empty).H.get o) := by
  intro o n _
  simp [Env.dead]

/-! ### the IObserver node interface is the interpreted source (harness/translate/nodel.py, Model/NodeL.lean) -/

section NodeInterface
open TraitsVerif.Model TraitsVerif.Generated TraitsVerif.Lemmas

/-- The IObserver interface of a graph node — `iter_observables`, `iter_objects`, `notify`,
`iter_extra_graphs`, `get_notifier`, `get_maintainer` of NamedTraitObserver, ListItemObserver,
DictItemObserver, SetItemObserver and FilteredTraitObserver (`NodeSource.classOf ob` selects the
translated methods of the class of `ob`) — as modelled by `observables`, `objects`,
`Observer.notify`, `extraObservables`, `NKey.user`, `NKey.maint ob.mkind` IS the NodeL
interpretation of the source text (Generated/NodeProg.lean), for every heap, object, observer,
graph, handler and target.  `iter_objects` of the filtered observer reads `__dict__` by name:
the listed trait names must be distinct (`traits()` is a dict). -/
theorem C09_node_interface_is_source (h : Heap) (ob : Observer) (x : W) (g c : Graph) (hd : Nat) (t : Id) :
    observables h ob x
      = NodeL.runIterObservables NodeProg.table h (NodeSource.classOf ob).iterObservables ob x ∧
    (NodeSource.FieldsDistinct h x ∨ (∀ f nt, ob ≠ .filtered f nt) →
      objects h ob x = NodeL.runIterObjects NodeProg.table h (NodeSource.classOf ob).iterObjects ob x) ∧
    NodeL.selfField (.ob ob) .notify = .ok (.bool ob.notify) ∧
    NodeL.runIterExtraGraphs NodeProg.table h (NodeSource.classOf ob).iterExtraGraphs ob g
      = .ok (NodeSource.extrasOf ob g) ∧
    (extraObservables h ob x =
      match NodeSource.extraOptional ob with
      | some opt => NodeSource.traitAddedObservables h opt x
      | none => .ok []) ∧
    NodeL.runGetNotifier NodeProg.table h (NodeSource.classOf ob).getNotifier ob hd (some t)
      = .ok (.notifier (.user ⟨hd, t⟩) (NodeSource.eventFactoryOf ob) (NodeSource.preventUserOf ob)) ∧
    NodeL.runGetMaintainer NodeProg.table h (NodeSource.classOf ob).getMaintainer ob c hd (some t)
      = .ok (.notifier (.maint ob.mkind c ⟨hd, t⟩) (NodeSource.eventFactoryOf ob) (.constLam false)) :=
  NodeSource.node_interface_is_source h ob x g c hd t

/-- The trusted runtime of the `_observe.py` interpreter (Model/ObsL.lean `GV.*` on a compiled
graph) is that interpretation: `GV.iterExtraGraphs` yields one `trait_added` graph exactly when
the interpreted `iter_extra_graphs` yields one (its child is the graph itself), and
`GV.getNotifier` / `GV.getMaintainer` build the keys of the interpreted constructors. -/
theorem C09_node_runtime_is_source (h : Heap) (g c : Graph) (hd : Nat) (t : Id) :
    (ObsL.GV.iterExtraGraphs (.plain g)).length
      = (NodeSource.extrasOf g.ob g).length ∧
    ObsL.hasExtra g.ob = (NodeSource.extraOptional g.ob).isSome ∧
    (∀ e ∈ NodeSource.extrasOf g.ob g, NodeL.Extra.child e = g) ∧
    (∀ k, ObsL.GV.getNotifier (.plain g) hd (some t) = some k →
      ∃ ef pe, NodeL.runGetNotifier NodeProg.table h (NodeSource.classOf g.ob).getNotifier g.ob hd (some t)
        = .ok (.notifier k ef pe)) ∧
    (∀ k, ObsL.GV.getMaintainer (.plain g) (.plain c) hd (some t) = some k →
      ∃ ef pe, NodeL.runGetMaintainer NodeProg.table h (NodeSource.classOf g.ob).getMaintainer g.ob c hd (some t)
        = .ok (.notifier k ef pe)) := by
  refine ⟨?_, ?_, ?_, ?_, ?_⟩
  · cases hg : g.ob <;> simp [ObsL.GV.iterExtraGraphs, ObsL.hasExtra, NodeSource.extrasOf,
      NodeSource.extraMatch, NodeSource.extraOptional, hg]
  · cases g.ob <;> rfl
  · intro e he
    cases hg : g.ob <;> simp [NodeSource.extrasOf, NodeSource.extraMatch, NodeSource.extraOptional, hg] at he <;>
      simp [he]
  · intro k hk
    simp [ObsL.GV.getNotifier] at hk
    subst hk
    exact ⟨_, _, NodeSource.get_notifier h g.ob hd t⟩
  · intro k hk
    simp [ObsL.GV.getMaintainer] at hk
    subst hk
    exact ⟨_, _, NodeSource.get_maintainer h g.ob c hd t⟩

/-- `match_func` of the two extra graphs: `name == self.name`, resp. the filter. -/
theorem C09_match_func_is_source (h : Heap) (n m : Name) (nt o : Bool) (f : Filter) (fl : Field) :
    NodeL.applyMatch NodeProg.table h (.lam 1 2 (.eq (.var 1) (.selfF .name)) (.ob (.named n nt o))) m fl
      = .ok (.bool (m == n)) ∧
    NodeL.applyMatch NodeProg.table h (.listed f) m fl = .ok (.bool (f.matches fl)) :=
  ⟨NodeSource.match_named h n nt o m fl, NodeSource.match_filtered h f m fl⟩

/-- `__init__` of the five classes stores every argument in the slot of the same name. -/
theorem C09_node_init_is_source :
    NodeProg.namedInit = [(.name, "name"), (.notify, "notify"), (.optional, "optional")] ∧
    NodeProg.listItemsInit = [(.notify, "notify"), (.optional, "optional")] ∧
    NodeProg.dictItemsInit = [(.notify, "notify"), (.optional, "optional")] ∧
    NodeProg.setItemsInit = [(.notify, "notify"), (.optional, "optional")] ∧
    NodeProg.filteredInit = [(.notify, "notify"), (.filter, "filter")] :=
  NodeSource.init_rows

end NodeInterface

section TraitAddedNode
open TraitsVerif.Model TraitsVerif.Generated TraitsVerif.Lemmas

/-- The rows of the ObsL runtime for the extra graph (`GV.added g`: root `TraitAddedObserver`)
and for the graph its `observer_change_handler` walks (`GV.restricted (restrict g n)`: root
`_RestrictedNamedTraitObserver(n, g.node)`) are the NodeL interpretation of
_trait_added_observer.py (Generated/NodeProg.lean `added*` / `restricted*`), the observer being
built from the extra graph `e` that the interpreted `iter_extra_graphs` of `g.ob` yields.
Hypotheses: every instance has a `trait_added` trait (`hta`, true of every HasTraits); for the
restricted rows the named trait exists (`ht`: it has just been added when the handler runs —
the source yields `object._trait(name, 2)` unconditionally, the model checks). -/
theorem C09_trait_added_node_is_source (h : Heap) (g c : Graph) (x : W) (n : Name) (hd : Nat) (t : Id)
    (e : NodeL.Extra) (he : e ∈ NodeSource.extrasOf g.ob g)
    (hta : ∀ fs, h.at x = .inst fs → (findField fs nTraitAdded).isSome) :
    -- TraitAddedObserver
    NodeL.runNotify NodeProg.table h NodeProg.addedNotify (.added e.m e.optional)
      = .ok (.bool (ObsL.GV.notify (.added g))) ∧
    NodeL.runIterObservablesS NodeProg.table h NodeProg.addedIterObservables (.added e.m e.optional) x
      = ObsL.GV.iterObservables h (.added g) x ∧
    NodeL.runIterObjectsS NodeProg.table h NodeProg.addedIterObjects (.added e.m e.optional) x
      = ObsL.GV.iterObjects h (.added g) x ∧
    (NodeL.runIterExtraGraphsS NodeProg.table h NodeProg.addedIterExtraGraphs (.added e.m e.optional) g).map List.length
      = .ok (ObsL.GV.iterExtraGraphs (.added g)).length ∧
    ObsL.GV.children (.added g) = [.plain e.child] ∧
    (∀ k, ObsL.GV.getMaintainer (.added g) (.plain c) hd (some t) = some k →
      ∃ ef pe, NodeL.runRetS NodeProg.table h NodeProg.addedGetMaintainer (.added e.m e.optional)
        ((((NodeL.Env.empty.upd 0 (.graph c)).upd 1 (.handler hd)).upd 2 (.w (some t))).upd 3 .dispatcher)
        = .ok (.notifier k ef pe)) ∧
    -- match_func / prevent_event: `addedMatches`
    (∀ (o : Id) (fs : List Field) (fl : Field), h.get o = .inst fs → findField fs n = some fl →
      NodeL.applyMatch NodeProg.table h e.m n fl = .ok (.bool (addedMatches h g o (.name n)))) ∧
    -- _RestrictedNamedTraitObserver(n, g.node), children = g.children: `restrict g n`
    NodeL.runNotify NodeProg.table h NodeProg.restrictedNotify (.restricted n g.ob)
      = .ok (.bool (ObsL.GV.notify (.restricted (restrict g n)))) ∧
    ObsL.GV.children (.restricted (restrict g n)) = ObsL.GV.children (.plain g) ∧
    (hasTrait h x n = true →
      NodeL.runIterObservablesS NodeProg.table h NodeProg.restrictedIterObservables (.restricted n g.ob) x
        = ObsL.GV.iterObservables h (.restricted (restrict g n)) x ∧
      NodeL.runIterObjectsS NodeProg.table h NodeProg.restrictedIterObjects (.restricted n g.ob) x
        = ObsL.GV.iterObjects h (.restricted (restrict g n)) x) ∧
    (NodeL.runIterExtraGraphsS NodeProg.table h NodeProg.restrictedIterExtraGraphs (.restricted n g.ob) g).map List.length
      = .ok (ObsL.GV.iterExtraGraphs (.restricted (restrict g n))).length ∧
    (∀ k, ObsL.GV.getNotifier (.restricted (restrict g n)) hd (some t) = some k →
      ∃ ef pe, NodeSource.runTailS h NodeProg.restrictedGetNotifier (.restricted n g.ob)
          (((NodeL.Env.empty.upd 0 (.handler hd)).upd 1 (.w (some t))).upd 2 .dispatcher)
        = .ok (.notifier k ef pe)) ∧
    (∀ k, ObsL.GV.getMaintainer (.restricted (restrict g n)) (.plain c) hd (some t) = some k →
      ∃ ef pe, NodeSource.runTailS h NodeProg.restrictedGetMaintainer (.restricted n g.ob)
          ((((NodeL.Env.empty.upd 0 (.graph c)).upd 1 (.handler hd)).upd 2 (.w (some t))).upd 3 .dispatcher)
        = .ok (.notifier k ef pe)) := by
  -- the extra graph exists only for named / filtered roots
  have hopt : NodeSource.extraOptional g.ob = some e.optional ∧ e.child = g ∧ g.ob.mkind = .trait ∧
      NodeSource.extraMatch g.ob = some e.m := by
    cases hg : g.ob <;>
      simp [NodeSource.extrasOf, NodeSource.extraMatch, NodeSource.extraOptional, hg] at he <;>
      simp [he, NodeSource.extraOptional, NodeSource.extraMatch, Observer.mkind]
  obtain ⟨ho, hc, hmk, hm⟩ := hopt
  refine ⟨?_, ?_, ?_, ?_, ?_, ?_, ?_, ?_, ?_, ?_, ?_, ?_, ?_⟩
  · simpa [ObsL.GV.notify] using NodeSource.added_notify h e.m e.optional
  · rw [NodeSource.added_observables h e.m e.optional x hta]
    simp [ObsL.GV.iterObservables, NodeSource.extraObservables_eq, ho]
  · simpa [ObsL.GV.iterObjects] using (NodeSource.added_restricted_empty h e.m e.optional n g.ob x g).1
  · rw [(NodeSource.added_restricted_empty h e.m e.optional n g.ob x g).2.1]; rfl
  · simp [ObsL.GV.children, hc]
  · intro k hk
    simp [ObsL.GV.getMaintainer] at hk
    subst hk
    exact ⟨_, _, NodeSource.added_get_maintainer h e.m e.optional c hd t⟩
  · intro o fs fl ho' hf
    cases hg : g.ob with
    | named n' nt o'' =>
      simp [NodeSource.extraMatch, hg] at hm
      rw [← hm, NodeSource.match_named]
      simp [addedMatches, hg]
    | filtered f nt =>
      simp [NodeSource.extraMatch, hg] at hm
      rw [← hm, NodeSource.match_filtered]
      simp [addedMatches, hg, ho', hf]
    | listItems _ _ => simp [NodeSource.extraMatch, hg] at hm
    | dictItems _ _ => simp [NodeSource.extraMatch, hg] at hm
    | setItems _ _ => simp [NodeSource.extraMatch, hg] at hm
  · simpa [ObsL.GV.notify, restrict, Graph.ob, Observer.notify] using NodeSource.restricted_notify h n g.ob
  · simp [ObsL.GV.children, restrict, Graph.children]
  · intro ht
    refine ⟨?_, ?_⟩
    · simpa [ObsL.GV.iterObservables, restrict, Graph.ob] using NodeSource.restricted_observables h n g.ob x ht
    · simpa [ObsL.GV.iterObjects, restrict, Graph.ob] using NodeSource.restricted_objects h n g.ob x ht
  · rw [(NodeSource.added_restricted_empty h e.m e.optional n g.ob x g).2.2]; rfl
  · intro k hk
    simp [ObsL.GV.getNotifier] at hk
    subst hk
    exact ⟨_, _, NodeSource.restricted_get_notifier h n g.ob hd t⟩
  · intro k hk
    simp [ObsL.GV.getMaintainer, restrict, Graph.ob, Observer.mkind] at hk
    subst hk
    exact ⟨_, _, by simpa [hmk] using NodeSource.restricted_get_maintainer h n g.ob c hd t⟩

/-- `__init__` of the two classes stores every argument in the slot of the same name
(`_wrapped_observer` from `wrapped_observer`). -/
theorem C09_trait_added_init_is_source :
    NodeProg.addedInit = [(.matchFunc, "match_func"), (.optional, "optional")] ∧
    NodeProg.restrictedInit = [(.name, "name"), (.wrapped, "wrapped_observer")] :=
  NodeSource.added_init_rows

end TraitAddedNode

end TraitsVerif.Props.C09
