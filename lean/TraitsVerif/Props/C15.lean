import TraitsVerif.Model.DslGrammar
import TraitsVerif.Model.DslDenote
import TraitsVerif.Generated.Grammar
namespace TraitsVerif.Props.C15
open TraitsVerif TraitsVerif.Model.Dsl

theorem C15_grammar_is_modelled :
    Generated.grammarRules = grammar ∧ Generated.grammarTerminals = grammarTerminals ∧
    Generated.grammarImports = grammarImports ∧ Generated.grammarIgnore = grammarIgnore := by
  decide

end TraitsVerif.Props.C15
