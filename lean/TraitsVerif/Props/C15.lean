/-
C15 — the observe mini-language means what its grammar and tables say.
ONLY the property theorems (+ non-vacuity examples); every `theorem` here is a
proof obligation audited with `#print axioms`.  Definitions and helper lemmas:
Model/Dsl*.lean, Lemmas/Dsl*.lean.

`uw : Char → Bool` is Python's `\w` table on non-ASCII characters (a parameter:
every theorem holds for every table).  Texts are `List Char`.
-/
import TraitsVerif.Model.DslGrammar
import TraitsVerif.Model.DslDenote
import TraitsVerif.Model.DslMatch
import TraitsVerif.Generated.Grammar
import TraitsVerif.Generated.ParserTables
import TraitsVerif.Lemmas.DslLex
import TraitsVerif.Lemmas.DslGrammar
import TraitsVerif.Lemmas.DslParse
import TraitsVerif.Lemmas.DslCompile
import TraitsVerif.Lemmas.DslPy
import TraitsVerif.Lemmas.DslEq
namespace TraitsVerif.Props.C15
open TraitsVerif TraitsVerif.Model.Dsl

/-! ## the grammar file is the grammar that is modelled -/

/-- The rules, terminals, imports and `%ignore` read from the working tree's
`_dsl_grammar.lark` are the ones written down in Model/DslGrammar.lean (and
transcribed as `Cst`/`shape`, DslSyntax.lean).  A change to the .lark file
changes `Generated.grammarRules` and this stops checking. -/
theorem C15_grammar_is_modelled :
    Generated.grammarRules = grammar ∧ Generated.grammarTerminals = grammarTerminals ∧
    Generated.grammarImports = grammarImports ∧ Generated.grammarIgnore = grammarIgnore := by
  decide

/-- What actually runs is `_generated_parser.py`, generated from the .lark file
by `etstool.py generate-parser`; it carries its own copy of the grammar (the
DATA / MEMO literals).  That embedded copy — read from the working tree on every
run by harness/translate/parsertables.py — IS the grammar of `_dsl_grammar.lark`:
the same rules with the same alternatives in the same order and the same `?`
(expand1) flags, each literal a filtered-out string terminal, NAME the same
regex and kept in the tree, Lark's `common.WS` the only other regex terminal and
the only ignored one, all priorities 0, no flags, start symbol `start`, an LALR
parser with the contextual lexer.  (Not covered: the LALR state table computed
from these rules — tied by the exhaustive short-string correspondence.) -/
theorem C15_parser_tables_are_grammar :
    Generated.parserRules = Generated.grammarRules ∧
    Generated.parserRegexTerminals = ("WS", "(?:[ \t\x0c\r\n])+") :: Generated.grammarTerminals ∧
    Generated.parserLiteralTerminals.map (·.2) = ["items", "+", "*", ".", ":", "[", "]", ","] ∧
    Generated.parserIgnore = Generated.grammarIgnore ∧
    Generated.parserStart = ["start"] ∧
    Generated.parserKind = ("lalr", "contextual", false, false, 0) := by
  decide

/-- The derivation trees of the model (`Cst` with a `shape`) are exactly the
derivations of `start` in the grammar data read from the file: a token string
is derived by the rules of `_dsl_grammar.lark` iff it is the token string of a tree. -/
theorem C15_ast_iff_derivation (ts : List Tok) :
    Gen Generated.grammarRules "start" ts ↔ ∃ c, (shape c).isSome = true ∧ toks c = ts := by
  rw [C15_grammar_is_modelled.1]
  exact ⟨shape_of_gen, fun ⟨c, hc, e⟩ => e ▸ gen_of_shape c hc⟩

/-- The model's parser accepts exactly the token language of the grammar file. -/
theorem C15_parser_accepts_grammar_language (ts : List Tok) :
    (∃ c, parseToks ts = some c) ↔ Gen Generated.grammarRules "start" ts := by
  rw [C15_ast_iff_derivation]
  constructor
  · rintro ⟨c, h⟩
    obtain ⟨e, hs⟩ := parseToks_sound ts c h
    exact ⟨c, hs, e⟩
  · rintro ⟨c, hs, rfl⟩
    exact ⟨c, parseToks_toks c hs⟩

/-! ## acceptance: exactly the renderings of derivation trees -/

/-- Every rendering — any blanks before, between and after the tokens, any
redundant brackets (they are `group` nodes of the tree) — of every derivation
tree lexes and parses back to that tree.  Unbounded depth and length. -/
theorem C15_parse_render (uw : Char → Bool) (c : Cst) (s : List Char)
    (hg : grammatical uw c = true) (hs : IsRendering c s) :
    parseChars uw s = some c := by
  simp only [grammatical, Bool.and_eq_true] at hg
  simp [parseChars, lex_rendering uw c s hg.2 hs, parseToks_toks c hg.1]

/-- Whatever the parser accepts is a rendering of the derivation tree it
returns: nothing outside the grammar is accepted. -/
theorem C15_parse_sound (uw : Char → Bool) (s : List Char) (c : Cst)
    (h : parseChars uw s = some c) :
    grammatical uw c = true ∧ IsRendering c s := by
  simp only [parseChars, Option.bind_eq_some_iff] at h
  obtain ⟨ts, hl, hp⟩ := h
  obtain ⟨ht, hsh⟩ := parseToks_sound ts c hp
  obtain ⟨d, trail, hd, hws, htr, hs, hn⟩ := lex_sound uw s ts hl
  have := tokNames_toks uw c []
  simp only [List.append_nil, ht, hn, tokNames, Bool.and_true] at this
  exact ⟨by simp [grammatical, hsh, ← this], d, trail, by rw [hd, ht], hws, htr, hs⟩

/-- Acceptance is decided by the tree alone: a text is accepted iff it is a
rendering of some derivation tree (and then that tree is the result). -/
theorem C15_accepts_iff_rendering (uw : Char → Bool) (s : List Char) (c : Cst) :
    parseChars uw s = some c ↔ (grammatical uw c = true ∧ IsRendering c s) :=
  ⟨C15_parse_sound uw s c, fun h => C15_parse_render uw c s h.1 h.2⟩

/-- `*` is only accepted in a terminal position: in an accepted text no `*`
lies in the left operand of a `.`/`:` (nor, by the grammar file's
`"[" parallel "]"`, inside brackets). -/
theorem C15_star_terminal_only (uw : Char → Bool) (s : List Char) (c : Cst)
    (h : parseChars uw s = some c) : starOk c = true := by
  have hg := (C15_parse_sound uw s c h).1
  simp only [grammatical, Bool.and_eq_true] at hg
  obtain ⟨k, hk⟩ := Option.isSome_iff_exists.mp hg.1
  exact (shape_star c k hk).2

/-- the negative examples of the manual and of test_parsing are rejected -/
example : parseChars (fun _ => false) "*.name".toList = none := by decide
example : parseChars (fun _ => false) "[a, *].name".toList = none := by decide
example : parseChars (fun _ => false) "[a.*,b].c".toList = none := by decide
example : parseChars (fun _ => false) "a b".toList = none := by decide
/-- … and the positive ones accepted -/
example : parseChars (fun _ => false) "a:*,b".toList =
    some (.par (.ser (.trait ['a']) .quiet .any) (.trait ['b'])) := by decide
example : parseChars (fun _ => false) " [ a ,b ] . items :\t+m ".toList =
    some (.ser (.ser (.group (.par (.trait ['a']) (.trait ['b']))) .notify .items) .quiet
      (.metadata ['m'])) := by decide

/-- F17 (known finding): the manual permits `"[a.*, b.c]"`, the grammar file does not. -/
theorem C15_star_in_brackets_rejected :
    parseChars (fun _ => false) "[a.*, b.c]".toList = none ∧
    parseChars (fun _ => false) "[*]".toList = none := by decide

/-! ## meaning -/

/-- Compilation of a parsed expression never fails. -/
theorem C15_compile_total (c : Cst) (notify : Bool) (br : Forest) :
    create (toExpr c notify) br = .ok (createD (toExpr c notify) br) :=
  create_total _ br

/-- The compiled graphs denote exactly the documented observation pattern: the
set of their root-to-leaf node sequences is the set of documented paths
(`paths`, DslDenote.lean, written from the user manual) — same steps, same
notify and optional flags.  (A set: equal parallel branches below a series are
one branch since fix 4a0994c.) -/
theorem C15_meaning (c : Cst) (gs : Forest) (h : compileExpr (toExpr c true) = .ok gs) :
    ∀ p, p ∈ gs.paths ↔ p ∈ paths c := by
  intro p
  have e : gs = createD (toExpr c true) .nil := by
    have := create_total (toExpr c true) .nil
    simp only [compileExpr] at h
    rw [this] at h
    exact (Except.ok.inj h).symm
  subst e
  rw [mem_paths_createD]
  have := exprWords_toExpr c none
  simp only [notifies] at this
  rw [this]
  simp [paths, Forest.tails, crossO_nilpath]

/-- No node of the graphs as written has two equal children (no two parallel
branches below a series compile to equal graphs). -/
def NoDupBranches (c : Cst) : Prop := (createU (toExpr c true) .nil).wf = true

/-- … and when no two parallel branches below a series are equal, the compiled
graphs are the graphs as written and their paths are the documented paths as a
*list* (same order, same multiplicity). -/
theorem C15_meaning_exact (c : Cst) (gs : Forest) (h : compileExpr (toExpr c true) = .ok gs)
    (hd : NoDupBranches c) : gs = createU (toExpr c true) .nil ∧ gs.paths = paths c := by
  have e : gs = createD (toExpr c true) .nil := by
    have := create_total (toExpr c true) .nil
    simp only [compileExpr] at h
    rw [this] at h
    exact (Except.ok.inj h).symm
  rw [createD_eq_createU _ _ hd] at e
  subst e
  refine ⟨rfl, ?_⟩
  rw [paths_createU]
  have := exprWords_toExpr c none
  simp only [notifies] at this
  rw [this]
  simp [paths, Forest.tails, crossO_nilpath]

/-- Every node of every compiled graph has pairwise different children (the
invariant `ObserverGraph.__init__` enforces). -/
theorem C15_children_unique (c : Cst) (gs : Forest) (h : compileExpr (toExpr c true) = .ok gs) :
    gs.wf = true := by
  have := create_total (toExpr c true) .nil
  simp only [compileExpr] at h
  rw [this] at h
  rw [← Except.ok.inj h]
  exact wf_createD _ _ rfl

/-- A step notifies iff it is the last of its path or is followed by `.`
(through any brackets): the compiled paths are the words of the expression,
each atom flagged by the connector that follows it; in a word exactly the last
atom has no follower; the flag is "not followed by `:`". -/
theorem C15_notify_law (c : Cst) (gs : Forest) (h : compileExpr (toExpr c true) = .ok gs) :
    (∀ p, p ∈ gs.paths ↔ p ∈ (lin c none).map (·.map flag)) ∧
    (∀ w ∈ lin c none, ∃ (init : Word) (a : Atom),
        w = init ++ [(a, none)] ∧ ∀ x ∈ init, ∃ cn, x.2 = some cn) ∧
    (∀ (a : Atom) (f : Option Conn), (flag (a, f)).notifyFlag = decide (f ≠ some .quiet)) :=
  ⟨C15_meaning c gs h, lin_wordOk c none, flag_notify⟩

/-- the notify argument handed down by `_handle_series` is the law, at every
depth: compiling a sub-tree with `notify = (its follower is not ':')` gives its
words flagged by followers. -/
theorem C15_notify_propagation (c : Cst) (f : Option Conn) :
    exprWords (toExpr c (notifies f)) = (lin c f).map (·.map flag) :=
  exprWords_toExpr c f

/-- `items` stands for four alternatives — a trait named "items", dict items,
list items, set items — all optional, all with the notify flag of the position. -/
theorem C15_items (notify : Bool) (br : Forest) :
    create (toExpr .items notify) br =
      .ok (.cons (.named itemsKw notify true) br.dedupe
          (.cons (.dictItems notify true) br.dedupe
          (.cons (.listItems notify true) br.dedupe
          (.cons (.setItems notify true) br.dedupe .nil)))) ∧
    (∀ f, lin .items f =
      [[(.itemsTrait, f)], [(.dictItems, f)], [(.listItems, f)], [(.setItems, f)]]) ∧
    (∀ a f, (flag (a, f)).optionalFlag =
      (a == .itemsTrait || a == .dictItems || a == .listItems || a == .setItems)) := by
  refine ⟨?_, fun _ => rfl, flag_optional⟩
  rw [create_total]
  rfl

example : (compileChars (fun _ => false) "c:items.v".toList).map Forest.paths = .ok
    [[.named ['c'] false false, .named itemsKw true true, .named ['v'] true false],
     [.named ['c'] false false, .dictItems true true, .named ['v'] true false],
     [.named ['c'] false false, .listItems true true, .named ['v'] true false],
     [.named ['c'] false false, .setItems true true, .named ['v'] true false]] := by decide

/-! ## the list form of `observe` -/

/-- `HasTraits.observe(handler, [item, …])`, `@observe([…])`, `Property(observe=[…])`
("If this is a list, each item must be a string or an ObserverExpression"):
the list is compiled item by item.  It is rejected iff some item is rejected —
only a text that is not an expression *on its own* can be, always with
ValueError — and otherwise denotes the union of what its items denote. -/
theorem C15_list_form (uw : Char → Bool) (items : List Item) :
    ((∃ e, compileItems uw items = .error e) ↔
        ∃ it ∈ items, ∃ s, it = .text s ∧ parseChars uw s = none) ∧
    (∀ e, compileItems uw items = .error e → e = .valueError) ∧
    (∀ gs, compileItems uw items = .ok gs →
        ∀ p, p ∈ gs.paths ↔ ∃ it ∈ items, ∃ g, compileItem uw it = .ok g ∧ p ∈ g.paths) := by
  refine ⟨?_, ?_, compileItems_paths uw items⟩
  · rw [compileItems_error]
    constructor
    · rintro ⟨it, hit, e, he⟩
      obtain ⟨_, s, hs, hp⟩ := compileItem_error uw it e he
      exact ⟨it, hit, s, hs, hp⟩
    · rintro ⟨it, hit, s, rfl, hp⟩
      exact ⟨_, hit, .valueError, by simp [compileItem, compileChars, hp]⟩
  · intro e he
    -- the error of the list is the error of its first failing item; all are ValueError
    induction items with
    | nil => simp [compileItems] at he
    | cons a rest ih =>
      simp only [compileItems] at he
      cases ha : compileItem uw a with
      | error e1 =>
        rw [ha] at he; cases he
        exact (compileItem_error uw a e ha).1
      | ok g =>
        rw [ha] at he
        cases hr : compileItems uw rest with
        | error e2 => rw [hr] at he; cases he; exact ih hr
        | ok gs => rw [hr] at he; cases he

/-- `['child.value', '*']` is accepted (each item is an expression), `['[age', 'name]']` is
rejected (neither is) — the items are never pasted together. -/
example : (compileItems (fun _ => false) [.text "child.value".toList, .text "*".toList]).map
    (·.paths.length) = .ok 2 := by decide
example : compileItems (fun _ => false) [.text "[age".toList, .text "name]".toList] =
    .error .valueError := by decide

/-! ## the filter elements -/

/-- `+name` matches exactly the traits whose metadata `name` is not None —
a defined falsy value (False, 0, "") is metadata like any other. -/
theorem C15_metadata_means_not_none (m : Name) (t : TraitInfo) :
    ((Filter.metadata m).matches t = true ↔ t.get m ≠ .none) ∧
    (t.get m = .falsy → (Filter.metadata m).matches t = true) ∧
    (Filter.anytrait.matches t = true) := by
  refine ⟨by simp [Filter.matches], fun h => by simp [Filter.matches, h], rfl⟩

/-- The text `+name` compiles to one graph, attached on an object to exactly
its traits whose metadata `name` is not None. -/
theorem C15_plus_name_targets (uw : Char → Bool) (m : Name) (hv : validName uw m = true)
    (ts : List TraitInfo) :
    ∃ gs, compileChars uw ('+' :: m) = .ok gs ∧
      leafTargets gs ts = (ts.filter (fun t => t.get m != .none)).map (·.name) := by
  have hr : IsRendering (.metadata m) ('+' :: m) :=
    ⟨[([], .plus), ([], .name m)], [], rfl, by simp [allWs], rfl, by simp [renderD, Tok.text]⟩
  have hp := C15_parse_render uw (.metadata m) ('+' :: m) (by simp [grammatical, shape, namesOk, hv]) hr
  refine ⟨_, by simp only [compileChars, hp, compileExpr]; exact create_total _ _, ?_⟩
  simp only [toExpr, createD, Forest.dedupe, leafTargets, Forest.paths, Observer.targets,
    List.flatMap_cons, List.flatMap_nil, List.append_nil, List.getLast?_singleton]
  rfl

example : leafTargets (.cons (.named ['c'] false false) (.cons (.filtered true (.metadata ['s'])) .nil .nil) .nil)
    [⟨['o', 'n'], [(['s'], .truthy)]⟩, ⟨['o', 'f', 'f'], [(['s'], .falsy)]⟩, ⟨['n', 'o'], [(['s'], .none)]⟩,
     ⟨['p'], []⟩] = [['o', 'n'], ['o', 'f', 'f']] := by decide

/-! ## spellings -/

/-- Trees equal up to redundant brackets and re-association of `.`/`:` chains
and `,` lists compile to the same result (the same list of graphs, or the same
error) — below any branches, with any notify flag. -/
theorem C15_spelling_invariant {a b : Cst} (h : Cst.Equiv a b) :
    compileExpr (toExpr a true) = compileExpr (toExpr b true) :=
  create_equiv h true .nil

/-- … hence for texts: renderings (any blanks) of equivalent derivation trees
compile to equal graph lists, so removal by text matches registration by text. -/
theorem C15_spelling_invariant_text (uw : Char → Bool) {a b : Cst} (s₁ s₂ : List Char)
    (ha : grammatical uw a = true) (hb : grammatical uw b = true)
    (h₁ : IsRendering a s₁) (h₂ : IsRendering b s₂) (h : Cst.Equiv a b) :
    compileChars uw s₁ = compileChars uw s₂ := by
  simp [compileChars, C15_parse_render uw a s₁ ha h₁, C15_parse_render uw b s₂ hb h₂,
    C15_spelling_invariant h]

/-- Blanks and brackets that do not change the Lark tree (`?element` is inlined)
do not even change the ObserverExpression. -/
theorem C15_brackets_same_expression (p : Cst) (notify : Bool) :
    toExpr (.group p) notify = toExpr p notify := rfl

/-- parsing is a function of the text: two parses of one text are equal
(the caches of `parse`/`compile_str` are checked for mutation by the harness). -/
theorem C15_parse_deterministic (uw : Char → Bool) (s : List Char) (c₁ c₂ : Cst)
    (h₁ : parseChars uw s = some c₁) (h₂ : parseChars uw s = some c₂) : c₁ = c₂ := by
  rw [h₁] at h₂; exact Option.some.inj h₂

example : Cst.Equiv (.ser (.group (.ser (.trait ['a']) .quiet (.trait ['b']))) .notify (.trait ['c']))
    (.ser (.trait ['a']) .quiet (.group (.ser (.trait ['b']) .notify (.trait ['c'])))) :=
  .trans (.ser _ (.unbracket _) (.refl _))
    (.trans (.serAssoc _ _ _ _ _) (.ser _ (.refl _) (.symm (.unbracket _))))

/-! ## every grammar string compiles (F8, repaired by fix 4a0994c) -/

/-- **Acceptance at full strength**: every rendering of every derivation tree of
the grammar is accepted, compiles, and denotes the documented paths. -/
theorem C15_accepts_all (uw : Char → Bool) (c : Cst) (s : List Char)
    (hg : grammatical uw c = true) (hs : IsRendering c s) :
    ∃ gs, compileChars uw s = .ok gs ∧ ∀ p, p ∈ gs.paths ↔ p ∈ paths c := by
  have hc : compileExpr (toExpr c true) = .ok (createD (toExpr c true) .nil) :=
    create_total _ .nil
  exact ⟨_, by simp [compileChars, C15_parse_render uw c s hg hs, hc], C15_meaning c _ hc⟩

/-- … and the only rejection is that of the parser: `compile_str` raises
(ValueError) iff the text is not a rendering of a derivation tree. -/
theorem C15_rejects_iff_not_grammar (uw : Char → Bool) (s : List Char) :
    compileChars uw s = .error .valueError ↔ parseChars uw s = none := by
  simp only [compileChars]
  cases h : parseChars uw s with
  | none => simp
  | some c =>
    have := create_total (toExpr c true) .nil
    simp only [compileExpr] at this ⊢
    simp [this]

/-- the tree of `x.[a,a]` -/
def dupWitness : Cst :=
  .ser (.trait ['x']) .notify (.group (.par (.trait ['a']) (.trait ['a'])))

/-- Regression for F8 (these raised "Not all children are unique" before the
fix; replayed on the implementation by the corpus of c15.py): the duplicate
branch is kept once. -/
theorem C15_dup_accepted :
    parseChars (fun _ => false) "x.[a,a]".toList = some dupWitness ∧
    compileExpr (toExpr dupWitness true) =
      .ok (.cons (.named ['x'] true false) (.cons (.named ['a'] true false) .nil .nil) .nil) ∧
    (compileChars (fun _ => false) "x.[a.b,a.b]".toList).map Forest.paths =
      .ok [[.named ['x'] true false, .named ['a'] true false, .named ['b'] true false]] ∧
    (compileChars (fun _ => false) "x.[items, items]".toList).map (·.paths.length) = .ok 4 ∧
    (compileChars (fun _ => false) "x.[a.[b,c],a.[c,b]]".toList).map (·.paths.length) = .ok 2 := by
  decide

/-- the trees this matters for exist: `x.[a,a]` has duplicate branches, `foo:[bar,baz].items` has none;
duplicates that are not below a series were always accepted and stay two graphs (`a,a`). -/
example : ¬ NoDupBranches dupWitness := by unfold NoDupBranches; decide
example : NoDupBranches (.ser (.ser (.trait ['f']) .quiet
    (.group (.par (.trait ['b', 'a', 'r']) (.trait ['b', 'a', 'z'])))) .notify .items) := by
  unfold NoDupBranches; decide
example : (compileChars (fun _ => false) "a,a".toList).map (·.length) = .ok 2 := by decide
example : (compileChars (fun _ => false) "[a,a].b".toList).map (·.length) = .ok 2 := by decide

/-! ## the compiler model is the source

`Generated.dslProg` is the program that harness/translate/dslprog.py reads, on
every run, from the working tree's parsing.py (the `_handle_*` functions, the
dispatch dict of `_handle_tree`, `parse`, `compile_str`), expression.py (`then`,
`__or__`, `trait` / `metadata` / `match` / `anytrait` / `*_items`, the three
expression classes' `__init__` and `_create_graphs`, `_as_graphs`, `compile_expr`),
_observer_graph.py (`ObserverGraph.__init__`) and the observer / filter classes'
`__init__`; `DslPy.interp…` is its interpretation (Model/DslPy.lean). -/

/-- `_handle_tree(tree, notify)` of the source, run on the Lark tree of ANY
derivation tree (in a terminal position or not) with any notify flag, returns
the expression `toExpr` of the model — so every theorem above about `toExpr`
(notify law, `items`, brackets) is a theorem about the interpreted parsing.py. -/
theorem C15_toExpr_is_source (c : Cst) (t notify : Bool) :
    Model.DslPy.interpTree Generated.dslProg t c notify = .ok (.expr (toExpr c notify)) :=
  Model.DslPy.interpTree_eq c t notify

/-- `e._create_graphs(branches)` of the source (with `ObserverGraph.__init__`'s
uniqueness test and the de-duplication of fix 4a0994c) is `create` of the model,
for every expression and every list of branches. -/
theorem C15_create_is_source (e : Expr) (br : Forest) :
    Model.DslPy.interpCreate Generated.dslProg e br = Model.DslPy.liftRes .forest (create e br) :=
  Model.DslPy.interpCreate_eq e br

/-- `compile_expr(expr)` = `expr._as_graphs()` = `_create_graphs(branches=[])`. -/
theorem C15_compile_expr_is_source (e : Expr) :
    Model.DslPy.interpCompileExpr Generated.dslProg e = Model.DslPy.liftRes .forest (compileExpr e) :=
  Model.DslPy.interpCompileExpr_eq e

/-- **compile ≡ source**: `compile_str(text)` of the source — `parse` (LarkError
→ ValueError, `_handle_tree(tree, notify=True)`), then `compile_expr` — with the
model's parser standing for `_LARK_PARSER`, is `compileChars` of the model, for
every text.  With `C15_meaning`: the interpreted source denotes the documented paths. -/
theorem C15_compile_is_source (uw : Char → Bool) (s : List Char) :
    Model.DslPy.interpCompileStr Generated.dslProg uw s = Model.DslPy.liftRes .forest (compileChars uw s) :=
  Model.DslPy.interpCompileStr_eq uw s

/-- `join(e, e₁, …, eₙ)` of the source (`functools.reduce(lambda e1, e2: e1.then(e2), expressions)`,
for any number of arguments) is the left-nested series `((e.then(e₁)).then(e₂))…` — the same
expression as the text `e.e₁.….eₙ` up to the notify flags the caller chose; `join()` raises TypeError.
(`lru_cache` on `parse` / `compile_str` / `compile_expr` is transparent to all of these theorems: the
cached functions are functions of their argument (`C15_parse_deterministic`), keyed by the text /
by `__eq__`-`__hash__` of the expression (`C15_graph_eq_is_source`, `C15_hash_consistent`); that a
cached result is never handed out for another text is checked on the implementation (oracle
`cache-returns-other-pattern`).) -/
theorem C15_join_is_source (e : Expr) (es : List Expr) :
    Model.DslPy.interpJoin Generated.dslProg e es = .ok (.expr (es.foldl .series e)) ∧
    Model.DslPy.interpJoinL Generated.dslProg [] = .error (.exc "TypeError") :=
  ⟨Model.DslPy.interpJoin_eq e es, Model.DslPy.join_none⟩

/-! ## the equalities are the source

"Removal by text matches registration by text" rests on `==` of observers,
graphs and expressions.  `Generated.eqRows` / `hashRows` are the conjuncts of every
`__eq__` and the components of every `__hash__` of the observer, filter, graph
and expression classes, read from the working tree by harness/translate/eqrows.py;
`Model.DslEq.…` is what such rows mean (Model/DslEq.lean). -/

/-- The equalities the model uses — `==` of `Observer` and `Filter` (derived),
`Forest.setEq` / `Forest.graphEq` (`ObserverGraph.__eq__`: same node, same SET of
children, recursively) and `==` of `Expr` (the `parse(s) == parse(s')` of the
harness) — are the interpretation of the `__eq__` methods of the source. -/
theorem C15_graph_eq_is_source :
    (∀ f g : Filter, Model.DslEq.filterEq Generated.eqRows f g = (f == g)) ∧
    (∀ o o' : Observer, Model.DslEq.obsEq Generated.eqRows o o' = (o == o')) ∧
    (∀ d f1 f2, Model.DslEq.setEqI Generated.eqRows d f1 f2 = Forest.setEq d f1 f2) ∧
    (∀ o k o' k', Model.DslEq.graphEqI Generated.eqRows o k o' k' = Forest.graphEq o k o' k') ∧
    (∀ e e' : Expr, Model.DslEq.exprEqI Generated.eqRows e e' = (e == e')) :=
  ⟨Model.DslEq.filterEq_eq, Model.DslEq.obsEq_eq, Model.DslEq.setEqI_eq, Model.DslEq.graphEqI_eq,
   fun e e' => Model.DslEq.exprEqI_eq e e'⟩

/-- Every `__hash__` hashes exactly what its `__eq__` compares (class name, the
same attributes, `frozenset` where `__eq__` compares as sets): equal objects hash
equal, so `set` / `dict.fromkeys` / the lru caches see `__eq__`'s classes — the
"equal elements are one element" reading of `Forest.dedupe`. -/
theorem C15_hash_consistent :
    Generated.hashRows = Generated.eqRows ∧ Generated.anytraitFilterIsFunction = true := by
  decide

example : Model.DslEq.graphEqI Generated.eqRows (.named ['x'] true false)
      (.cons (.named ['a'] true false) .nil (.cons (.named ['b'] true false) .nil .nil))
    (.named ['x'] true false)
      (.cons (.named ['b'] true false) .nil (.cons (.named ['a'] true false) .nil .nil)) = true := by decide
example : Model.DslEq.obsEq Generated.eqRows (.listItems true true) (.dictItems true true) = false := by decide

/-- the interpreted source on concrete texts: rejected by the parser; duplicate branch kept once -/
example : Model.DslPy.interpCompileStr Generated.dslProg (fun _ => false) "a.[b,b]:".toList =
    .error (.exc "ValueError") := by kernel_rfl
example : Model.DslPy.interpCompileStr Generated.dslProg (fun _ => false) "x.[a,a]".toList =
    .ok (.forest (.cons (.named ['x'] true false) (.cons (.named ['a'] true false) .nil .nil) .nil)) := by
  kernel_rfl

end TraitsVerif.Props.C15
