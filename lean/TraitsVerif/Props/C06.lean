/-
Property C06 — TraitDict refines dict and its change events are faithful deltas.
Only the property theorems and their non-vacuity examples live here; the model
is `Model/TraitDict.lean`, helper lemmas are in `Lemmas/Map*.lean`.

All theorems are universally quantified over the key and value types, the
contents `d` (any size), the operation and its arguments, and the two validators
`kv vv : Nat → α → Except Exc α` (arbitrary partial functions of call ordinal and
argument: coercing, rejecting, failing at the k-th call, non-idempotent).
-/
import TraitsVerif.Lemmas.MapStep
import TraitsVerif.Generated.Mutators
import TraitsVerif.Generated.DictEvent
import TraitsVerif.Lemmas.PyLMapDict
import TraitsVerif.Lemmas.PyLObj
import TraitsVerif.Generated.CtorCopy
import TraitsVerif.Model.CtorCopyAssumed
import TraitsVerif.Lemmas.PyLCtorDict
namespace TraitsVerif.Props.C06
open TraitsVerif TraitsVerif.Py TraitsVerif.Model.Map
open TraitsVerif.Py.Dict (get? contains set erase update ofPairs Op Ret WF)

variable {K V : Type} [DecidableEq K]

/-! ### Refinement -/

/-- **C06_refines.**  One `TraitDict` method call yields exactly the contents
(insertion order included), the return value, and on failure the exception class
that the builtin dict yields on the validated arguments.  For `setdefault` this
needs raw-key containment to agree with validated-key containment (finding F13);
every other operation needs no hypothesis. -/
theorem C06_refines (kv : Callback K K) (vv : Callback V V) (d : Dict K V) (op : Op K V)
    (h : SetdefaultHyp kv d op) : Refines kv vv d op :=
  step_refines kv vv d op h

/-- The hypothesis of `C06_refines` is vacuous for every operation but `setdefault`. -/
theorem C06_refines_unconditional (kv : Callback K K) (vv : Callback V V) (d : Dict K V) (op : Op K V)
    (h : ∀ k v, op ≠ .setdefault k v) : Refines kv vv d op := by
  apply step_refines
  cases op <;> simp_all [SetdefaultHyp]

/-- `str(x)` on the harness atoms (`Py.KAtom.strV`). -/
local notation "tostr" => KAtom.strV

/-- **Negation witness (F13).**  `TraitDict({'1': '2'}, key_validator=str,
value_validator=str).setdefault(1, 4)`: the model (like the code) overwrites to
`{'1': '4'}` and returns `'4'`; the builtin dict on the validated arguments keeps
`'2'`.  So the hypothesis of `C06_refines` cannot be dropped. -/
theorem C06_refines_fails_at :
    ¬ Refines tostr tostr [(KAtom.str 1, KAtom.str 2)] (.setdefault (.int 1) (.int 4)) := by
  unfold Refines; decide

/-- The full-strength refinement statement (`Model.Map.C06RefinesFull`) is false of
the code as it stands. -/
theorem C06_refines_full_fails : ¬ C06RefinesFull KAtom KAtom := by
  intro h
  exact C06_refines_fails_at (h tostr tostr _ _ (by decide))

/-- What the model computes on the F13 input (the oracle replays the same input
on the real code). -/
theorem C06_F13_model_behaviour :
    TraitDict.step tostr tostr [(KAtom.str 1, KAtom.str 2)] (.setdefault (.int 1) (.int 4)) =
      .ok { items := [(.str 1, .str 4)], ret := .val (.str 4),
            event := some ⟨[], [], [(.str 1, .str 2)]⟩ } := by decide

/-- Non-vacuity of `C06_refines`: a coercing validator, a `setdefault` whose
validated key is new, and an `update` with a duplicate key after coercion. -/
example : SetdefaultHyp tostr [(KAtom.str 1, KAtom.str 2)] (.setdefault (.int 3) (.int 4)) ∧
    TraitDict.step tostr tostr [(KAtom.str 1, KAtom.str 2)] (.setdefault (.int 3) (.int 4)) =
      .ok { items := [(.str 1, .str 2), (.str 3, .str 4)], ret := .val (.str 4),
            event := some ⟨[], [(.str 3, .str 4)], []⟩ } ∧
    TraitDict.step tostr tostr [(KAtom.str 1, KAtom.str 2)]
        (.update [(.int 5, .int 6), (.int 1, .int 7), (.str 5, .int 8)]) =
      .ok { items := [(.str 1, .str 7), (.str 5, .str 8)], ret := .none,
            event := some ⟨[], [(.str 5, .str 8)], [(.str 1, .str 2)]⟩ } := by
  refine ⟨?_, by decide, by decide⟩
  intro k' hk; cases hk; decide

/-- `TraitDict(pairs, key_validator, value_validator)` is `dict` of the validated pairs. -/
theorem C06_init (kv : Callback K K) (vv : Callback V V) (ps : List (K × V)) :
    TraitDict.init kv vv ps = (valPairs kv vv 0 ps).map ofPairs ∧
    ∀ d, TraitDict.init kv vv ps = .ok d → WF d := by
  constructor
  · unfold TraitDict.init; cases valPairs kv vv 0 ps <;> rfl
  · intro d h
    unfold TraitDict.init at h
    split at h <;> cases h
    exact Dict.wf_ofPairs _

/-! ### Failure atomicity -/

/-- **C06_atomic.**  A failing operation leaves the contents as they were and
notifies nobody. -/
theorem C06_atomic (kv : Callback K K) (vv : Callback V V) (d : Dict K V) (op : Op K V) (e : Exc)
    (h : TraitDict.step kv vv d op = .error e) :
    TraitDict.next kv vv d op = d ∧ ∀ ns, TraitDict.notifications kv vv ns d op = [] := by
  simp [TraitDict.next, TraitDict.notifications, h]

/-- The only failures are a validator's exception (passed through unchanged) and
the builtin dict's own `KeyError`. -/
theorem C06_failure_causes (kv : Callback K K) (vv : Callback V V) (d : Dict K V) (op : Op K V) (e : Exc)
    (h : TraitDict.step kv vv d op = .error e) :
    validateOp kv vv d op = .error e ∨
      (e = .keyError ∧ ∃ op', validateOp kv vv d op = .ok op' ∧ Dict.step d op' = .error .keyError) := by
  cases op with
  | setitem k v =>
    simp only [TraitDict.step] at h; simp only [validateOp]
    cases hk : kv 0 k with
    | error e' => simp [hk] at h; simp [h]
    | ok k' =>
      cases hv : vv 0 v with
      | error e' => simp [hk, hv] at h; simp [h]
      | ok v' => simp [hk, hv] at h
  | delitem k =>
    simp only [TraitDict.step] at h
    split at h <;> cases h
    rename_i hg
    exact .inr ⟨rfl, _, rfl, by simp [Dict.step, hg]⟩
  | update ps =>
    simp only [TraitDict.step, updateLike] at h; simp only [validateOp]
    cases hp : valPairs kv vv 0 ps with
    | error e' => simp [hp] at h; simp [h]
    | ok ps' => simp [hp] at h; split at h <;> cases h
  | ior ps =>
    simp only [TraitDict.step, updateLike] at h; simp only [validateOp]
    cases hp : valPairs kv vv 0 ps with
    | error e' => simp [hp] at h; simp [h]
    | ok ps' => simp [hp] at h; split at h <;> cases h
  | setdefault k v =>
    simp only [TraitDict.step] at h; simp only [validateOp, Dict.contains_eq]
    split at h
    · cases h
    · rename_i hg
      simp only [hg, Option.isSome_none, Bool.false_eq_true, if_false]
      cases hk : kv 0 k with
      | error e' => simp [hk] at h; simp [h]
      | ok k' =>
        cases hv : vv 0 v with
        | error e' => simp [hk, hv] at h; simp [h]
        | ok v' => simp [hk, hv] at h
  | pop k =>
    simp only [TraitDict.step] at h
    split at h <;> cases h
    rename_i hg
    exact .inr ⟨rfl, _, rfl, by simp [Dict.step, hg]⟩
  | popDefault k dflt =>
    simp only [TraitDict.step] at h
    split at h <;> cases h
  | popitem =>
    simp only [TraitDict.step] at h
    split at h <;> cases h
    rename_i hg
    exact .inr ⟨rfl, _, rfl, by simp [Dict.step, hg]⟩
  | clear =>
    simp only [TraitDict.step] at h
    split at h <;> cases h

/-! ### Events are faithful deltas -/

/-- **C06_reconstruct.**  From the notification `(removed, added, changed)` and
the post-state the pre-state is recovered exactly, with all side conditions:
added keys were absent and now hold the given values, changed keys were present
with the given old values and still are present, removed keys held the given
values and are gone; `reconstruct post t` is the pre-state as a mapping. -/
theorem C06_reconstruct (kv : Callback K K) (vv : Callback V V) (d : Dict K V) (hwf : WF d)
    (op : Op K V) (o : DOut K V) (t : Triple K V)
    (h : TraitDict.step kv vv d op = .ok o) (he : o.event = some t) :
    Reconstructs d o.items t ∧ Dict.Equiv (reconstruct o.items t) d := by
  have := ((step_event hwf h).2.1 t he).1
  exact ⟨this, reconstruct_equiv this⟩

/-- **C06_one_event.**  An operation that changes the contents (or even only
their order) notifies; by construction of `DOut` it notifies at most once, and
each notifier in the list is called exactly once (`C06_every_notifier`). -/
theorem C06_one_event (kv : Callback K K) (vv : Callback V V) (d : Dict K V) (hwf : WF d)
    (op : Op K V) (o : DOut K V) (h : TraitDict.step kv vv d op = .ok o) (hc : o.items ≠ d) :
    o.event.isSome = true := by
  cases he : o.event with
  | some t => rfl
  | none => exact absurd ((step_event hwf h).2.2.1 he) hc

/-- **C06_never_empty_event.**  No notification has all three parts empty. -/
theorem C06_never_empty_event (kv : Callback K K) (vv : Callback V V) (d : Dict K V) (hwf : WF d)
    (op : Op K V) (o : DOut K V) (t : Triple K V)
    (h : TraitDict.step kv vv d op = .ok o) (he : o.event = some t) :
    ¬ (t.removed = [] ∧ t.added = [] ∧ t.changed = []) :=
  ((step_event hwf h).2.1 t he).2.2

/-- **C06_silent.**  The silent operations are exactly: `update`/`|=` with no
pairs, `clear` on an empty dict, `pop(k, default)` on a missing key and
`setdefault` on a present (raw) key; and a silent operation changes nothing. -/
theorem C06_silent (kv : Callback K K) (vv : Callback V V) (d : Dict K V) (hwf : WF d)
    (op : Op K V) (o : DOut K V) (h : TraitDict.step kv vv d op = .ok o) :
    (o.event = none ↔ SilentCase d op) ∧ (o.event = none → o.items = d) :=
  ⟨(step_event hwf h).2.2.2, (step_event hwf h).2.2.1⟩

/-- **C06_observer_view.**  `dict_event_factory` succeeds on every notification
the dict emits, leaves the three shared argument dicts untouched, and the
`DictChangeEvent` it builds is the merged view: `removed` = removed items and old
values of changed keys, `added` = added items and current values of changed
keys, from which the pre-state is again recovered exactly. -/
theorem C06_observer_view (kv : Callback K K) (vv : Callback V V) (d : Dict K V) (hwf : WF d)
    (op : Op K V) (o : DOut K V) (t : Triple K V)
    (h : TraitDict.step kv vv d op = .ok o) (he : o.event = some t) :
    ∃ ev, dictEventFactory o.items t = .ok (ev, t) ∧ ObserverView d o.items ev ∧
      (∀ k, get? ev.removed k =
        match get? t.changed k with | some x => some x | none => get? t.removed k) := by
  obtain ⟨hr, hw, _⟩ := (step_event hwf h).2.1 t he
  obtain ⟨ev, hev, hv⟩ := observer_view hr hw
  refine ⟨ev, hev, hv, ?_⟩
  intro k
  simp only [dictEventFactory] at hev
  split at hev <;> cases hev
  simp only [Dict.get?_update, lastVal_eq_get? hw]
  cases get? t.changed k <;> rfl

/-- **C06_every_notifier.**  Every notifier in the list — plain ones and
observer-style `dict_event_factory` consumers in any order and number — is
called exactly once and is handed arguments satisfying the reconstruction law
(the merged-view law for observers): no notifier sees dicts altered by an
earlier one.  (This is the theorem finding F7 falsified before commit 98152b1.) -/
theorem C06_every_notifier (kv : Callback K K) (vv : Callback V V) (d : Dict K V) (hwf : WF d)
    (op : Op K V) (o : DOut K V) (t : Triple K V) (ns : List NotifierKind)
    (h : TraitDict.step kv vv d op = .ok o) (he : o.event = some t) :
    (notifyAll o.items ns t).length = ns.length ∧
    ∀ s ∈ notifyAll o.items ns t, s.Faithful d o.items := by
  obtain ⟨hr, hw, _⟩ := (step_event hwf h).2.1 t he
  exact notifyAll_faithful hr hw ns

/-- **C06_factory_source.**  The statement sequence of `dict_event_factory` read
from the working tree (`translate/dictevent.py`) is the program the model
interprets: both `removed` and `added` are rebound to copies before they are
written. -/
theorem C06_factory_source :
    Generated.dictEventFactoryBody = factoryBody.map FStmt.name ∧
    Generated.dictEventFactoryParams = ["trait_dict", "removed", "added", "changed"] := by decide

/-- **C06_every_notifier** for the factory *as a program with explicit aliasing*
(`notifyAllProg factoryBody`: a write through a name that still refers to the
argument object is seen by the notifiers called later). -/
theorem C06_every_notifier_prog (kv : Callback K K) (vv : Callback V V) (d : Dict K V) (hwf : WF d)
    (op : Op K V) (o : DOut K V) (t : Triple K V) (ns : List NotifierKind)
    (h : TraitDict.step kv vv d op = .ok o) (he : o.event = some t) :
    (notifyAllProg factoryBody o.items ns t).length = ns.length ∧
    ∀ s ∈ notifyAllProg factoryBody o.items ns t, s.Faithful d o.items := by
  rw [notifyAllProg_body]
  exact C06_every_notifier kv vv d hwf op o t ns h he

/-- **Negation witness (F7, fixed by 98152b1).**  With the body as it was before
the fix (`added` written without `added = added.copy()`), `d['a'] = 2` on
`{'a': 1}` observed by `[observer, raw]` hands the raw notifier
`added = {'a': 2}` together with `changed = {'a': 1}`, which is not a faithful
delta: the copy is what makes `C06_every_notifier` true. -/
theorem C06_every_notifier_needs_added_copy :
    notifyAllProg factoryBodyPreFix [(KAtom.str 1, KAtom.int 2)] [.observer, .raw]
        ⟨[], [], [(KAtom.str 1, KAtom.int 1)]⟩ =
      [.event ⟨[(.str 1, .int 1)], [(.str 1, .int 2)]⟩,
       .raw ⟨[], [(.str 1, .int 2)], [(.str 1, .int 1)]⟩] ∧
    ¬ (Seen.raw ⟨[], [(KAtom.str 1, KAtom.int 2)], [(KAtom.str 1, KAtom.int 1)]⟩ : Seen KAtom KAtom).Faithful
        [(KAtom.str 1, KAtom.int 1)] [(KAtom.str 1, KAtom.int 2)] := by
  refine ⟨by decide, ?_⟩
  intro h
  have := (h.added_new (KAtom.str 1) (KAtom.int 2) (by decide)).1
  exact absurd this (by decide)

/-- Non-vacuity of the event theorems: an overwrite observed by
`[observer, raw, observer]`; the raw notifier placed after an observer still
sees `added = {}`. -/
example :
    WF [(KAtom.str 1, KAtom.str 2), (KAtom.str 3, KAtom.str 4)] ∧
    TraitDict.notifications tostr tostr [.observer, .raw, .observer]
        [(KAtom.str 1, KAtom.str 2), (KAtom.str 3, KAtom.str 4)] (.setitem (.int 1) (.int 9)) =
      [.event ⟨[(.str 1, .str 2)], [(.str 1, .str 9)]⟩,
       .raw ⟨[], [], [(.str 1, .str 2)]⟩,
       .event ⟨[(.str 1, .str 2)], [(.str 1, .str 9)]⟩] ∧
    reconstruct [(KAtom.str 1, KAtom.str 9), (KAtom.str 3, KAtom.str 4)] ⟨[], [], [(KAtom.str 1, KAtom.str 2)]⟩ =
      [(KAtom.str 1, KAtom.str 2), (KAtom.str 3, KAtom.str 4)] := by decide

/-! ### Invariants -/

/-- The no-duplicate-keys representation invariant is preserved. -/
theorem C06_wf_preserved (kv : Callback K K) (vv : Callback V V) (d : Dict K V) (hwf : WF d)
    (op : Op K V) : WF (TraitDict.next kv vv d op) := by
  unfold TraitDict.next
  split
  · exact hwf
  · rename_i o h; exact (step_event hwf h).1

/-- **keys_values_valid_preserved** (cited by C04).  If every key and value of
the pre-state is an output of its validator, so is every key and value of the
post-state. -/
theorem keys_values_valid_preserved (kv : Callback K K) (vv : Callback V V) (d : Dict K V) (op : Op K V)
    (hv : ∀ p ∈ d, TraitDict.ValidOut kv p.1 ∧ TraitDict.ValidOut vv p.2) :
    ∀ p ∈ TraitDict.next kv vv d op, TraitDict.ValidOut kv p.1 ∧ TraitDict.ValidOut vv p.2 := by
  unfold TraitDict.next
  split
  · exact hv
  · rename_i o h; exact step_valid_preserved kv vv d op o h hv

/-- A freshly constructed `TraitDict` satisfies the validity invariant. -/
theorem keys_values_valid_init (kv : Callback K K) (vv : Callback V V) (ps : List (K × V)) (d : Dict K V)
    (h : TraitDict.init kv vv ps = .ok d) :
    ∀ p ∈ d, TraitDict.ValidOut kv p.1 ∧ TraitDict.ValidOut vv p.2 := by
  unfold TraitDict.init at h
  split at h <;> cases h
  rename_i ps' hps
  exact update_valid kv vv ps' [] (by simp) (valPairs_valid hps)

/-! ### All histories -/

/-- **C06_step_spec.**  Every clause above, for one step from a well-formed state. -/
theorem C06_step_spec (kv : Callback K K) (vv : Callback V V) (d : Dict K V) (hwf : WF d) (op : Op K V) :
    StepSpec kv vv d op where
  atomic := fun e h => C06_atomic kv vv d op e h
  wf := fun _ h => (step_event hwf h).1
  reconstruct := fun o t h he => C06_reconstruct kv vv d hwf op o t h he
  one_event := fun o h hc => C06_one_event kv vv d hwf op o h hc
  never_empty := fun o t h he => C06_never_empty_event kv vv d hwf op o t h he
  every_notifier := fun o t ns h he => C06_every_notifier kv vv d hwf op o t ns h he

/-- **C06_history.**  Along every finite history from a well-formed dict (in
particular from any freshly constructed `TraitDict`), every step satisfies all
event clauses; failed steps leave the state to the next step unchanged. -/
theorem C06_history (kv : Callback K K) (vv : Callback V V) (ops : List (Op K V)) (d : Dict K V)
    (hwf : WF d) : AlongRun kv vv (fun pre op => WF pre ∧ StepSpec kv vv pre op) d ops := by
  induction ops generalizing d with
  | nil => trivial
  | cons op ops ih =>
    exact ⟨⟨hwf, C06_step_spec kv vv d hwf op⟩, ih _ (C06_wf_preserved kv vv d hwf op)⟩

/-- **C06_history_refines.**  After any sequence of operations the `TraitDict`
history (contents with insertion order, return values, exception classes, step
by step) equals the history of a builtin dict driven by the validated
operations, provided the `setdefault` hypothesis (F13) holds at each step. -/
theorem C06_history_refines (kv : Callback K K) (vv : Callback V V) (ops : List (Op K V)) (d : Dict K V)
    (hyp : AlongRun kv vv (SetdefaultHyp kv) d ops) :
    (TraitDict.run kv vv d ops).map (·.map DOut.proj) = refRun kv vv d ops := by
  induction ops generalizing d with
  | nil => rfl
  | cons op ops ih =>
    have hr : Refines kv vv d op := step_refines kv vv d op hyp.1
    have hyp2 := hyp.2
    unfold Refines at hr
    simp only [TraitDict.run, refRun, List.map_cons, ← hr]
    unfold TraitDict.next at hyp2 ⊢
    cases hs : TraitDict.step kv vv d op with
    | error e => simp only [hs] at hyp2; exact congrArg (List.cons _) (ih _ hyp2)
    | ok o => simp only [hs] at hyp2; exact congrArg (List.cons _) (ih _ hyp2)

/-- Non-vacuity of `C06_history_refines`: a history with a coercing key
validator, duplicate keys and two `setdefault`s whose hypothesis holds at each
step, and the history it yields. -/
example :
    AlongRun tostr tostr (SetdefaultHyp tostr) [(KAtom.str 1, KAtom.str 2)]
      [.setdefault (.str 1) (.int 0), .update [(.int 3, .int 4), (.str 3, .int 5)],
       .setdefault (.int 7) (.int 8), .popitem, .delitem (.int 3)] ∧
    (TraitDict.run tostr tostr [(KAtom.str 1, KAtom.str 2)]
      [.setdefault (.str 1) (.int 0), .update [(.int 3, .int 4), (.str 3, .int 5)],
       .setdefault (.int 7) (.int 8), .popitem, .delitem (.int 3)]).map (·.map DOut.proj) =
      [.ok ([(.str 1, .str 2)], .val (.str 2)),
       .ok ([(.str 1, .str 2), (.str 3, .str 5)], .none),
       .ok ([(.str 1, .str 2), (.str 3, .str 5), (.str 7, .str 8)], .val (.str 8)),
       .ok ([(.str 1, .str 2), (.str 3, .str 5)], .pair (.str 7) (.str 8)),
       .error .keyError] := by
  refine ⟨⟨?_, trivial, ?_, trivial, trivial, trivial⟩, by decide⟩
  · intro k' hk; cases hk; decide
  · intro k' hk; cases hk; decide

/-- Histories without `setdefault` need no hypothesis at all. -/
theorem C06_history_refines_unconditional (kv : Callback K K) (vv : Callback V V) (ops : List (Op K V))
    (d : Dict K V) (h : ∀ op ∈ ops, ∀ k v, op ≠ .setdefault k v) :
    (TraitDict.run kv vv d ops).map (·.map DOut.proj) = refRun kv vv d ops := by
  apply C06_history_refines
  induction ops generalizing d with
  | nil => trivial
  | cons op ops ih =>
    refine ⟨?_, ih _ (fun op' h' => h op' (List.mem_cons_of_mem _ h'))⟩
    have := h op (by simp)
    cases op <;> simp_all [SetdefaultHyp]

/-! ### Tie to the source by translation: the model is the interpreted source -/

/-- **C06_step_is_source.**  For every key/value validator, every dict and every
operation with its arguments, the hand-written `TraitDict.step` is exactly what
the interpreter of `Model/PyLMap.lean` computes on the method body translated
from the working tree (`Generated/MapSetProg.lean`, `translate/pylmap.py`):
same contents, same return value, same notifications, same exception — and on
an exception the same (unchanged) contents and no notification. -/
theorem C06_step_is_source (kv : Callback K K) (vv : Callback V V) (d : Dict K V) (op : Op K V) :
    Model.PyLM.D.runTraitDictOp Generated.traitDictProg kv vv d op
      = Model.PyLM.D.summaryOfStep d (TraitDict.step kv vv d op) :=
  Lemmas.PyLMD.td_step_is_source kv vv d op

/-- A mapping argument of `update` / `|=` (the `other.items()` branch) is
interpreted like the iterable of its items, which is what `Op.update` carries. -/
theorem C06_source_mapping_argument (kv : Callback K K) (vv : Callback V V) (d m : Dict K V) :
    Model.PyLM.D.runTraitDictM Generated.traitDictProg kv vv "update" [.dict m] d
        = Model.PyLM.D.runTraitDictOp Generated.traitDictProg kv vv d (.update m) ∧
    Model.PyLM.D.runTraitDictM Generated.traitDictProg kv vv "__ior__" [.dict m] d
        = Model.PyLM.D.runTraitDictOp Generated.traitDictProg kv vv d (.ior m) :=
  ⟨Lemmas.PyLMD.td_update_mapping kv vv d m, Lemmas.PyLMD.td_ior_mapping kv vv d m⟩

/-- **C06_source_atomic.**  Atomicity read off the source: whenever the
interpreted source raises, the dict is unchanged and nobody has been notified. -/
theorem C06_source_atomic (kv : Callback K K) (vv : Callback V V) (d : Dict K V) (op : Op K V) (e : Exc)
    (items : Dict K V) (evs : List (Triple K V))
    (h : Model.PyLM.D.runTraitDictOp Generated.traitDictProg kv vv d op = .raised e items evs) :
    items = d ∧ evs = [] := by
  rw [C06_step_is_source] at h
  cases hs : TraitDict.step kv vv d op with
  | ok o => simp [Model.PyLM.D.summaryOfStep, hs] at h
  | error e' =>
    simp only [Model.PyLM.D.summaryOfStep, hs, Model.PyLM.D.Summary.raised.injEq] at h
    exact ⟨h.2.1.symm, h.2.2.symm⟩

/-- **C06_source_events.**  The source notifies at most once per call, and
exactly with the model's `(removed, added, changed)`; contents and return value
are the model's. -/
theorem C06_source_events (kv : Callback K K) (vv : Callback V V) (d : Dict K V) (op : Op K V)
    (items : Dict K V) (r : Ret K V) (evs : List (Triple K V))
    (h : Model.PyLM.D.runTraitDictOp Generated.traitDictProg kv vv d op = .done items r evs) :
    ∃ o, TraitDict.step kv vv d op = .ok o ∧ items = o.items ∧ r = o.ret ∧ evs = o.event.toList := by
  rw [C06_step_is_source] at h
  cases hs : TraitDict.step kv vv d op with
  | error e' => simp [Model.PyLM.D.summaryOfStep, hs] at h
  | ok o =>
    simp only [Model.PyLM.D.summaryOfStep, hs, Model.PyLM.D.Summary.done.injEq] at h
    exact ⟨o, rfl, h.1.symm, h.2.1.symm, h.2.2.symm⟩

/-- `TraitDictObject` overrides no mutator (so the `Dict` trait's object runs the
`TraitDict` methods above), and `notify` takes `(removed, added, changed)`. -/
theorem C06_source_object_overrides_none :
    Generated.traitDictObjectProg = [] ∧
    Generated.traitDictNotifyParams = ["removed", "added", "changed"] := by decide

/-- **C06_init_source.**  The constructors of `TraitDict` / `TraitDictObject` in
the working tree are, statement for statement, the ones the model assumes: every
"was it given?" / "is there an owner?" decision is an `is None` test (a truth
test instead would ignore falsy validator objects, replace an empty notifier list,
or disconnect a dict from an alive but falsy owner). -/
theorem C06_init_source :
    [Generated.traitDictNewSource, Generated.traitDictInitSource, Generated.traitDictObjectInitSource]
      = dictConstructorsAssumed := by decide

/-- Non-vacuity: the interpreted source on the F13 input and on an `update` with
a duplicate key after coercion. -/
example :
    Model.PyLM.D.runTraitDictOp Generated.traitDictProg tostr tostr [(KAtom.str 1, KAtom.str 2)]
        (.setdefault (.int 1) (.int 4)) =
      .done [(.str 1, .str 4)] (.val (.str 4)) [⟨[], [], [(.str 1, .str 2)]⟩] ∧
    Model.PyLM.D.runTraitDictOp Generated.traitDictProg tostr tostr [(KAtom.str 1, KAtom.str 2)]
        (.update [(.int 5, .int 6), (.int 1, .int 7), (.str 5, .int 8)]) =
      .done [(.str 1, .str 7), (.str 5, .str 8)] .none [⟨[], [(.str 5, .str 8)], [(.str 1, .str 2)]⟩] := by
  rw [C06_step_is_source, C06_step_is_source]; exact ⟨rfl, rfl⟩

/-! ### Tie to the source: the validators and the notifier of a `Dict` trait's value

`TraitDictObject._key_validator`, `_value_validator` and `notifier` decide when a
key / value goes through the inner trait and when the `<name>_items` event
reaches the owner.  `translate/pylobj.py` translates their source text
(`Generated/ObjProg.lean`); the hand-written gates are `Model/ContainerObject.lean`. -/

open TraitsVerif.Model.PyLO TraitsVerif.Model.Obj in
/-- **C06_validators_are_source.**  For every state of `self` (trait missing /
`None` / a CTrait whose inner `validate` is or is not `None`; `object` missing,
dead or alive; `name_items`), every inner trait, call ordinal and argument, the
modelled key and value validators are what the interpreter computes on the
translated `_key_validator` / `_value_validator`. -/
theorem C06_validators_are_source {β : Type} (σ : OSelf) (inner : Bool → Callback β β) :
    runValidator Generated.Obj.traitDictObjectKeyValidator .key σ inner = dictValidator .key σ inner ∧
    runValidator Generated.Obj.traitDictObjectValueValidator .value σ inner = dictValidator .value σ inner :=
  ⟨by funext n x; exact Lemmas.PyLObj.dict_key_validator_is_source σ inner n x,
   by funext n x; exact Lemmas.PyLObj.dict_value_validator_is_source σ inner n x⟩

open TraitsVerif.Model.PyLO TraitsVerif.Model.Obj in
/-- **C06_notifier_gate_is_source.**  The modelled delivery gate of
`TraitDictObject.notifier` is the interpretation of its translated source. -/
theorem C06_notifier_gate_is_source (σ : OSelf) :
    runNotifier Generated.Obj.traitDictObjectNotifier σ = dictNotifier σ :=
  Lemmas.PyLObj.dict_notifier_is_source σ

open TraitsVerif.Model.PyLO TraitsVerif.Model.Obj in
/-- **C06_trait_value_validates.**  What the gates mean for a `Dict(K, V)` trait:
the value held by a live owner validates every key and value with the inner
traits — *whether or not the trait has an items event* (`Dict(..., items=False)`:
`name_items is None`; the seeded change C04-m11 took that for "detached") and
whether or not it is still the current value; only a value without trait or
without live owner (deep copy, unpickled, owner collected) passes items through. -/
theorem C06_trait_value_validates {β : Type} (t : CT) (hasItems : Bool) (inner : Bool → Callback β β) (w : Which)
    (hv : t.validateNone w = false) :
    dictValidator w (OSelf.live t hasItems) inner = inner true ∧
    dictValidator w (OSelf.live t hasItems).detached inner = inner true ∧
    dictValidator w (OSelf.live t hasItems).orphaned inner = (fun _ x => .ok x) ∧
    dictValidator w (OSelf.live t hasItems).afterDeepcopy inner = (fun _ x => .ok x) ∧
    dictValidator w (OSelf.live t hasItems).afterSetstate inner = (fun _ x => .ok x) := by
  refine ⟨?_, ?_, ?_, ?_, ?_⟩ <;> funext n x <;>
    simp [dictValidator, OSelf.live, OSelf.detached, OSelf.orphaned, OSelf.afterDeepcopy, OSelf.afterSetstate,
      traitOrNone, ownerOrNone, hv]

open TraitsVerif.Model.PyLO TraitsVerif.Model.Obj in
/-- **C06_items_event_gate.**  The items event is delivered — once, built as
`TraitDictEvent(removed=removed, added=added, changed=changed)` from the
notifier's own arguments in that order — exactly when the trait has an items
event, the owner is alive, the dict has a trait and is still the owner's current
value; otherwise nothing is delivered or (trait gone while everything else is
there) `AttributeError` is raised. -/
theorem C06_items_event_gate (σ : OSelf) (ds : List Delivery) :
    dictNotifier σ = .ok ds →
      (ds = [⟨"TraitDictEvent", [("removed", 1), ("added", 2), ("changed", 3)]⟩] ∧
        σ.nameItems = true ∧ σ.object = some true ∧ σ.current = true ∧ ∃ t, σ.trait = some (some t)) ∨
      (ds = [] ∧ (σ.nameItems = false ∨ σ.object = some false ∨ σ.current = false)) := by
  obtain ⟨tr, ob, ni, cu⟩ := σ
  rcases tr with _ | _ | t <;> rcases ob with _ | _ | _ <;> cases ni <;> cases cu <;>
    simp [dictNotifier, deliver, dictDelivery] <;> intro h <;> simp [← h]

open TraitsVerif.Model.PyLO TraitsVerif.Model.Obj in
/-- Non-vacuity: the interpreted source on a live `Dict(Str, Int, items=False)`
value (validates, delivers nothing) and on a live value with items event. -/
example :
    runValidator Generated.Obj.traitDictObjectKeyValidator .key (OSelf.live {} false)
        (fun _ _ (x : Int) => if x < 0 then .error .traitError else .ok (x + 1)) 0 (-3) = .error .traitError ∧
    runValidator Generated.Obj.traitDictObjectValueValidator .value (OSelf.live {} false)
        (fun _ _ (x : Int) => if x < 0 then .error .traitError else .ok (x + 1)) 0 3 = .ok 4 ∧
    runNotifier Generated.Obj.traitDictObjectNotifier (OSelf.live {} false) = .ok [] ∧
    runNotifier Generated.Obj.traitDictObjectNotifier (OSelf.live {} true) = .ok [dictDelivery] ∧
    runNotifier Generated.Obj.traitDictObjectNotifier (OSelf.live {} true).detached = .ok [] := by
  refine ⟨?_, ?_, ?_, ?_, ?_⟩ <;> first | rfl | decide

/-- **C06_copy_source.**  The copy / pickle methods of `TraitDict` and
`TraitDictObject` are, statement for statement, the assumed ones (deep copy
re-validates deep copies of the items with deep copies of the validators and
no notifier; state without `notifiers`, and for the trait value without
`object` / `trait`). -/
theorem C06_copy_source :
    Generated.CtorCopy.traitDictCtorCopy = Model.CtorCopyAssumed.traitDictCtorCopy ∧
    Generated.CtorCopy.traitDictObjectCtorCopy = Model.CtorCopyAssumed.traitDictObjectCtorCopy := by
  first | rfl | exact ⟨rfl, rfl⟩

/-- **C06_init_is_source.**  `TraitDict.__init__` and `TraitDictObject.__init__`
as interpreted programs (`translate/ctorprogdict.py`, `Model/PyLCtorDict.lean`;
the latter run with `super().__init__` bound to the translated former): for
every argument (`None`, a mapping — anything with `keys`, read through
`.items()` — or an iterable of pairs), validator and notifier arguments / trait
and owner, running the translated body on the object `__new__` left gives the
modelled constructor, whose contents are `TraitDict.init` of the chosen
validators: every pair validated key first, then value, ordinal threaded,
nothing stored if one fails, later duplicate keys win — for the trait value with
its own `_key_validator` / `_value_validator`, i.e. what whole-value assignment
of a `Dict` trait establishes (`C06_init`, `keys_values_valid_init`); its
notifier list is `[self.notifier]`, the owner is held by weak reference iff not
`None`, `name_items` is set iff the trait has an items event. -/
theorem C06_init_is_source (C : Model.PyLCD.Ctx K V) (a : Model.PyLCD.Arg K V) (kv vv : Option Model.PyLC.VSrc)
    (ns : Option Model.PyLC.NSrc) (t : Option Bool) (owner : Bool) :
    Model.PyLCD.runDictInit Generated.CtorD.traitDictInit C a kv vv ns = Model.PyLCD.dictInit C a kv vv ns ∧
    (Model.PyLCD.dictInit C a (some .arg) (some .arg) ns).map (·.items) = TraitDict.init C.givenK C.givenV a.items ∧
    Model.PyLCD.runDictObjectInit Generated.CtorD.traitDictObjectInit Generated.CtorD.traitDictInit C t owner a
      = Model.PyLCD.dictObjectInit C t owner a ∧
    (Model.PyLCD.dictObjectInit C t owner a).map (·.items) = TraitDict.init C.ownK C.ownV a.items ∧
    (∀ o, Model.PyLCD.dictObjectInit C t owner a = .ok o →
      o.keyValidator = .own ∧ o.valueValidator = .own ∧ o.notifiers = .ownAlias ∧ o.object = some owner ∧
      o.trait = some t ∧ o.nameItems = some (t == some true)) := by
  refine ⟨Lemmas.PyLCtorDict.dict_init_is_source C a kv vv ns, ?_,
    Lemmas.PyLCtorDict.dict_object_init_is_source C t owner a, ?_, ?_⟩
  · simp only [Model.PyLCD.dictInit, TraitDict.init, Option.getD, Model.PyLCD.Ctx.kOf, Model.PyLCD.Ctx.vOf]
    cases valPairs C.givenK C.givenV 0 a.items <;> rfl
  · simp only [Model.PyLCD.dictObjectInit, TraitDict.init]
    cases valPairs C.ownK C.ownV 0 a.items <;> rfl
  · intro o ho
    simp only [Model.PyLCD.dictObjectInit] at ho
    cases hv : valPairs C.ownK C.ownV 0 a.items with
    | error e => simp [hv] at ho
    | ok ps => simp only [hv, Except.ok.injEq] at ho; subst ho; simp

/-! ### Tie to the source: the mutators that exist are the mutators modelled -/

/-- Every method of the running interpreter's builtin `dict` is either a
non-mutator or a mutator that `TraitDict` overrides and `TraitDict.step` models
(tables regenerated from the working tree by `translate/mutators.py`). -/
theorem C06_mutators_covered :
    ∀ m ∈ Generated.dictBuiltinMethods,
      m ∈ dictNonMutators ∨ (m ∈ dictModelledMutators ∧ m ∈ Generated.traitDictMethods) := by decide

end TraitsVerif.Props.C06
